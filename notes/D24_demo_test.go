// Demonstration of D24 (external test, package godi_test, repository root): fails on 28e902b (CreateScope overlapping provider.Close()
// returns "service not found ... singleton not initialized at build time"), passes after the repair.
package godi_test

import (
	"context"
	"errors"
	"testing"
	"time"

	"github.com/junioryono/godi/v4"
)

type d24Config struct{}

// D24: a CreateScope that overlaps provider.Close() must complete or report the disposed error (C13).
func TestD24CreateScopeOverlappingClose(t *testing.T) {
	entered := make(chan struct{})
	release := make(chan struct{})
	c := godi.NewCollection()
	if err := c.AddSingleton(func() *d24Config { return &d24Config{} }); err != nil {
		t.Fatal(err)
	}
	// two scope initializers (scoped, no result): the first blocks, the second needs the singleton
	first := true
	if err := c.AddScoped(func(ctx context.Context) {
		if first {
			first = false
			return // the root scope's own pass at Build
		}
		close(entered)
		<-release
	}); err != nil {
		t.Fatal(err)
	}
	if err := c.AddScoped(func(cfg *d24Config, s godi.Scope) {}); err != nil {
		t.Fatal(err)
	}
	p, err := c.Build()
	if err != nil {
		t.Fatal(err)
	}
	type res struct {
		s   godi.Scope
		err error
	}
	done := make(chan res, 1)
	go func() {
		s, err := p.CreateScope(context.Background())
		done <- res{s, err}
	}()
	<-entered
	if err := p.Close(); err != nil {
		t.Fatal(err)
	}
	close(release)
	select {
	case r := <-done:
		if r.err == nil {
			_ = r.s.Close()
			return // completed normally
		}
		if !errors.Is(r.err, godi.ErrProviderDisposed) && !errors.Is(r.err, godi.ErrScopeDisposed) {
			t.Fatalf("CreateScope overlapping provider.Close reported neither success nor a disposed error: %v", r.err)
		}
	case <-time.After(5 * time.Second):
		t.Fatal("CreateScope hangs")
	}
}
