# Draft mutant corpus (search/replace edits against the tree *after* the fix series).
# Each: id, property, expected rule, file, old, new.  Used during design to measure
# which regressions compile and survive the unedited test suite.
M = []
def m(id, prop, rule, file, old, new): M.append(dict(id=id, prop=prop, rule=rule, file=file, old=old, new=new))

m("M01","C01","R01.3","provider.go","""		if _, exists := p.getSingleton(key); exists {
			continue
		}
""","""		_ = key
""")
m("M02","C01","R01.2","scope.go","""		// Singleton should have been created at build time
		return nil, &ResolutionError{
			ServiceType: key.Type,
			ServiceKey:  key.Key,
			Cause:       ErrSingletonNotInitialized,
		}
""","""		return s.createInstance(descriptor)
""")
m("M03","C02","R02.2","scope.go","""		if instance, ok := s.getInstance(key); ok {
			return instance, nil
		}

		// Create and cache scoped instance""","""		// Create and cache scoped instance""")
m("M04","C02","R02.1","scope.go","""		if s.instances != nil {
			s.instances[key] = instance
		}
""","")
m("M05","C02","R02.4","scope.go","""	ctx = context.WithValue(ctx, scopeContextKey{}, s)
	s.context = ctx
""","""	if parent != nil {
		s.instances = parent.instances
	}

	ctx = context.WithValue(ctx, scopeContextKey{}, s)
	s.context = ctx
""")
m("M06","C03","R03.2","scope.go","""		s.instancesMu.Unlock()
		fallthrough
	case Transient:
""","""		s.instancesMu.Unlock()
		fallthrough
	case Transient:
		if descriptor.Lifetime == Transient {
			s.instancesMu.Lock()
			if s.instances != nil {
				s.instances[key] = instance
			}
			s.instancesMu.Unlock()
		}
""")
m("M06b","C03","R03.1","scope.go","""	case Transient:
		// Always create new instance
		return s.createInstance(descriptor)
""","""	case Transient:
		if instance, ok := s.getInstance(key); ok {
			return instance, nil
		}
		return s.createInstance(descriptor)
""")
m("M07","C04","R04.3","internal/reflection/builders.go","""		// Skip ignored fields
		if tagInfo.Ignore {
			continue
		}

		// Resolve dependency for this field""","""		// Resolve dependency for this field""")
m("M08","C04","R04.2","scope.go","""	for _, descriptor := range descriptors {
		key := instanceKey{Type: descriptor.Type, Key: descriptor.Key, Group: descriptor.Group}""","""	for i := len(descriptors) - 1; i >= 0; i-- {
		descriptor := descriptors[i]
		key := instanceKey{Type: descriptor.Type, Key: descriptor.Key, Group: descriptor.Group}""")
m("M09","C04","R04.5","internal/reflection/builders.go","""			if !tagInfo.Optional {
				return reflect.Value{}, fmt.Errorf("failed to resolve field %s: %w", field.Name, err)
			}
""","")
m("M10","C05","R-KEYLIT","internal/graph/graph.go","""			depKey := NodeKey{
				Type:  dep.Type,
				Key:   dep.Key,
				Group: dep.Group,
			}
			dependencies = append(dependencies, depKey)

			// Ensure dependency node exists (minimal allocation)""","""			depKey := NodeKey{
				Type:  dep.Type,
				Group: dep.Group,
			}
			dependencies = append(dependencies, depKey)

			// Ensure dependency node exists (minimal allocation)""")
m("M11","C05","R05.4","internal/graph/graph.go","""	// (both may have been deferred from AddProviderDeferred)
	g.linkGroups()
""","""	// (both may have been deferred from AddProviderDeferred)
""")
m("M12","C06","R06.2","provider.go","""	for _, node := range sorted {
		// Check context before each singleton creation""","""	for i := len(sorted) - 1; i >= 0; i-- {
		node := sorted[i]
		// Check context before each singleton creation""")
m("M13","C06","R06.3","internal/graph/graph.go","""	// Update degrees
	g.updateDegrees()

	// Mark caches as dirty
	g.sortedNodesDirty = true
	g.cycleCacheDirty = true
}""","""	// Update degrees
	g.updateDegrees()

	// Mark caches as dirty
	g.cycleCacheDirty = true
}""")
m("M14","C07","R07.2","collection.go","""		if descriptor.Lifetime == Scoped {
			return nil
		}
""","""		if descriptor.Lifetime == Scoped || descriptor.Lifetime == Transient {
			return nil
		}
""")
m("M15","C07","R07.3","collection.go","""	for _, descriptors := range c.groups {
		for _, descriptor := range descriptors {
			if err := checkDescriptor(descriptor); err != nil {
				return err
			}
		}
	}

	return nil
}""","""	return nil
}""")
m("M16","C07","R07.6","collection.go","""				Type:             interfaceType,
				Key:              descriptor.Key,
				Lifetime:         descriptor.Lifetime,
""","""				Type:             interfaceType,
				Key:              descriptor.Key,
""")
m("M17","C08","R08.1","collection.go","""	if err := sc.validateDependencies(); err != nil {
		return nil, &BuildError{
			Phase:   "validation",
			Details: "dependency validation failed",
			Cause:   err,
		}
	}
""","")
m("M18","C08","R08.1","collection.go","""			if dep == nil || dep.Optional || dep.Group != "" {""","""			if dep == nil || dep.Group != "" {""")
m("M19","C09","R09.1","scope.go","""	s.instancesMu.RLock()
	instance, ok := s.instances[key]
	s.instancesMu.RUnlock()
""","""	instance, ok := s.instances[key]
""")
m("M20","C09","R09.1","scope.go","""		s.parentScope.childrenMu.Lock()
		delete(s.parentScope.children, s)
		s.parentScope.childrenMu.Unlock()
""","""		delete(s.parentScope.children, s)
""")
m("M21","C10","R10.1","scope.go","""		s.instancesMu.Unlock()
		fallthrough
	case Transient:""","""		s.instancesMu.Unlock()
	case Transient:""")
m("M22","C10","R10.2","scope.go","""	for i := len(disposables) - 1; i >= 0; i-- {
		if err := disposables[i].Close(); err != nil {
			errs = append(errs, fmt.Errorf("failed to dispose scoped instance: %w", err))""","""	for i := len(disposables) - 1; i > 0; i-- {
		if err := disposables[i].Close(); err != nil {
			errs = append(errs, fmt.Errorf("failed to dispose scoped instance: %w", err))""")
m("M23","C10","R10.5a","collection.go","""	if err := p.createAllSingletonsWithContext(ctx); err != nil {
		// Clean up partially created provider
		closeErr := p.Close()""","""	if err := p.createAllSingletonsWithContext(ctx); err != nil {
		// Clean up partially created provider
		var closeErr error""")
m("M24","C11","R11.1","scope.go","""	for i := len(disposables) - 1; i >= 0; i-- {
		if err := disposables[i].Close(); err != nil {
			errs = append(errs, fmt.Errorf("failed to dispose scoped instance: %w", err))""","""	for i := 0; i < len(disposables); i++ {
		if err := disposables[i].Close(); err != nil {
			errs = append(errs, fmt.Errorf("failed to dispose scoped instance: %w", err))""")
m("M25","C11","R11.1","provider.go","""	for i := len(disposables) - 1; i >= 0; i-- {
		if disposables[i] != nil {""","""	for i := 0; i < len(disposables); i++ {
		if disposables[i] != nil {""")
m("M26","C11","R11.4","provider.go","""	// Close root scope
	if p.rootScope != nil {
		if err := p.rootScope.Close(); err != nil {
			errors = append(errors, fmt.Errorf("root scope: %w", err))
		}
	}

	// Dispose all singleton disposables
	p.disposablesMu.Lock()
	disposables := p.disposables
	p.disposables = nil
	p.disposablesMu.Unlock()

	// Dispose in reverse order of creation
	for i := len(disposables) - 1; i >= 0; i-- {
		if disposables[i] != nil {
			if err := disposables[i].Close(); err != nil {
				errors = append(errors, fmt.Errorf("singleton disposable %d: %w", i, err))
			}
		}
	}
""","""	// Dispose all singleton disposables
	p.disposablesMu.Lock()
	disposables := p.disposables
	p.disposables = nil
	p.disposablesMu.Unlock()

	// Dispose in reverse order of creation
	for i := len(disposables) - 1; i >= 0; i-- {
		if disposables[i] != nil {
			if err := disposables[i].Close(); err != nil {
				errors = append(errors, fmt.Errorf("singleton disposable %d: %w", i, err))
			}
		}
	}

	// Close root scope
	if p.rootScope != nil {
		if err := p.rootScope.Close(); err != nil {
			errors = append(errors, fmt.Errorf("root scope: %w", err))
		}
	}
""")
m("M27","C12","R12.2","scope.go","""		if err := disposables[i].Close(); err != nil {
			errs = append(errs, fmt.Errorf("failed to dispose scoped instance: %w", err))
		}""","""		if err := disposables[i].Close(); err != nil {
			return &DisposalError{Context: "scope", Errors: []error{err}}
		}""")
m("M28","C12","R12.1","scope.go","""	if !atomic.CompareAndSwapInt32(&s.disposed, 0, 1) {
		return nil // Already closed
	}
""","""	if atomic.LoadInt32(&s.disposed) != 0 {
		return nil // Already closed
	}
	atomic.StoreInt32(&s.disposed, 1)
""")
m("M29","C12","R12.4","scope.go","""		if err := child.Close(); err != nil {
			errs = append(errs, fmt.Errorf("failed to close child scope: %w", err))
		}""","""		_ = child.Close()""")
m("M30","C13","R13.1","scope.go","""func (s *scope) GetGroup(serviceType reflect.Type, group string) ([]any, error) {
	if atomic.LoadInt32(&s.disposed) != 0 {
		return nil, ErrScopeDisposed
	}
""","""func (s *scope) GetGroup(serviceType reflect.Type, group string) ([]any, error) {
""")
m("M31","C13","R13.4","provider.go","""	go func() {
		<-ctx.Done()
		if err := s.Close(); err != nil {
			// Context cancellation cleanup errors are expected during shutdown
			// and cannot be meaningfully handled, so we ignore them
			_ = err
		}
	}()
""","")
m("M32","C13","R13.1","provider.go","""func (p *provider) GetKeyed(serviceType reflect.Type, key any) (any, error) {
	if atomic.LoadInt32(&p.disposed) != 0 {
		return nil, ErrProviderDisposed""","""func (p *provider) GetKeyed(serviceType reflect.Type, key any) (any, error) {
	if atomic.LoadInt32(&p.disposed) != 0 {
		return nil, ErrScopeDisposed""")
m("M33","C14","R14.2","scope.go","""	if s.rootProvider != nil {
		s.rootProvider.scopesMu.Lock()
		delete(s.rootProvider.scopes, s)
		s.rootProvider.scopesMu.Unlock()
	}
""","")
m("M34","C14","R14.1","scope.go","""	if s.cancel != nil {
		s.cancel()
	}
""","")
m("M35","C15","R15.3","scope.go","""Cause:       fmt.Errorf("failed to resolve group member: %w", err),""","""Cause:       fmt.Errorf("failed to resolve group member: %v", err),""")
m("M36","C15","R15.2","errors.go","""func (e BuildError) Unwrap() error {
	return e.Cause
}
""","")
m("M37","C15","R15.3","internal/reflection/builders.go","""return nil, fmt.Errorf("constructor error: %w", err)""","""return nil, fmt.Errorf("constructor error: %v", err)""")
m("M38","C16","P3","gin/gin.go","""		defer func() {
			if err := scope.Close(); err != nil {
				cfg.CloseErrorHandler(err)
			}
		}()
""","")
m("M39","C16","P4","http/http.go","""			r = r.WithContext(scope.Context())
""","""			r = r.WithContext(r.Context())
""")
m("M40","C16","P5","chi/chi.go","""				if err := mw(scope, r); err != nil {
					cfg.ErrorHandler(w, r, err)
					return
				}""","""				if err := mw(scope, r); err != nil {
					cfg.ErrorHandler(w, r, err)
				}""")
m("M41","C16","H1","chi/chi.go","""		if cfg.PanicRecovery {
			defer func() {
				if v := recover(); v != nil {
					cfg.PanicHandler(w, r, v)
				}
			}()
		}
""","""		defer func() {
			if v := recover(); v != nil {
				cfg.PanicHandler(w, r, v)
			}
		}()
""")
m("M42","C16","P3","fiber/fiber.go","""		if closeErr := scope.Close(); closeErr != nil {
			cfg.CloseErrorHandler(closeErr)
		}
""","")
m("M42b","C16","P3","echo/echo.go","""			defer func() {
				if err := scope.Close(); err != nil {
					cfg.CloseErrorHandler(err)
				}
			}()
""","""			_ = cfg.CloseErrorHandler
""")
m("M43","C17","R17.2","collection.go","""	if exists {
		if descriptor.Key == nil {
			return &AlreadyRegisteredError{ServiceType: descriptor.Type}
		}
		return &RegistrationError{
			ServiceType: descriptor.Type,
			Operation:   "register",
			Cause:       &AlreadyRegisteredError{ServiceType: descriptor.Type},
		}
	}
""","""	_ = exists
""")
m("M44","C17","R17.1","collection.go","""	for i, d := range r.allDescriptors {
		if d == descriptor {
			r.allDescriptors = append(r.allDescriptors[:i:i], r.allDescriptors[i+1:]...)
			break
		}
	}
""","""	_ = descriptor
""")
m("M45","C17","R17.5","collection.go","""		services:                    services,
		groups:                      groups,""","""		services:                    sc.services,
		groups:                      sc.groups,""")
m("M46","C18","R18.1","scope.go","""			case scopeType:
				return s, nil""","""			case scopeType:
				return s.rootProvider.rootScope, nil""")
m("M47","C18","R18.3","scope.go","""	if ctx == nil {
		ctx = s.context
	}
""","""	if ctx == nil {
		ctx = context.Background()
	}
""")
m("M48","C18","R18.5","collection.go","""	if _, isReserved := reservedTypes[descriptor.Type]; isReserved {
		return &ValidationError{
			ServiceType: descriptor.Type,
			Cause:       fmt.Errorf("service type %s is reserved and cannot be registered", formatType(descriptor.Type)),
		}
	}

	// Group members never collide""","""	// Group members never collide""")
m("M49","C19","R19.2","internal/graph/graph.go","""	// Update degrees
	g.updateDegrees()

	// Mark caches as dirty
	g.sortedNodesDirty = true
	g.cycleCacheDirty = true
}""","""	// Mark caches as dirty
	g.sortedNodesDirty = true
	g.cycleCacheDirty = true
}""")
m("M50","C19","R19.3","internal/graph/graph.go","""		if exists {
			node.Provider = prevProvider
			node.Dependencies = prevDependencies
			if hadEdges {
				g.edges[nodeKey] = prevEdges
			} else {
				delete(g.edges, nodeKey)
			}
		} else {
			delete(g.nodes, nodeKey)
			delete(g.edges, nodeKey)
		}
""","""		_, _, _, _ = prevProvider, prevDependencies, prevEdges, hadEdges
		delete(g.nodes, nodeKey)
		delete(g.edges, nodeKey)
""")
m("M51","C20","R20.1","module.go","""			if err := builder(s); err != nil {
				return ModuleError{Module: name, Cause: err}
			}""","""			if err := builder(s); err != nil {
				_ = ModuleError{Module: name, Cause: err}
				continue
			}""")
m("M52","C20","R20.3","module.go","""		return s.AddScoped(service, opts...)""","""		return s.AddSingleton(service, opts...)""")
m("M53","C20","R20.1","module.go","""				return ModuleError{Module: name, Cause: err}""","""				return err""")
m("M54","C02","R02.7","scope.go","""		if instance, ok := s.getInstance(key); ok {
			return instance, nil
		}

		// Create and cache scoped instance""","""		if instance, ok := s.getInstance(key); ok {
			return instance, nil
		}
		if s.parentScope != nil {
			if instance, ok := s.parentScope.getInstance(key); ok {
				return instance, nil
			}
		}

		// Create and cache scoped instance""")
m("M55","C10","R10.5b","scope.go","""			// Release whatever was created for this scope before the failure
			_ = s.Close()

""","")
m("M56","C13","R13.3","scope.go","""	if s.children == nil {
		s.childrenMu.Unlock()
		_ = child.Close()
		return nil, ErrScopeDisposed
	}
""","")
m("M57","C04","R04.1","scope.go","""invoker.InvokeConstructor(info, descriptor.Constructor, s)""","""invoker.Invoke(info, s)""")
m("M58","C07","R07.4","collection.go","""				for _, member := range c.groups[GroupKey{Type: dep.Type, Group: dep.Group}] {""","""				for _, member := range []*Descriptor(nil) {""")
m("M59","C09","R09.2","scope.go","""	s.disposablesMu.Lock()
	disposables := s.disposables
	s.disposables = nil
	s.disposablesMu.Unlock()

	for i := len(disposables) - 1; i >= 0; i-- {""","""	s.disposablesMu.Lock()
	defer s.disposablesMu.Unlock()
	disposables := s.disposables
	s.disposables = nil

	for i := len(disposables) - 1; i >= 0; i-- {""")
m("M60","C08","R08.2","collection.go","""	p.rootScope = newUninitializedScope(p, nil, context.Background(), nil)
""","""	p.rootScope = newUninitializedScope(p, nil, context.Background(), nil)
	if err := p.rootScope.runInitializers(); err != nil {
		return nil, &BuildError{Phase: "scope-creation", Details: "failed to create root scope", Cause: err}
	}
""")

# --- second batch: suite-surviving candidates for properties whose first mutants were all killed
m("M61","C02","R02.6","scope.go","""	child, err := newScope(s.rootProvider, s, ctx, cancel)
	if err != nil {
		return nil, fmt.Errorf("failed to create child scope: %w", err)
	}
""","""	child := newUninitializedScope(s.rootProvider, s, ctx, cancel)
""")
m("M62","C02","R-KEYLIT","scope.go","""		if s.instances != nil {
			s.instances[key] = instance
		}
""","""		if s.instances != nil {
			s.instances[instanceKey{Type: key.Type, Key: key.Key}] = instance
		}
""")
m("M64","C18","R18.1","scope.go","""			case contextType:
				return s.context, nil""","""			case contextType:
				return s.rootProvider.rootScope.context, nil""")
m("M66","C18","R18.3","scope.go","""	ctx = context.WithValue(ctx, scopeContextKey{}, s)
	s.context = ctx
""","""	if parent != nil {
		ctx = context.WithValue(ctx, scopeContextKey{}, parent)
	} else {
		ctx = context.WithValue(ctx, scopeContextKey{}, s)
	}
	s.context = ctx
""")
m("M68","C20","R20.3","module.go","""		c.RemoveKeyed(reflect.TypeOf((*T)(nil)).Elem(), key)""","""		_ = key
		c.Remove(reflect.TypeOf((*T)(nil)).Elem())""")
m("M69","C20","R20.1","module.go","""			if builder == nil {
				continue
			}

			if err := builder(s); err != nil {""","""			if err := builder(s); err != nil {""")
m("M70","C20","R20.2","collection.go","""		if err := module(sc); err != nil {
			return err
		}
	}

	return nil
}""","""		if err := module(sc); err != nil {
			lastErr = err
		}
	}

	return lastErr
}""")
M[-1]["old"] = "func (sc *collection) AddModules(modules ...ModuleOption) error {\n\tfor _, module := range modules {\n\t\tif module == nil {\n\t\t\tcontinue\n\t\t}\n\n" + M[-1]["old"]
M[-1]["new"] = "func (sc *collection) AddModules(modules ...ModuleOption) error {\n\tvar lastErr error\n\tfor _, module := range modules {\n\t\tif module == nil {\n\t\t\tcontinue\n\t\t}\n\n" + M[-1]["new"]
m("M71","C20","R20.3","module.go","""		return s.AddTransient(service, opts...)""","""		return s.AddScoped(service, opts...)""")
m("M72","C18","R18.2","provider.go","""		_, err := p.rootScope.createInstance(descriptor)""","""		_, err := (&scope{rootProvider: p, context: context.Background(), instances: map[instanceKey]any{}}).createInstance(descriptor)""")

m("M73","C20","R20.1","module.go","""				return ModuleError{Module: name, Cause: err}""","""				return ModuleError{Module: name, Cause: ModuleError{Module: name, Cause: err}}""")
m("M74","C20","R20.1","module.go","""				return ModuleError{Module: name, Cause: err}""","""				return ModuleError{Module: "", Cause: err}""")
