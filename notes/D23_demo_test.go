// Demonstration of D23 (internal test, package godi, repository root): fails on 8c87d15 under `go test -race -run TestD23 .`
// (1-6 closed scopes still tracked per 300000 rounds, 3 of 3 runs), passes on 28e902b (2 of 2 runs).
package godi

import (
	"context"
	"sync"
	"testing"
)

// D23: parent.CreateScope racing parent.Close can leave an already closed child in provider.scopes.
func TestD23ClosedChildStaysTracked(t *testing.T) {
	c := NewCollection()
	p0, err := c.Build()
	if err != nil {
		t.Fatal(err)
	}
	p := p0.(*provider)
	defer p.Close()
	leaked := 0
	const rounds = 300000
	for i := 0; i < rounds; i++ {
		parent, err := p.CreateScope(context.Background())
		if err != nil {
			t.Fatal(err)
		}
		var wg sync.WaitGroup
		wg.Add(2)
		go func() { defer wg.Done(); _, _ = parent.CreateScope(context.Background()) }()
		go func() { defer wg.Done(); _ = parent.Close() }()
		wg.Wait()
		_ = parent.Close()
		p.scopesMu.Lock()
		n := len(p.scopes)
		for s := range p.scopes {
			delete(p.scopes, s) // keep the next rounds independent
		}
		p.scopesMu.Unlock()
		leaked += n
	}
	if leaked > 0 {
		t.Fatalf("%d closed scope(s) still tracked by the provider after their parent was closed (%d rounds)", leaked, rounds)
	}
}
