package godi_test

import (
	"testing"

	"github.com/junioryono/godi/v4"
)

type d25A struct{ n int }
type d25I interface{ X() }
type d25User struct{ a *d25A }

func TestD25_NilOutputSingletonRunsOnce(t *testing.T) {
	for round := 0; round < 50; round++ {
		calls := 0
		c := godi.NewCollection()
		if err := c.AddSingleton(func() (*d25A, d25I) { calls++; return &d25A{n: calls}, nil }); err != nil {
			t.Fatal(err)
		}
		if err := c.AddSingleton(func(a *d25A) *d25User { return &d25User{a: a} }); err != nil {
			t.Fatal(err)
		}
		p, err := c.Build()
		if err != nil {
			t.Fatalf("build: %v", err)
		}
		a, err := godi.Resolve[*d25A](p)
		if err != nil {
			t.Fatal(err)
		}
		u, err := godi.Resolve[*d25User](p)
		if err != nil {
			t.Fatal(err)
		}
		if calls != 1 || u.a != a {
			t.Fatalf("round %d: constructor ran %d times; injected instance %d, resolved instance %d", round, calls, u.a.n, a.n)
		}
		p.Close()
	}
}
