#!/bin/bash
# usage: check.sh <property id> [quick|thorough]
# Decides the property's structural rules on /repo's current working tree.
# exit 0 = all rules hold (known findings are printed), 1 = VIOLATION, 2 = UNDECIDED
set -uo pipefail
here="$(cd "$(dirname "$0")" && pwd)"
prop="$1"; tier="${2:-${VERIF_TIER:-quick}}"
unset GOSUMDB GOTOOLCHAIN GOWORK || true
export GOFLAGS=-mod=mod GOPROXY=off GOWORK=off
if [ ! -x "$here/bin/godicheck" ] || [ -n "$(find "$here/checker" -name '*.go' -newer "$here/bin/godicheck" 2>/dev/null | head -1)" ]; then
  "$here/setup.sh" >/dev/null || { echo "UNDECIDED property=$prop checker does not build"; exit 2; }
fi
root="${GODI_ROOT:-/repo}"
if [ "$tier" = thorough ]; then
  exec "$here/tools/thorough.sh" "$prop" "$root"
fi
exec "$here/bin/godicheck" -property "$prop" -tier quick -root "$root" -verif "$here"
