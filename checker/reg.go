package main

var commonAssumptions = []string{
	"go/types and golang.org/x/tools (go/packages, go/cfg, go/ssa) model the program faithfully",
	"the rules are necessary conditions of the property: a discharged rule does not prove the behaviour (DESIGN.md §0)",
	"user constructors, reflect and the standard library are outside the analysis",
}

func init() {
	register("C09",
		"Decides structural necessary conditions of C09 from the source, for every access on every path: (R09.1) lockset/discipline check of every access to every field of the shared structs against the frozen guarded-by table, with interprocedural entry locksets and fresh-object confinement; (R09.2) lock hygiene: acyclic lock-order graph, no user code under a container lock, every lock released on every exit; (R09.3) typestate of tables reset by Close: re-check inside the critical section, agreeing with what Close establishes; (R09.4) goroutine bodies. NOT decided: races inside user constructors/reflect/stdlib, happens-before through channels, liveness, value-level results.",
		commonAssumptions, checkC09)
}
