package main

import (
	"fmt"
	"go/ast"
	"go/token"
	"go/types"

	"golang.org/x/tools/go/cfg"
)

// ruleCausePreserved: every `if err := f(); err != nil { return ..., &XError{..., Cause: E} }`
// keeps err in E (directly, or wrapped by fmt.Errorf with %w - checked by R-ERRCHAIN ii).
func ruleCausePreserved(w *World, r *Report, rule string) {
	seq := map[string]int{}
	for _, fi := range w.AllFuncs() {
		if fi.Pkg != w.Godi && fi.Pkg != w.Graph && fi.Pkg != w.Refl {
			continue
		}
		info := fi.Pkg.TypesInfo
		ast.Inspect(fi.Decl.Body, func(x ast.Node) bool {
			ifs, ok := x.(*ast.IfStmt)
			if !ok {
				return true
			}
			be, ok := unparen(ifs.Cond).(*ast.BinaryExpr)
			if !ok || be.Op != token.NEQ {
				return true
			}
			var errObj types.Object
			if isNilIdent(info, be.Y) {
				errObj = objOf(info, be.X)
			} else if isNilIdent(info, be.X) {
				errObj = objOf(info, be.Y)
			}
			if errObj == nil || !isErrorType(errObj.Type()) {
				return true
			}
			for _, st := range ifs.Body.List {
				ret, ok := st.(*ast.ReturnStmt)
				if !ok || len(ret.Results) == 0 {
					continue
				}
				last := ret.Results[len(ret.Results)-1]
				l := litOf(last)
				if l == nil {
					continue
				}
				tv, ok := info.Types[l]
				if !ok || !implementsError(tv.Type) {
					continue
				}
				nt := namedOf(tv.Type)
				if nt == nil {
					continue
				}
				st2, _ := nt.Underlying().(*types.Struct)
				hasCause := false
				for i := 0; st2 != nil && i < st2.NumFields(); i++ {
					if st2.Field(i).Name() == "Cause" && isErrorType(st2.Field(i).Type()) {
						hasCause = true
					}
				}
				if !hasCause {
					continue
				}
				key := fi.Name() + "#" + nt.Obj().Name() + "{Cause}"
				seq[key]++
				con := fmt.Sprintf("%s/%d", key, seq[key])
				cause, set := compositeFields(l)["Cause"]
				switch {
				case !set:
					r.Fail(rule, con, l.Pos(), "%s is returned for the error %s without a Cause: the original error is lost to errors.Is/As", nt.Obj().Name(), errObj.Name())
				case usesObj(info, cause, errObj):
					r.OK(rule, con, l.Pos(), true, "the handled error %s is kept as Cause", errObj.Name())
				default:
					r.Fail(rule, con, l.Pos(), "%s{Cause: %s} does not contain the error %s being handled: the chain to the original cause is broken", nt.Obj().Name(), exprStr(cause), errObj.Name())
				}
			}
			return true
		})
	}
}

// ---------------------------------------------------------------------------
// C20

func checkC20(w *World, r *Report) {
	r.Rule("R20.1", 4, "NewModule: forward traversal of the builders it was given, nil skipped, each builder called once with the collection, first error returned immediately as ModuleError{Module: name, Cause: err} - exactly one wrap per level, unconditionally")
	r.Rule("R20.1a", 2, "neither NewModule nor AddModules writes to the slice of builders the caller passed (no in-place filtering or reordering)")
	r.Rule("R20.2", 3, "AddModules: forward traversal, nil skipped, first error returned unwrapped")
	r.Rule("R20.3", 5, "thin options: AddSingleton/AddScoped/AddTransient/Remove/RemoveKeyed return a closure whose body is exactly one call of the method of the same name on its collection parameter with the constructor's parameters forwarded unchanged, returning that call's error (or nil)")
	r.Rule("R20.4", 1, "ModuleError unwraps to its Cause")
	r.Rule("R20.6", 1, "applying a module cannot panic where the direct calls do not: no slice field of the collection is indexed with a position taken before the module ran")
	r.Try(func() { ruleNoStaleIndex(w, r, "R20.6") })
	r.Rule("R20.5", 3, "Remove through a module is Remove: every writer of a registry view keeps the three views in step and the descriptor list keeps registration order (no deferred compaction that a failing entry skips)")
	r.Try(func() { reexport(w, r, "R20.5", func(sub *Report) { checkC17(w, sub) }, "R17.1", "R17.10") })

	nm := w.MustFn(w.Godi, "NewModule")
	r.Analysed(nm)
	checkSequentialApply(w, r, nm, "R20.1", "R20.1a", true)
	am := w.MustFn(w.Godi, "(*collection).AddModules")
	r.Analysed(am)
	checkSequentialApply(w, r, am, "R20.2", "R20.1a", false)
	// every other implementation of AddModules in the package (an adapter that registers into a
	// scope, a recording collection) follows the same protocol: sibling implementations agree
	for _, fi := range w.FuncsOf(w.Godi) {
		if fi == am || fi.Obj.Name() != "AddModules" || fi.Decl.Recv == nil || fi.Decl.Body == nil {
			continue
		}
		sig, ok := fi.Obj.Type().(*types.Signature)
		if !ok || !sig.Variadic() || sig.Params().Len() != 1 {
			continue
		}
		if sl, isSl := sig.Params().At(0).Type().(*types.Slice); !isSl || !isNamedType(sl.Elem(), modPath, "ModuleOption") {
			continue
		}
		r.Analysed(fi)
		checkSequentialApply(w, r, fi, "R20.2", "R20.1a", false)
	}

	// R20.3
	for _, name := range []string{"AddSingleton", "AddScoped", "AddTransient", "Remove", "RemoveKeyed"} {
		fi := w.MustFn(w.Godi, name)
		r.Analysed(fi)
		info := fi.Pkg.TypesInfo
		con := name + "#thin"
		var lit *ast.FuncLit
		if len(fi.Decl.Body.List) == 1 {
			if ret, ok := fi.Decl.Body.List[0].(*ast.ReturnStmt); ok && len(ret.Results) == 1 {
				lit, _ = unparen(ret.Results[0]).(*ast.FuncLit)
			}
		}
		if lit == nil {
			r.Fail("R20.3", con, fi.Decl.Pos(), "%s does more than return a registration closure", name)
			continue
		}
		var collParam types.Object
		if len(lit.Type.Params.List) == 1 && len(lit.Type.Params.List[0].Names) == 1 {
			collParam = info.Defs[lit.Type.Params.List[0].Names[0]]
		}
		calls := callsIn(lit.Body, true)
		var coll []*ast.CallExpr
		for _, c := range calls {
			if rcv, _, ok := methodCall(c); ok && objOf(info, rcv) == collParam && collParam != nil {
				coll = append(coll, c)
			}
		}
		bad := ""
		if len(coll) != 1 {
			bad = fmt.Sprintf("the closure makes %d calls on its collection parameter, expected exactly one", len(coll))
		} else {
			c := coll[0]
			_, m, _ := methodCall(c)
			if m != name {
				bad = fmt.Sprintf("the module option %s calls Collection.%s", name, m)
			}
			// arguments: the outer function's parameters forwarded unchanged
			var outer []types.Object
			for _, f := range fi.Decl.Type.Params.List {
				for _, nmI := range f.Names {
					outer = append(outer, info.Defs[nmI])
				}
			}
			switch name {
			case "AddSingleton", "AddScoped", "AddTransient":
				if len(c.Args) != 2 || objOf(info, c.Args[0]) != outer[0] || objOf(info, c.Args[1]) != outer[1] || !c.Ellipsis.IsValid() {
					bad = "the service and options are not forwarded unchanged"
				}
			case "Remove", "RemoveKeyed":
				if len(c.Args) < 1 || !isTypeOfTypeParam(info, c.Args[0], fi) {
					bad = "the type argument is not reflect.TypeOf((*T)(nil)).Elem() of the option's own type parameter"
				}
				if name == "RemoveKeyed" && (len(c.Args) != 2 || len(outer) < 1 || objOf(info, c.Args[1]) != outer[0]) {
					bad = "the key is not forwarded unchanged"
				}
			}
			// the closure returns the call's error (Add*) or nil (Remove*), and nothing else happens
			for _, st := range lit.Body.List {
				switch s := st.(type) {
				case *ast.ReturnStmt:
					if len(s.Results) == 1 {
						if unparen(s.Results[0]) == ast.Expr(c) || isNilIdent(info, s.Results[0]) {
							continue
						}
					}
					bad = "the closure returns something other than the registration call's result"
				case *ast.ExprStmt:
					if unparen(s.X) != ast.Expr(c) {
						bad = "the closure does more than the single registration call"
					}
				default:
					bad = "the closure does more than the single registration call"
				}
			}
			for _, other := range calls {
				if other != c && !isInside(other, c) {
					bad = "the closure calls " + exprStr(other.Fun) + " besides the registration"
				}
			}
		}
		r.Check(bad == "", "R20.3", con, fi.Decl.Pos(), true, name+" is a thin wrapper around Collection."+name, name+": "+bad)
	}

	// R20.4
	sub := NewReport(r.Prop, r.Tier, w)
	sub.Rule("x", 0, "")
	ruleErrChainUnwrap(w, sub, "x")
	for _, o := range sub.Obs {
		if o.Construct == "godi.ModuleError#Unwrap" {
			o.Rule = "R20.4"
			r.Obs = append(r.Obs, o)
		}
	}
}

func isInside(inner, outer ast.Node) bool {
	return outer.Pos() <= inner.Pos() && inner.End() <= outer.End()
}

// isTypeOfTypeParam matches reflect.TypeOf((*T)(nil)).Elem() with T a type parameter of fi.
func isTypeOfTypeParam(info *types.Info, e ast.Expr, fi *FuncInfo) bool {
	e = resolveLocal(info, fi.Decl.Body, e, 2)
	c, ok := unparen(e).(*ast.CallExpr)
	if !ok {
		return false
	}
	// reflect.TypeFor[T]() / a generic helper of the repository that returns it for its own type parameter
	if targ := typeArgOfCall(info, c); targ != nil {
		if _, isTP := targ.(*types.TypeParam); isTP {
			cal := callee(info, c)
			if isFunc(cal, "reflect", "", "TypeFor") {
				return true
			}
			if cal != nil && cal.Origin() != nil {
				cal = cal.Origin()
			}
			if theWorld != nil {
				if t := theWorld.Decls[cal]; t != nil && t.Decl.Body != nil && len(t.Decl.Body.List) == 1 {
					if ret, ok := t.Decl.Body.List[0].(*ast.ReturnStmt); ok && len(ret.Results) == 1 {
						return isTypeOfTypeParam(t.Pkg.TypesInfo, ret.Results[0], t)
					}
				}
			}
		}
		return false
	}
	sel, ok := unparen(c.Fun).(*ast.SelectorExpr)
	if !ok || sel.Sel.Name != "Elem" {
		return false
	}
	inner, ok := unparen(sel.X).(*ast.CallExpr)
	if !ok || !isFunc(callee(info, inner), "reflect", "", "TypeOf") || len(inner.Args) != 1 {
		return false
	}
	tv, ok := info.Types[inner.Args[0]]
	if !ok {
		return false
	}
	p, ok := tv.Type.(*types.Pointer)
	if !ok {
		return false
	}
	_, isTP := p.Elem().(*types.TypeParam)
	return isTP
}

// checkSequentialApply verifies the apply-in-order loop of NewModule / AddModules.
func checkSequentialApply(w *World, r *Report, fi *FuncInfo, rule, ruleAlias string, wrap bool) {
	info := fi.Pkg.TypesInfo
	// the variadic parameter
	params := fi.Decl.Type.Params.List
	var listObj, nameObj types.Object
	for _, f := range params {
		for _, nmI := range f.Names {
			o := info.Defs[nmI]
			if _, isEll := f.Type.(*ast.Ellipsis); isEll {
				listObj = o
			} else if b, ok := o.Type().Underlying().(*types.Basic); ok && b.Kind() == types.String {
				nameObj = o
			}
		}
	}
	if listObj == nil {
		r.Undecided(rule, fi.Name()+"#list", fi.Decl.Pos(), "variadic parameter not found")
		return
	}
	// R20.1a: no writes through the parameter slice
	{
		bad := ""
		aliases := map[types.Object]bool{listObj: true}
		ast.Inspect(fi.Decl.Body, func(x ast.Node) bool {
			as, ok := x.(*ast.AssignStmt)
			if !ok {
				return true
			}
			for i, l := range as.Lhs {
				if i < len(as.Rhs) {
					rhs := unparen(as.Rhs[i])
					if sl, ok := rhs.(*ast.SliceExpr); ok && aliases[objOf(info, sl.X)] {
						if o := objOf(info, l); o != nil {
							aliases[o] = true
						}
					}
				}
			}
			return true
		})
		ast.Inspect(fi.Decl.Body, func(x ast.Node) bool {
			switch s := x.(type) {
			case *ast.AssignStmt:
				for i, l := range s.Lhs {
					if ix, ok := unparen(l).(*ast.IndexExpr); ok && aliases[objOf(info, ix.X)] {
						bad = "element assignment " + exprStr(l)
					}
					if i < len(s.Rhs) {
						if c, ok := unparen(s.Rhs[i]).(*ast.CallExpr); ok && exprStr(c.Fun) == "append" && len(c.Args) > 0 {
							if o := objOf(info, c.Args[0]); o != nil && aliases[o] && o != listObj || (o == listObj && objOf(info, l) == listObj) {
								bad = "append into the backing array of the caller's slice (" + exprStr(s.Rhs[i]) + ")"
							}
						}
					}
				}
			}
			return true
		})
		r.Check(bad == "", ruleAlias, fi.Name()+"#caller-slice", fi.Decl.Pos(), true,
			"the caller's slice of builders is only read", "the caller's slice of builders is modified ("+bad+"): a list that is reused for another module or AddModules call no longer holds the same registrations")
	}
	// the loop
	var loops []*iterLoop
	for _, lf := range funcLitsIn(fi.Decl.Body) {
		_ = lf
	}
	ast.Inspect(fi.Decl.Body, func(x ast.Node) bool {
		st, isStmt := x.(ast.Stmt)
		if !isStmt {
			return true
		}
		il := asIterLoop(info, st)
		if il == nil || il.Elem == nil {
			return true
		}
		for _, c := range callsIn(il.Body, false) {
			if id, ok := unparen(c.Fun).(*ast.Ident); ok && info.Uses[id] == il.Elem {
				loops = append(loops, il)
			}
		}
		return true
	})
	con := fi.Name() + "#apply-loop"
	if len(loops) != 1 {
		r.Fail(rule, con, fi.Decl.Pos(), "expected one loop applying each builder once, found %d", len(loops))
		return
	}
	il := loops[0]
	rs := struct {
		Body *ast.BlockStmt
		X    ast.Expr
	}{il.Body, il.Coll}
	elem := il.Elem
	r.Check(il.CollObj == listObj && il.Dir == "fwd", rule, con+":source", il.Stmt.Pos(), true,
		"the loop iterates over the builders it was given, front to back",
		"the loop iterates ("+il.Dir+") over "+exprStr(rs.X)+", not front to back over the parameter "+listObj.Name()+": entries may be dropped, reordered or taken from a shared buffer")
	// On the function's control-flow graph: the builder is applied only when it is
	// known to be non-nil; a failed application leads straight to a return of the
	// error (wrapped once / unchanged) and never to the next builder; every other
	// exit returns nil.
	var body *ast.BlockStmt = fi.Decl.Body
	ast.Inspect(fi.Decl.Body, func(x ast.Node) bool {
		if lit, ok := x.(*ast.FuncLit); ok && isInside(il.Stmt, lit.Body) {
			body = lit.Body // innermost literal containing the loop
		}
		return true
	})
	// the traversal happens on every invocation: nothing returns ahead of the loop
	// (a module that is applied "at most once", or only when some state says so, is
	// not equivalent to the Add calls it stands for)
	{
		bad := ""
		var stack []ast.Node
		ast.Inspect(body, func(x ast.Node) bool {
			if x == nil {
				stack = stack[:len(stack)-1]
				return true
			}
			stack = append(stack, x)
			if lit, isLit := x.(*ast.FuncLit); isLit && lit.Body != body {
				return true
			}
			ret, ok := x.(*ast.ReturnStmt)
			if !ok || ret.Pos() > il.Stmt.Pos() {
				return true
			}
			okRet := false
			for i := len(stack) - 2; i >= 0; i-- {
				if ifs, isIf := stack[i].(*ast.IfStmt); isIf && ifs.Init == nil {
					if be, isBe := unparen(ifs.Cond).(*ast.BinaryExpr); isBe && be.Op == token.EQL {
						if c, isC := unparen(be.X).(*ast.CallExpr); isC && exprStr(c.Fun) == "len" && len(c.Args) == 1 && objOf(info, c.Args[0]) == listObj {
							okRet = true
						}
					}
				}
			}
			if !okRet && bad == "" {
				bad = "the function can return at " + w.Pos(ret.Pos()) + " before the traversal: on that path none of the builders is applied"
			}
			return true
		})
		r.Check(bad == "", rule, con+":always", il.Stmt.Pos(), true, "every invocation reaches the traversal (no exit ahead of the loop)", bad)
	}
	fl := NewFlow(w, fi.Pkg, body, fi.Name())
	var applyNode ast.Node
	var errObj types.Object
	for _, nd := range fl.Nodes() {
		if nd.Pos() < il.Body.Pos() || nd.End() > il.Body.End() {
			continue
		}
		as, ok := nd.(*ast.AssignStmt)
		if !ok || len(as.Rhs) != 1 {
			continue
		}
		if c, ok := unparen(as.Rhs[0]).(*ast.CallExpr); ok && il.IsElem(c.Fun) {
			applyNode = nd
			errObj = objOf(info, as.Lhs[len(as.Lhs)-1])
		}
	}
	_ = rs
	if applyNode == nil || errObj == nil {
		r.Check(false, rule, con+":nil-skip", il.Stmt.Pos(), false, "", "nil entries are not skipped: the builder's application was not found")
		r.Fail(rule, con+":error", il.Stmt.Pos(), "the builder's error is not bound and checked (`err := builder(c)`)")
		return
	}
	ce := condEdge(w, info, 1)
	failEdge := func(b *cfg.Block, i int, cond ast.Expr, in Facts) (gen, kill []string) {
		gen, kill = ce(b, i, cond, in)
		if be, ok := unparen(cond).(*ast.BinaryExpr); ok && (be.Op == token.NEQ || be.Op == token.EQL) {
			if (objOf(info, be.X) == errObj && isNilIdent(info, be.Y)) || (objOf(info, be.Y) == errObj && isNilIdent(info, be.X)) {
				if (be.Op == token.NEQ) == (i == 0) {
					gen = append(gen, "failed")
				} else {
					kill = append(kill, "failed")
				}
			}
		}
		return
	}
	killOnApply := func(n ast.Node, in Facts) (gen, kill []string) {
		if n == applyNode {
			kill = append(kill, "failed")
		}
		kill = append(kill, killOnAssign(info, n)...)
		return
	}
	must := fl.Solve(Spec{Must: true, Node: killOnApply, Edge: failEdge})
	may := fl.Solve(Spec{Must: false, Node: killOnApply, Edge: failEdge})
	elemName := objName(elem)
	r.Check(must.Before[applyNode].Has(elemName+"=nonnil"), rule, con+":nil-skip", il.Stmt.Pos(), true,
		"nil entries are skipped: a builder is applied only after it was found non-nil",
		"nil entries are not skipped: the builder is applied without having been compared with nil")
	bad := ""
	if may.Before[applyNode].Has("failed") {
		bad = "processing continues with the next builder after a failed one"
	}
	nFail := 0
	okTail := true
	for _, ex := range fl.Exits() {
		if ex.Panic {
			continue
		}
		failed := may.AtExit(ex).Has("failed")
		if !failed {
			if ex.Ret == nil || len(ex.Ret.Results) != 1 || !isNilIdent(info, ex.Ret.Results[0]) {
				okTail = false
			}
			continue
		}
		nFail++
		if !must.AtExit(ex).Has("failed") {
			bad = "an exit is shared by the failing and the succeeding path"
			continue
		}
		if ex.Ret == nil || len(ex.Ret.Results) != 1 {
			bad = "the error branch does not return the error"
			continue
		}
		res := ex.Ret.Results[0]
		if wrap {
			l := literalResult(w, info, body, res)
			tvOK := false
			if l != nil {
				if tv, ok := info.Types[l]; ok && isNamedType(tv.Type, modPath, "ModuleError") {
					tvOK = true
				}
			}
			if !tvOK || litOf(res) == nil {
				bad = "the error is returned as " + exprStr(res) + ", not wrapped in a ModuleError literal"
			} else {
				f := compositeFields(l)
				if objOf(info, f["Cause"]) != errObj {
					bad = "ModuleError.Cause is " + exprStr(f["Cause"]) + ", not the builder's error (double or missing wrap)"
				}
				if nameObj == nil || objOf(info, f["Module"]) != nameObj {
					bad = "ModuleError.Module is " + exprStr(f["Module"]) + ", not the module's own name"
				}
			}
		} else if objOf(info, res) != errObj {
			bad = "AddModules returns " + exprStr(res) + " instead of the module's error unchanged"
		}
	}
	if nFail == 0 && bad == "" {
		bad = "a failing builder does not stop processing (no exit is reached with its error)"
	}
	// nothing else happens on the failing path: no call between the failed test and the return
	for _, nd := range fl.Nodes() {
		if must.Before[nd].Has("failed") {
			if _, isRet := nd.(*ast.ReturnStmt); !isRet {
				for range callsIn(nd, false) {
					bad = "the error branch does more than return the error"
				}
			}
		}
	}
	r.Check(bad == "", rule, con+":error", applyNode.Pos(), true,
		"the first failing builder stops processing and its error is returned "+map[bool]string{true: "wrapped exactly once as ModuleError{Module: name, Cause: err}", false: "unchanged"}[wrap],
		fi.Name()+": "+bad)
	r.Check(okTail, rule, con+":tail", il.Stmt.End(), true, "nil is returned after all builders succeeded", "an exit that is not the failure of a builder returns something other than nil")
}

// ruleDeferredAddTotal: the deferred graph insertion used by Build has no
// error exit other than the nil-provider check, so that every cycle - also a
// self-dependency - is reported by DetectCycles as a *CircularDependencyError.
func ruleDeferredAddTotal(w *World, r *Report, rule string) {
	fi := w.MustFn(w.Graph, "(*DependencyGraph).AddProviderDeferred")
	r.Analysed(fi)
	info := fi.Pkg.TypesInfo
	var param types.Object
	if len(fi.Decl.Type.Params.List) == 1 && len(fi.Decl.Type.Params.List[0].Names) == 1 {
		param = info.Defs[fi.Decl.Type.Params.List[0].Names[0]]
	}
	fl := w.FlowOf(fi)
	sol := fl.Solve(Spec{Must: true, Edge: func(b *cfg.Block, i int, cond ast.Expr, in Facts) (gen, kill []string) {
		if cond == nil {
			return
		}
		if isNilTestOf(info, cond, func(e ast.Expr) bool { return objOf(info, e) == param }, false) && i == 0 {
			gen = append(gen, "nil-provider")
		}
		return
	}})
	bad := ""
	for _, ex := range fl.Exits() {
		if ex.Ret == nil || len(ex.Ret.Results) != 1 || isNilIdent(info, ex.Ret.Results[0]) {
			continue
		}
		if !sol.AtExit(ex).Has("nil-provider") {
			bad = w.Pos(ex.Pos)
		}
	}
	r.Check(bad == "", rule, fi.Name()+"#error-exits", fi.Decl.Pos(), true,
		"deferred insertion rejects only a nil provider; cycles are left to the typed error of DetectCycles",
		"AddProviderDeferred returns an error at "+bad+" for a non-nil provider: Build wraps it as a plain graph error, so a dependency problem detected there is not classifiable as a CircularDependencyError")
}

// typeArgOfCall: the single explicit type argument of a generic call f[T](), or nil.
func typeArgOfCall(info *types.Info, c *ast.CallExpr) types.Type {
	var id *ast.Ident
	switch f := unparen(c.Fun).(type) {
	case *ast.IndexExpr:
		switch x := unparen(f.X).(type) {
		case *ast.Ident:
			id = x
		case *ast.SelectorExpr:
			id = x.Sel
		}
	}
	if id == nil {
		return nil
	}
	if inst, ok := info.Instances[id]; ok && inst.TypeArgs != nil && inst.TypeArgs.Len() == 1 {
		return inst.TypeArgs.At(0)
	}
	return nil
}
