package main

import (
	"fmt"
	"os"
)

func dbgFacts(w *World, sol *Sol, fl *Flow) {
	if os.Getenv("GODICHECK_DEBUG") == "" {
		return
	}
	for _, ex := range fl.Exits() {
		fmt.Fprintf(os.Stderr, "exit %s: %v\n", w.Pos(ex.Pos), sol.AtExit(ex).Keys())
	}
}
