package main

import (
	"go/ast"
	"go/token"
	"go/types"
	"sort"
	"strings"

	"golang.org/x/tools/go/packages"
)

// A unit is one function body analysed on its own CFG: a declared function or
// a function literal.
type unit struct {
	body    *ast.BlockStmt
	pkg     *packages.Package
	fi      *FuncInfo    // enclosing declared function
	lit     *ast.FuncLit // nil for the declaration's own body
	parent  *unit        // enclosing unit of a literal
	name    string
	flow    *Flow
	root    bool  // entry lockset is empty by definition
	inherit bool  // literal runs where it is written: inherits the creation-site lockset
	entry   Facts // nil = not yet known (top)
	known   bool
	sol     *Sol // must-held locks
	solMay  *Sol // may-held locks (for leak detection)
	calls   []*callSite
	recvN   string
	params  []string
	boundTo types.Object // local variable a literal is bound to
	iterOf  *unit         // literal returned as an iterator (iter.Seq): runs where its maker's result is ranged over
	argCall *ast.CallExpr // literal passed as an argument: the call …
	argIdx  int           // … and its position
}

type callSite struct {
	node   ast.Node // CFG node containing the call
	call   *ast.CallExpr
	in     *unit
	target *unit
}

// LockAnalysis is a must-hold lockset analysis (A4 in DESIGN.md).
type LockAnalysis struct {
	W        *World
	units    []*unit
	byBody   map[*ast.BlockStmt]*unit
	byFunc   map[*types.Func]*unit
	lockVar  map[string]*types.Var // lock path -> mutex field
	nodeUnit map[ast.Node]*unit
	escapes  map[*unit]*Sol
}

func lockFactsOf(f Facts) []string {
	var out []string
	for k := range f {
		if strings.HasPrefix(k, "L:") {
			out = append(out, k)
		}
	}
	sort.Strings(out)
	return out
}

// mutexOp classifies a call as a mutex operation on a path.
func mutexOp(info *types.Info, call *ast.CallExpr) (path string, field *types.Var, op string, ok bool) {
	c := callee(info, call)
	if c == nil || c.Pkg() == nil || c.Pkg().Path() != "sync" {
		return
	}
	rn := recvNamed(c)
	if rn == nil || (rn.Obj().Name() != "Mutex" && rn.Obj().Name() != "RWMutex") {
		return
	}
	recv, name, isM := methodCall(call)
	if !isM {
		return
	}
	switch name {
	case "Lock", "Unlock", "RLock", "RUnlock":
	default:
		return
	}
	return exprStr(recv), fieldOf(info, recv), name, true
}

func NewLockAnalysis(w *World) *LockAnalysis {
	la := &LockAnalysis{W: w, byBody: map[*ast.BlockStmt]*unit{}, byFunc: map[*types.Func]*unit{},
		lockVar: map[string]*types.Var{}, nodeUnit: map[ast.Node]*unit{}}
	for _, fi := range w.AllFuncs() {
		la.addUnits(fi)
	}
	la.findCalls()
	la.classifyRoots()
	la.solve()
	return la
}

func (la *LockAnalysis) addUnits(fi *FuncInfo) {
	u := &unit{body: fi.Decl.Body, pkg: fi.Pkg, fi: fi, name: fi.Name()}
	if fi.Decl.Recv != nil && len(fi.Decl.Recv.List) == 1 && len(fi.Decl.Recv.List[0].Names) == 1 {
		u.recvN = fi.Decl.Recv.List[0].Names[0].Name
	}
	for _, fl := range fi.Decl.Type.Params.List {
		for _, n := range fl.Names {
			u.params = append(u.params, n.Name)
		}
		if len(fl.Names) == 0 {
			u.params = append(u.params, "_")
		}
	}
	la.units = append(la.units, u)
	la.byBody[u.body] = u
	la.byFunc[fi.Obj] = u
	la.addLits(u)
}

func (la *LockAnalysis) addLits(parent *unit) {
	// direct literal children only (not nested in another literal)
	var lits []*ast.FuncLit
	ast.Inspect(parent.body, func(n ast.Node) bool {
		if l, ok := n.(*ast.FuncLit); ok {
			lits = append(lits, l)
			return false
		}
		return true
	})
	for _, l := range lits {
		u := &unit{body: l.Body, pkg: parent.pkg, fi: parent.fi, lit: l, parent: parent,
			name: parent.name + "$lit@" + la.W.Pos(l.Pos())}
		la.units = append(la.units, u)
		la.byBody[u.body] = u
		la.addLits(u)
	}
}

func (la *LockAnalysis) findCalls() {
	for _, u := range la.units {
		u.flow = NewFlow(la.W, u.pkg, u.body, u.name)
		binds := litBindings(u.pkg.TypesInfo, u.body)
		for o, lit := range binds {
			if lu := la.byBody[lit.Body]; lu != nil {
				lu.boundTo = o
			}
		}
		for _, n := range u.flow.Nodes() {
			la.nodeUnit[n] = u
		}
	}
	for _, u := range la.units {
		info := u.pkg.TypesInfo
		for _, n := range u.flow.Nodes() {
			if _, isGo := n.(*ast.GoStmt); isGo {
				continue
			}
			for _, c := range callsIn(n, false) {
				cs := &callSite{node: n, call: c, in: u}
				if cal := callee(info, c); cal != nil {
					if t := la.byFunc[cal]; t != nil {
						cs.target = t
					}
				} else if id, ok := unparen(c.Fun).(*ast.Ident); ok {
					// call of a locally bound literal, possibly from a nested literal
					o := info.Uses[id]
					for _, cand := range la.units {
						if cand.lit != nil && cand.boundTo != nil && cand.boundTo == o {
							cs.target = cand
						}
					}
				} else if lit, ok := unparen(c.Fun).(*ast.FuncLit); ok {
					cs.target = la.byBody[lit.Body]
				}
				if cs.target != nil {
					if _, isDefer := n.(*ast.DeferStmt); isDefer {
						continue // runs at exit, not here
					}
					cs.target.calls = append(cs.target.calls, cs)
				}
			}
		}
	}
}

func (la *LockAnalysis) classifyRoots() {
	// functions referenced as values (not in call position) are roots
	valueUse := map[*types.Func]bool{}
	for _, p := range la.W.Pkgs {
		info := p.TypesInfo
		for _, f := range p.Syntax {
			inCallPos := map[*ast.Ident]bool{}
			ast.Inspect(f, func(n ast.Node) bool {
				if c, ok := n.(*ast.CallExpr); ok {
					switch fun := unparen(c.Fun).(type) {
					case *ast.Ident:
						inCallPos[fun] = true
					case *ast.SelectorExpr:
						inCallPos[fun.Sel] = true
					case *ast.IndexExpr: // generic instantiation f[T](...)
						switch g := unparen(fun.X).(type) {
						case *ast.Ident:
							inCallPos[g] = true
						case *ast.SelectorExpr:
							inCallPos[g.Sel] = true
						}
					}
				}
				return true
			})
			ast.Inspect(f, func(n ast.Node) bool {
				if id, ok := n.(*ast.Ident); ok && !inCallPos[id] {
					if fn, ok := info.Uses[id].(*types.Func); ok {
						valueUse[fn] = true
					}
				}
				return true
			})
		}
	}
	for _, u := range la.units {
		if u.lit == nil {
			obj := u.fi.Obj
			if obj.Exported() || valueUse[obj] || len(u.calls) == 0 || obj.Name() == "init" || obj.Name() == "main" {
				u.root = true
			}
			continue
		}
		// literals
		if u.boundTo != nil && len(u.calls) > 0 {
			continue // inferred from call sites
		}
		// how is the literal used?
		use := litUse(u.parent.body, u.lit)
		switch use {
		case "call", "arg":
			u.inherit = true
			if use == "arg" {
				ast.Inspect(u.parent.body, func(n ast.Node) bool {
					if c, ok := n.(*ast.CallExpr); ok {
						for i, a := range c.Args {
							if unparen(a) == ast.Expr(u.lit) {
								u.argCall, u.argIdx = c, i
							}
						}
					}
					return true
				})
			}
		case "return":
			// `return func(yield func(T) bool) { … }` from a private function whose every call is
			// consumed on the spot (range, slices.Collect/AppendSeq/Sorted): the body runs at the call
			// site, under the locks the maker was called with
			if u.parent.lit == nil && !u.parent.fi.Obj.Exported() && isIteratorLit(u.pkg.TypesInfo, u.lit) && la.consumedOnTheSpot(u.parent) {
				u.iterOf = u.parent
			} else {
				u.root = true
			}
		default: // go, defer, store, unknown
			u.root = true
		}
	}
}

// litUse classifies the syntactic context of a function literal.
func litUse(body *ast.BlockStmt, lit *ast.FuncLit) string {
	use := "unknown"
	ast.Inspect(body, func(n ast.Node) bool {
		switch s := n.(type) {
		case *ast.GoStmt:
			if unparen(s.Call.Fun) == lit {
				use = "go"
			}
		case *ast.DeferStmt:
			if unparen(s.Call.Fun) == lit {
				use = "defer"
			}
		case *ast.CallExpr:
			if unparen(s.Fun) == lit && use == "unknown" {
				use = "call"
			}
			for _, a := range s.Args {
				if unparen(a) == lit && use == "unknown" {
					use = "arg"
				}
			}
		case *ast.ReturnStmt:
			for _, r := range s.Results {
				if unparen(r) == lit {
					use = "return"
				}
			}
		}
		return true
	})
	return use
}

func (la *LockAnalysis) lockSpec(u *unit, must bool) Spec {
	info := u.pkg.TypesInfo
	var init []string
	for k := range u.entry {
		init = append(init, k)
	}
	return Spec{Must: must, Init: init, Node: func(n ast.Node, in Facts) (gen, kill []string) {
		if _, isGo := n.(*ast.GoStmt); isGo {
			return nil, nil
		}
		deferred := false
		if _, ok := n.(*ast.DeferStmt); ok {
			deferred = true
		}
		for _, c := range callsInEvalOrder(n) {
			path, fld, op, ok := mutexOp(info, c)
			if !ok {
				continue
			}
			if fld != nil {
				la.lockVar[path] = fld
			}
			if deferred {
				if d, isD := n.(*ast.DeferStmt); isD && d.Call == c {
					switch op {
					case "Unlock":
						gen = append(gen, "D:"+path+":W")
					case "RUnlock":
						gen = append(gen, "D:"+path+":R")
					}
					continue
				}
			}
			switch op {
			case "Lock":
				gen = append(gen, "L:"+path+":W")
			case "RLock":
				gen = append(gen, "L:"+path+":R")
			case "Unlock":
				kill = append(kill, "L:"+path+":W")
			case "RUnlock":
				kill = append(kill, "L:"+path+":R")
			}
		}
		// a lock and unlock in the same node: net effect is unlock
		var g2 []string
		for _, g := range gen {
			killed := false
			for _, k := range kill {
				if k == g {
					killed = true
				}
			}
			if !killed {
				g2 = append(g2, g)
			}
		}
		return g2, kill
	}}
}

func (la *LockAnalysis) solveUnit(u *unit) {
	u.sol = u.flow.Solve(la.lockSpec(u, true))
	u.solMay = u.flow.Solve(la.lockSpec(u, false))
}

// translate maps a lock fact held at a call site into the callee's namespace.
func (la *LockAnalysis) translate(cs *callSite, fact string) (string, bool) {
	if !strings.HasPrefix(fact, "L:") {
		return "", false
	}
	rest := fact[2:]
	i := strings.LastIndexByte(rest, ':')
	path, mode := rest[:i], rest[i:]
	t := cs.target
	if t.lit != nil || strings.HasPrefix(path, "^") {
		return fact, true // same variable namespace / already anonymous
	}
	try := func(from, to string) (string, bool) {
		if from == "" || to == "" || to == "_" {
			return "", false
		}
		if path == from {
			return "L:" + to + mode, true
		}
		if strings.HasPrefix(path, from+".") {
			np := to + path[len(from):]
			if v := la.lockVar[path]; v != nil {
				la.lockVar[np] = v
			}
			return "L:" + np + mode, true
		}
		return "", false
	}
	if recv, _, ok := methodCall(cs.call); ok && t.recvN != "" {
		if s, ok := try(exprStr(recv), t.recvN); ok {
			return s, true
		}
	}
	for i, a := range cs.call.Args {
		if i < len(t.params) {
			if s, ok := try(exprStr(a), t.params[i]); ok {
				return s, true
			}
		}
	}
	// the callee cannot name the object whose lock the caller holds (a method of
	// a record called under its table's lock): the lock is still held; keep it
	// as an anonymous fact "^Struct.field" that only the record rules consult
	if v := la.lockVar[path]; v != nil {
		np := "^" + la.W.canonField(v)
		la.lockVar[np] = v
		return "L:" + np + mode, true
	}
	return "", false
}

func (la *LockAnalysis) solve() {
	for _, u := range la.units {
		if u.root {
			u.entry, u.known = Facts{}, true
		}
	}
	for round := 0; round < 12; round++ {
		changed := false
		for _, u := range la.units {
			if u.known && u.sol == nil {
				la.solveUnit(u)
				changed = true
			}
		}
		for _, u := range la.units {
			if u.root {
				continue
			}
			var ne Facts
			any := false
			if u.iterOf != nil {
				if u.iterOf.known {
					ne = Facts{}
					for _, k := range lockFactsOf(u.iterOf.entry) {
						ne[k] = true
					}
					any = true
				}
			} else if u.inherit {
				p := u.parent
				if p.known && p.sol != nil {
					n := p.flow.NodeContaining(u.lit.Pos())
					if n != nil && p.sol.Before[n] != nil {
						ne = Facts{}
						for _, k := range lockFactsOf(p.sol.Before[n]) {
							ne[k] = true
						}
						for _, k := range la.callbackLocks(u) {
							ne[k] = true
						}
						any = true
					}
				}
			} else {
				// call sites on a private (fresh) receiver say nothing about the locks the others hold -
				// unless they are all there is
				others := 0
				for _, cs := range u.calls {
					if cs.in != u && !la.privateReceiverAt(cs) {
						others++
					}
				}
				for _, cs := range u.calls {
					cu := cs.in
					if !cu.known || cu.sol == nil {
						continue
					}
					before := cu.sol.Before[cs.node]
					if before == nil {
						continue // unreachable call site
					}
					// a method called on an object that is still private to the caller (a graph it
					// has just built): whatever the method touches through its receiver needs no lock
					if others > 0 && la.privateReceiverAt(cs) {
						continue
					}
					tr := Facts{}
					for _, k := range lockFactsOf(before) {
						if t, ok := la.translate(cs, k); ok {
							tr[t] = true
							// holding a lock for writing is holding it for reading: a helper called under
							// Lock at one site and under RLock at another runs under "at least RLock"
							if strings.HasSuffix(t, ":W") && len(u.calls) > 1 {
								tr[strings.TrimSuffix(t, ":W")+":R"] = true
							}
						}
					}
					if !any {
						ne, any = tr, true
					} else {
						for k := range ne {
							if !tr[k] {
								delete(ne, k)
							}
						}
					}
				}
			}
			if !any {
				continue
			}
			if !u.known || !equalFacts(u.entry, ne) {
				u.entry, u.known, u.sol = ne, true, nil
				changed = true
			}
		}
		if !changed {
			break
		}
	}
	for _, u := range la.units {
		if !u.known {
			u.entry, u.known = Facts{}, true
		}
		if u.sol == nil {
			la.solveUnit(u)
		}
	}
}

// isIteratorLit: func(yield func(…) bool).
func isIteratorLit(info *types.Info, lit *ast.FuncLit) bool {
	sig, ok := info.TypeOf(lit).(*types.Signature)
	if !ok || sig.Params().Len() != 1 || sig.Results().Len() != 0 {
		return false
	}
	y, ok := sig.Params().At(0).Type().Underlying().(*types.Signature)
	if !ok || y.Results().Len() != 1 {
		return false
	}
	b, ok := y.Results().At(0).Type().Underlying().(*types.Basic)
	return ok && b.Kind() == types.Bool
}

// consumedOnTheSpot: every call of the function is the operand of a range
// statement or an argument of slices.Collect / AppendSeq / Sorted (and the
// function is never used as a value).
func (la *LockAnalysis) consumedOnTheSpot(t *unit) bool {
	if len(t.calls) == 0 {
		return false
	}
	for _, cs := range t.calls {
		ok := false
		ast.Inspect(cs.in.body, func(n ast.Node) bool {
			switch x := n.(type) {
			case *ast.RangeStmt:
				if unparen(x.X) == ast.Expr(cs.call) {
					ok = true
				}
			case *ast.CallExpr:
				cal := callee(cs.in.pkg.TypesInfo, x)
				if cal != nil && cal.Pkg() != nil && cal.Pkg().Path() == "slices" {
					for _, a := range x.Args {
						if unparen(a) == ast.Expr(cs.call) {
							ok = true
						}
					}
				}
			}
			return !ok
		})
		if !ok {
			return false
		}
	}
	return true
}

// callbackLocks: a literal handed to a repository function that calls it back
// (`s.withLock(func() { … })`) also runs under the locks that function holds at
// every call of the parameter, named in the namespace of the literal's creator.
func (la *LockAnalysis) callbackLocks(u *unit) []string {
	if u.argCall == nil || u.parent == nil {
		return nil
	}
	info := u.pkg.TypesInfo
	cal := callee(info, u.argCall)
	if cal == nil {
		return nil
	}
	t := la.byFunc[cal]
	if t == nil || !t.known || t.sol == nil || u.argIdx >= len(t.params) {
		return nil
	}
	// the parameter object
	var pobj types.Object
	k := 0
	for _, fl := range t.fi.Decl.Type.Params.List {
		for _, nm := range fl.Names {
			if k == u.argIdx {
				pobj = t.pkg.TypesInfo.Defs[nm]
			}
			k++
		}
	}
	if pobj == nil {
		return nil
	}
	var common Facts
	for _, n := range t.flow.Nodes() {
		switch n.(type) {
		case *ast.GoStmt, *ast.DeferStmt:
			continue
		}
		for _, c := range callsIn(n, false) {
			id, ok := unparen(c.Fun).(*ast.Ident)
			if !ok || t.pkg.TypesInfo.Uses[id] != pobj {
				continue
			}
			held := Facts{}
			for _, f := range lockFactsOf(t.sol.Before[n]) {
				held[f] = true
			}
			if common == nil {
				common = held
			} else {
				for f := range common {
					if !held[f] {
						delete(common, f)
					}
				}
			}
		}
	}
	// any other use of the parameter (stored, passed on, called in a goroutine): no claim
	uses := 0
	ast.Inspect(t.body, func(n ast.Node) bool {
		if id, ok := n.(*ast.Ident); ok && t.pkg.TypesInfo.Uses[id] == pobj {
			uses++
		}
		return true
	})
	calls := 0
	ast.Inspect(t.body, func(n ast.Node) bool {
		switch x := n.(type) {
		case *ast.GoStmt, *ast.DeferStmt, *ast.FuncLit:
			_ = x
			return false
		case *ast.CallExpr:
			if id, ok := unparen(x.Fun).(*ast.Ident); ok && t.pkg.TypesInfo.Uses[id] == pobj {
				calls++
			}
		}
		return true
	})
	if common == nil || uses != calls {
		return nil
	}
	var out []string
	recv, _, isM := methodCall(u.argCall)
	for f := range common {
		rest := f[2:]
		i := strings.LastIndexByte(rest, ':')
		path, mode := rest[:i], rest[i:]
		back := func(from, to string) (string, bool) {
			if from == "" || from == "_" {
				return "", false
			}
			if path == from {
				return to, true
			}
			if strings.HasPrefix(path, from+".") {
				return to + path[len(from):], true
			}
			return "", false
		}
		np, ok := "", false
		if isM && t.recvN != "" {
			np, ok = back(t.recvN, exprStr(recv))
		}
		for i, a := range u.argCall.Args {
			if !ok && i < len(t.params) && i != u.argIdx {
				np, ok = back(t.params[i], exprStr(a))
			}
		}
		if !ok {
			continue
		}
		if v := la.lockVar[path]; v != nil {
			la.lockVar[np] = v
		}
		out = append(out, "L:"+np+mode)
	}
	sort.Strings(out)
	return out
}

// HeldAt returns the locks that are certainly held just before CFG node n.
func (la *LockAnalysis) HeldAt(n ast.Node) Facts {
	u := la.nodeUnit[n]
	if u == nil || u.sol == nil {
		return nil
	}
	return u.sol.Before[n]
}

// UnitOfPos finds the innermost unit containing pos.
func (la *LockAnalysis) UnitOfPos(pos token.Pos) *unit {
	var best *unit
	for _, u := range la.units {
		if u.body.Pos() <= pos && pos < u.body.End() {
			if best == nil || (u.body.End()-u.body.Pos()) < (best.body.End()-best.body.Pos()) {
				best = u
			}
		}
	}
	return best
}

// NodeAt returns the unit and CFG node containing pos.
func (la *LockAnalysis) NodeAt(pos token.Pos) (*unit, ast.Node) {
	u := la.UnitOfPos(pos)
	if u == nil {
		return nil, nil
	}
	return u, u.flow.NodeContaining(pos)
}

// Holds reports whether lock path (mode "W", or "R" meaning R-or-W) is held before node n.
func holds(f Facts, path, mode string) bool {
	if f.Has("L:" + path + ":W") {
		return true
	}
	return mode == "R" && f.Has("L:"+path+":R")
}

// privateReceiverAt: the call is a method call whose receiver is a local bound to
// a fresh allocation that has not escaped before the call.
func (la *LockAnalysis) privateReceiverAt(cs *callSite) bool {
	rcv, _, isM := methodCall(cs.call)
	if !isM || cs.target == nil || cs.target.lit != nil || cs.target.recvN == "" {
		return false
	}
	id, ok := unparen(rcv).(*ast.Ident)
	if !ok {
		return false
	}
	info := cs.in.pkg.TypesInfo
	o := info.Uses[id]
	if o == nil {
		return false
	}
	fresh := false
	ast.Inspect(cs.in.body, func(n ast.Node) bool {
		if as, ok := n.(*ast.AssignStmt); ok && len(as.Lhs) == len(as.Rhs) {
			for i, l := range as.Lhs {
				if objOf(info, l) != o {
					continue
				}
				if litOf(as.Rhs[i]) != nil {
					fresh = true
				}
				if c, isC := unparen(as.Rhs[i]).(*ast.CallExpr); isC && isFreshConstructorCall(info, c) {
					fresh = true
				}
			}
		}
		return true
	})
	if !fresh {
		return false
	}
	if la.escapes == nil {
		la.escapes = map[*unit]*Sol{}
	}
	sol := la.escapes[cs.in]
	if sol == nil {
		sol = freshEscapes(cs.in)
		la.escapes[cs.in] = sol
	}
	return !sol.Before[cs.node].Has("esc:" + o.Name())
}
