package main

import (
	"bytes"
	"fmt"
	"go/ast"
	"go/format"
	"go/parser"
	"go/printer"
	"go/token"
	"go/types"
	"os"
	"os/exec"
	"path/filepath"
	"sort"
	"strings"

	"golang.org/x/tools/go/packages"
	"golang.org/x/tools/imports"
)

// Wrapper flattening.
//
// A maintainer may move a table of one of the shared structs and the lock that
// guards it into a small unexported struct with methods:
//
//	type scopeSet struct { mu sync.Mutex; table map[*scope]struct{} }
//	func (t *scopeSet) add(m *scope) bool { … }      s.children.add(child)
//
// The rules name the table and its lock as fields of the owner (scope.children,
// scope.childrenMu). Rather than teaching every rule to see through such a
// type, the analysed copy of the source is rewritten - only when such a type is
// present - into the equivalent program without it: the wrapper's fields become
// fields of the owner (children_mu, children_table), each of its methods becomes
// a private method of the owner per wrapped field (children_add), and calls,
// field accesses and composite literals are rewritten accordingly. What remains
// are private helper methods of the owner, which the rules already follow. The
// rewriting is purely syntactic (same statements, same order, same locks); it is
// applied to a scratch copy, type-checked again by the normal loader, and
// refused (the original is analysed, with its honest UNDECIDED) whenever a use
// of the wrapper type falls outside the recognised shapes.

var flattenOwners = map[string][]string{
	"": {"scope", "provider", "collection"},
	"/internal/reflection": {"Analyzer"},
	"/internal/graph":      {"DependencyGraph"},
}

type wrapUse struct {
	owner    *types.Named
	field    *types.Var
	wtype    *types.Named
	embedded bool // an embedded method-less struct that only groups fields of its owner(s)
}

var scratchDirs []string

func cleanupScratch() {
	if os.Getenv("GODICHECK_KEEP_FLAT") != "" {
		for _, d := range scratchDirs {
			fmt.Println("NOTE kept " + d)
		}
		return
	}
	for _, d := range scratchDirs {
		os.RemoveAll(d)
	}
}

// flattenWrappers returns the root of a rewritten scratch copy and the names of
// the flattened types, or "" when there is nothing to flatten (or it is refused).
func flattenWrappers(w *World) (string, []string, string) {
	var uses []wrapUse
	byPkg := map[*packages.Package][]wrapUse{}
	for _, p := range []*packages.Package{w.Godi, w.Refl, w.Graph} {
		suffix := strings.TrimPrefix(p.PkgPath, modPath)
		for _, on := range flattenOwners[suffix] {
			obj := p.Types.Scope().Lookup(on)
			if obj == nil {
				continue
			}
			named, _ := obj.Type().(*types.Named)
			if named == nil {
				continue
			}
			st, ok := named.Underlying().(*types.Struct)
			if !ok {
				continue
			}
			for i := 0; i < st.NumFields(); i++ {
				f := st.Field(i)
				wn, _ := f.Type().(*types.Named) // by value only
				if wn == nil || wn.Obj().Pkg() != p.Types || wn.Obj().Exported() {
					continue
				}
				wst, ok := wn.Underlying().(*types.Struct)
				if !ok {
					continue
				}
				if f.Embedded() {
					// grouping struct: no methods, its fields are promoted
					if wn.NumMethods() == 0 {
						u := wrapUse{named, f, wn, true}
						uses = append(uses, u)
						byPkg[p] = append(byPkg[p], u)
					}
					continue
				}
				if wn.NumMethods() == 0 {
					continue
				}
				hasSync := false
				for j := 0; j < wst.NumFields(); j++ {
					if isSyncType(wst.Field(j).Type()) {
						hasSync = true
					}
				}
				if !hasSync {
					continue
				}
				u := wrapUse{named, f, wn, false}
				uses = append(uses, u)
				byPkg[p] = append(byPkg[p], u)
			}
		}
	}
	if len(uses) == 0 {
		return "", nil, ""
	}
	var names []string
	seen := map[string]bool{}
	for _, u := range uses {
		if !seen[u.wtype.Obj().Name()] {
			seen[u.wtype.Obj().Name()] = true
			names = append(names, u.wtype.Obj().Name())
		}
	}
	sort.Strings(names)
	dir, err := os.MkdirTemp("", "godicheck-flat-")
	if err != nil {
		return "", names, "no scratch directory: " + err.Error()
	}
	scratchDirs = append(scratchDirs, dir)
	if out, err := exec.Command("cp", "-a", w.Root+"/.", dir).CombinedOutput(); err != nil {
		return "", names, "copy failed: " + string(out)
	}
	os.RemoveAll(filepath.Join(dir, ".git"))
	for p, us := range byPkg {
		if why := flattenPackage(w, p, us, dir); why != "" {
			return "", names, why
		}
	}
	return dir, names, ""
}

func flattenPackage(w *World, p *packages.Package, uses []wrapUse, outRoot string) string {
	info := p.TypesInfo
	wrappers := map[*types.Named]bool{}
	fieldUse := map[*types.Var]wrapUse{}
	for _, u := range uses {
		wrappers[u.wtype] = true
		fieldUse[u.field] = u
	}
	isWrapper := func(t types.Type) *types.Named {
		if n := namedOf(t); n != nil && wrappers[n] {
			return n
		}
		return nil
	}
	flatName := func(f *types.Var, inner string) string {
		if fieldUse[f].embedded {
			return inner // promoted fields keep their names
		}
		return f.Name() + "_" + inner
	}

	// ---- every mention of a wrapper type must be one of the recognised shapes
	allowed := map[*ast.Ident]bool{}
	var methods = map[*types.Named][]*ast.FuncDecl{}
	var typeSpecs = map[*types.Named]*ast.GenDecl{}
	for _, f := range p.Syntax {
		for _, d := range f.Decls {
			switch x := d.(type) {
			case *ast.FuncDecl:
				if x.Recv != nil && len(x.Recv.List) == 1 {
					if wn := isWrapper(info.TypeOf(x.Recv.List[0].Type)); wn != nil {
						if _, isPtr := x.Recv.List[0].Type.(*ast.StarExpr); !isPtr || len(x.Recv.List[0].Names) != 1 {
							return "method " + x.Name.Name + " of " + wn.Obj().Name() + " has a value or unnamed receiver"
						}
						methods[wn] = append(methods[wn], x)
						ast.Inspect(x.Recv, func(n ast.Node) bool {
							if id, ok := n.(*ast.Ident); ok {
								allowed[id] = true
							}
							return true
						})
					}
				}
			case *ast.GenDecl:
				for _, sp := range x.Specs {
					if ts, ok := sp.(*ast.TypeSpec); ok {
						if wn := isWrapper(info.Defs[ts.Name].Type()); wn != nil {
							if len(x.Specs) != 1 {
								return "type " + ts.Name.Name + " is declared in a group"
							}
							typeSpecs[wn] = x
							allowed[ts.Name] = true
						}
						// the owner's field declaration
						if st, ok := ts.Type.(*ast.StructType); ok {
							for _, fl := range st.Fields.List {
								if isWrapper(info.TypeOf(fl.Type)) != nil {
									if id, ok := fl.Type.(*ast.Ident); ok {
										allowed[id] = true
									}
								}
							}
						}
					}
				}
			}
		}
		// composite literals W{…} that initialise an owner's field
		ast.Inspect(f, func(n ast.Node) bool {
			if kv, ok := n.(*ast.KeyValueExpr); ok {
				if cl, ok := kv.Value.(*ast.CompositeLit); ok {
					if id, ok := cl.Type.(*ast.Ident); ok && isWrapper(info.TypeOf(cl)) != nil {
						if key, ok := kv.Key.(*ast.Ident); ok {
							if fv, ok := info.Uses[key].(*types.Var); ok {
								if _, isOwnerField := fieldUse[fv]; isOwnerField {
									allowed[id] = true
								}
							}
						}
					}
				}
			}
			return true
		})
	}
	for id, o := range info.Uses {
		if tn, ok := o.(*types.TypeName); ok {
			if n, _ := tn.Type().(*types.Named); n != nil && wrappers[n] && !allowed[id] {
				return fmt.Sprintf("the type %s is mentioned at %s outside its declaration, its methods' receivers and the owner's field", tn.Name(), w.Pos(id.Pos()))
			}
		}
	}

	// ---- rewrite uses of the owner's wrapper-typed fields
	refused := ""
	refuse := func(pos token.Pos, why string) {
		if refused == "" {
			refused = why + " at " + w.Pos(pos)
		}
	}
	handled := map[*ast.SelectorExpr]bool{}
	for _, f := range p.Syntax {
		// skip the wrapper's own methods (they are regenerated)
		ast.Inspect(f, func(n ast.Node) bool {
			if fd, ok := n.(*ast.FuncDecl); ok && fd.Recv != nil && len(fd.Recv.List) == 1 && isWrapper(info.TypeOf(fd.Recv.List[0].Type)) != nil {
				return false
			}
			switch x := n.(type) {
			case *ast.SelectorExpr:
				// X.f.inner  (field or method of the wrapper, reached through an owner's field)
				inner, ok := x.X.(*ast.SelectorExpr)
				if !ok {
					return true
				}
				fv := plainFieldOf(info, inner)
				u, isW := fieldUse[fv]
				if fv == nil || !isW {
					return true
				}
				_ = u
				handled[inner] = true
				x.X = inner.X
				x.Sel = ast.NewIdent(flatName(fv, x.Sel.Name))
				return true
			case *ast.CompositeLit:
				// S{…, f: W{a: x, b: y}, …}  ->  S{…, f_a: x, f_b: y, …}
				var elts []ast.Expr
				changed := false
				for _, el := range x.Elts {
					kv, ok := el.(*ast.KeyValueExpr)
					if !ok {
						elts = append(elts, el)
						continue
					}
					key, ok := kv.Key.(*ast.Ident)
					if !ok {
						elts = append(elts, el)
						continue
					}
					fv, _ := info.Uses[key].(*types.Var)
					if _, isW := fieldUse[fv]; !isW {
						elts = append(elts, el)
						continue
					}
					cl, ok := kv.Value.(*ast.CompositeLit)
					if !ok {
						refuse(kv.Pos(), "the wrapper-typed field "+key.Name+" is initialised with something else than a composite literal")
						elts = append(elts, el)
						continue
					}
					changed = true
					for _, ie := range cl.Elts {
						ikv, ok := ie.(*ast.KeyValueExpr)
						if !ok {
							refuse(ie.Pos(), "positional composite literal of the wrapper type")
							continue
						}
						ik, _ := ikv.Key.(*ast.Ident)
						if ik == nil {
							refuse(ie.Pos(), "unexpected key in the wrapper's literal")
							continue
						}
						elts = append(elts, &ast.KeyValueExpr{Key: ast.NewIdent(flatName(fv, ik.Name)), Value: ikv.Value})
					}
				}
				if changed {
					x.Elts = elts
				}
			}
			return true
		})
	}
	// any remaining plain use of an owner's wrapper-typed field (passed around, address taken, assigned)
	for _, f := range p.Syntax {
		ast.Inspect(f, func(n ast.Node) bool {
			if fd, ok := n.(*ast.FuncDecl); ok && fd.Recv != nil && len(fd.Recv.List) == 1 && isWrapper(info.TypeOf(fd.Recv.List[0].Type)) != nil {
				return false
			}
			if sel, ok := n.(*ast.SelectorExpr); ok && !handled[sel] {
				if fv := plainFieldOf(info, sel); fv != nil {
					if _, isW := fieldUse[fv]; isW {
						refuse(sel.Pos(), "the wrapper-typed field "+fv.Name()+" is used as a value (not through one of its methods or fields)")
					}
				}
			}
			return true
		})
	}
	if refused != "" {
		return refused
	}

	// ---- the owner's struct declaration: replace the field by the wrapper's fields
	for _, f := range p.Syntax {
		ast.Inspect(f, func(n ast.Node) bool {
			st, ok := n.(*ast.StructType)
			if !ok {
				return true
			}
			var fields []*ast.Field
			for _, fl := range st.Fields.List {
				wn := isWrapper(info.TypeOf(fl.Type))
				if wn == nil {
					fields = append(fields, fl)
					continue
				}
				if len(fl.Names) == 0 {
					// embedded grouping struct: its fields take its place
					id, _ := fl.Type.(*ast.Ident)
					var fv *types.Var
					if id != nil {
						fv, _ = info.Defs[id].(*types.Var)
					}
					gd := typeSpecs[wn]
					if u, isW := fieldUse[fv]; !isW || !u.embedded || gd == nil {
						refuse(fl.Pos(), "an embedded struct of the repository outside the shared owners")
						fields = append(fields, fl)
						continue
					}
					wst := gd.Specs[0].(*ast.TypeSpec).Type.(*ast.StructType)
					for _, wf := range wst.Fields.List {
						if len(wf.Names) == 0 {
							refuse(wf.Pos(), "the grouping struct embeds another type")
						}
						fields = append(fields, &ast.Field{Names: wf.Names, Type: wf.Type})
					}
					continue
				}
				gd := typeSpecs[wn]
				if gd == nil {
					refuse(fl.Pos(), "declaration of the wrapper type not found")
					fields = append(fields, fl)
					continue
				}
				wst := gd.Specs[0].(*ast.TypeSpec).Type.(*ast.StructType)
				for _, name := range fl.Names {
					fv, _ := info.Defs[name].(*types.Var)
					if _, isW := fieldUse[fv]; !isW {
						refuse(fl.Pos(), "a wrapper-typed field of a struct that is not one of the shared owners")
						continue
					}
					for _, wf := range wst.Fields.List {
						for _, wname := range wf.Names {
							fields = append(fields, &ast.Field{Names: []*ast.Ident{ast.NewIdent(flatName(fv, wname.Name))}, Type: wf.Type})
						}
						if len(wf.Names) == 0 {
							refuse(wf.Pos(), "the wrapper type embeds another type")
						}
					}
				}
			}
			st.Fields.List = fields
			return true
		})
	}
	if refused != "" {
		return refused
	}

	// ---- regenerate the wrapper's methods as methods of the owner, once per wrapped field
	gen := map[*ast.File][]string{}
	fileOf := func(pos token.Pos) *ast.File {
		for _, f := range p.Syntax {
			if f.Pos() <= pos && pos <= f.End() {
				return f
			}
		}
		return nil
	}
	for wn, ms := range methods {
		wst := wn.Underlying().(*types.Struct)
		fieldNames := map[string]bool{}
		for i := 0; i < wst.NumFields(); i++ {
			fieldNames[wst.Field(i).Name()] = true
		}
		methodNames := map[string]bool{}
		for i := 0; i < wn.NumMethods(); i++ {
			methodNames[wn.Method(i).Name()] = true
		}
		for _, u := range uses {
			if u.wtype != wn {
				continue
			}
			for _, m := range ms {
				var buf bytes.Buffer
				if err := printer.Fprint(&buf, w.Fset, m); err != nil {
					return "printing method " + m.Name.Name + ": " + err.Error()
				}
				src := "package x\n" + buf.String()
				fset := token.NewFileSet()
				pf, err := parser.ParseFile(fset, "m.go", src, parser.ParseComments)
				if err != nil {
					return "re-parsing method " + m.Name.Name + ": " + err.Error()
				}
				fd := pf.Decls[0].(*ast.FuncDecl)
				recv := fd.Recv.List[0].Names[0].Name
				// the receiver name must not be re-declared in the body
				shadow := false
				ast.Inspect(fd.Body, func(n ast.Node) bool {
					switch s := n.(type) {
					case *ast.AssignStmt:
						if s.Tok == token.DEFINE {
							for _, l := range s.Lhs {
								if id, ok := l.(*ast.Ident); ok && id.Name == recv {
									shadow = true
								}
							}
						}
					case *ast.ValueSpec:
						for _, nm := range s.Names {
							if nm.Name == recv {
								shadow = true
							}
						}
					case *ast.FuncLit:
						for _, fl := range s.Type.Params.List {
							for _, nm := range fl.Names {
								if nm.Name == recv {
									shadow = true
								}
							}
						}
					case *ast.RangeStmt:
						for _, e := range []ast.Expr{s.Key, s.Value} {
							if id, ok := e.(*ast.Ident); ok && id.Name == recv && s.Tok == token.DEFINE {
								shadow = true
							}
						}
					}
					return true
				})
				if shadow {
					return "the receiver name of " + m.Name.Name + " is re-declared in its body"
				}
				bad := ""
				ast.Inspect(fd.Body, func(n ast.Node) bool {
					switch x := n.(type) {
					case *ast.SelectorExpr:
						if id, ok := x.X.(*ast.Ident); ok && id.Name == recv {
							if fieldNames[x.Sel.Name] || methodNames[x.Sel.Name] {
								x.Sel = ast.NewIdent(flatName(u.field, x.Sel.Name))
							}
							return false
						}
					case *ast.Ident:
						if x.Name == recv {
							bad = "the receiver of " + m.Name.Name + " is used as a value"
						}
					}
					return true
				})
				if bad != "" {
					return bad
				}
				fd.Recv.List[0].Type = &ast.StarExpr{X: ast.NewIdent(u.owner.Obj().Name())}
				fd.Name = ast.NewIdent(flatName(u.field, fd.Name.Name))
				fd.Doc = nil
				var out bytes.Buffer
				if err := printer.Fprint(&out, fset, fd); err != nil {
					return "printing generated method: " + err.Error()
				}
				f := fileOf(m.Pos())
				gen[f] = append(gen[f], out.String())
			}
		}
	}
	// ---- drop the wrapper's declarations and write the files
	for _, f := range p.Syntax {
		var decls []ast.Decl
		for _, d := range f.Decls {
			switch x := d.(type) {
			case *ast.FuncDecl:
				if x.Recv != nil && len(x.Recv.List) == 1 && isWrapper(info.TypeOf(x.Recv.List[0].Type)) != nil {
					continue
				}
			case *ast.GenDecl:
				drop := false
				for _, gd := range typeSpecs {
					if gd == x {
						drop = true
					}
				}
				if drop {
					continue
				}
			}
			decls = append(decls, d)
		}
		f.Decls = decls
		// comments attached to removed/rewritten nodes would be misplaced: drop free-floating comments
		f.Comments = nil
		var buf bytes.Buffer
		if err := printer.Fprint(&buf, w.Fset, f); err != nil {
			return "printing " + w.Pos(f.Pos()) + ": " + err.Error()
		}
		for _, g := range gen[f] {
			buf.WriteString("\n\n" + g + "\n")
		}
		src, err := format.Source(buf.Bytes())
		if err != nil {
			return "formatting the rewritten " + w.Pos(f.Pos()) + ": " + err.Error()
		}
		name := w.Fset.Position(f.Pos()).Filename
		// the moved declarations change which imports each file needs
		if fixed, ierr := imports.Process(name, src, &imports.Options{Comments: true, TabIndent: true, TabWidth: 8}); ierr == nil {
			src = fixed
		}
		rel, err := filepath.Rel(w.Root, name)
		if err != nil {
			return err.Error()
		}
		if err := os.WriteFile(filepath.Join(outRoot, rel), src, 0o644); err != nil {
			return err.Error()
		}
	}
	return ""
}

// inlineBuildTail: Build's pipeline split in two (`doBuild` validates, then
// `return sc.createProvider(ctx, g, all)` allocates the provider, creates the
// singletons and runs the initializers). The pipeline rules are written for one
// function; the analysed copy gets the tail call replaced by the callee's body
// (parameters bound to the argument identifiers), which is the program the
// split was made from. Refused unless the call is the last statement of the
// caller, a method of the same receiver, with identifier arguments, and the
// callee has no other caller and no named results.
func inlineBuildTail(w *World) (string, string, string) {
	ro := resolveRoles(w)
	caller, cal := ro.doBuild, ro.allocProvider
	if caller == nil || cal == nil || caller == cal || caller.Pkg != cal.Pkg {
		return "", "", ""
	}
	info := caller.Pkg.TypesInfo
	body := caller.Decl.Body
	if len(body.List) == 0 {
		return "", "", ""
	}
	ret, ok := body.List[len(body.List)-1].(*ast.ReturnStmt)
	if !ok || len(ret.Results) != 1 {
		return "", "", ""
	}
	call, ok := unparen(ret.Results[0]).(*ast.CallExpr)
	if !ok || callee(info, call) != cal.Obj {
		return "", "", ""
	}
	name := cal.Name()
	if len(w.Callers()[cal]) != 1 {
		return "", name, "it has other callers"
	}
	if cal.Decl.Type.Results != nil {
		for _, fl := range cal.Decl.Type.Results.List {
			if len(fl.Names) > 0 {
				return "", name, "it has named results"
			}
		}
	}
	var binds []string
	used := func(o types.Object) bool { return usesObj(info, cal.Decl.Body, o) }
	if cal.Decl.Recv != nil {
		rcv, _, isM := methodCall(call)
		if !isM || caller.Decl.Recv == nil || len(cal.Decl.Recv.List[0].Names) != 1 {
			return "", name, "receiver shape"
		}
		rid, isId := unparen(rcv).(*ast.Ident)
		if !isId {
			return "", name, "the receiver of the call is not an identifier"
		}
		cr := cal.Decl.Recv.List[0].Names[0]
		if cr.Name != rid.Name && used(info.Defs[cr]) {
			binds = append(binds, cr.Name+" := "+rid.Name)
		}
	}
	k := 0
	for _, fl := range cal.Decl.Type.Params.List {
		for _, nm := range fl.Names {
			if k >= len(call.Args) {
				return "", name, "argument count"
			}
			aid, isId := unparen(call.Args[k]).(*ast.Ident)
			if !isId {
				return "", name, "an argument is not an identifier"
			}
			if nm.Name != aid.Name && nm.Name != "_" && used(info.Defs[nm]) {
				binds = append(binds, nm.Name+" := "+aid.Name)
			}
			k++
		}
	}
	dir, err := os.MkdirTemp("", "godicheck-flat-")
	if err != nil {
		return "", name, err.Error()
	}
	scratchDirs = append(scratchDirs, dir)
	if out, err := exec.Command("cp", "-a", w.Root+"/.", dir).CombinedOutput(); err != nil {
		return "", name, "copy failed: " + string(out)
	}
	os.RemoveAll(filepath.Join(dir, ".git"))
	type edit struct {
		start, end int
		text       string
	}
	edits := map[string][]edit{}
	off := func(p token.Pos) (string, int) {
		ps := w.Fset.Position(p)
		return ps.Filename, ps.Offset
	}
	// the callee's body text (between its braces)
	cf, cs := off(cal.Decl.Body.Lbrace)
	_, ce := off(cal.Decl.Body.Rbrace)
	src, err := os.ReadFile(cf)
	if err != nil {
		return "", name, err.Error()
	}
	inner := string(src[cs+1 : ce])
	repl := "{\n" + strings.Join(binds, "\n") + "\n" + inner + "\n}"
	rf, rs := off(ret.Pos())
	_, re := off(ret.End())
	edits[rf] = append(edits[rf], edit{rs, re, repl})
	ds := cal.Decl.Pos()
	if cal.Decl.Doc != nil {
		ds = cal.Decl.Doc.Pos()
	}
	df, dso := off(ds)
	_, deo := off(cal.Decl.End())
	edits[df] = append(edits[df], edit{dso, deo, ""})
	for file, es := range edits {
		b, err := os.ReadFile(file)
		if err != nil {
			return "", name, err.Error()
		}
		sort.Slice(es, func(i, j int) bool { return es[i].start > es[j].start })
		for _, e := range es {
			b = append(append(append([]byte{}, b[:e.start]...), []byte(e.text)...), b[e.end:]...)
		}
		out, err := format.Source(b)
		if err != nil {
			return "", name, "formatting the inlined " + file + ": " + err.Error()
		}
		rel, err := filepath.Rel(w.Root, file)
		if err != nil {
			return "", name, err.Error()
		}
		if err := os.WriteFile(filepath.Join(dir, rel), out, 0o644); err != nil {
			return "", name, err.Error()
		}
	}
	return dir, name, ""
}

// inlineBuildHead: the head of Build's pipeline (graph fill and cycle check)
// extracted into a private helper
//
//	g, err := sc.dependencyGraph(all)
//	if err != nil { return nil, err }
//
// is inlined in a scratch copy, so that the pipeline rules see fill, cycle
// check, validation and provider allocation in one function again. Only the
// plain shape is handled: one caller, results (T, error) unnamed, the helper's
// last statement is its only success return `return X, nil`, every other return
// is `return <zero>, E`, and the call site propagates the error unchanged.
func inlineBuildHead(w *World) (string, string, string) {
	ro := resolveRoles(w)
	h := ro.cycleHelper
	if h == nil || ro.doBuild == nil || h == ro.doBuild {
		return "", "", ""
	}
	name := h.Name()
	callers := w.Callers()[h]
	// the helper is inlined into the build function; other callers (a Validate dry run that
	// shares the helper) keep calling the declaration, which then stays in the copy
	b := ro.doBuild
	if !callers[b] || b.Pkg != h.Pkg || b == h {
		return "", name, "caller shape"
	}
	keepDecl := len(callers) > 1
	info := b.Pkg.TypesInfo
	// results of the helper
	res := h.Decl.Type.Results
	if res == nil || len(res.List) != 2 || len(res.List[0].Names) != 0 || len(res.List[1].Names) != 0 {
		return "", name, "its results are not an unnamed (T, error)"
	}
	// the call site: `v, err := recv.h(args)` directly followed by `if err != nil { return …, err }`
	var parent *ast.BlockStmt
	idx := -1
	var call *ast.CallExpr
	var asg *ast.AssignStmt
	ast.Inspect(b.Decl.Body, func(x ast.Node) bool {
		blk, ok := x.(*ast.BlockStmt)
		if !ok {
			return true
		}
		for i, st := range blk.List {
			as, ok := st.(*ast.AssignStmt)
			if !ok || len(as.Rhs) != 1 || len(as.Lhs) != 2 || as.Tok != token.DEFINE {
				continue
			}
			c, ok := unparen(as.Rhs[0]).(*ast.CallExpr)
			if ok && callee(info, c) == h.Obj {
				parent, idx, call, asg = blk, i, c, as
			}
		}
		return true
	})
	if call == nil || idx+1 >= len(parent.List) {
		return "", name, "the call is not of the form `v, err := helper(…)` followed by an error test"
	}
	ifs, ok := parent.List[idx+1].(*ast.IfStmt)
	if !ok || ifs.Init != nil || ifs.Else != nil || len(ifs.Body.List) != 1 {
		return "", name, "the call is not followed by a plain error test"
	}
	vID, ok1 := asg.Lhs[0].(*ast.Ident)
	eID, ok2 := asg.Lhs[1].(*ast.Ident)
	if !ok1 || !ok2 || vID.Name == "_" {
		return "", name, "left-hand side shape"
	}
	errObj := info.Defs[eID]
	be, ok := unparen(ifs.Cond).(*ast.BinaryExpr)
	if !ok || be.Op != token.NEQ || objOf(info, be.X) != errObj || !isNilIdent(info, be.Y) {
		return "", name, "the call is not followed by `if err != nil`"
	}
	pret, ok := ifs.Body.List[0].(*ast.ReturnStmt)
	if !ok || len(pret.Results) < 1 || objOf(info, pret.Results[len(pret.Results)-1]) != errObj {
		return "", name, "the error of the helper is not returned unchanged"
	}
	var zeros []string
	for _, z := range pret.Results[:len(pret.Results)-1] {
		zeros = append(zeros, exprStr(z))
	}
	// later uses of err in the caller need a declaration
	needErr := false
	for _, st := range parent.List[idx+2:] {
		if errObj != nil && usesObj(info, st, errObj) {
			needErr = true
		}
	}
	// the helper's body: last statement is the success return; the others are error returns
	hb := h.Decl.Body
	if len(hb.List) == 0 {
		return "", name, "empty helper"
	}
	last, ok := hb.List[len(hb.List)-1].(*ast.ReturnStmt)
	if !ok || len(last.Results) != 2 || !isNilIdent(h.Pkg.TypesInfo, last.Results[1]) {
		return "", name, "the helper does not end in `return X, nil`"
	}
	type edit struct {
		start, end int
		text       string
	}
	off := func(p token.Pos) (string, int) {
		ps := w.Fset.Position(p)
		return ps.Filename, ps.Offset
	}
	hf, hs := off(hb.Lbrace)
	bad := ""
	var inner []edit
	ast.Inspect(hb, func(x ast.Node) bool {
		if _, isLit := x.(*ast.FuncLit); isLit {
			return false
		}
		r, ok := x.(*ast.ReturnStmt)
		if !ok || r == last {
			return true
		}
		if len(r.Results) != 2 || isNilIdent(h.Pkg.TypesInfo, r.Results[1]) {
			bad = "it has another success return (or a bare return)"
			return true
		}
		_, s := off(r.Pos())
		_, e := off(r.End())
		inner = append(inner, edit{s, e, "return " + strings.Join(append(append([]string{}, zeros...), exprStr(r.Results[1])), ", ")})
		return true
	})
	if bad != "" {
		return "", name, bad
	}
	// the error expressions are re-printed from the AST: only simple ones are safe that way
	src, err := os.ReadFile(hf)
	if err != nil {
		return "", name, err.Error()
	}
	// rewrite the error returns with their original text for the error operand
	for i := range inner {
		_ = i
	}
	inner = inner[:0]
	ast.Inspect(hb, func(x ast.Node) bool {
		if _, isLit := x.(*ast.FuncLit); isLit {
			return false
		}
		r, ok := x.(*ast.ReturnStmt)
		if !ok || r == last {
			return true
		}
		_, s := off(r.Pos())
		_, es := off(r.Results[1].Pos())
		_, ee := off(r.Results[1].End())
		_, e := off(r.End())
		inner = append(inner, edit{s, e, "return " + strings.Join(append(append([]string{}, zeros...), string(src[es:ee])), ", ")})
		return true
	})
	_, ls := off(last.Pos())
	_, le := off(last.End())
	_, xs := off(last.Results[0].Pos())
	_, xe := off(last.Results[0].End())
	inner = append(inner, edit{ls, le, vID.Name + " = " + string(src[xs:xe])})
	_, he := off(hb.Rbrace)
	body := append([]byte{}, src[hs+1:he]...)
	sort.Slice(inner, func(i, j int) bool { return inner[i].start > inner[j].start })
	for _, e := range inner {
		s, en := e.start-(hs+1), e.end-(hs+1)
		body = append(append(append([]byte{}, body[:s]...), []byte(e.text)...), body[en:]...)
	}
	// bindings of receiver and parameters
	var binds []string
	hinfo := h.Pkg.TypesInfo
	used := func(o types.Object) bool { return usesObj(hinfo, hb, o) }
	if h.Decl.Recv != nil {
		rcv, _, isM := methodCall(call)
		if !isM || len(h.Decl.Recv.List[0].Names) != 1 {
			return "", name, "receiver shape"
		}
		rid, isId := unparen(rcv).(*ast.Ident)
		if !isId {
			return "", name, "the receiver of the call is not an identifier"
		}
		cr := h.Decl.Recv.List[0].Names[0]
		if cr.Name != rid.Name && used(hinfo.Defs[cr]) {
			binds = append(binds, cr.Name+" := "+rid.Name)
		}
	}
	k := 0
	for _, fl := range h.Decl.Type.Params.List {
		for _, nm := range fl.Names {
			if k >= len(call.Args) {
				return "", name, "argument count"
			}
			aid, isId := unparen(call.Args[k]).(*ast.Ident)
			if !isId {
				return "", name, "an argument is not an identifier"
			}
			if nm.Name != aid.Name && nm.Name != "_" && used(hinfo.Defs[nm]) {
				binds = append(binds, nm.Name+" := "+aid.Name)
			}
			k++
		}
	}
	_, ts := off(res.List[0].Type.Pos())
	_, te := off(res.List[0].Type.End())
	decl := "var " + vID.Name + " " + string(src[ts:te]) + "\n"
	if needErr {
		decl += "var " + eID.Name + " error\n_ = " + eID.Name + "\n"
	}
	repl := decl + "{\n" + strings.Join(binds, "\n") + "\n" + string(body) + "\n}"
	dir, err := os.MkdirTemp("", "godicheck-flat-")
	if err != nil {
		return "", name, err.Error()
	}
	scratchDirs = append(scratchDirs, dir)
	if out, err := exec.Command("cp", "-a", w.Root+"/.", dir).CombinedOutput(); err != nil {
		return "", name, "copy failed: " + string(out)
	}
	os.RemoveAll(filepath.Join(dir, ".git"))
	edits := map[string][]edit{}
	rf, rs := off(asg.Pos())
	_, re := off(ifs.End())
	edits[rf] = append(edits[rf], edit{rs, re, repl})
	if !keepDecl {
		ds := h.Decl.Pos()
		if h.Decl.Doc != nil {
			ds = h.Decl.Doc.Pos()
		}
		df, dso := off(ds)
		_, deo := off(h.Decl.End())
		edits[df] = append(edits[df], edit{dso, deo, ""})
	}
	for file, es := range edits {
		bts, err := os.ReadFile(file)
		if err != nil {
			return "", name, err.Error()
		}
		sort.Slice(es, func(i, j int) bool { return es[i].start > es[j].start })
		for _, e := range es {
			bts = append(append(append([]byte{}, bts[:e.start]...), []byte(e.text)...), bts[e.end:]...)
		}
		out, err := format.Source(bts)
		if err != nil {
			return "", name, "formatting the inlined " + file + ": " + err.Error()
		}
		if fixed, ierr := imports.Process(file, out, &imports.Options{Comments: true, TabIndent: true, TabWidth: 8}); ierr == nil {
			out = fixed
		}
		rel, err := filepath.Rel(w.Root, file)
		if err != nil {
			return "", name, err.Error()
		}
		if err := os.WriteFile(filepath.Join(dir, rel), out, 0o644); err != nil {
			return "", name, err.Error()
		}
	}
	return dir, name, ""
}

// inlineLockClosures: `withLock(&p.mu, func() { BODY })` and `s.withTable(func() {
// BODY })`, where the helper is exactly lock / (deferred) unlock / call of its
// func() parameter, are rewritten in a scratch copy to
//
//	{ p.mu.Lock(); BODY; p.mu.Unlock() }
//
// so that the rules about critical sections read them as they read the plain
// form. Only statement calls with a literal that has no parameters, no results
// and no return statement are rewritten; anything else is left as written (the
// lockset of the literal is still computed, see callbackLocks).
func inlineLockClosures(w *World) (string, []string, string) {
	type helper struct {
		fi       *FuncInfo
		fnIdx    int    // index of the func() parameter
		lockIdx  int    // index of the lock parameter, or -1 when the lock is a field of the receiver
		lockPath string // receiver-relative path ("instancesMu"), for lockIdx < 0
		lockOp   string // Lock | RLock
		unlockOp string
	}
	helpers := map[*types.Func]*helper{}
	for _, fi := range w.AllFuncs() {
		if fi.Decl.Body == nil || fi.Obj.Exported() {
			continue
		}
		body := fi.Decl.Body.List
		if len(body) != 3 {
			continue
		}
		info := fi.Pkg.TypesInfo
		// the func() parameter
		fnIdx, k := -1, 0
		var fnObj types.Object
		var params []types.Object
		for _, fl := range fi.Decl.Type.Params.List {
			for _, nm := range fl.Names {
				o := info.Defs[nm]
				params = append(params, o)
				if sig, ok := o.Type().Underlying().(*types.Signature); ok && sig.Params().Len() == 0 && sig.Results().Len() == 0 {
					fnIdx, fnObj = k, o
				}
				k++
			}
		}
		if fnIdx < 0 || (fi.Decl.Type.Results != nil && len(fi.Decl.Type.Results.List) > 0) {
			continue
		}
		lockCall := func(st ast.Stmt, deferred bool) (recv ast.Expr, op string, ok bool) {
			var c *ast.CallExpr
			switch s := st.(type) {
			case *ast.ExprStmt:
				if deferred {
					return nil, "", false
				}
				c, _ = s.X.(*ast.CallExpr)
			case *ast.DeferStmt:
				if !deferred {
					return nil, "", false
				}
				c = s.Call
			}
			if c == nil || len(c.Args) != 0 {
				return nil, "", false
			}
			sel, isSel := unparen(c.Fun).(*ast.SelectorExpr)
			if !isSel {
				return nil, "", false
			}
			switch sel.Sel.Name {
			case "Lock", "RLock", "Unlock", "RUnlock":
				return sel.X, sel.Sel.Name, true
			}
			return nil, "", false
		}
		callsFn := func(st ast.Stmt) bool {
			es, ok := st.(*ast.ExprStmt)
			if !ok {
				return false
			}
			c, ok := es.X.(*ast.CallExpr)
			return ok && len(c.Args) == 0 && objOf(info, c.Fun) == fnObj
		}
		l0, op0, ok0 := lockCall(body[0], false)
		if !ok0 || (op0 != "Lock" && op0 != "RLock") {
			continue
		}
		var unlockOp string
		switch {
		case callsFn(body[2]): // lock; defer unlock; fn()
			l1, op1, ok1 := lockCall(body[1], true)
			if !ok1 || exprStr(l1) != exprStr(l0) {
				continue
			}
			unlockOp = op1
		case callsFn(body[1]): // lock; fn(); unlock
			l2, op2, ok2 := lockCall(body[2], false)
			if !ok2 || exprStr(l2) != exprStr(l0) {
				continue
			}
			unlockOp = op2
		default:
			continue
		}
		if (op0 == "Lock") != (unlockOp == "Unlock") {
			continue
		}
		h := &helper{fi: fi, fnIdx: fnIdx, lockIdx: -1, lockOp: op0, unlockOp: unlockOp}
		root := rootIdent(l0)
		if root == nil {
			continue
		}
		ro := info.ObjectOf(root)
		found := false
		for i, p := range params {
			if p == ro && exprStr(l0) == root.Name {
				h.lockIdx, found = i, true
			}
		}
		if !found {
			if fi.Decl.Recv == nil || len(fi.Decl.Recv.List[0].Names) != 1 || info.Defs[fi.Decl.Recv.List[0].Names[0]] != ro {
				continue
			}
			h.lockPath = strings.TrimPrefix(exprStr(l0), root.Name+".")
			if h.lockPath == exprStr(l0) {
				continue
			}
		}
		helpers[fi.Obj] = h
	}
	if len(helpers) == 0 {
		return "", nil, ""
	}
	type edit struct {
		start, end int
		text       string
	}
	edits := map[string][]edit{}
	off := func(p token.Pos) (string, int) {
		ps := w.Fset.Position(p)
		return ps.Filename, ps.Offset
	}
	srcOf := map[string][]byte{}
	text := func(a, b token.Pos) string {
		f, s := off(a)
		_, e := off(b)
		if srcOf[f] == nil {
			srcOf[f], _ = os.ReadFile(f)
		}
		return string(srcOf[f][s:e])
	}
	names := map[string]bool{}
	inlined := map[*types.Func]int{}
	for _, fi := range w.AllFuncs() {
		if fi.Decl.Body == nil {
			continue
		}
		info := fi.Pkg.TypesInfo
		ast.Inspect(fi.Decl.Body, func(x ast.Node) bool {
			es, ok := x.(*ast.ExprStmt)
			if !ok {
				return true
			}
			c, ok := es.X.(*ast.CallExpr)
			if !ok {
				return true
			}
			cal := callee(info, c)
			if cal == nil {
				return true
			}
			if o := cal.Origin(); o != nil {
				cal = o
			}
			h := helpers[cal]
			if h == nil || h.fnIdx >= len(c.Args) {
				return true
			}
			lit, ok := unparen(c.Args[h.fnIdx]).(*ast.FuncLit)
			if !ok {
				return true
			}
			hasRet := false
			ast.Inspect(lit.Body, func(y ast.Node) bool {
				switch y.(type) {
				case *ast.FuncLit:
					return y == ast.Node(lit)
				case *ast.ReturnStmt:
					hasRet = true
				}
				return true
			})
			if hasRet {
				return true
			}
			lockExpr := ""
			if h.lockIdx >= 0 {
				if h.lockIdx >= len(c.Args) {
					return true
				}
				a := unparen(c.Args[h.lockIdx])
				if u, isU := a.(*ast.UnaryExpr); isU && u.Op == token.AND {
					lockExpr = text(u.X.Pos(), u.X.End())
				} else if _, isId := a.(*ast.Ident); isId {
					lockExpr = text(a.Pos(), a.End())
				} else {
					return true
				}
			} else {
				rcv, _, isM := methodCall(c)
				if !isM {
					return true
				}
				lockExpr = text(rcv.Pos(), rcv.End()) + "." + h.lockPath
			}
			inner := text(lit.Body.Lbrace+1, lit.Body.Rbrace)
			repl := "{\n" + lockExpr + "." + h.lockOp + "()\n" + inner + "\n" + lockExpr + "." + h.unlockOp + "()\n}"
			f, s := off(es.Pos())
			_, e := off(es.End())
			edits[f] = append(edits[f], edit{s, e, repl})
			names[h.fi.Name()] = true
			inlined[cal]++
			return false
		})
	}
	if len(edits) == 0 {
		return "", nil, ""
	}
	// a helper all of whose uses were inlined is removed from the copy (what is left of it would
	// be a call through a function value under a lock, with no caller to say what the value is)
	uses := map[*types.Func]int{}
	for _, p := range w.Pkgs {
		for id, o := range p.TypesInfo.Uses {
			_ = id
			if f, ok := o.(*types.Func); ok {
				if of := f.Origin(); of != nil {
					f = of
				}
				if helpers[f] != nil {
					uses[f]++
				}
			}
		}
	}
	for f, h := range helpers {
		if inlined[f] > 0 && uses[f] == inlined[f] {
			ds := h.fi.Decl.Pos()
			if h.fi.Decl.Doc != nil {
				ds = h.fi.Decl.Doc.Pos()
			}
			df, dso := off(ds)
			_, deo := off(h.fi.Decl.End())
			edits[df] = append(edits[df], edit{dso, deo, ""})
		}
	}
	var ns []string
	for n := range names {
		ns = append(ns, n)
	}
	sort.Strings(ns)
	dir, err := os.MkdirTemp("", "godicheck-flat-")
	if err != nil {
		return "", ns, err.Error()
	}
	scratchDirs = append(scratchDirs, dir)
	if out, err := exec.Command("cp", "-a", w.Root+"/.", dir).CombinedOutput(); err != nil {
		return "", ns, "copy failed: " + string(out)
	}
	os.RemoveAll(filepath.Join(dir, ".git"))
	for file, es := range edits {
		b, err := os.ReadFile(file)
		if err != nil {
			return "", ns, err.Error()
		}
		sort.Slice(es, func(i, j int) bool { return es[i].start > es[j].start })
		for i := 1; i < len(es); i++ {
			if es[i].end > es[i-1].start {
				return "", ns, "nested lock closures"
			}
		}
		for _, e := range es {
			b = append(append(append([]byte{}, b[:e.start]...), []byte(e.text)...), b[e.end:]...)
		}
		out, err := format.Source(b)
		if err != nil {
			return "", ns, "formatting " + file + ": " + err.Error()
		}
		if fixed, ierr := imports.Process(file, out, &imports.Options{Comments: true, TabIndent: true, TabWidth: 8}); ierr == nil {
			out = fixed
		}
		rel, err := filepath.Rel(w.Root, file)
		if err != nil {
			return "", ns, err.Error()
		}
		if err := os.WriteFile(filepath.Join(dir, rel), out, 0o644); err != nil {
			return "", ns, err.Error()
		}
	}
	return dir, ns, ""
}

// flattenAnonStructFields: a field whose type is an anonymous struct
// (`cache struct { mu sync.RWMutex; instances map[K]V }`) groups a lock with
// what it guards without giving the group a type. In a scratch copy the inner
// fields become fields of the owner (`cache_mu`, `cache_instances`) and every
// `x.cache.instances` becomes `x.cache_instances`: same storage, same accesses.
// Refused when the group is used as a value anywhere (assigned, passed, its
// address taken, set in a composite literal).
func flattenAnonStructFields(w *World) (string, []string, string) {
	type group struct {
		owner  *types.Named
		field  *types.Var
		astFld *ast.Field
		st     *ast.StructType
		file   *ast.File
		pkg    *packages.Package
	}
	var groups []*group
	byVar := map[*types.Var]*group{}
	for _, p := range []*packages.Package{w.Godi, w.Graph, w.Refl} {
		for _, f := range p.Syntax {
			ast.Inspect(f, func(x ast.Node) bool {
				ts, ok := x.(*ast.TypeSpec)
				if !ok {
					return true
				}
				st, ok := ts.Type.(*ast.StructType)
				if !ok {
					return true
				}
				named, _ := p.TypesInfo.Defs[ts.Name].Type().(*types.Named)
				if named == nil {
					return true
				}
				for _, fld := range st.Fields.List {
					inner, ok := fld.Type.(*ast.StructType)
					if !ok || len(fld.Names) != 1 {
						continue
					}
					v, _ := p.TypesInfo.Defs[fld.Names[0]].(*types.Var)
					if v == nil {
						continue
					}
					g := &group{owner: named, field: v, astFld: fld, st: inner, file: f, pkg: p}
					groups = append(groups, g)
					byVar[v] = g
				}
				return false
			})
		}
	}
	if len(groups) == 0 {
		return "", nil, ""
	}
	var names []string
	for _, g := range groups {
		names = append(names, g.owner.Obj().Name()+"."+g.field.Name())
	}
	sort.Strings(names)
	type edit struct {
		start, end int
		text       string
	}
	edits := map[string][]edit{}
	off := func(p token.Pos) (string, int) {
		ps := w.Fset.Position(p)
		return ps.Filename, ps.Offset
	}
	srcOf := map[string][]byte{}
	text := func(a, b token.Pos) string {
		f, s := off(a)
		_, e := off(b)
		if srcOf[f] == nil {
			srcOf[f], _ = os.ReadFile(f)
		}
		return string(srcOf[f][s:e])
	}
	// uses
	why := ""
	for _, p := range w.Pkgs {
		for _, f := range p.Syntax {
			var stack []ast.Node
			ast.Inspect(f, func(x ast.Node) bool {
				if x == nil {
					stack = stack[:len(stack)-1]
					return true
				}
				stack = append(stack, x)
				switch n := x.(type) {
				case *ast.SelectorExpr:
					fv := plainFieldOf(p.TypesInfo, n)
					g := byVar[fv]
					if g == nil {
						return true
					}
					par, ok := stack[len(stack)-2].(*ast.SelectorExpr)
					if !ok || par.X != ast.Expr(n) {
						why = "the group " + g.owner.Obj().Name() + "." + g.field.Name() + " is used as a value at " + w.Pos(n.Pos())
						return true
					}
					fl, s := off(n.Sel.Pos())
					_, e := off(par.Sel.End())
					edits[fl] = append(edits[fl], edit{s, e, n.Sel.Name + "_" + par.Sel.Name})
				case *ast.KeyValueExpr:
					if id, ok := n.Key.(*ast.Ident); ok {
						if v, isV := p.TypesInfo.Uses[id].(*types.Var); isV && byVar[v] != nil {
							why = "the group " + id.Name + " is set in a composite literal at " + w.Pos(n.Pos())
						}
					}
				}
				return true
			})
		}
	}
	if why != "" {
		return "", names, why
	}
	// declarations
	for _, g := range groups {
		existing := map[string]bool{}
		if st, ok := g.owner.Underlying().(*types.Struct); ok {
			for i := 0; i < st.NumFields(); i++ {
				existing[st.Field(i).Name()] = true
			}
		}
		var lines []string
		for _, in := range g.st.Fields.List {
			if len(in.Names) == 0 {
				return "", names, "an embedded field inside the group " + g.field.Name()
			}
			for _, nm := range in.Names {
				nn := g.field.Name() + "_" + nm.Name
				if existing[nn] {
					return "", names, "name clash for " + nn
				}
				tag := ""
				if in.Tag != nil {
					tag = " " + in.Tag.Value
				}
				lines = append(lines, nn+" "+text(in.Type.Pos(), in.Type.End())+tag)
			}
		}
		fl, s := off(g.astFld.Pos())
		_, e := off(g.astFld.End())
		edits[fl] = append(edits[fl], edit{s, e, strings.Join(lines, "\n")})
	}
	dir, err := os.MkdirTemp("", "godicheck-flat-")
	if err != nil {
		return "", names, err.Error()
	}
	scratchDirs = append(scratchDirs, dir)
	if out, err := exec.Command("cp", "-a", w.Root+"/.", dir).CombinedOutput(); err != nil {
		return "", names, "copy failed: " + string(out)
	}
	os.RemoveAll(filepath.Join(dir, ".git"))
	for file, es := range edits {
		b, err := os.ReadFile(file)
		if err != nil {
			return "", names, err.Error()
		}
		sort.Slice(es, func(i, j int) bool { return es[i].start > es[j].start })
		for _, e := range es {
			b = append(append(append([]byte{}, b[:e.start]...), []byte(e.text)...), b[e.end:]...)
		}
		out, err := format.Source(b)
		if err != nil {
			return "", names, "formatting " + file + ": " + err.Error()
		}
		rel, err := filepath.Rel(w.Root, file)
		if err != nil {
			return "", names, err.Error()
		}
		if err := os.WriteFile(filepath.Join(dir, rel), out, 0o644); err != nil {
			return "", names, err.Error()
		}
	}
	return dir, names, ""
}
