package main

import (
	"go/ast"
	"go/types"
)

// tableOpsIn classifies the operations on a table field inside n in either
// representation: a sync.Map (Store/LoadOrStore/Swap, Load/Range, Delete/…) or
// a plain map (index assignment, index read, delete) - a maintainer may replace
// one by the other together with a lock, and the who-may-write, role and
// tracking rules must not depend on which it is.
func tableOpsIn(info *types.Info, n ast.Node, fv *types.Var) (stores, loads, deletes []ast.Node) {
	if fv == nil || n == nil {
		return
	}
	lhs := map[ast.Expr]bool{}
	ast.Inspect(n, func(x ast.Node) bool {
		switch s := x.(type) {
		case *ast.AssignStmt:
			for _, l := range s.Lhs {
				if ix, ok := unparen(l).(*ast.IndexExpr); ok && fieldOf(info, ix.X) == fv {
					stores = append(stores, s)
					lhs[ix] = true
				}
			}
		case *ast.CallExpr:
			if id, ok := unparen(s.Fun).(*ast.Ident); ok && id.Name == "delete" && len(s.Args) == 2 && fieldOf(info, s.Args[0]) == fv {
				deletes = append(deletes, s)
			}
			if r, name, ok := methodCall(s); ok && fieldOf(info, r) == fv {
				switch name {
				case "Store", "LoadOrStore", "Swap", "CompareAndSwap":
					stores = append(stores, s)
				case "Load", "Range":
					loads = append(loads, s)
				case "Delete", "LoadAndDelete", "CompareAndDelete", "Clear":
					deletes = append(deletes, s)
				}
			}
		case *ast.IndexExpr:
			if fieldOf(info, s.X) == fv && !lhs[s] {
				loads = append(loads, s)
			}
		}
		return true
	})
	return
}
