package main

import (
	"fmt"
	"go/ast"
	"go/token"
	"go/types"

	"golang.org/x/tools/go/cfg"
	"golang.org/x/tools/go/packages"
)

// closeLoop describes a loop that closes the elements of a collection.
type closeLoop struct {
	stmt      ast.Stmt // *ast.RangeStmt or *ast.ForStmt
	coll      types.Object
	dir       string // fwd | rev | map | odd
	dirWhy    string
	closeCall *ast.CallExpr
	kind      string // scope | disposable
	problem   string // non-empty: the body does not close every element
	field     *types.Var
	origin    string       // copy | collect | direct | ""
	errAcc    types.Object // accumulator the close error is appended to (nil if dropped)
	errHow    string
}

func (l *closeLoop) head() token.Pos { return l.stmt.Pos() }

// isCloseCall classifies x.Close() calls: on a *scope, or through an interface
// with a Close() error method (Disposable).
func isCloseCall(info *types.Info, c *ast.CallExpr) (recv ast.Expr, kind string, ok bool) {
	cal := callee(info, c)
	// x.closeWith(rec): the method Close itself delegates to (shared with a second entry) closes like Close
	if cal != nil && cal.Name() != "Close" && theWorld != nil {
		if h := theWorld.Decls[cal]; h != nil && recvNamed(cal) != nil {
			owner := recvNamed(cal).Obj().Name()
			if owner == "scope" || owner == "provider" {
				if cf := theWorld.byName[theWorld.Godi.PkgPath+".(*"+owner+").Close"]; cf != nil && closeDelegate(theWorld, cf) == h {
					if r, _, isM := methodCall(c); isM {
						return r, owner, true
					}
				}
			}
		}
	}
	if cal == nil || cal.Name() != "Close" {
		return nil, "", false
	}
	sig, _ := cal.Type().(*types.Signature)
	if sig == nil || sig.Params().Len() != 0 || sig.Results().Len() != 1 || !isErrorType(sig.Results().At(0).Type()) {
		return nil, "", false
	}
	r, _, isM := methodCall(c)
	if !isM {
		return nil, "", false
	}
	rn := recvNamed(cal)
	if rn != nil && rn.Obj().Name() == "scope" {
		return r, "scope", true
	}
	if rn != nil && rn.Obj().Name() == "provider" {
		return r, "provider", true
	}
	// a container closed through its public interface (provider.Close() on a godi.Provider the caller
	// handed in): what any user of the API may do, not the disposal of an instance
	if st := info.TypeOf(r); st != nil && (isNamedType(st, modPath, "Provider") || isNamedType(st, modPath, "Scope")) {
		return r, "container", true
	}
	if rt := recvTypeOf(cal); rt != nil {
		if _, isIface := rt.Underlying().(*types.Interface); isIface {
			return r, "disposable", true
		}
	}
	return r, "other", true
}

// findCloseLoops finds the loops of a function whose body calls Close on the
// loop's element, and validates traversal scheme and body.
func findCloseLoops(w *World, fi *FuncInfo) []*closeLoop {
	info := fi.Pkg.TypesInfo
	var loops []*closeLoop
	ast.Inspect(fi.Decl.Body, func(n ast.Node) bool {
		st, ok := n.(ast.Stmt)
		if !ok {
			return true
		}
		il := asIterLoop(info, st)
		if il == nil {
			return true
		}
		l := closeLoopBody(info, st, il.Body, il.IsElem)
		if l == nil {
			return true
		}
		l.coll, l.dir, l.dirWhy = il.CollObj, il.Dir, il.DirWhy
		if il.CollObj == nil {
			if fv := fieldOf(info, il.Coll); fv != nil {
				l.field, l.origin = fv, "direct"
			} else if fv, how := exprOrigin(w, fi, il.Coll); fv != nil {
				l.field, l.origin = fv, how // for _, c := range s.drainChildren()
			}
		}
		if _, isFor := st.(*ast.ForStmt); isFor {
			// the body must not modify the index or the collection
			ast.Inspect(il.Body, func(m ast.Node) bool {
				switch x := m.(type) {
				case *ast.AssignStmt:
					for _, lh := range x.Lhs {
						if o := objOf(info, lh); o != nil && (o == il.Index || (il.CollObj != nil && o == il.CollObj)) {
							l.problem = "the loop body assigns to the loop index or the collection"
						}
					}
				case *ast.IncDecStmt:
					if objOf(info, x.X) == il.Index {
						l.problem = "the loop body changes the loop index"
					}
				}
				return true
			})
		}
		loops = append(loops, l)
		return true
	})
	for _, l := range loops {
		if l.coll != nil && l.field == nil {
			l.field, l.origin = localOrigin(w, fi, l.coll)
		}
	}
	return loops
}

// indexLoopDirection recognises the two complete index traversals.
func indexLoopDirection(info *types.Info, s *ast.ForStmt, i, coll types.Object) (string, string) {
	as, _ := s.Init.(*ast.AssignStmt)
	if as == nil || len(as.Rhs) != 1 {
		return "odd", "unrecognised init"
	}
	isLenColl := func(e ast.Expr) bool {
		c, ok := unparen(e).(*ast.CallExpr)
		if !ok || len(c.Args) != 1 {
			return false
		}
		id, ok := unparen(c.Fun).(*ast.Ident)
		return ok && id.Name == "len" && objOf(info, c.Args[0]) == coll && coll != nil
	}
	init := unparen(as.Rhs[0])
	cond, _ := unparen(s.Cond).(*ast.BinaryExpr)
	post := s.Post
	step := 0
	switch p := post.(type) {
	case *ast.IncDecStmt:
		if objOf(info, p.X) == i {
			if p.Tok == token.INC {
				step = 1
			} else {
				step = -1
			}
		}
	case *ast.AssignStmt:
		if len(p.Lhs) == 1 && len(p.Rhs) == 1 && objOf(info, p.Lhs[0]) == i {
			if v, ok := constInt(info, p.Rhs[0]); ok && v == 1 {
				if p.Tok == token.ADD_ASSIGN {
					step = 1
				} else if p.Tok == token.SUB_ASSIGN {
					step = -1
				}
			}
		}
	}
	if cond == nil || step == 0 {
		return "odd", "unrecognised condition or step"
	}
	// reverse: i := len(X)-1 ; i >= 0 (or i > -1, 0 <= i) ; i--
	if be, ok := init.(*ast.BinaryExpr); ok && be.Op == token.SUB && isLenColl(be.X) {
		if v, ok := constInt(info, be.Y); ok && v == 1 && step == -1 {
			x, y := unparen(cond.X), unparen(cond.Y)
			if objOf(info, x) == i {
				if v, ok := constInt(info, y); ok && ((cond.Op == token.GEQ && v == 0) || (cond.Op == token.GTR && v == -1)) {
					return "rev", ""
				}
			}
			if objOf(info, y) == i {
				if v, ok := constInt(info, x); ok && ((cond.Op == token.LEQ && v == 0) || (cond.Op == token.LSS && v == -1)) {
					return "rev", ""
				}
			}
			return "odd", "reverse traversal does not reach index 0 (condition " + exprStr(s.Cond) + ")"
		}
	}
	// forward: i := 0 ; i < len(X) ; i++
	if v, ok := constInt(info, init); ok && v == 0 && step == 1 {
		x, y := unparen(cond.X), unparen(cond.Y)
		if objOf(info, x) == i && cond.Op == token.LSS && isLenColl(y) {
			return "fwd", ""
		}
		if objOf(info, y) == i && cond.Op == token.GTR && isLenColl(x) {
			return "fwd", ""
		}
		return "odd", "forward traversal does not cover the whole list (condition " + exprStr(s.Cond) + ")"
	}
	return "odd", "traversal does not start at an end of the list (init " + exprStr(init) + ")"
}

// closeLoopBody looks for elem.Close() in a loop body and validates that every
// iteration reaches it: it sits at the top level of the body or under nil tests
// of the element only; no break/goto/return in the body, no continue before it,
// not inside go/defer/function literals.
func closeLoopBody(info *types.Info, loop ast.Stmt, body *ast.BlockStmt, isElem func(ast.Expr) bool) *closeLoop {
	var found *closeLoop
	// the Close call on the element (go / defer / nested loops are reported as problems)
	var visit func(n ast.Node, ctx string)
	visit = func(n ast.Node, ctx string) {
		ast.Inspect(n, func(x ast.Node) bool {
			switch s := x.(type) {
			case *ast.FuncLit:
				return false
			case *ast.GoStmt:
				for _, c := range callsIn(s, true) {
					if r, k, ok := isCloseCall(info, c); ok && isElem(r) {
						found = &closeLoop{stmt: loop, closeCall: c, kind: k, problem: "the element is closed in a goroutine started by the loop, not by the loop itself: closes are no longer sequential"}
					}
				}
				return false
			case *ast.DeferStmt:
				for _, c := range callsIn(s, true) {
					if r, k, ok := isCloseCall(info, c); ok && isElem(r) {
						found = &closeLoop{stmt: loop, closeCall: c, kind: k, problem: "the element's Close is deferred inside the loop"}
					}
				}
				return false
			case *ast.ForStmt, *ast.RangeStmt, *ast.SelectStmt:
				if x != n {
					for _, c := range callsIn(s, false) {
						if r, k, ok := isCloseCall(info, c); ok && isElem(r) && found == nil {
							found = &closeLoop{stmt: loop, closeCall: c, kind: k, problem: "the element is closed under nested control flow"}
						}
					}
					return false
				}
			case *ast.CallExpr:
				if r, k, ok := isCloseCall(info, s); ok && isElem(r) {
					if found == nil || found.problem != "" {
						found = &closeLoop{stmt: loop, closeCall: s, kind: k}
					}
				}
			}
			return true
		})
	}
	visit(body, "")
	if found == nil {
		return nil
	}
	found.stmt = loop
	if found.problem != "" {
		return found
	}
	// every iteration reaches the Close call: the conditions it is control dependent
	// on are nil tests of the element (taken on the non-nil side)
	conds, want := controllingCondsInfo(info, body, found.closeCall.Pos())
	for i, cd := range conds {
		okCond := false
		if want[i] && isNilTestOf(info, cd, isElem, true) { // elem != nil, taken
			okCond = true
		}
		if !want[i] && isNilTestOf(info, cd, isElem, false) { // elem == nil, not taken
			okCond = true
		}
		if !okCond && found.problem == "" {
			found.problem = "the Close call is conditional on " + exprStr(cd) + " (only a nil test of the element may guard it)"
		}
	}
	// a continue skips this element's Close: only the element being nil may decide that (a skip
	// on anything else - a "seen" set keyed by address, a type test, a flag of the instance -
	// leaves an owned instance unclosed and its error unreported). Disposal lists only: a scope
	// loop may pass over a child by its own state, the child's Close being idempotent.
	if found.kind == "disposable" {
		// go/cfg turns a continue into an edge, not a node: the conditions are read off the
		// enclosing if statements (each a condition the continue is control dependent on)
		type guard struct {
			cond ast.Expr
			then bool
		}
		var walk func(n ast.Node, gs []guard)
		walk = func(n ast.Node, gs []guard) {
			switch x := n.(type) {
			case nil:
				return
			case *ast.FuncLit, *ast.ForStmt, *ast.RangeStmt:
				return // a continue of a nested loop is that loop's
			case *ast.BlockStmt:
				for _, st := range x.List {
					walk(st, gs)
				}
			case *ast.IfStmt:
				walk(x.Body, append(gs[:len(gs):len(gs)], guard{x.Cond, true}))
				if x.Else != nil {
					walk(x.Else, append(gs[:len(gs):len(gs)], guard{x.Cond, false}))
				}
			case *ast.LabeledStmt:
				walk(x.Stmt, gs)
			case *ast.SwitchStmt:
				walk(x.Body, append(gs[:len(gs):len(gs)], guard{nil, true}))
			case *ast.TypeSwitchStmt:
				walk(x.Body, append(gs[:len(gs):len(gs)], guard{nil, true}))
			case *ast.SelectStmt:
				walk(x.Body, append(gs[:len(gs):len(gs)], guard{nil, true}))
			case *ast.CaseClause:
				for _, st := range x.Body {
					walk(st, gs)
				}
			case *ast.CommClause:
				for _, st := range x.Body {
					walk(st, gs)
				}
			case *ast.BranchStmt:
				if x.Tok != token.CONTINUE || x.Label != nil || found.problem != "" {
					return
				}
				nilSkip := false
				why := "unconditionally"
				for _, g := range gs {
					if g.cond == nil {
						why = "in a switch / select clause"
						continue
					}
					why = "on " + exprStr(g.cond)
					if (g.then && isNilTestOf(info, g.cond, isElem, false)) || (!g.then && isNilTestOf(info, g.cond, isElem, true)) {
						nilSkip = true
					}
				}
				if !nilSkip {
					found.problem = "a continue skips the element's Close " + why + " (only the element being nil may skip it)"
				}
			}
		}
		walk(body, nil)
	}
	// exits that skip the remaining elements
	inspectNoLit(body, func(n ast.Node) bool {
		switch b := n.(type) {
		case *ast.BranchStmt:
			switch b.Tok {
			case token.BREAK, token.GOTO:
				if found.problem == "" {
					found.problem = fmt.Sprintf("%s inside the loop leaves remaining elements unclosed", b.Tok)
				}
			}
		case *ast.ReturnStmt:
			if found.problem == "" {
				found.problem = "return inside the loop leaves remaining elements unclosed"
			}
		}
		return true
	})
	return found
}

func checkStmtForClose(info *types.Info, st ast.Stmt, isElem func(ast.Expr) bool, guarded string, found **closeLoop) {
	for _, c := range callsIn(st, false) {
		if r, k, ok := isCloseCall(info, c); ok && isElem(r) {
			l := &closeLoop{closeCall: c, kind: k}
			if guarded != "" {
				l.problem = "the Close call is conditional on " + guarded + " (only a nil test of the element may guard it)"
			}
			if *found == nil || (*found).problem != "" {
				*found = l
			}
		}
	}
}

// isNilTestOf matches `elem != nil` (want=true).
func isNilTestOf(info *types.Info, cond ast.Expr, isElem func(ast.Expr) bool, want bool) bool {
	be, ok := unparen(cond).(*ast.BinaryExpr)
	if !ok {
		return false
	}
	op := token.NEQ
	if !want {
		op = token.EQL
	}
	if be.Op != op {
		return false
	}
	return (isNilIdent(info, be.Y) && isElem(be.X)) || (isNilIdent(info, be.X) && isElem(be.Y))
}

// localOrigin resolves where a local collection variable comes from:
// "copy": x := recv.f (single assignment); "collect": x built by appending every
// key of a range over recv.f.
func localOrigin(w *World, fi *FuncInfo, obj types.Object) (*types.Var, string) {
	info := fi.Pkg.TypesInfo
	var assigns []*ast.AssignStmt
	ast.Inspect(fi.Decl.Body, func(n ast.Node) bool {
		if as, ok := n.(*ast.AssignStmt); ok {
			for _, l := range as.Lhs {
				if objOf(info, l) == obj {
					assigns = append(assigns, as)
				}
			}
		}
		return true
	})
	// a parameter of a private function: the origin of what every call site passes
	if len(assigns) == 0 && w != nil && !fi.Obj.Exported() {
		idx, k := -1, 0
		for _, f := range fi.Decl.Type.Params.List {
			for _, nm := range f.Names {
				if info.Defs[nm] == obj {
					idx = k
				}
				k++
			}
		}
		if idx >= 0 {
			var fv *types.Var
			how := ""
			okAll, n := true, 0
			allResolved := true
			alts := map[*FuncInfo]originAlt{}
			for caller := range w.Callers()[fi] {
				for _, c := range callsIn(caller.Decl.Body, true) {
					if callee(caller.Pkg.TypesInfo, c) != fi.Obj || idx >= len(c.Args) {
						continue
					}
					n++
					f2, h2 := exprOrigin(w, caller, c.Args[idx])
					if f2 == nil || (fv != nil && (f2 != fv || h2 != how)) {
						okAll = false
					}
					if f2 == nil {
						allResolved = false
					} else if prev, seen := alts[caller]; seen && (prev.fv != f2 || prev.how != h2) {
						allResolved = false // one caller passes two different lists: no single origin per context
					} else {
						alts[caller] = originAlt{f2, h2}
					}
					fv, how = f2, h2
				}
			}
			if okAll && n > 0 && fv != nil {
				return fv, how
			}
			// a helper several owners share (scope.Close and provider.Close hand their own snapshot
			// to one closing helper): the origin depends on the caller; closeAnalysis picks the
			// call sites its own Close reaches (resolveParamOrigins)
			if allResolved && n > 0 {
				paramOriginAlts[obj] = alts
			}
			return nil, ""
		}
	}
	if len(assigns) == 1 && len(assigns[0].Lhs) == 1 && len(assigns[0].Rhs) == 1 {
		if fv := fieldOrDeref(info, assigns[0].Rhs[0]); fv != nil {
			return fv, "copy"
		}
		// x := y, y a local with an origin of its own (an alias of an alias)
		if o2, isV := objOf(info, assigns[0].Rhs[0]).(*types.Var); isV && o2 != obj && !o2.IsField() {
			if fv, how := localOrigin(w, fi, o2); fv != nil {
				return fv, how
			}
		}
		// x := recv.helper(): the helper returns a local with an origin of its own
		if c, ok := unparen(assigns[0].Rhs[0]).(*ast.CallExpr); ok && w != nil {
			if fv, how := helperReturnOrigin(w, fi, c); fv != nil {
				return fv, how
			}
		}
	}
	// collect: one make(...) and one append inside a range over a field
	var field *types.Var
	ok := len(assigns) == 2
	for _, as := range assigns {
		if len(as.Lhs) != 1 || len(as.Rhs) != 1 {
			return nil, ""
		}
		c, isCall := unparen(as.Rhs[0]).(*ast.CallExpr)
		if !isCall {
			return nil, ""
		}
		id, _ := unparen(c.Fun).(*ast.Ident)
		if id == nil {
			return nil, ""
		}
		switch id.Name {
		case "make":
		case "append":
			// find the enclosing range statement whose body is exactly this append of the key
			ast.Inspect(fi.Decl.Body, func(n ast.Node) bool {
				rs, isR := n.(*ast.RangeStmt)
				if !isR || len(rs.Body.List) != 1 || rs.Body.List[0] != ast.Stmt(as) {
					return true
				}
				fv := fieldOrDeref(info, rs.X)
				if fv == nil || rs.Key == nil || len(c.Args) != 2 {
					return true
				}
				if objOf(info, c.Args[0]) == obj && objOf(info, c.Args[1]) == objOf(info, rs.Key) {
					field = fv
				}
				return true
			})
		default:
			return nil, ""
		}
	}
	if ok && field != nil {
		return field, "collect"
	}
	return nil, ""
}

// ---------------------------------------------------------------------------

// closeAnalysis holds the must-facts ("what has certainly happened") at every
// node and exit of a Close method.
type closeAnalysis struct {
	w     *World
	fi    *FuncInfo
	owner string
	recv  types.Object
	flow  *Flow
	sol   *Sol
	loops []*closeLoop
	ev    *Events
}

func ownerField(w *World, v *types.Var) string { return w.canonField(v) }

// closeEvents is the event alphabet of the Close analysis; it is also used to
// summarise helpers that Close delegates to.
func closeEvents(w *World, loopsOf func(body *ast.BlockStmt) []*closeLoop) *Events {
	ev := NewEvents(w, func(info *types.Info, call *ast.CallExpr, cal *types.Func) []string {
		var out []string
		if cal == nil {
			// cancel func stored in a field
			if fv := fieldOf(info, call.Fun); fv != nil && isNamedType(fv.Type(), "context", "CancelFunc") {
				out = append(out, "cancel", "P:cancel")
			}
			// delete(x.f, key)
			if id, ok := unparen(call.Fun).(*ast.Ident); ok {
				if b, ok := info.Uses[id].(*types.Builtin); ok && b.Name() == "delete" && len(call.Args) == 2 {
					if fv := fieldOf(info, call.Args[0]); fv != nil {
						out = append(out, "delete:"+ownerField(w, fv)+":key="+exprStr(call.Args[1]))
						if w.isReceiver(objOf(info, call.Args[1])) {
							out = append(out, "P:del:"+ownerField(w, fv))
						}
					}
				}
				if b, ok := info.Uses[id].(*types.Builtin); ok && b.Name() == "clear" && len(call.Args) == 1 {
					if fv := fieldOf(info, call.Args[0]); fv != nil {
						out = append(out, "clear:"+ownerField(w, fv))
					}
				}
			}
			return out
		}
		if r, k, ok := isCloseCall(info, call); ok && (k == "scope" || k == "provider") {
			if fv := fieldOf(info, r); fv != nil {
				out = append(out, "closefield:"+ownerField(w, fv), "P:closed:"+ownerField(w, fv))
			}
			out = append(out, "closecall:"+k+":"+exprStr(r))
		}
		// x.owner.removeChild(recv): a private helper deletes its parameter from a table, and the
		// argument in that position is this function's receiver
		if t := w.Decls[cal]; t != nil && cal != nil && !cal.Exported() && t.Decl.Body != nil {
			tinfo := t.Pkg.TypesInfo
			k := 0
			for _, fl := range t.Decl.Type.Params.List {
				for _, nm := range fl.Names {
					po := tinfo.Defs[nm]
					if k < len(call.Args) && w.isReceiver(objOf(info, call.Args[k])) {
						for _, hc := range callsIn(t.Decl.Body, false) {
							if id, ok := unparen(hc.Fun).(*ast.Ident); ok && id.Name == "delete" && len(hc.Args) == 2 && objOf(tinfo, hc.Args[1]) == po {
								if fv := fieldOf(tinfo, hc.Args[0]); fv != nil {
									out = append(out, "P:del:"+ownerField(w, fv))
								}
							}
						}
					}
					k++
				}
			}
		}
		if isFunc(cal, "sync", "Map", "Delete") {
			if r, _, ok := methodCall(call); ok {
				if fv := fieldOf(info, r); fv != nil {
					out = append(out, "mapdelete:"+ownerField(w, fv))
				}
			}
		}
		return out
	})
	ev.NodeGen = func(pkg *packages.Package, n ast.Node) []string {
		info := pkg.TypesInfo
		var out []string
		if as, ok := n.(*ast.AssignStmt); ok && len(as.Lhs) == len(as.Rhs) {
			for i, l := range as.Lhs {
				if fv := fieldOf(info, l); fv != nil && isNilIdent(info, as.Rhs[i]) {
					out = append(out, "nil:"+ownerField(w, fv))
				}
			}
		}
		return out
	}
	baseNodeGen := ev.NodeGen
	ev.NodeGen = func(pkg *packages.Package, n ast.Node) []string {
		out := baseNodeGen(pkg, n)
		info := pkg.TypesInfo
		// drain(&x.f) where the private helper assigns nil through the pointer
		for _, c := range callsIn(n, false) {
			cal := callee(info, c)
			if cal == nil || cal.Exported() {
				continue
			}
			if o := cal.Origin(); o != nil {
				cal = o
			}
			t := w.Decls[cal]
			if t == nil {
				continue
			}
			k := 0
			for _, fl := range t.Decl.Type.Params.List {
				for _, nm := range fl.Names {
					if k < len(c.Args) {
						if ue, isU := unparen(c.Args[k]).(*ast.UnaryExpr); isU && ue.Op == token.AND {
							if fv := fieldOf(info, ue.X); fv != nil && assignsNilThrough(t.Pkg.TypesInfo, t, t.Pkg.TypesInfo.Defs[nm]) {
								out = append(out, "nil:"+ownerField(w, fv))
							}
						}
					}
					k++
				}
			}
		}
		return out
	}
	ev.EdgeGen = func(pkg *packages.Package, b *cfg.Block, i int, cond ast.Expr) []string {
		info := pkg.TypesInfo
		var out []string
		// loop completion: the done edge of a validated close loop
		if (b.Kind == cfg.KindRangeLoop || b.Kind == cfg.KindForLoop) && i == 1 && b.Stmt != nil {
			for _, l := range loopsOf(nil) {
				if l.stmt == b.Stmt && l.problem == "" && l.field != nil {
					out = append(out, "closedall:"+ownerField(w, l.field)+":"+l.dir)
				}
			}
		}
		// nil guards: on the edge where a field is known to be nil
		if cond != nil {
			if be, ok := unparen(cond).(*ast.BinaryExpr); ok && (be.Op == token.EQL || be.Op == token.NEQ) {
				for _, pair := range [][2]ast.Expr{{be.X, be.Y}, {be.Y, be.X}} {
					if isNilIdent(info, pair[1]) {
						fv := fieldOf(info, pair[0])
						if fv == nil {
							fv = aliasOfField(pkg, objOf(info, pair[0])) // parent := s.parentScope; parent != nil
						}
						if fv != nil {
							isNilEdge := (be.Op == token.EQL) == (i == 0)
							if isNilEdge {
								of := ownerField(w, fv)
								out = append(out, "isnil:"+of)
								// purposes that a nil owner pointer makes vacuous
								switch of {
								case "scope.cancel":
									out = append(out, "P:cancel")
								case "scope.parentScope":
									out = append(out, "P:del:scope.children")
								case "scope.rootProvider":
									out = append(out, "P:del:provider.scopes")
								case "provider.rootScope":
									out = append(out, "P:closed:provider.rootScope")
								}
							}
						}
					}
				}
			}
			// CAS gate
			c := unparen(cond)
			neg := false
			for {
				u, ok := c.(*ast.UnaryExpr)
				if !ok || u.Op != token.NOT {
					break
				}
				c, neg = unparen(u.X), !neg
			}
			if call, ok := c.(*ast.CallExpr); ok {
				if fld, okCAS := casOnField(info, call); okCAS {
					won := (i == 0) != neg
					if won {
						out = append(out, "gate:won:"+ownerField(w, fld))
					} else {
						out = append(out, "gate:lost:"+ownerField(w, fld))
					}
				}
			}
			// len(acc) > 0
			if be, ok := unparen(cond).(*ast.BinaryExpr); ok {
				if acc, nonEmptyWhenTrue, ok := lenTest(info, be); ok {
					nonEmpty := nonEmptyWhenTrue == (i == 0)
					if nonEmpty {
						out = append(out, "nonempty:"+acc.Name())
					} else {
						out = append(out, "empty:"+acc.Name())
					}
				}
			}
		}
		return out
	}
	return ev
}

// casOnField matches atomic.CompareAndSwapInt32(&x.f, 0, 1) and x.f.CompareAndSwap(false, true).
func casOnField(info *types.Info, call *ast.CallExpr) (*types.Var, bool) {
	cal := callee(info, call)
	// s.markDisposed(): a repository function whose whole body returns the compare-and-swap
	if cal != nil && !isAtomicFunc(cal) && theWorld != nil {
		if t := theWorld.Decls[cal]; t != nil && t.Decl.Body != nil && len(t.Decl.Body.List) == 1 {
			if ret, ok := t.Decl.Body.List[0].(*ast.ReturnStmt); ok && len(ret.Results) == 1 {
				if inner, ok := unparen(ret.Results[0]).(*ast.CallExpr); ok {
					if c2 := callee(t.Pkg.TypesInfo, inner); c2 != nil && isAtomicFunc(c2) {
						return casOnField(t.Pkg.TypesInfo, inner)
					}
				}
			}
		}
		return nil, false
	}
	if cal == nil || !isAtomicFunc(cal) {
		return nil, false
	}
	switch cal.Name() {
	case "CompareAndSwapInt32", "CompareAndSwapUint32", "CompareAndSwapInt64", "CompareAndSwapUint64":
		if len(call.Args) != 3 {
			return nil, false
		}
		u, ok := unparen(call.Args[0]).(*ast.UnaryExpr)
		if !ok || u.Op != token.AND {
			return nil, false
		}
		fv := fieldOf(info, u.X)
		if fv == nil {
			return nil, false
		}
		o, ok1 := constInt(info, call.Args[1])
		n, ok2 := constInt(info, call.Args[2])
		if !ok1 || !ok2 || o != 0 || n == 0 {
			return nil, false
		}
		return fv, true
	case "CompareAndSwap":
		r, _, ok := methodCall(call)
		if !ok || len(call.Args) != 2 {
			return nil, false
		}
		fv := fieldOf(info, r)
		if fv == nil {
			return nil, false
		}
		// (false,true) or (0, nonzero)
		tv0, tv1 := info.Types[call.Args[0]], info.Types[call.Args[1]]
		if tv0.Value != nil && tv1.Value != nil && tv0.Value.String() != tv1.Value.String() &&
			(tv0.Value.String() == "false" || tv0.Value.String() == "0") {
			return fv, true
		}
	}
	return nil, false
}

// lenTest matches len(x) > 0, len(x) != 0, len(x) >= 1, 0 < len(x), len(x) == 0 ...
// returning x and whether x is non-empty when the test is true.
func lenTest(info *types.Info, be *ast.BinaryExpr) (types.Object, bool, bool) {
	lenOf := func(e ast.Expr) types.Object {
		c, ok := unparen(e).(*ast.CallExpr)
		if !ok || len(c.Args) != 1 {
			return nil
		}
		id, ok := unparen(c.Fun).(*ast.Ident)
		if !ok || id.Name != "len" {
			return nil
		}
		if o := objOf(info, c.Args[0]); o != nil {
			return o
		}
		return baseObj(info, c.Args[0]) // len(acc.errs): the accumulator is a field of a small struct
	}
	if o := lenOf(be.X); o != nil {
		if v, ok := constInt(info, be.Y); ok {
			switch {
			case be.Op == token.GTR && v == 0, be.Op == token.NEQ && v == 0, be.Op == token.GEQ && v == 1:
				return o, true, true
			case be.Op == token.EQL && v == 0, be.Op == token.LSS && v == 1, be.Op == token.LEQ && v == 0:
				return o, false, true
			}
		}
	}
	if o := lenOf(be.Y); o != nil {
		if v, ok := constInt(info, be.X); ok {
			switch {
			case be.Op == token.LSS && v == 0, be.Op == token.NEQ && v == 0, be.Op == token.LEQ && v == 1:
				return o, true, true
			case be.Op == token.EQL && v == 0, be.Op == token.GTR && v == 1, be.Op == token.GEQ && v == 0:
				return o, false, true
			}
		}
	}
	return nil, false, false
}

var closeCache = map[*FuncInfo]*closeAnalysis{}

// analyseClose runs the must-event analysis over a Close method, expanding
// same-package helpers (bound 3).
func analyseClose(w *World, fi *FuncInfo, owner string) *closeAnalysis {
	if ca := closeCache[fi]; ca != nil {
		return ca
	}
	ca := &closeAnalysis{w: w, fi: fi, owner: owner}
	if fi.Decl.Recv != nil && len(fi.Decl.Recv.List) == 1 && len(fi.Decl.Recv.List[0].Names) == 1 {
		ca.recv = fi.Pkg.TypesInfo.Defs[fi.Decl.Recv.List[0].Names[0]]
	}
	// loops of the Close method and of every godi function (helpers may hold them)
	var all []*closeLoop
	for _, f := range w.FuncsOf(w.Godi) {
		ls := findCloseLoops(w, f)
		if f == fi {
			ca.loops = ls
		}
		all = append(all, ls...)
	}
	ca.resolveParamOrigins(all)
	ca.ev = closeEvents(w, func(*ast.BlockStmt) []*closeLoop { return all })
	ca.flow = w.FlowOf(fi)
	ca.sol = ca.ev.Solve(ca.flow, true)
	closeCache[fi] = ca
	return ca
}

// allLoops returns the close loops reachable from the Close method: its own and
// those of same-package helpers it calls (bound 3).
func (ca *closeAnalysis) reachableLoops() []*closeLoop {
	seen := map[*FuncInfo]bool{}
	var out []*closeLoop
	var visit func(f *FuncInfo, d int)
	visit = func(f *FuncInfo, d int) {
		if seen[f] || d < 0 {
			return
		}
		seen[f] = true
		out = append(out, findCloseLoops(ca.w, f)...)
		for _, c := range callsIn(f.Decl.Body, true) {
			if cal := callee(f.Pkg.TypesInfo, c); cal != nil {
				if t := ca.w.Decls[cal]; t != nil && t.Pkg == f.Pkg && cal.Name() != "Close" {
					visit(t, d-1)
				}
			}
		}
	}
	visit(ca.fi, 3)
	ca.resolveParamOrigins(out)
	return out
}

// originAlt is the origin one caller gives to a helper's collection parameter.
type originAlt struct {
	fv  *types.Var
	how string
}

// paramOriginAlts: for the collection parameter of a private helper whose call sites pass
// different fields (one per owner), the origin each calling function gives it.
var paramOriginAlts = map[types.Object]map[*FuncInfo]originAlt{}

// reachSet: the functions Close reaches through same-package static calls (the bound of
// reachableLoops), Close itself included.
func (ca *closeAnalysis) reachSet() map[*FuncInfo]bool {
	seen := map[*FuncInfo]bool{}
	var visit func(f *FuncInfo, d int)
	visit = func(f *FuncInfo, d int) {
		if seen[f] || d < 0 {
			return
		}
		seen[f] = true
		for _, c := range callsIn(f.Decl.Body, true) {
			if cal := callee(f.Pkg.TypesInfo, c); cal != nil {
				if t := ca.w.Decls[cal]; t != nil && t.Pkg == f.Pkg && cal.Name() != "Close" {
					visit(t, d-1)
				}
			}
		}
	}
	visit(ca.fi, 3)
	return seen
}

// resolveParamOrigins gives a loop over the parameter of a shared helper the origin that the
// call sites reachable from this Close agree on. No agreement (or no reachable site): the
// loop keeps its unknown origin and the rules answer UNDECIDED as before.
func (ca *closeAnalysis) resolveParamOrigins(loops []*closeLoop) {
	var reach map[*FuncInfo]bool
	for _, l := range loops {
		if l.field != nil || l.coll == nil {
			continue
		}
		alts := paramOriginAlts[l.coll]
		if len(alts) == 0 {
			continue
		}
		if reach == nil {
			reach = ca.reachSet()
		}
		var pick *originAlt
		agreed := true
		for caller, a := range alts {
			if !reach[caller] {
				continue
			}
			a := a
			if pick != nil && (pick.fv != a.fv || pick.how != a.how) {
				agreed = false
			}
			pick = &a
		}
		if pick != nil && agreed {
			l.field, l.origin = pick.fv, pick.how
		}
	}
}

// helperReturnOrigin: the call goes to a private helper every return of which
// hands back a field (or a local with a field origin): the value is a copy /
// collection of that field.
func helperReturnOrigin(w *World, fi *FuncInfo, c *ast.CallExpr) (*types.Var, string) {
	info := fi.Pkg.TypesInfo
	// slices.Collect(maps.Keys(x.f)): every key of the table
	if isFunc(callee(info, c), "slices", "", "Collect") && len(c.Args) == 1 {
		if inner, ok := unparen(c.Args[0]).(*ast.CallExpr); ok && isFunc(callee(info, inner), "maps", "", "Keys") && len(inner.Args) == 1 {
			if fv := fieldOf(info, inner.Args[0]); fv != nil {
				return fv, "collect"
			}
		}
	}
	// slices.AppendSeq(make(…), maps.Keys(x.f)): the same into a pre-sized slice
	if isFunc(callee(info, c), "slices", "", "AppendSeq") && len(c.Args) == 2 {
		if inner, ok := unparen(c.Args[1]).(*ast.CallExpr); ok && isFunc(callee(info, inner), "maps", "", "Keys") && len(inner.Args) == 1 {
			if fv := fieldOf(info, inner.Args[0]); fv != nil {
				if mk, isMk := unparen(c.Args[0]).(*ast.CallExpr); isMk && exprStr(mk.Fun) == "make" {
					return fv, "collect"
				}
				if isNilIdent(info, c.Args[0]) {
					return fv, "collect"
				}
			}
		}
	}
	cal := callee(info, c)
	if cal == nil || cal.Exported() {
		return nil, ""
	}
	if o := cal.Origin(); o != nil {
		cal = o
	}
	t := w.Decls[cal]
	if t == nil || t.Pkg != fi.Pkg {
		return nil, ""
	}
	// drainSet(&x.f): inside the helper, *param stands for the field
	{
		tinfo := t.Pkg.TypesInfo
		k := 0
		saved := map[types.Object]*types.Var{}
		for _, fl := range t.Decl.Type.Params.List {
			for _, nm := range fl.Names {
				if k < len(c.Args) {
					if ue, isU := unparen(c.Args[k]).(*ast.UnaryExpr); isU && ue.Op == token.AND {
						if f2 := fieldOf(info, ue.X); f2 != nil {
							po := tinfo.Defs[nm]
							saved[po] = derefField[po]
							derefField[po] = f2
						}
					}
				}
				k++
			}
		}
		defer func() {
			for po, old := range saved {
				if old == nil {
					delete(derefField, po)
				} else {
					derefField[po] = old
				}
			}
		}()
	}
	var fv *types.Var
	how := ""
	consistent := true
	ast.Inspect(t.Decl.Body, func(n ast.Node) bool {
		if _, isLit := n.(*ast.FuncLit); isLit {
			return false
		}
		if ret, ok := n.(*ast.ReturnStmt); ok && len(ret.Results) == 1 {
			if isNilIdent(t.Pkg.TypesInfo, ret.Results[0]) {
				return true // an empty snapshot (whether the table was reset on that path is another rule's business)
			}
			if o := objOf(t.Pkg.TypesInfo, ret.Results[0]); o != nil {
				f2, h2 := localOrigin(w, t, o)
				if f2 == nil || (fv != nil && f2 != fv) {
					consistent = false
				}
				fv, how = f2, h2
			} else if f2 := fieldOf(t.Pkg.TypesInfo, ret.Results[0]); f2 != nil {
				fv, how = f2, "copy"
			} else if c2, ok := unparen(ret.Results[0]).(*ast.CallExpr); ok {
				f2, h2 := helperReturnOrigin(w, t, c2)
				if f2 == nil || (fv != nil && f2 != fv) {
					consistent = false
				}
				fv, how = f2, h2
			} else {
				consistent = false
			}
		}
		return true
	})
	if consistent && fv != nil {
		return fv, how
	}
	return nil, ""
}

// exprOrigin: where the collection denoted by e comes from (a field directly, a
// local with a field origin, or the result of a helper that returns one).
func exprOrigin(w *World, fi *FuncInfo, e ast.Expr) (*types.Var, string) {
	info := fi.Pkg.TypesInfo
	e = unparen(e)
	if fv := fieldOf(info, e); fv != nil {
		return fv, "direct"
	}
	if o := objOf(info, e); o != nil {
		return localOrigin(w, fi, o)
	}
	if c, ok := e.(*ast.CallExpr); ok {
		return helperReturnOrigin(w, fi, c)
	}
	return nil, ""
}

// derefField: while a helper called with &x.f is analysed, its pointer parameter -> the field.
var derefField = map[types.Object]*types.Var{}

// fieldOrDeref: the field e denotes - directly, or as *p for a pointer parameter bound to &x.f.
func fieldOrDeref(info *types.Info, e ast.Expr) *types.Var {
	if fv := fieldOf(info, e); fv != nil {
		return fv
	}
	if st, ok := unparen(e).(*ast.StarExpr); ok {
		if o := objOf(info, st.X); o != nil {
			return derefField[o]
		}
	}
	return nil
}

// aliasOfField: o is a local that is assigned exactly once, from a field
// selection (parent := s.parentScope): the field.
var aliasCache = map[*packages.Package]map[types.Object]*types.Var{}

func aliasOfField(pkg *packages.Package, o types.Object) *types.Var {
	if o == nil || pkg == nil {
		return nil
	}
	m, ok := aliasCache[pkg]
	if !ok {
		m = map[types.Object]*types.Var{}
		count := map[types.Object]int{}
		info := pkg.TypesInfo
		for _, f := range pkg.Syntax {
			ast.Inspect(f, func(n ast.Node) bool {
				as, ok := n.(*ast.AssignStmt)
				if !ok {
					return true
				}
				for i, l := range as.Lhs {
					lo := objOf(info, l)
					if lo == nil {
						continue
					}
					count[lo]++
					if len(as.Lhs) == len(as.Rhs) {
						if fv := fieldOf(info, as.Rhs[i]); fv != nil {
							m[lo] = fv
						}
					}
				}
				return true
			})
		}
		for lo := range m {
			if count[lo] != 1 {
				delete(m, lo)
			}
		}
		aliasCache[pkg] = m
	}
	return m[o]
}
