package main

import (
	"fmt"
	"go/ast"
	"go/token"
	"go/types"
	"strings"

	"golang.org/x/tools/go/cfg"
)

// typeVarTarget: for a package-level var initialised with
// reflect.TypeOf((*X)(nil)).Elem(), returns the named type X.
func typeVarTarget(w *World, o types.Object) string {
	for _, f := range w.Godi.Syntax {
		for _, d := range f.Decls {
			gd, ok := d.(*ast.GenDecl)
			if !ok {
				continue
			}
			for _, sp := range gd.Specs {
				vs, ok := sp.(*ast.ValueSpec)
				if !ok {
					continue
				}
				for i, nm := range vs.Names {
					if w.Godi.TypesInfo.Defs[nm] != o || i >= len(vs.Values) {
						continue
					}
					return reflectTypeOfTarget(w.Godi.TypesInfo, vs.Values[i])
				}
			}
		}
	}
	return ""
}

func reflectTypeOfTarget(info *types.Info, e ast.Expr) string {
	c, ok := unparen(e).(*ast.CallExpr)
	if !ok {
		// a package variable that holds such a type (reservedTypes keyed by contextType, …)
		if o := objOf(info, e); o != nil && theWorld != nil {
			if _, isVar := o.(*types.Var); isVar && o.Parent() == o.Pkg().Scope() {
				return typeVarTarget(theWorld, o)
			}
		}
		return ""
	}
	// reflect.TypeFor[X]() or a generic helper of the repository that returns the type of its type parameter
	isTypeOfHelper := func(cal *types.Func) bool {
		if cal == nil || theWorld == nil {
			return false
		}
		if o := cal.Origin(); o != nil {
			cal = o
		}
		t := theWorld.Decls[cal]
		if t == nil || t.Decl.Body == nil || len(t.Decl.Body.List) != 1 {
			return false
		}
		ret, ok := t.Decl.Body.List[0].(*ast.ReturnStmt)
		return ok && len(ret.Results) == 1 && isTypeOfTypeParam(t.Pkg.TypesInfo, ret.Results[0], t)
	}
	if targ := typeArgOfCall(info, c); targ != nil && (isFunc(callee(info, c), "reflect", "", "TypeFor") || isTypeOfHelper(callee(info, c))) {
		if n := namedOf(targ); n != nil {
			if n.Obj().Pkg() != nil {
				return n.Obj().Pkg().Name() + "." + n.Obj().Name()
			}
			return n.Obj().Name()
		}
		return ""
	}
	sel, ok := unparen(c.Fun).(*ast.SelectorExpr)
	if !ok || sel.Sel.Name != "Elem" {
		return ""
	}
	inner, ok := unparen(sel.X).(*ast.CallExpr)
	if !ok || !isFunc(callee(info, inner), "reflect", "", "TypeOf") || len(inner.Args) != 1 {
		return ""
	}
	tv, ok := info.Types[inner.Args[0]]
	if !ok {
		return ""
	}
	p, ok := tv.Type.(*types.Pointer)
	if !ok {
		return ""
	}
	if n := namedOf(p.Elem()); n != nil {
		if n.Obj().Pkg() != nil {
			return n.Obj().Pkg().Name() + "." + n.Obj().Name()
		}
		return n.Obj().Name()
	}
	return ""
}

func checkC18(w *World, r *Report) {
	ro := resolveRoles(w)
	rg := resolveRegistry(w)
	r.Rule("R18.1", 4, "the built-in switch of resolution is reached for unkeyed, ungrouped requests only, precedes the registry lookup, and returns exactly the scope's own context, the root provider and the scope itself for the three reserved types")
	r.Rule("R18.2", 2, "constructors resolve their dependencies from the scope that constructs them: createInstance passes its own receiver as the resolver; singletons are constructed on the provider's root scope")
	r.Rule("R18.3", 4, "context linkage: a scope's context is WithValue(parent, scopeContextKey{}, thatScope); the parent is the context derived by WithCancel from the caller's context, or from the parent scope's context (scope) / Background (provider) when the caller passes nil")
	r.Rule("R18.4", 2, "scopeContextKey is unexported and used only to store the scope and in FromContext, which asserts the value to Scope")
	r.Rule("R18.5", 2, "every registration passes the reserved-type test on the Type of the descriptor being inserted")
	r.Rule("R18.6", 10, "built-ins reach constructors in every form of parameter: the field walkers skip only unexported fields, the embedded In/Out marker and inject:\"-\" (an embedded context.Context / Scope / Provider field is injected)")
	r.Try(func() { ruleFieldFilters(w, r, "R18.6") })

	// ---- R18.1
	ruleBuiltins(w, r, ro)

	// ---- R18.2
	{
		fi := ro.createInstance
		n := 0
		for _, site := range invokeSites(w, ro) {
			g, c := site.fn, site.call
			ginfo := g.Pkg.TypesInfo
			if len(c.Args) < 2 {
				continue
			}
			var grecv types.Object
			if g.Decl.Recv != nil && len(g.Decl.Recv.List[0].Names) == 1 {
				grecv = ginfo.Defs[g.Decl.Recv.List[0].Names[0]]
			}
			n++
			last := c.Args[len(c.Args)-1]
			good := objOf(ginfo, last) == grecv && grecv != nil
			// the helper takes the constructing scope as a parameter (a method of the provider, a plain
			// function): every call hands it the caller's own receiver, a scope
			if pi := paramIndexOf(g, objOf(ginfo, last)); !good && g != fi && pi >= 0 {
				good = true
				sitesSeen := 0
				for caller := range w.Callers()[g] {
					cinfo := caller.Pkg.TypesInfo
					for _, cc := range callsIn(caller.Decl.Body, true) {
						if callee(cinfo, cc) != g.Obj {
							continue
						}
						sitesSeen++
						if pi >= len(cc.Args) || !w.isReceiver(objOf(cinfo, cc.Args[pi])) || !recvIs(caller, "scope") {
							good = false
						}
					}
				}
				if sitesSeen == 0 {
					good = false
				}
				r.Check(good, "R18.2", fmt.Sprintf("%s#resolver/%d", fi.Name(), n), c.Pos(), false,
					"the constructing scope, handed to the helper by every caller as its own receiver, is the resolver given to the invoker", "the invoker is given "+exprStr(last)+" as resolver, and not every caller of "+g.Name()+" passes its own receiver scope for it: injected context/scope/scoped services would come from another scope")
				continue
			}
			if g != fi {
				// the helper is a method called on createInstance's own receiver
				for caller := range w.Callers()[g] {
					for _, cc := range callsIn(caller.Decl.Body, true) {
						if callee(caller.Pkg.TypesInfo, cc) == g.Obj {
							rcv, _, isM := methodCall(cc)
							if !isM || !w.isReceiver(objOf(caller.Pkg.TypesInfo, rcv)) {
								good = false
							}
						}
					}
				}
			}
			r.Check(good, "R18.2", fmt.Sprintf("%s#resolver/%d", fi.Name(), n), c.Pos(), false,
				"the constructing scope itself is the resolver handed to the invoker", "the invoker is given "+exprStr(last)+" as resolver, not the scope that constructs the instance: injected context/scope/scoped services would come from another scope")
		}
		if n == 0 {
			r.Fail("R18.2", fi.Name()+"#resolver", fi.Decl.Pos(), "createInstance never invokes a constructor")
		}
		m := 0
		for _, ca := range w.Within(ro.createAll, 3) {
			cinfo := ca.Pkg.TypesInfo
			for _, c := range callsIn(ca.Decl.Body, true) {
				if ro.isCreate(callee(cinfo, c)) {
					m++
					rcv, _, _ := methodCall(c)
					fv := fieldOf(cinfo, rcv)
					r.Check(fv != nil && w.canonName(fv) == "rootScope", "R18.2", fmt.Sprintf("%s#on-root-scope/%d", ro.createAll.Name(), m), c.Pos(), false,
						"singletons are constructed on the provider's root scope", "singletons are constructed on "+exprStr(rcv)+", not on the provider's root scope")
				}
			}
		}
	}

	// ---- R18.3
	{
		fi := ro.allocScope
		r.Analysed(fi)
		info := fi.Pkg.TypesInfo
		// scope variable
		var sObj types.Object
		ast.Inspect(fi.Decl.Body, func(x ast.Node) bool {
			if as, ok := x.(*ast.AssignStmt); ok && len(as.Lhs) == 1 && len(as.Rhs) == 1 {
				if l := litOf(as.Rhs[0]); l != nil {
					if tv, ok := info.Types[l]; ok && isNamedType(tv.Type, modPath, "scope") {
						sObj = objOf(info, as.Lhs[0])
					}
				}
			}
			return true
		})
		// ctx parameter
		var ctxParam types.Object
		for _, f := range fi.Decl.Type.Params.List {
			for _, nm := range f.Names {
				if isNamedType(info.Defs[nm].Type(), "context", "Context") {
					ctxParam = info.Defs[nm]
				}
			}
		}
		fl := w.FlowOf(fi)
		// reaching definitions of ctx: "param", "background-if-nil", "withvalue"
		sol := fl.Solve(Spec{Must: true, Init: []string{"ctx=param"},
			Node: func(n ast.Node, in Facts) (gen, kill []string) {
				as, ok := n.(*ast.AssignStmt)
				if !ok || len(as.Lhs) != 1 || len(as.Rhs) != 1 || objOf(info, as.Lhs[0]) != ctxParam {
					return
				}
				kill = append(kill, "ctx=*")
				c, _ := unparen(as.Rhs[0]).(*ast.CallExpr)
				cal := callee(info, c)
				switch {
				case c != nil && isFunc(cal, "context", "", "Background") && in.Has("ctx-is-nil"):
					gen = append(gen, "ctx=param-or-background")
				case c != nil && isFunc(cal, "context", "", "WithValue") && len(c.Args) == 3 && objOf(info, c.Args[0]) == ctxParam &&
					(in.Has("ctx=param") || in.Has("ctx=param-or-background")) && objOf(info, c.Args[2]) == sObj && sObj != nil && isScopeKeyLit(info, c.Args[1]):
					gen = append(gen, "ctx=withvalue(parent,key,scope)")
				default:
					gen = append(gen, "ctx=other:"+exprStr(as.Rhs[0]))
				}
				return
			},
			Edge: func(b *cfg.Block, i int, cond ast.Expr, in Facts) (gen, kill []string) {
				if cond != nil && isNilTestOf(info, cond, func(e ast.Expr) bool { return objOf(info, e) == ctxParam }, false) {
					if i == 0 {
						gen = append(gen, "ctx-is-nil")
					} else if in.Has("ctx=param") {
						gen = append(gen, "ctx=param-or-background") // a non-nil caller context
					}
				}
				return
			}})
		found := false
		for _, n := range fl.Nodes() {
			as, ok := n.(*ast.AssignStmt)
			if !ok || len(as.Lhs) != 1 {
				continue
			}
			if fv := fieldOf(info, as.Lhs[0]); fv != nil && w.canonName(fv) == "context" && objOf(info, selBase(as.Lhs[0])) == sObj {
				found = true
				good := objOf(info, as.Rhs[0]) == ctxParam && sol.Before[n].Has("ctx=withvalue(parent,key,scope)")
				// or the field receives the WithValue call directly
				if c, isC := unparen(as.Rhs[0]).(*ast.CallExpr); isC && isFunc(callee(info, c), "context", "", "WithValue") && len(c.Args) == 3 {
					bf := sol.Before[n]
					good = objOf(info, c.Args[0]) == ctxParam && (bf.Has("ctx=param") || bf.Has("ctx=param-or-background")) &&
						objOf(info, c.Args[2]) == sObj && sObj != nil && isScopeKeyLit(info, c.Args[1])
				}
				def, _ := sol.Before[n].HasPrefix("ctx=")
				r.Check(good, "R18.3", fi.Name()+"#scope.context", as.Pos(), true,
					"the scope's context is WithValue(caller's context, scopeContextKey{}, this scope)",
					"the scope's context is not WithValue(parent context, scopeContextKey{}, the new scope) on every path (reaching definition: "+def+"): FromContext would find another scope, or values/cancellation of the caller's context are lost")
			}
		}
		if !found {
			// context set in the literal itself
			r.Fail("R18.3", fi.Name()+"#scope.context", fi.Decl.Pos(), "the new scope's context field is never assigned from WithValue(ctx, scopeContextKey{}, s)")
		}
	}
	for _, owner := range []string{"scope", "provider"} {
		fi := w.MustFn(w.Godi, "(*"+owner+").CreateScope")
		info := fi.Pkg.TypesInfo
		cs := analyseCreateScope(w, fi)
		con := fi.Name() + "#parent-context"
		if cs.withCancl == nil {
			r.Fail("R18.3", con, fi.Decl.Pos(), "no WithCancel")
			continue
		}
		var recv types.Object
		if fi.Decl.Recv != nil && len(fi.Decl.Recv.List[0].Names) == 1 {
			recv = info.Defs[fi.Decl.Recv.List[0].Names[0]]
		}
		var ctxParam types.Object
		for _, f := range fi.Decl.Type.Params.List {
			for _, nm := range f.Names {
				ctxParam = info.Defs[nm]
			}
		}
		fl := w.FlowOf(fi)
		sol := fl.Solve(Spec{Must: true, Init: []string{"ctx=param"},
			Node: func(n ast.Node, in Facts) (gen, kill []string) {
				as, ok := n.(*ast.AssignStmt)
				if !ok || n == ast.Node(cs.withCancl) {
					return
				}
				for i, l := range as.Lhs {
					if objOf(info, l) != ctxParam || i >= len(as.Rhs) {
						continue
					}
					kill = append(kill, "ctx=*")
					rhs := unparen(as.Rhs[i])
					switch {
					case owner == "scope" && in.Has("ctx-is-nil") && fieldOf(info, rhs) != nil && w.canonName(fieldOf(info, rhs)) == "context" && objOf(info, selBase(rhs)) == recv:
						gen = append(gen, "ctx=param-or-default")
					case owner == "provider" && in.Has("ctx-is-nil") && isCallTo(info, rhs, "context", "Background"):
						gen = append(gen, "ctx=param-or-default")
					default:
						gen = append(gen, "ctx=other:"+exprStr(rhs))
					}
				}
				return
			},
			Edge: func(b *cfg.Block, i int, cond ast.Expr, in Facts) (gen, kill []string) {
				if cond != nil && isNilTestOf(info, cond, func(e ast.Expr) bool { return objOf(info, e) == ctxParam }, false) {
					if i == 0 {
						gen = append(gen, "ctx-is-nil")
					} else if in.Has("ctx=param") {
						gen = append(gen, "ctx=param-or-default") // a non-nil caller context
					}
				}
				return
			}})
		call := unparen(cs.withCancl.Rhs[0]).(*ast.CallExpr)
		bf := sol.Before[cs.withCancl]
		def, _ := bf.HasPrefix("ctx=")
		good := len(call.Args) == 1 && objOf(info, call.Args[0]) == ctxParam && (bf.Has("ctx=param") || bf.Has("ctx=param-or-default"))
		dflt := map[string]string{"scope": "the parent scope's context", "provider": "context.Background()"}[owner]
		r.Check(good, "R18.3", con, cs.withCancl.Pos(), true,
			"the derived context's parent is the caller's context, or "+dflt+" when the caller passes nil",
			"the context passed to WithCancel is not the caller's context with "+dflt+" as the nil default (reaching definition: "+def+"): values, deadline or cancellation of the intended parent are lost")
		// the derived ctx (not something else) goes to newScope
		okPass := false
		ast.Inspect(fi.Decl.Body, func(x ast.Node) bool {
			if c, ok := x.(*ast.CallExpr); ok {
				if cal := callee(info, c); w.IsFn(cal, w.Godi, "newScope") {
					for _, a := range c.Args {
						if objOf(info, a) == cs.ctxObj {
							okPass = true
						}
					}
				}
			}
			return true
		})
		r.Check(okPass, "R18.3", fi.Name()+"#derived-context-used", cs.withCancl.Pos(), false,
			"the scope is created with the context derived here", "newScope is not given the context derived by WithCancel")
	}

	// ---- R18.4
	{
		keyObj := w.Godi.Types.Scope().Lookup("scopeContextKey")
		uses := map[string]int{}
		reads := map[string]int{}
		if keyObj != nil {
			for _, p := range w.Pkgs {
				for _, f := range p.Syntax {
					ast.Inspect(f, func(x ast.Node) bool {
						// a look-up under the key (x.Value(scopeContextKey{})) stores nothing: it may appear anywhere
						if c, ok := x.(*ast.CallExpr); ok && len(c.Args) == 1 {
							if _, name, isM := methodCall(c); isM && name == "Value" && isScopeKeyLit(p.TypesInfo, c.Args[0]) {
								if fi := w.FuncAt(c.Pos()); fi != nil {
									reads[fi.Name()]++
									if fi.Name() == "FromContext" {
										uses["FromContext"]++
									}
								}
								return false
							}
						}
						if id, ok := x.(*ast.Ident); ok && p.TypesInfo.Uses[id] == keyObj {
							var encl string
							for _, fi := range w.FuncsOf(p) {
								if fi.Decl.Pos() <= id.Pos() && id.Pos() < fi.Decl.End() {
									encl = fi.Name()
								}
							}
							uses[encl]++
						}
						return true
					})
				}
			}
		}
		bad := ""
		if keyObj == nil || keyObj.Exported() {
			bad = "the context key type is missing or exported"
		}
		for fn := range uses {
			if fn != ro.allocScope.Name() && fn != "FromContext" {
				bad = "scopeContextKey is used in " + fn
			}
		}
		if uses[ro.allocScope.Name()] == 0 || uses["FromContext"] == 0 {
			bad = "scopeContextKey is not used by both the scope constructor and FromContext"
		}
		r.Check(bad == "", "R18.4", "scopeContextKey#uses", token.NoPos, false, fmt.Sprintf("the unexported key is used only to store the scope (in %s) and to look it up (%d function(s))", ro.allocScope.Name(), len(reads)), bad)
		fc := w.MustFn(w.Godi, "FromContext")
		okAssert := false
		ast.Inspect(fc.Decl.Body, func(x ast.Node) bool {
			if ta, ok := x.(*ast.TypeAssertExpr); ok && ta.Type != nil {
				if tv, ok := fc.Pkg.TypesInfo.Types[ta.Type]; ok && isNamedType(tv.Type, modPath, "Scope") {
					if c, ok := unparen(ta.X).(*ast.CallExpr); ok && len(c.Args) == 1 && isScopeKeyLit(fc.Pkg.TypesInfo, c.Args[0]) {
						okAssert = true
					}
				}
			}
			return true
		})
		r.Check(okAssert, "R18.4", "FromContext#assert", fc.Decl.Pos(), false, "FromContext returns ctx.Value(scopeContextKey{}).(Scope)", "FromContext does not look the scope up under scopeContextKey{} and assert it to Scope")
	}

	// ---- R18.5
	{
		var reserved types.Object = w.Godi.Types.Scope().Lookup("reservedTypes")
		fi := rg.check
		if fi == nil || reserved == nil {
			r.Fail("R18.5", "collection#reserved-test", token.NoPos, "no registration check function / reservedTypes table")
		} else {
			info := fi.Pkg.TypesInfo
			resOK := map[types.Object]bool{}
			dParam := descriptorParam(fi)
			if dParam == nil && len(fi.Decl.Type.Params.List) > 0 && len(fi.Decl.Type.Params.List[0].Names) > 0 {
				dParam = info.Defs[fi.Decl.Type.Params.List[0].Names[0]]
			}
			onType := false
			ast.Inspect(fi.Decl.Body, func(x ast.Node) bool {
				if as, ok := x.(*ast.AssignStmt); ok && len(as.Lhs) == 2 && len(as.Rhs) == 1 {
					if ix, ok := unparen(as.Rhs[0]).(*ast.IndexExpr); ok && objOf(info, ix.X) == reserved {
						resOK[objOf(info, as.Lhs[1])] = true
						if isFieldNamed(info, ix.Index, "Type") && objOf(info, selBase(ix.Index)) == dParam {
							onType = true
						}
					}
				}
				return true
			})
			// through a predicate: if isReservedType(descriptor.Type) { return error }
			predCalls := map[string]bool{}
			for _, c := range callsIn(fi.Decl.Body, true) {
				if cal := callee(info, c); cal != nil && reservedPredicate(w, cal) && len(c.Args) == 1 {
					if isFieldNamed(info, c.Args[0], "Type") && objOf(info, selBase(c.Args[0])) == dParam {
						predCalls[exprStr(c)] = true
						onType = true
					}
				}
			}
			fl := w.FlowOf(fi)
			sol := fl.Solve(Spec{Must: true, Edge: func(b *cfg.Block, i int, cond ast.Expr, in Facts) (gen, kill []string) {
				if cond == nil {
					return
				}
				c := unparen(cond)
				neg := false
				if u, ok := c.(*ast.UnaryExpr); ok && u.Op == token.NOT {
					c, neg = unparen(u.X), true
				}
				if resOK[objOf(info, c)] || predCalls[exprStr(c)] {
					if (i == 0) != neg {
						gen = append(gen, "reserved")
					} else {
						gen = append(gen, "not-reserved")
					}
				}
				return
			}})
			bad := ""
			if !onType {
				bad = "the reserved-type table is not consulted with the Type of the descriptor being registered"
			}
			for _, ex := range fl.Exits() {
				if ex.Ret == nil || len(ex.Ret.Results) != 1 {
					continue
				}
				at := sol.AtExit(ex)
				if isNilIdent(info, ex.Ret.Results[0]) && !at.Has("not-reserved") {
					bad = "the check can succeed (exit at " + w.Pos(ex.Pos) + ") without the descriptor's type having been tested against the reserved types"
				}
				if at.Has("reserved") && isNilIdent(info, ex.Ret.Results[0]) {
					bad = "a reserved type is accepted"
				}
			}
			r.Check(bad == "", "R18.5", fi.Name()+"#reserved-test", fi.Decl.Pos(), true,
				"every successful registration check has tested descriptor.Type against the reserved types", fi.Name()+": "+bad)
			// the table contains the three types
			n := 0
			for _, f := range w.Godi.Syntax {
				ast.Inspect(f, func(x ast.Node) bool {
					if vs, ok := x.(*ast.ValueSpec); ok {
						for i, nm := range vs.Names {
							if w.Godi.TypesInfo.Defs[nm] == reserved && i < len(vs.Values) {
								if cl, ok := vs.Values[i].(*ast.CompositeLit); ok {
									for _, el := range cl.Elts {
										if kv, ok := el.(*ast.KeyValueExpr); ok {
											switch reflectTypeOfTarget(w.Godi.TypesInfo, kv.Key) {
											case "context.Context", "godi.Provider", "godi.Scope":
												n++
											}
										}
									}
								}
							}
						}
					}
					return true
				})
			}
			r.Check(n == 3, "R18.5", "reservedTypes#members", reserved.Pos(), false, "the reserved table lists context.Context, Provider and Scope", fmt.Sprintf("the reserved table lists %d of the three built-in types", n))
		}
	}
}

func isScopeKeyLit(info *types.Info, e ast.Expr) bool {
	cl, ok := unparen(e).(*ast.CompositeLit)
	if !ok {
		return false
	}
	tv, ok := info.Types[cl]
	return ok && isNamedType(tv.Type, modPath, "scopeContextKey")
}

func isCallTo(info *types.Info, e ast.Expr, pkg, name string) bool {
	c, ok := unparen(e).(*ast.CallExpr)
	return ok && isFunc(callee(info, c), pkg, "", name)
}

// ruleBuiltins: R18.1 on the control-flow graph. The function that serves the
// built-in types is the one, among resolve and its private helpers, that
// compares a reflect.Type field of the requested key with the package's type
// variables (switch or ifs). On every exit that a test "Type == <var>" dominates
// the value returned is the resolving scope's own context / root provider /
// itself, and the facts Key == nil and Group == "" hold there.
func ruleBuiltins(w *World, r *Report, ro *roles) {
	top := ro.resolveTop
	r.Analysed(top)
	want := map[string]string{"context.Context": "context", "godi.Provider": "rootProvider", "godi.Scope": "<receiver>"}
	type typeTest struct {
		target string
		pos    token.Pos
	}
	// the dispatching function and its tests
	var disp *FuncInfo
	tests := map[ast.Expr]typeTest{} // case expressions and == comparisons
	for _, f := range w.Within(top, 2) {
		if ro.isCreate(f.Obj) || f == ro.setInstance {
			continue
		}
		info := f.Pkg.TypesInfo
		isReqType := func(e ast.Expr) bool {
			tv, ok := info.Types[e]
			return ok && isNamedType(tv.Type, "reflect", "Type") && isFieldNamed(info, e, "Type")
		}
		found := map[ast.Expr]typeTest{}
		ast.Inspect(f.Decl.Body, func(x ast.Node) bool {
			switch s := x.(type) {
			case *ast.SwitchStmt:
				if s.Tag != nil && isReqType(s.Tag) {
					for _, cl := range s.Body.List {
						for _, e := range cl.(*ast.CaseClause).List {
							if t := typeVarTarget(w, objOf(info, e)); t != "" {
								found[e] = typeTest{t, e.Pos()}
							}
						}
					}
				}
			case *ast.BinaryExpr:
				if s.Op == token.EQL {
					for _, pair := range [][2]ast.Expr{{s.X, s.Y}, {s.Y, s.X}} {
						if isReqType(pair[0]) {
							if t := typeVarTarget(w, objOf(info, pair[1])); t != "" {
								found[s] = typeTest{t, s.Pos()}
							}
						}
					}
				}
			}
			return true
		})
		if len(found) >= 2 && disp == nil {
			disp, tests = f, found
		}
	}
	if disp == nil {
		if builtinTableForm(w, r, ro, top, want) {
			return
		}
		r.Fail("R18.1", top.Name()+"#builtin-switch", top.Decl.Pos(), "resolution has no dispatch on the requested type that serves the built-in services")
		return
	}
	r.Analysed(disp)
	info := disp.Pkg.TypesInfo
	var recv types.Object
	if disp.Decl.Recv != nil && len(disp.Decl.Recv.List[0].Names) == 1 {
		recv = info.Defs[disp.Decl.Recv.List[0].Names[0]]
	}
	fl := w.FlowOf(disp)
	ce := condEdge(w, info, 2)
	sol := fl.Solve(Spec{Must: true, Edge: func(b *cfg.Block, i int, cond ast.Expr, in Facts) (gen, kill []string) {
		if cond == nil {
			return
		}
		if t, ok := tests[cond]; ok {
			if i == 0 {
				gen = append(gen, "type=="+t.target)
			}
			return
		}
		if t, ok := tests[unparen(cond)]; ok {
			if i == 0 {
				gen = append(gen, "type=="+t.target)
			}
			return
		}
		return ce(b, i, cond, in)
	}})
	seen := map[string]bool{}
	for _, t := range tests {
		if _, known := want[t.target]; !known {
			r.Fail("R18.1", disp.Name()+"#builtin:"+t.target, t.pos, "the built-in dispatch has a case for %s, which is not one of the three reserved types", t.target)
		}
	}
	for _, ex := range fl.Exits() {
		at := sol.AtExit(ex)
		target := ""
		for k := range at {
			if strings.HasPrefix(k, "type==") {
				target = strings.TrimPrefix(k, "type==")
			}
		}
		wantField, known := want[target]
		if target == "" || !known {
			continue
		}
		con := disp.Name() + "#builtin:" + target
		if seen[target] {
			con += "/" + fmt.Sprint(ex.Pos)
		}
		seen[target] = true
		bad := ""
		if ex.Ret == nil || len(ex.Ret.Results) != 2 {
			bad = "the case does not return (value, nil)"
		} else {
			second := unparen(ex.Ret.Results[1])
			if !isNilIdent(info, second) && exprStr(second) != "true" {
				bad = "the case does not return the built-in value as a success"
			}
			val := unparen(ex.Ret.Results[0])
			if wantField == "<receiver>" {
				if objOf(info, val) != recv {
					bad = "it returns " + exprStr(val) + " instead of the resolving scope itself"
				}
			} else {
				fv := fieldOf(info, val)
				if fv == nil || w.canonName(fv) != wantField || objOf(info, selBase(val)) != recv {
					bad = "it returns " + exprStr(val) + " instead of the resolving scope's own " + wantField
				}
			}
		}
		r.Check(bad == "", "R18.1", con, ex.Pos, true, target+" resolves to the resolving scope's own value", "built-in "+target+": "+bad)
		// guard: Key == nil && Group == "" hold here
		keyNil, groupEmpty := false, false
		for k := range at {
			if strings.HasSuffix(k, ".Key=nil") {
				keyNil = true
			}
			if strings.HasSuffix(k, ".Group=empty") {
				groupEmpty = true
			}
		}
		r.Check(keyNil && groupEmpty, "R18.1", con+":guard", ex.Pos, true,
			"built-ins are served for unkeyed, ungrouped requests only",
			fmt.Sprintf("the built-in %s is served without the request having been found unkeyed and ungrouped (Key==nil known: %v, Group==\"\" known: %v): a keyed or group request for the type is answered with the built-in", target, keyNil, groupEmpty))
	}
	for t := range want {
		if !seen[t] {
			r.Fail("R18.1", disp.Name()+"#builtin:"+t, disp.Decl.Pos(), "the built-in dispatch has no case for %s", t)
		}
	}
	// in a helper: the caller returns the helper's value unchanged on its success edge
	tinfo := top.Pkg.TypesInfo
	tfl := w.FlowOf(top)
	var helperVal, helperOK types.Object
	if disp != top {
		for _, nd := range tfl.Nodes() {
			if as, ok := nd.(*ast.AssignStmt); ok && len(as.Rhs) == 1 && len(as.Lhs) == 2 {
				if c, ok := unparen(as.Rhs[0]).(*ast.CallExpr); ok && callee(tinfo, c) == disp.Obj {
					helperVal, helperOK = objOf(tinfo, as.Lhs[0]), objOf(tinfo, as.Lhs[1])
				}
			}
		}
		bad := "the result of " + disp.Name() + " is not bound to (value, ok)"
		if helperVal != nil && helperOK != nil {
			bad = "no exit returns the value of " + disp.Name() + " on its success edge"
			hs := tfl.Solve(Spec{Must: true, Edge: func(b *cfg.Block, i int, cond ast.Expr, in Facts) (gen, kill []string) {
				if cond == nil {
					return
				}
				c := unparen(cond)
				if objOf(tinfo, c) == helperOK && i == 0 {
					gen = append(gen, "served")
				}
				if be, ok := c.(*ast.BinaryExpr); ok && isErrorType(helperOK.Type()) {
					if (objOf(tinfo, be.X) == helperOK && isNilIdent(tinfo, be.Y)) && (be.Op == token.EQL) == (i == 0) {
						gen = append(gen, "served")
					}
				}
				return
			}})
			for _, ex := range tfl.Exits() {
				if hs.AtExit(ex).Has("served") && ex.Ret != nil && len(ex.Ret.Results) == 2 {
					if objOf(tinfo, ex.Ret.Results[0]) == helperVal && isNilIdent(tinfo, ex.Ret.Results[1]) {
						bad = ""
					} else {
						bad = "on the success edge of " + disp.Name() + " resolve returns " + exprStr(ex.Ret.Results[0]) + ", not the built-in value"
						break
					}
				}
			}
		}
		r.Check(bad == "", "R18.1", top.Name()+"#builtin-forwarded", top.Decl.Pos(), true, "the built-in value found by the helper is returned unchanged", bad)
	}
	// precedes the registry lookup: on every path to findDescriptor the built-in test has been evaluated
	bsol := tfl.Solve(Spec{Must: true,
		Node: func(n ast.Node, in Facts) (gen, kill []string) {
			for _, c := range callsIn(n, false) {
				if disp != top && callee(tinfo, c) == disp.Obj {
					gen = append(gen, "builtins-checked")
				}
			}
			return
		},
		Edge: func(b *cfg.Block, i int, cond ast.Expr, in Facts) (gen, kill []string) {
			if cond == nil || disp != top {
				return
			}
			// the guard (Key/Group test) or a type test has been evaluated
			for _, f := range append(condFacts(tinfo, cond, true), condFacts(tinfo, cond, false)...) {
				if strings.Contains(f, ".Key=") || strings.Contains(f, ".Group=") {
					gen = append(gen, "builtins-checked")
				}
			}
			if _, ok := tests[cond]; ok {
				gen = append(gen, "builtins-checked")
			}
			return
		}})
	// no answer before the built-in test: a table consulted first (scope-local values, an override
	// map) could hand out another context, scope or provider for the reserved types
	// (a request that arrives with its descriptor already found - a registered service - skips the
	// built-in test legitimately: "descriptor-known")
	known := tfl.Solve(Spec{Must: true,
		Node: func(nd ast.Node, in Facts) (gen, kill []string) {
			for _, c := range callsIn(nd, false) {
				if cal := callee(tinfo, c); w.IsFn(cal, w.Godi, "(*provider).findDescriptor") {
					gen = append(gen, "descriptor-known")
				}
			}
			return
		},
		Edge: func(b *cfg.Block, i int, cond ast.Expr, in Facts) (gen, kill []string) {
			be, ok := unparen(cond).(*ast.BinaryExpr)
			if cond == nil || !ok || (be.Op != token.EQL && be.Op != token.NEQ) {
				return
			}
			for _, pair := range [][2]ast.Expr{{be.X, be.Y}, {be.Y, be.X}} {
				if o := objOf(tinfo, pair[0]); o != nil && isNilIdent(tinfo, pair[1]) {
					if pt, isP := o.Type().(*types.Pointer); isP && isNamedType(pt.Elem(), modPath, "Descriptor") && isParamOf(top, tinfo, o) {
						if (be.Op == token.NEQ) == (i == 0) {
							gen = append(gen, "descriptor-known")
						}
					}
				}
			}
			return
		}})
	for _, ex := range tfl.Exits() {
		if ex.Ret == nil || len(ex.Ret.Results) != 2 || !isNilIdent(tinfo, ex.Ret.Results[1]) || isNilIdent(tinfo, ex.Ret.Results[0]) {
			continue
		}
		if !bsol.AtExit(ex).Has("builtins-checked") && !known.AtExit(ex).Has("descriptor-known") {
			r.Fail("R18.1", top.Name()+"#answer-before-builtins", ex.Pos, "resolution can answer (return %s, nil) before the built-in test has been evaluated: a value from another source is served for context.Context, Scope or Provider", exprStr(ex.Ret.Results[0]))
		}
	}
	n := 0
	for _, nd := range tfl.Nodes() {
		for _, c := range callsIn(nd, false) {
			if cal := callee(tinfo, c); w.IsFn(cal, w.Godi, "(*provider).findDescriptor") {
				n++
				r.Check(bsol.Before[nd].Has("builtins-checked"), "R18.1", fmt.Sprintf("%s#lookup-after-builtins/%d", top.Name(), n), c.Pos(), true,
					"the registry lookup is only reached after the built-in test", "the registry is consulted before the built-in services: a registration could shadow them")
			}
		}
	}
}

// builtinTableForm: the built-in dispatch written as a table of functions,
//
//	var builtinResolvers = map[reflect.Type]func(*scope) any{contextType: func(s *scope) any { return s.context }, …}
//	if f, ok := builtinResolvers[key.Type]; ok { return f(s), nil }
//
// The same obligations as for the switch form are decided: exactly the three
// reserved types, each served with the resolving scope's own value, only for
// unkeyed and ungrouped requests, before the registry lookup; and the table is
// read-only (its only use is that lookup).
func builtinTableForm(w *World, r *Report, ro *roles, top *FuncInfo, want map[string]string) bool {
	ginfo := w.Godi.TypesInfo
	// package-level map literals from reflect.Type to func(…) any
	type tbl struct {
		obj types.Object
		lit *ast.CompositeLit
	}
	var tables []tbl
	for _, f := range w.Godi.Syntax {
		for _, d := range f.Decls {
			gd, ok := d.(*ast.GenDecl)
			if !ok {
				continue
			}
			for _, sp := range gd.Specs {
				vs, ok := sp.(*ast.ValueSpec)
				if !ok {
					continue
				}
				for i, nm := range vs.Names {
					if i >= len(vs.Values) {
						continue
					}
					cl, ok := unparen(vs.Values[i]).(*ast.CompositeLit)
					if !ok {
						continue
					}
					mt, ok := ginfo.Defs[nm].Type().Underlying().(*types.Map)
					if !ok || !isNamedType(mt.Key(), "reflect", "Type") {
						continue
					}
					if _, isSig := mt.Elem().Underlying().(*types.Signature); isSig {
						tables = append(tables, tbl{ginfo.Defs[nm], cl})
					}
				}
			}
		}
	}
	for _, tb := range tables {
		// the lookup: v, ok := T[x.Type]
		var disp *FuncInfo
		var lookup *ast.AssignStmt
		for _, f := range w.Within(top, 2) {
			if ro.isCreate(f.Obj) || f == ro.setInstance {
				continue
			}
			info := f.Pkg.TypesInfo
			ast.Inspect(f.Decl.Body, func(x ast.Node) bool {
				as, ok := x.(*ast.AssignStmt)
				if !ok || len(as.Lhs) != 2 || len(as.Rhs) != 1 {
					return true
				}
				ix, ok := unparen(as.Rhs[0]).(*ast.IndexExpr)
				if ok && objOf(info, ix.X) == tb.obj && isFieldNamed(info, ix.Index, "Type") {
					disp, lookup = f, as
				}
				return true
			})
		}
		if disp == nil {
			continue
		}
		r.Analysed(disp)
		info := disp.Pkg.TypesInfo
		var recv types.Object
		if disp.Decl.Recv != nil && len(disp.Decl.Recv.List[0].Names) == 1 {
			recv = info.Defs[disp.Decl.Recv.List[0].Names[0]]
		}
		// ---- the entries
		seen := map[string]bool{}
		for _, el := range tb.lit.Elts {
			kv, ok := el.(*ast.KeyValueExpr)
			if !ok {
				continue
			}
			target := typeVarTarget(w, objOf(ginfo, kv.Key))
			wantField, known := want[target]
			if !known {
				r.Fail("R18.1", disp.Name()+"#builtin:"+exprStr(kv.Key), kv.Pos(), "the built-in table has an entry for %s, which is not one of the three reserved types", exprStr(kv.Key))
				continue
			}
			seen[target] = true
			bad := ""
			fl, isLit := unparen(kv.Value).(*ast.FuncLit)
			var ret *ast.ReturnStmt
			var param types.Object
			if isLit && len(fl.Body.List) == 1 && fl.Type.Params != nil && len(fl.Type.Params.List) == 1 && len(fl.Type.Params.List[0].Names) == 1 {
				ret, _ = fl.Body.List[0].(*ast.ReturnStmt)
				param = ginfo.Defs[fl.Type.Params.List[0].Names[0]]
			}
			switch {
			case ret == nil || len(ret.Results) != 1:
				bad = "the entry is not a function of the resolving scope that returns one value"
			case wantField == "<receiver>":
				if objOf(ginfo, ret.Results[0]) != param {
					bad = "it returns " + exprStr(ret.Results[0]) + " instead of the resolving scope itself"
				}
			default:
				fv := plainFieldOf(ginfo, ret.Results[0])
				if fv == nil || w.canonName(fv) != wantField || objOf(ginfo, selBase(ret.Results[0])) != param {
					bad = "it returns " + exprStr(ret.Results[0]) + " instead of the resolving scope's own " + wantField
				}
			}
			r.Check(bad == "", "R18.1", disp.Name()+"#builtin:"+target, kv.Pos(), true, target+" resolves to the resolving scope's own value", "built-in "+target+": "+bad)
		}
		for t := range want {
			if !seen[t] {
				r.Fail("R18.1", disp.Name()+"#builtin:"+t, tb.lit.Pos(), "the built-in table has no entry for %s", t)
			}
		}
		// ---- the table is read-only: its only use is the lookup
		uses := 0
		for _, p := range w.Pkgs {
			for id, o := range p.TypesInfo.Uses {
				if o == tb.obj {
					uses++
					_ = id
				}
			}
		}
		r.Check(uses == 1, "R18.1", disp.Name()+"#builtin-table-readonly", tb.lit.Pos(), false, "the built-in table is only read, by the lookup in "+disp.Name(),
			fmt.Sprintf("the built-in table is used at %d places besides its definition: an entry added or replaced at run time changes what Context/Provider/Scope resolve to", uses))
		// ---- the use: on the ok edge, return v(receiver), nil under the guard
		vObj, okObj := objOf(info, lookup.Lhs[0]), objOf(info, lookup.Lhs[1])
		fl := w.FlowOf(disp)
		ce := condEdge(w, info, 2)
		sol := fl.Solve(Spec{Must: true,
			Node: func(n ast.Node, in Facts) (gen, kill []string) {
				if n == lookup || (n.Pos() <= lookup.Pos() && lookup.End() <= n.End()) {
					gen = append(gen, "builtins-checked")
				}
				return
			},
			Edge: func(b *cfg.Block, i int, cond ast.Expr, in Facts) (gen, kill []string) {
				if cond == nil {
					return
				}
				if objOf(info, unparen(cond)) == okObj {
					if i == 0 {
						gen = append(gen, "tbl-hit")
					}
					return
				}
				// the guard (Key/Group test) has been evaluated: a keyed or grouped request is never a built-in
				for _, f := range append(condFacts(info, cond, true), condFacts(info, cond, false)...) {
					if strings.Contains(f, ".Key=") || strings.Contains(f, ".Group=") {
						gen = append(gen, "builtins-checked")
					}
				}
				g2, k2 := ce(b, i, cond, in)
				return append(gen, g2...), k2
			}})
		served := 0
		for _, ex := range fl.Exits() {
			at := sol.AtExit(ex)
			if !at.Has("tbl-hit") {
				continue
			}
			served++
			bad := ""
			if ex.Ret == nil || len(ex.Ret.Results) != 2 || !isNilIdent(info, ex.Ret.Results[1]) {
				bad = "the hit edge does not return (value, nil)"
			} else if c, ok := unparen(ex.Ret.Results[0]).(*ast.CallExpr); !ok || objOf(info, c.Fun) != vObj || len(c.Args) != 1 || objOf(info, c.Args[0]) != recv {
				bad = "the hit edge returns " + exprStr(ex.Ret.Results[0]) + ", not the table's function applied to the resolving scope"
			}
			r.Check(bad == "", "R18.1", disp.Name()+"#builtin-served", ex.Pos, true, "a hit in the built-in table is answered with the entry applied to the resolving scope", bad)
			keyNil, groupEmpty := false, false
			for k := range at {
				if strings.HasSuffix(k, ".Key=nil") {
					keyNil = true
				}
				if strings.HasSuffix(k, ".Group=empty") {
					groupEmpty = true
				}
			}
			r.Check(keyNil && groupEmpty, "R18.1", disp.Name()+"#builtin:guard", ex.Pos, true,
				"built-ins are served for unkeyed, ungrouped requests only",
				fmt.Sprintf("a built-in is served without the request having been found unkeyed and ungrouped (Key==nil known: %v, Group==\"\" known: %v)", keyNil, groupEmpty))
		}
		if served == 0 {
			r.Fail("R18.1", disp.Name()+"#builtin-served", lookup.Pos(), "no exit on the hit edge of the built-in table lookup")
		}
		// ---- before the registry lookup
		if disp == top {
			n := 0
			for _, nd := range fl.Nodes() {
				for _, c := range callsIn(nd, false) {
					if cal := callee(info, c); w.IsFn(cal, w.Godi, "(*provider).findDescriptor") {
						n++
						r.Check(sol.Before[nd].Has("builtins-checked"), "R18.1", fmt.Sprintf("%s#lookup-after-builtins/%d", top.Name(), n), c.Pos(), true,
							"the registry lookup is only reached after the built-in test", "the registry is consulted before the built-in services: a registration could shadow them")
					}
				}
			}
		} else {
			r.Undecided("R18.1", top.Name()+"#lookup-after-builtins", top.Decl.Pos(), "the built-in table lookup lives in %s: its order relative to the registry lookup is not decided", disp.Name())
		}
		return true
	}
	return false
}
