package main

import (
	"go/types"
	"strings"

	"golang.org/x/tools/go/packages"
)

// fieldRoles: the unexported fields the rules talk about, with the type each
// had when the tables were frozen. A field that was renamed is found again by
// its type; where several fields share a type, by its position next to the
// field it belongs to (the repository declares every mutex next to the data it
// guards and every dirty flag right after its cache).
type fieldRole struct {
	typ    string // types.TypeString relative to the owning package
	anchor string // canonical name of the neighbour field that disambiguates ("" = none)
	after  bool   // this field is declared after its anchor (else before)
}

var fieldRoles = map[string]fieldRole{
	"scope.id":            {"string", "", false},
	"scope.rootProvider":  {"*provider", "", false},
	"scope.parentScope":   {"*scope", "", false},
	"scope.context":       {"context.Context", "", false},
	"scope.cancel":        {"context.CancelFunc", "", false},
	"scope.instances":     {"map[instanceKey]any", "", false},
	"scope.instancesMu":   {"sync.RWMutex", "scope.instances", true},
	"scope.disposables":   {"[]Disposable", "", false},
	"scope.disposablesMu": {"sync.Mutex", "scope.disposables", true},
	"scope.children":      {"map[*scope]struct{}", "", false},
	"scope.childrenMu":    {"sync.Mutex", "scope.children", true},
	"scope.disposed":      {"int32", "", false},

	"provider.id":                            {"string", "", false},
	"provider.services":                      {"map[TypeKey]*Descriptor", "", false},
	"provider.groups":                        {"map[GroupKey][]*Descriptor", "", false},
	"provider.graph":                         {"*github.com/junioryono/godi/v4/internal/graph.DependencyGraph", "", false},
	"provider.analyzer":                      {"*github.com/junioryono/godi/v4/internal/reflection.Analyzer", "", false},
	"provider.singletons":                    {"sync.Map", "", false},
	"provider.singletonKeys":                 {"[]instanceKey", "", false},
	"provider.singletonKeysMu":               {"sync.Mutex", "provider.singletonKeys", true},
	"provider.voidReturnScopedDescriptors":   {"[]*Descriptor", "", false},
	"provider.voidReturnScopedDescriptorsMu": {"sync.RWMutex", "provider.voidReturnScopedDescriptors", true},
	"provider.disposables":                   {"[]Disposable", "", false},
	"provider.disposablesMu":                 {"sync.Mutex", "provider.disposables", true},
	"provider.rootScope":                     {"*scope", "", false},
	"provider.scopes":                        {"map[*scope]struct{}", "", false},
	"provider.scopesMu":                      {"sync.Mutex", "provider.scopes", true},
	"provider.scopeCounter":                  {"uint64", "", false},
	"provider.disposed":                      {"int32", "", false},

	"collection.mu":             {"sync.RWMutex", "", false},
	"collection.services":       {"map[TypeKey]*Descriptor", "", false},
	"collection.groups":         {"map[GroupKey][]*Descriptor", "", false},
	"collection.allDescriptors": {"[]*Descriptor", "", false},
	"collection.analyzer":       {"*github.com/junioryono/godi/v4/internal/reflection.Analyzer", "", false},

	"Analyzer.mu":           {"sync.RWMutex", "Analyzer.cache", false},
	"Analyzer.cache":        {"map[analysisKey]*ConstructorInfo", "", false},
	"Analyzer.invokerMu":    {"sync.RWMutex", "Analyzer.invokerCache", false},
	"Analyzer.invokerCache": {"map[uintptr]*ConstructorInvoker", "", false},

	"DependencyGraph.mu":               {"sync.RWMutex", "", false},
	"DependencyGraph.nodes":            {"map[NodeKey]*Node", "", false},
	"DependencyGraph.edges":            {"map[NodeKey][]NodeKey", "", false},
	"DependencyGraph.sortedNodes":      {"[]*Node", "", false},
	"DependencyGraph.sortedNodesDirty": {"bool", "DependencyGraph.sortedNodes", true},
	"DependencyGraph.cycleCache":       {"map[NodeKey]bool", "", false},
	"DependencyGraph.cycleCacheDirty":  {"bool", "DependencyGraph.cycleCache", true},
}

// resolveFieldRole finds the field playing the role `structName.field`.
func (w *World) resolveFieldRole(p *packages.Package, structName, field string) *types.Var {
	key := structName + "." + field
	if v, ok := w.fieldRoleCache[key]; ok {
		return v
	}
	if w.fieldRoleCache == nil {
		w.fieldRoleCache = map[string]*types.Var{}
		w.canonOf = map[*types.Var]string{}
	}
	obj := p.Types.Scope().Lookup(structName)
	if obj == nil {
		return nil
	}
	st, ok := obj.Type().Underlying().(*types.Struct)
	if !ok {
		return nil
	}
	set := func(v *types.Var) *types.Var {
		w.fieldRoleCache[key] = v
		if v != nil {
			w.canonOf[v] = key
		}
		return v
	}
	for i := 0; i < st.NumFields(); i++ {
		if st.Field(i).Name() == field {
			return set(st.Field(i))
		}
	}
	role, ok := fieldRoles[key]
	if !ok {
		return set(nil)
	}
	qual := func(other *types.Package) string {
		if other == p.Types {
			return ""
		}
		return other.Path()
	}
	// names of this struct's role fields that still exist under their own name must not be stolen
	taken := map[string]bool{}
	for k := range fieldRoles {
		if strings.HasPrefix(k, structName+".") {
			n := strings.TrimPrefix(k, structName+".")
			for i := 0; i < st.NumFields(); i++ {
				if st.Field(i).Name() == n {
					taken[n] = true
				}
			}
		}
	}
	var cands []int
	for i := 0; i < st.NumFields(); i++ {
		f := st.Field(i)
		if taken[f.Name()] {
			continue
		}
		ts := types.TypeString(f.Type(), qual)
		// an atomically published table: atomic.Pointer[T] plays the role of T
		if strings.HasPrefix(ts, "sync/atomic.Pointer[") && strings.HasSuffix(ts, "]") && !strings.HasPrefix(role.typ, "sync/atomic.") {
			ts = strings.TrimSuffix(strings.TrimPrefix(ts, "sync/atomic.Pointer["), "]")
		}
		isMu := func(t string) bool { return t == "sync.Mutex" || t == "sync.RWMutex" }
		if ts == role.typ || (role.typ == "int32" && strings.HasPrefix(ts, "sync/atomic.")) || (role.typ == "uint64" && strings.HasPrefix(ts, "sync/atomic.Uint")) ||
			(isMu(role.typ) && isMu(ts) && role.anchor != "") {
			cands = append(cands, i)
		}
	}
	if len(cands) == 1 {
		return set(st.Field(cands[0]))
	}
	if len(cands) > 1 && role.anchor != "" {
		parts := strings.SplitN(role.anchor, ".", 2)
		if a := w.resolveFieldRole(p, parts[0], parts[1]); a != nil {
			ai := -1
			for i := 0; i < st.NumFields(); i++ {
				if st.Field(i) == a {
					ai = i
				}
			}
			want := ai - 1
			if role.after {
				want = ai + 1
			}
			// a lock grouped with its data shares the group's prefix (cache_mu / cache_instances)
			if i := strings.IndexByte(a.Name(), '_'); i > 0 {
				var pref []int
				for _, c := range cands {
					if strings.HasPrefix(st.Field(c).Name(), a.Name()[:i+1]) {
						pref = append(pref, c)
					}
				}
				if len(pref) == 1 {
					return set(st.Field(pref[0]))
				}
			}
			for _, c := range cands {
				if c == want {
					return set(st.Field(c))
				}
			}
			// the lock on the other side of its data (declared before instead of after, or the reverse)
			other := 2*ai - want
			for _, c := range cands {
				if c == other {
					return set(st.Field(c))
				}
			}
		}
	}
	return set(nil)
}

// canonField returns the canonical "struct.field" label of a role field (stable
// under renames), or "Struct.currentName" for any other field.
func (w *World) canonField(v *types.Var) string {
	if w.canonOf == nil || len(w.canonOf) < len(fieldRoles) {
		w.resolveAllFieldRoles()
	}
	if c, ok := w.canonOf[v]; ok {
		return c
	}
	return ownerOfFieldRaw(w, v) + "." + v.Name()
}

func (w *World) resolveAllFieldRoles() {
	for k := range fieldRoles {
		parts := strings.SplitN(k, ".", 2)
		var p *packages.Package
		switch parts[0] {
		case "Analyzer":
			p = w.Refl
		case "DependencyGraph":
			p = w.Graph
		default:
			p = w.Godi
		}
		w.resolveFieldRole(p, parts[0], parts[1])
	}
}

// canonName is the canonical short field name ("instances") of a role field.
func (w *World) canonName(v *types.Var) string {
	c := w.canonField(v)
	if i := strings.IndexByte(c, '.'); i >= 0 {
		return c[i+1:]
	}
	return c
}
