package main

import (
	"fmt"
	"os"
	"go/ast"
	"go/token"
	"go/types"
	"sort"
	"strings"

	"golang.org/x/tools/go/cfg"
	"golang.org/x/tools/go/packages"
)

// Facts is a set of string facts. In a must-analysis a nil Facts is "top"
// (no path reaches here yet); in a may-analysis nil is the empty set.
type Facts map[string]bool

func (f Facts) Has(s string) bool { return f != nil && f[s] }

func (f Facts) HasPrefix(p string) (string, bool) {
	var keys []string
	for k := range f {
		if len(k) >= len(p) && k[:len(p)] == p {
			keys = append(keys, k)
		}
	}
	if len(keys) == 0 {
		return "", false
	}
	sort.Strings(keys)
	return keys[0], true
}

func (f Facts) clone() Facts {
	if f == nil {
		return nil
	}
	g := make(Facts, len(f))
	for k := range f {
		g[k] = true
	}
	return g
}

func (f Facts) Keys() []string {
	var ks []string
	for k := range f {
		ks = append(ks, k)
	}
	sort.Strings(ks)
	return ks
}

func equalFacts(a, b Facts) bool {
	if (a == nil) != (b == nil) || len(a) != len(b) {
		return false
	}
	for k := range a {
		if !b[k] {
			return false
		}
	}
	return true
}

// Flow is the control-flow graph of one function body (go/cfg).
type Flow struct {
	W    *World
	Pkg  *packages.Package
	Info *types.Info
	Body *ast.BlockStmt
	G    *cfg.CFG
	Name string

	blockOf map[ast.Node]*cfg.Block

	// a restricted view: edges for which infeasible reports true are never taken,
	// blocks that become unreachable are treated as dead; edgeTag adds facts on
	// the edges whose condition the restriction decided.
	infeasible func(b *cfg.Block, i int, cond ast.Expr) bool
	edgeTag    func(b *cfg.Block, i int, cond ast.Expr) []string
	reach      map[*cfg.Block]bool
}

// live reports whether b can execute in this (possibly restricted) view.
func (f *Flow) live(b *cfg.Block) bool {
	if !b.Live {
		return false
	}
	if f.infeasible == nil {
		return true
	}
	if f.reach == nil {
		f.reach = map[*cfg.Block]bool{}
		if len(f.G.Blocks) > 0 {
			work := []*cfg.Block{f.G.Blocks[0]}
			f.reach[f.G.Blocks[0]] = true
			for len(work) > 0 {
				x := work[len(work)-1]
				work = work[:len(work)-1]
				cond := branchCond(x)
				for i, sc := range x.Succs {
					if f.infeasible(x, i, cond) || f.reach[sc] || !sc.Live {
						continue
					}
					f.reach[sc] = true
					work = append(work, sc)
				}
			}
		}
	}
	return f.reach[b]
}

// Restrict returns a view of f in which the edges rejected by infeasible do not exist.
func (f *Flow) Restrict(infeasible func(b *cfg.Block, i int, cond ast.Expr) bool, edgeTag func(b *cfg.Block, i int, cond ast.Expr) []string) *Flow {
	g := *f
	g.infeasible, g.edgeTag, g.reach = infeasible, edgeTag, nil
	return &g
}

func isPanicCall(info *types.Info, call *ast.CallExpr) bool {
	id, ok := unparen(call.Fun).(*ast.Ident)
	if !ok {
		return false
	}
	b, ok := info.Uses[id].(*types.Builtin)
	return ok && b.Name() == "panic"
}

func NewFlow(w *World, pkg *packages.Package, body *ast.BlockStmt, name string) *Flow {
	f := &Flow{W: w, Pkg: pkg, Info: pkg.TypesInfo, Body: body, Name: name, blockOf: map[ast.Node]*cfg.Block{}}
	f.G = cfg.New(body, func(call *ast.CallExpr) bool { return !isPanicCall(pkg.TypesInfo, call) })
	for _, b := range f.G.Blocks {
		for _, n := range b.Nodes {
			f.blockOf[n] = b
		}
	}
	return f
}

// newFlowInfo builds a flow over a block when only the types.Info is at hand
// (no interprocedural facts can be used on it).
func newFlowInfo(info *types.Info, body *ast.BlockStmt) *Flow {
	f := &Flow{Info: info, Body: body, blockOf: map[ast.Node]*cfg.Block{}}
	f.G = cfg.New(body, func(call *ast.CallExpr) bool { return !isPanicCall(info, call) })
	for _, b := range f.G.Blocks {
		for _, n := range b.Nodes {
			f.blockOf[n] = b
		}
	}
	return f
}

func (w *World) FlowOf(fi *FuncInfo) *Flow {
	return NewFlow(w, fi.Pkg, fi.Decl.Body, fi.Name())
}

// Spec describes a forward dataflow problem over string facts.
type Spec struct {
	Must bool
	Init []string
	// Node returns the facts generated and killed by executing node n, given
	// the facts holding before it.
	Node func(n ast.Node, in Facts) (gen, kill []string)
	// Edge returns facts generated/killed on the edge b -> b.Succs[i], where
	// cond is the branch condition evaluated last in b (may be nil).
	Edge func(b *cfg.Block, i int, cond ast.Expr, in Facts) (gen, kill []string)
	// Global, when set, makes the analysis follow calls to private helpers of
	// the same package (bounded depth): the facts selected by Global flow into
	// the callee, and the callee's exit facts (selected by Global) flow back;
	// for a helper whose last result is an error assigned to a variable, the
	// facts holding only on its `return nil` exits / only on its error exits are
	// attached to the success / failure edge of the caller's test of that variable.
	Global func(fact string) bool
	// Observe, when set, is called with the facts before every node of the
	// analysed function and of every helper the analysis descends into (the
	// last call for a node carries the final facts).
	Observe func(fl *Flow, n ast.Node, before Facts)
	// Stop, when set, names helpers the analysis must treat as opaque.
	Stop  func(fi *FuncInfo) bool
	depth int
	id    int
}

var specCounter int

type Sol struct {
	F      *Flow
	Spec   Spec
	Before map[ast.Node]Facts
	After  map[ast.Node]Facts
	In     map[*cfg.Block]Facts
	Out    map[*cfg.Block]Facts
}

func apply(f Facts, gen, kill []string) Facts {
	for _, k := range kill {
		if len(k) > 0 && k[len(k)-1] == '*' {
			p := k[:len(k)-1]
			for x := range f {
				if len(x) >= len(p) && x[:len(p)] == p {
					delete(f, x)
				}
			}
			continue
		}
		delete(f, k)
	}
	for _, g := range gen {
		f[g] = true
	}
	return f
}

// branchCond returns the condition expression that decides b's two successors.
func branchCond(b *cfg.Block) ast.Expr {
	if len(b.Succs) != 2 || len(b.Nodes) == 0 {
		return nil
	}
	e, _ := b.Nodes[len(b.Nodes)-1].(ast.Expr)
	return e
}

func (f *Flow) Solve(spec Spec) *Sol {
	if spec.id == 0 {
		specCounter++
		spec.id = specCounter
	}
	s := &Sol{F: f, Spec: spec, Before: map[ast.Node]Facts{}, After: map[ast.Node]Facts{},
		In: map[*cfg.Block]Facts{}, Out: map[*cfg.Block]Facts{}}
	if len(f.G.Blocks) == 0 {
		return s
	}
	preds := map[*cfg.Block][]struct {
		b *cfg.Block
		i int
	}{}
	for _, b := range f.G.Blocks {
		for i, sc := range b.Succs {
			preds[sc] = append(preds[sc], struct {
				b *cfg.Block
				i int
			}{b, i})
		}
	}
	entry := f.G.Blocks[0]
	edgeOut := map[*cfg.Block][]Facts{}
	// iterate to fixpoint
	for iter := 0; iter < 10000; iter++ {
		changed := false
		for _, b := range f.G.Blocks {
			if !f.live(b) {
				continue
			}
			var in Facts
			if b == entry {
				in = Facts{}
				for _, k := range spec.Init {
					in[k] = true
				}
			}
			first := b != entry
			for _, p := range preds[b] {
				if !f.live(p.b) {
					continue
				}
				eo := edgeOut[p.b]
				if eo == nil || eo[p.i] == nil {
					if spec.Must {
						continue // top
					}
					continue
				}
				po := eo[p.i]
				if first && in == nil {
					in = po.clone()
					first = false
					continue
				}
				if spec.Must {
					if in == nil {
						in = po.clone()
					} else {
						for k := range in {
							if !po[k] {
								delete(in, k)
							}
						}
					}
				} else {
					if in == nil {
						in = Facts{}
					}
					for k := range po {
						in[k] = true
					}
				}
			}
			if in == nil {
				if spec.Must {
					continue // not reached yet
				}
				in = Facts{}
			}
			if old, ok := s.In[b]; ok && equalFacts(old, in) && s.Out[b] != nil {
				continue
			}
			s.In[b] = in.clone()
			cur := in.clone()
			for _, n := range b.Nodes {
				s.Before[n] = cur.clone()
				if spec.Observe != nil {
					spec.Observe(f, n, s.Before[n])
				}
				if spec.Node != nil {
					gen, kill := spec.Node(n, cur)
					cur = apply(cur, gen, kill)
				}
				if spec.Global != nil {
					cur = f.applyHelpers(spec, n, cur)
				}
				s.After[n] = cur.clone()
			}
			s.Out[b] = cur
			outs := make([]Facts, len(b.Succs))
			cond := branchCond(b)
			for i := range b.Succs {
				if f.infeasible != nil && f.infeasible(b, i, cond) {
					continue // outs[i] stays nil: the edge does not exist in this view
				}
				o := cur.clone()
				if f.edgeTag != nil {
					o = apply(o, f.edgeTag(b, i, cond), nil)
				}
				if spec.Edge != nil {
					gen, kill := spec.Edge(b, i, cond, cur)
					o = apply(o, gen, kill)
					// go/cfg does not split && and ||: on the true edge of `A && B` both operands are
					// true, on the false edge of `A || B` both are false - the callback sees each operand
					// on that edge as well
					for _, part := range edgeOperands(cond, i) {
						gen, kill := spec.Edge(b, i, part, cur)
						o = apply(o, gen, kill)
					}
				}
				if spec.Global != nil && cond != nil {
					o = f.applyPending(o, cond, i)
				}
				outs[i] = o
			}
			edgeOut[b] = outs
			changed = true
		}
		if !changed {
			break
		}
	}
	return s
}

// edgeOperands: the operands of cond that are known to have the edge's truth
// value: conjuncts on the true edge (i == 0), disjuncts on the false edge (i == 1).
func edgeOperands(cond ast.Expr, i int) []ast.Expr {
	var out []ast.Expr
	var walk func(e ast.Expr)
	walk = func(e ast.Expr) {
		be, ok := unparen(e).(*ast.BinaryExpr)
		if !ok {
			return
		}
		if (be.Op == token.LAND && i == 0) || (be.Op == token.LOR && i == 1) {
			for _, x := range []ast.Expr{be.X, be.Y} {
				out = append(out, unparen(x))
				walk(x)
			}
		}
	}
	if cond != nil && (i == 0 || i == 1) {
		walk(cond)
	}
	return out
}

// Exit is a way out of the function.
type Exit struct {
	Block *cfg.Block
	Ret   *ast.ReturnStmt // nil for falling off the end or a panic
	Panic bool
	Pos   token.Pos
}

func (f *Flow) Exits() []Exit {
	var out []Exit
	for _, b := range f.G.Blocks {
		if !f.live(b) || len(b.Succs) != 0 {
			continue
		}
		e := Exit{Block: b, Pos: f.Body.Rbrace}
		if n := len(b.Nodes); n > 0 {
			switch last := b.Nodes[n-1].(type) {
			case *ast.ReturnStmt:
				e.Ret = last
				e.Pos = last.Pos()
			case *ast.ExprStmt:
				if c, ok := last.X.(*ast.CallExpr); ok && isPanicCall(f.Info, c) {
					e.Panic = true
					e.Pos = last.Pos()
				}
			}
		}
		out = append(out, e)
	}
	return out
}

// ExitsPerPath is Exits, except that an exit which is nothing but the join at
// the end of the function body (an empty block reached by falling out of an
// if / else-if / else ladder) is replaced by one exit per predecessor: the
// rules about "what has happened on this failure path" then see each arm of the
// ladder by itself instead of the intersection of all of them.
func (f *Flow) ExitsPerPath() []Exit {
	preds := map[*cfg.Block][]*cfg.Block{}
	for _, b := range f.G.Blocks {
		if !f.live(b) {
			continue
		}
		for _, s := range b.Succs {
			preds[s] = append(preds[s], b)
		}
	}
	var out []Exit
	var expand func(e Exit, depth int)
	expand = func(e Exit, depth int) {
		// go/cfg makes falling off the end explicit with a synthetic `return` at the closing brace
		empty := len(e.Block.Nodes) == 0
		if len(e.Block.Nodes) == 1 && e.Ret != nil && len(e.Ret.Results) == 0 && e.Ret.Pos() >= f.Body.Rbrace {
			empty = true
		}
		if !e.Panic && empty && len(preds[e.Block]) > 1 && depth > 0 {
			for _, p := range preds[e.Block] {
				expand(Exit{Block: p, Pos: e.Pos}, depth-1)
			}
			return
		}
		out = append(out, e)
	}
	for _, e := range f.Exits() {
		expand(e, 3)
	}
	return out
}

// AtExit returns the facts holding at an exit (after its last node).
func (s *Sol) AtExit(e Exit) Facts {
	if e.Ret != nil {
		return s.After[e.Ret] // the result expressions have been evaluated
	}
	return s.Out[e.Block]
}

// Nodes lists all CFG nodes of live blocks in block order.
func (f *Flow) Nodes() []ast.Node {
	var out []ast.Node
	for _, b := range f.G.Blocks {
		if f.live(b) {
			out = append(out, b.Nodes...)
		}
	}
	return out
}

// NodeContaining returns the CFG node that syntactically contains pos.
func (f *Flow) NodeContaining(pos token.Pos) ast.Node {
	var best ast.Node
	for _, n := range f.Nodes() {
		if n.Pos() <= pos && pos < n.End() {
			if best == nil || (n.End()-n.Pos()) < (best.End()-best.Pos()) {
				best = n
			}
		}
	}
	return best
}

// InLoop reports whether the block of node n can reach itself.
func (f *Flow) InLoop(n ast.Node) bool {
	b := f.blockOf[n]
	if b == nil {
		return false
	}
	seen := map[*cfg.Block]bool{}
	var stack []*cfg.Block
	stack = append(stack, b.Succs...)
	for len(stack) > 0 {
		x := stack[len(stack)-1]
		stack = stack[:len(stack)-1]
		if x == b {
			return true
		}
		if seen[x] {
			continue
		}
		seen[x] = true
		stack = append(stack, x.Succs...)
	}
	return false
}

func (f *Flow) BlockOf(n ast.Node) *cfg.Block { return f.blockOf[n] }

// ---------------------------------------------------------------------------
// Event labelling through calls, with same-repository helper expansion.

// CallLabel maps a resolved call to event labels.
type CallLabel func(info *types.Info, call *ast.CallExpr, callee *types.Func) []string

// Events computes, per function, which events happen on every path (must) or
// on some path (may) to a normal return, expanding calls to repository
// functions and to locally bound function literals up to a bounded depth.
type Events struct {
	W     *World
	Label CallLabel
	// NodeGen adds events that are not calls (assignments, validated loops ...).
	NodeGen func(pkg *packages.Package, n ast.Node) []string
	// EdgeGen adds events known on a branch edge (guards).
	EdgeGen func(pkg *packages.Package, b *cfg.Block, i int, cond ast.Expr) []string
	// Stop: callees that are not expanded (treated as opaque events).
	Stop func(*types.Func) bool
	// FlowFor, when set, may supply a restricted view of a callee's body (for
	// instance the paths of a lifetime-dispatching helper that a lifetime takes).
	FlowFor func(body *ast.BlockStmt) *Flow
	Depth   int
	memo    map[evKey]Facts
	busy    map[evKey]bool
}

type evKey struct {
	body  *ast.BlockStmt
	must  bool
	depth int
}

func NewEvents(w *World, label CallLabel) *Events {
	return &Events{W: w, Label: label, Depth: 3, memo: map[evKey]Facts{}, busy: map[evKey]bool{}}
}

// OfCall returns the events of one call expression (direct labels plus the
// summary of the callee when it is a repository function).
func (e *Events) OfCall(pkg *packages.Package, binds map[types.Object]*ast.FuncLit, call *ast.CallExpr, must bool, depth int) []string {
	info := pkg.TypesInfo
	cal := callee(info, call)
	var out []string
	out = append(out, e.Label(info, call, cal)...)
	if depth <= 0 {
		return out
	}
	if cal != nil {
		if e.Stop != nil && e.Stop(cal) {
			return out
		}
		if fi := e.W.Decls[cal]; fi != nil {
			for k := range e.ofBody(fi.Pkg, fi.Decl.Body, must, depth-1) {
				out = append(out, k)
			}
		}
		return out
	}
	// immediately invoked literal or locally bound literal
	switch fun := unparen(call.Fun).(type) {
	case *ast.FuncLit:
		for k := range e.ofBody(pkg, fun.Body, must, depth-1) {
			out = append(out, k)
		}
	case *ast.Ident:
		if lit := binds[info.Uses[fun]]; lit != nil {
			for k := range e.ofBody(pkg, lit.Body, must, depth-1) {
				out = append(out, k)
			}
		}
	}
	return out
}

// OfNode returns the events of all calls evaluated by CFG node n. Deferred
// calls are labelled with the prefix "defer:"; go statements are ignored.
func (e *Events) OfNode(pkg *packages.Package, binds map[types.Object]*ast.FuncLit, n ast.Node, must bool, depth int) []string {
	var out []string
	if e.NodeGen != nil {
		out = append(out, e.NodeGen(pkg, n)...)
	}
	switch s := n.(type) {
	case *ast.GoStmt:
		return out
	case *ast.DeferStmt:
		for _, c := range callsInEvalOrder(s.Call) {
			if c == s.Call {
				for _, ev := range e.OfCall(pkg, binds, c, must, depth) {
					out = append(out, "defer:"+ev)
				}
			} else {
				out = append(out, e.OfCall(pkg, binds, c, must, depth)...)
			}
		}
		return out
	}
	for _, c := range callsInEvalOrder(n) {
		out = append(out, e.OfCall(pkg, binds, c, must, depth)...)
	}
	return out
}

func (e *Events) ofBody(pkg *packages.Package, body *ast.BlockStmt, must bool, depth int) Facts {
	key := evKey{body, must, depth}
	if f, ok := e.memo[key]; ok {
		return f
	}
	if e.busy[key] {
		return Facts{} // recursion: contribute nothing
	}
	e.busy[key] = true
	defer delete(e.busy, key)
	fl := NewFlow(e.W, pkg, body, "")
	if e.FlowFor != nil {
		if rf := e.FlowFor(body); rf != nil {
			fl = rf
		}
	}
	binds := litBindings(pkg.TypesInfo, body)
	sol := fl.Solve(Spec{Must: must, Node: func(n ast.Node, in Facts) ([]string, []string) {
		return e.OfNode(pkg, binds, n, must, depth), nil
	}, Edge: e.edgeFn(pkg)})
	var res Facts
	if must {
		for _, ex := range fl.Exits() {
			if ex.Panic {
				continue
			}
			at := sol.AtExit(ex)
			if at == nil {
				continue
			}
			if res == nil {
				res = at.clone()
			} else {
				for k := range res {
					if !at[k] {
						delete(res, k)
					}
				}
			}
		}
		if res == nil {
			res = Facts{}
		}
	} else {
		res = Facts{}
		for _, b := range fl.G.Blocks {
			if fl.live(b) {
				for k := range sol.Out[b] {
					res[k] = true
				}
			}
		}
	}
	// deferred events happen by the time the function returns
	for k := range res {
		if len(k) > 6 && k[:6] == "defer:" {
			res[k[6:]] = true
		}
	}
	e.memo[key] = res
	return res
}

// Solve runs the event analysis over a function body and returns the solution
// whose facts are the events seen so far (must: on all paths; may: on some path).
func (e *Events) Solve(fl *Flow, must bool) *Sol {
	binds := litBindings(fl.Info, fl.Body)
	return fl.Solve(Spec{Must: must, Node: func(n ast.Node, in Facts) ([]string, []string) {
		return e.OfNode(fl.Pkg, binds, n, must, e.Depth), nil
	}, Edge: e.edgeFn(fl.Pkg)})
}

func (e *Events) edgeFn(pkg *packages.Package) func(b *cfg.Block, i int, cond ast.Expr, in Facts) ([]string, []string) {
	if e.EdgeGen == nil {
		return nil
	}
	return func(b *cfg.Block, i int, cond ast.Expr, in Facts) ([]string, []string) {
		return e.EdgeGen(pkg, b, i, cond), nil
	}
}

// ---------------------------------------------------------------------------
// interprocedural extension: private helpers of the same package

type helperSummary struct {
	all, onNil, onErr Facts // facts at all normal exits / only at `return nil` exits / only at error exits
	errResult         bool
	complete          bool // computed from at least one normal exit (not a recursion guard)
	boolResult        bool // a result is a bool: facts per `return …, true` / `return …, false` exits
	boolIdx           int  // its index among the results
	onTrue, onFalse   Facts
}

var helperMemo = map[string]*helperSummary{}

// inlinable returns the declared private helper called by c, if any.
func (f *Flow) inlinable(c *ast.CallExpr) *FuncInfo {
	cal := callee(f.Info, c)
	if cal == nil || cal.Exported() {
		return nil
	}
	fi := f.W.Decls[cal]
	if fi == nil || fi.Pkg != f.Pkg {
		return nil
	}
	return fi
}

func (f *Flow) summarise(spec Spec, fi *FuncInfo, entry Facts) *helperSummary {
	key := fmt.Sprintf("%d|%v|%d|%v", spec.id, spec.Must, spec.depth, entry.Keys()) + "|" + fi.Pkg.PkgPath + "." + fi.Name()
	if hs, ok := helperMemo[key]; ok {
		return hs
	}
	helperMemo[key] = &helperSummary{all: Facts{}, onNil: Facts{}, onErr: Facts{}} // recursion guard
	sub := spec
	sub.depth = spec.depth + 1
	sub.Init = entry.Keys()
	fl := f.W.FlowOf(fi)
	sol := fl.Solve(sub)
	hs := &helperSummary{}
	sig := fi.Obj.Type().(*types.Signature)
	hs.errResult = sig.Results().Len() > 0 && isErrorType(sig.Results().At(sig.Results().Len()-1).Type())
	var all, onNil, onErr Facts
	join := func(acc Facts, x Facts, first bool) Facts {
		g := Facts{}
		for k := range x {
			if spec.Global(k) {
				g[k] = true
			}
		}
		if first {
			return g
		}
		if spec.Must {
			return meet(acc, g)
		}
		for k := range g {
			acc[k] = true
		}
		return acc
	}
	// a bool result (the last one, or an earlier one when the last is an error): facts per outcome
	hs.boolIdx = -1
	for i := sig.Results().Len() - 1; i >= 0; i-- {
		if b, ok := sig.Results().At(i).Type().Underlying().(*types.Basic); ok && b.Info()&types.IsBoolean != 0 {
			hs.boolResult, hs.boolIdx = true, i
			break
		}
	}
	var onTrue, onFalse Facts
	nTrue, nFalse := 0, 0
	nAll, nNil, nErr := 0, 0, 0
	for _, ex := range fl.Exits() {
		if ex.Panic {
			continue
		}
		at := sol.AtExit(ex)
		if at == nil {
			continue
		}
		all = join(all, at, nAll == 0)
		nAll++
		if hs.boolResult && (ex.Ret == nil || hs.boolIdx >= len(ex.Ret.Results)) {
			// `return f()` with several results, or a bare return of named results: either outcome
			onTrue = join(onTrue, at, nTrue == 0)
			nTrue++
			onFalse = join(onFalse, at, nFalse == 0)
			nFalse++
		}
		if hs.boolResult && ex.Ret != nil && hs.boolIdx < len(ex.Ret.Results) {
			switch exprStr(unparen(ex.Ret.Results[hs.boolIdx])) {
			case "true":
				onTrue = join(onTrue, at, nTrue == 0)
				nTrue++
			case "false":
				onFalse = join(onFalse, at, nFalse == 0)
				nFalse++
			default:
				onTrue = join(onTrue, at, nTrue == 0)
				nTrue++
				onFalse = join(onFalse, at, nFalse == 0)
				nFalse++
			}
		}
		if hs.errResult && ex.Ret != nil && len(ex.Ret.Results) > 0 {
			last := ex.Ret.Results[len(ex.Ret.Results)-1]
			if isNilIdent(fi.Pkg.TypesInfo, last) {
				onNil = join(onNil, at, nNil == 0)
				nNil++
			} else if provablyNonNil(fi.Pkg.TypesInfo, last, at) || returnsUnderNonNilTest(fi, ex.Ret, last) {
				onErr = join(onErr, at, nErr == 0)
				nErr++
			} else {
				// may be nil or not: belongs to both
				onNil = join(onNil, at, nNil == 0)
				nNil++
				onErr = join(onErr, at, nErr == 0)
				nErr++
			}
		}
	}
	orEmpty := func(x Facts) Facts {
		if x == nil {
			return Facts{}
		}
		return x
	}
	hs.all, hs.onNil, hs.onErr = orEmpty(all), orEmpty(onNil), orEmpty(onErr)
	hs.onTrue, hs.onFalse = orEmpty(onTrue), orEmpty(onFalse)
	hs.complete = nAll > 0
	helperMemo[key] = hs
	return hs
}

// provablyNonNil: a composite literal, &T{}, errors.New/fmt.Errorf, or a
// variable known non-nil by a condition fact.
func provablyNonNil(info *types.Info, e ast.Expr, at Facts) bool {
	e = unparen(e)
	if litOf(e) != nil {
		return true
	}
	if c, ok := e.(*ast.CallExpr); ok {
		if cal := callee(info, c); cal != nil && cal.Pkg() != nil && (cal.Pkg().Path() == "errors" && cal.Name() == "New" || cal.Pkg().Path() == "fmt" && cal.Name() == "Errorf") {
			return true
		}
	}
	if id, ok := e.(*ast.Ident); ok {
		if at.Has(id.Name+"=nonnil") || at.Has("nonnil:"+id.Name) {
			return true
		}
		// a sentinel: package-level error variable (the repository never reassigns them)
		if v, ok := info.Uses[id].(*types.Var); ok && v.Parent() != nil && v.Pkg() != nil && v.Parent() == v.Pkg().Scope() && isErrorType(v.Type()) {
			return true
		}
	}
	if sel, ok := e.(*ast.SelectorExpr); ok {
		if v, ok := info.Uses[sel.Sel].(*types.Var); ok && !v.IsField() && v.Pkg() != nil && v.Parent() == v.Pkg().Scope() && isErrorType(v.Type()) {
			return true
		}
	}
	return false
}

func (f *Flow) applyHelpers(spec Spec, n ast.Node, cur Facts) Facts {
	if spec.depth >= 3 {
		return cur
	}
	if _, isGo := n.(*ast.GoStmt); isGo {
		return cur
	}
	if _, isDefer := n.(*ast.DeferStmt); isDefer {
		return cur
	}
	for _, c := range callsInEvalOrder(n) {
		fi := f.inlinable(c)
		if fi == nil || (spec.Stop != nil && spec.Stop(fi)) {
			continue
		}
		entry := Facts{}
		for k := range cur {
			if spec.Global(k) {
				entry[k] = true
			}
		}
		hs := f.summarise(spec, fi, entry)
		// a global fact that went in and did not come out was killed by the helper
		if hs.complete {
			for k := range entry {
				if !hs.all[k] && (spec.Must || (!hs.onNil[k] && !hs.onErr[k])) {
					if os.Getenv("GODICHECK_DEBUG") == "kill" {
						fmt.Fprintf(os.Stderr, "helper %s (depth %d) kills %s at %s\n", fi.Name(), spec.depth, k, f.W.Pos(c.Pos()))
					}
					delete(cur, k)
				}
			}
		}
		if spec.Must {
			// facts of the caller survive the call; the callee adds what it guarantees
			for k := range hs.all {
				cur[k] = true
			}
		} else {
			for k := range hs.all {
				cur[k] = true
			}
			for k := range hs.onNil {
				cur[k] = true
			}
			for k := range hs.onErr {
				cur[k] = true
			}
		}
		// bool result: facts per outcome, attached to the edges of the test of the result
		// (the bound variable, or the call itself when it is the condition)
		if hs.boolResult && hs.complete {
			key := fmt.Sprintf("@%d", c.Pos())
			if as, ok := n.(*ast.AssignStmt); ok && len(as.Rhs) == 1 && unparen(as.Rhs[0]) == ast.Expr(c) && hs.boolIdx < len(as.Lhs) {
				if id, ok := unparen(as.Lhs[hs.boolIdx]).(*ast.Ident); ok && id.Name != "_" {
					key = id.Name
				}
			}
			for k := range cur {
				if strings.HasPrefix(k, "ontrue:"+key+"|") || strings.HasPrefix(k, "onfalse:"+key+"|") {
					delete(cur, k)
				}
			}
			for k := range hs.onTrue {
				cur["ontrue:"+key+"|"+k] = true
			}
			for k := range hs.onFalse {
				cur["onfalse:"+key+"|"+k] = true
			}
			for _, src := range []Facts{entry, hs.all} {
				for k := range src {
					if !hs.onTrue[k] {
						cur["ontrue:"+key+"|-"+k] = true
					}
					if !hs.onFalse[k] {
						cur["onfalse:"+key+"|-"+k] = true
					}
				}
			}
		}
		// error result bound to a variable: remember the edge-specific facts
		if hs.errResult {
			if as, ok := n.(*ast.AssignStmt); ok && len(as.Rhs) == 1 && unparen(as.Rhs[0]) == ast.Expr(c) {
				if id, ok := unparen(as.Lhs[len(as.Lhs)-1]).(*ast.Ident); ok && id.Name != "_" {
					for k := range cur {
						if strings.HasPrefix(k, "onnil:"+id.Name+"|") || strings.HasPrefix(k, "onerr:"+id.Name+"|") {
							delete(cur, k)
						}
					}
					for k := range hs.onNil {
						cur["onnil:"+id.Name+"|"+k] = true
					}
					for k := range hs.onErr {
						cur["onerr:"+id.Name+"|"+k] = true
					}
					// what the helper leaves behind on one outcome only is withdrawn on the other edge
					if hs.complete {
						for _, src := range []Facts{entry, hs.all, hs.onNil, hs.onErr} {
							for k := range src {
								if !hs.onNil[k] {
									cur["onnil:"+id.Name+"|-"+k] = true
								}
								if !hs.onErr[k] {
									cur["onerr:"+id.Name+"|-"+k] = true
								}
							}
						}
					}
				}
			}
		}
	}
	return cur
}

// applyPending turns "onnil:v|F" / "onerr:v|F" into F on the matching edge of a nil test of v.
func (f *Flow) applyPending(o Facts, cond ast.Expr, i int) Facts {
	// `v`, `!v`, `helper(…)`, `!helper(…)` for helpers with a bool result
	{
		c, neg := unparen(cond), false
		for {
			u, isU := c.(*ast.UnaryExpr)
			if !isU || u.Op != token.NOT {
				break
			}
			c, neg = unparen(u.X), !neg
		}
		key := ""
		switch x := c.(type) {
		case *ast.Ident:
			key = x.Name
		case *ast.CallExpr:
			key = fmt.Sprintf("@%d", x.Pos())
		}
		if key != "" {
			truth := (i == 0) != neg
			pfx := "onfalse:" + key + "|"
			if truth {
				pfx = "ontrue:" + key + "|"
			}
			hit := false
			for k := range o {
				if strings.HasPrefix(k, pfx) {
					hit = true
					if fact := k[len(pfx):]; strings.HasPrefix(fact, "-") {
						delete(o, fact[1:])
					}
				}
			}
			for k := range o {
				if strings.HasPrefix(k, pfx) {
					if fact := k[len(pfx):]; !strings.HasPrefix(fact, "-") {
						o[fact] = true
					}
				}
			}
			for k := range o {
				if strings.HasPrefix(k, "ontrue:"+key+"|") || strings.HasPrefix(k, "onfalse:"+key+"|") {
					delete(o, k)
				}
			}
			if _, isCall := c.(*ast.CallExpr); isCall || hit {
				return o
			}
		}
	}
	be, ok := unparen(cond).(*ast.BinaryExpr)
	if !ok || (be.Op != token.NEQ && be.Op != token.EQL) {
		return o
	}
	var id *ast.Ident
	if isNilIdent(f.Info, be.Y) {
		id, _ = unparen(be.X).(*ast.Ident)
	} else if isNilIdent(f.Info, be.X) {
		id, _ = unparen(be.Y).(*ast.Ident)
	}
	if id == nil {
		return o
	}
	isNil := (be.Op == token.EQL) == (i == 0)
	pfx := "onerr:" + id.Name + "|"
	if isNil {
		pfx = "onnil:" + id.Name + "|"
	}
	for k := range o {
		if strings.HasPrefix(k, pfx) {
			if fact := k[len(pfx):]; strings.HasPrefix(fact, "-") {
				delete(o, fact[1:])
			}
		}
	}
	for k := range o {
		if strings.HasPrefix(k, pfx) {
			if fact := k[len(pfx):]; !strings.HasPrefix(fact, "-") {
				o[fact] = true
			}
		}
	}
	for k := range o {
		if strings.HasPrefix(k, "onnil:"+id.Name+"|") || strings.HasPrefix(k, "onerr:"+id.Name+"|") {
			delete(o, k)
		}
	}
	return o
}

// globalPrefixes builds a Global predicate from fact prefixes.
func globalPrefixes(ps ...string) func(string) bool {
	return func(f string) bool {
		for _, p := range ps {
			if strings.HasPrefix(f, p) {
				return true
			}
		}
		return false
	}
}

// returnsUnderNonNilTest: the return statement is control dependent on `v != nil`
// (taken) or `v == nil` (not taken) for the variable v it returns.
func returnsUnderNonNilTest(fi *FuncInfo, ret *ast.ReturnStmt, e ast.Expr) bool {
	info := fi.Pkg.TypesInfo
	o := objOf(info, e)
	if o == nil {
		return false
	}
	conds, want := controllingCondsInfo(info, fi.Decl.Body, ret.Pos())
	isV := func(x ast.Expr) bool { return objOf(info, x) == o }
	for i, c := range conds {
		if want[i] && isNilTestOf(info, c, isV, true) {
			return true
		}
		if !want[i] && isNilTestOf(info, c, isV, false) {
			return true
		}
	}
	return false
}
