package main

import (
	"bufio"
	"encoding/json"
	"fmt"
	"go/token"
	"os"
	"path/filepath"
	"sort"
	"strings"
	"time"
)

// Ob is one obligation: a rule applied to one construct of the source.
type Ob struct {
	Rule       string `json:"rule"`
	Construct  string `json:"construct"`
	Pos        string `json:"pos"`
	Verdict    string `json:"verdict"` // ok | violation | known | undecided
	Msg        string `json:"msg"`
	Nontrivial bool   `json:"path_or_flow_computed"`
}

// Report collects the obligations of one property run.
type Report struct {
	lenient bool // scratch report of a re-exported rule set: rules are declared on first use
	Prop  string
	Tier  string
	W     *World
	Obs   []Ob
	Rules map[string]string // rule id -> statement of the rule
	order []string
	mins  map[string]int
	// measured analysis extent
	funcs     map[string]bool
	callSites int
	notes     []string
	aux       map[string]any
	start     time.Time
}

func NewReport(prop, tier string, w *World) *Report {
	return &Report{Prop: prop, Tier: tier, W: w, Rules: map[string]string{}, mins: map[string]int{},
		funcs: map[string]bool{}, aux: map[string]any{}, start: time.Now()}
}

// Rule declares a rule and the minimum number of obligations it must produce
// (confirmed by hand on the reference tree): fewer means the pattern stopped
// matching and the run is UNDECIDED instead of vacuously green.
func (r *Report) Rule(id string, min int, statement string) {
	if _, ok := r.Rules[id]; !ok {
		r.order = append(r.order, id)
	}
	r.Rules[id] = statement
	r.mins[id] = min
}

func (r *Report) add(rule, construct string, pos token.Pos, verdict string, nontrivial bool, format string, a ...any) {
	if _, ok := r.Rules[rule]; !ok && r.lenient {
		r.Rule(rule, 0, "")
	}
	if _, ok := r.Rules[rule]; !ok {
		panic("rule not declared: " + rule)
	}
	construct = strings.ReplaceAll(construct, " ", "_")
	r.Obs = append(r.Obs, Ob{Rule: rule, Construct: construct, Pos: r.W.Pos(pos), Verdict: verdict,
		Msg: fmt.Sprintf(format, a...), Nontrivial: nontrivial})
}

// OK records a discharged obligation. flow=true when deciding it needed a
// path/dominance/value-flow computation rather than mere presence.
func (r *Report) OK(rule, construct string, pos token.Pos, flow bool, format string, a ...any) {
	r.add(rule, construct, pos, "ok", flow, format, a...)
}

func (r *Report) Fail(rule, construct string, pos token.Pos, format string, a ...any) {
	r.add(rule, construct, pos, "violation", true, format, a...)
}

func (r *Report) Undecided(rule, construct string, pos token.Pos, format string, a ...any) {
	r.add(rule, construct, pos, "undecided", true, format, a...)
}

// Check records OK or Fail.
func (r *Report) Check(cond bool, rule, construct string, pos token.Pos, flow bool, okMsg, failMsg string) bool {
	if cond {
		r.OK(rule, construct, pos, flow, "%s", okMsg)
	} else {
		r.Fail(rule, construct, pos, "%s", failMsg)
	}
	return cond
}

// Try runs one rule. A rule that cannot resolve its anchors (undecided) is
// recorded as an undecided obligation and the remaining rules still run, so a
// violation another rule can establish is reported rather than masked.
func (r *Report) Try(fn func()) {
	defer func() {
		if e := recover(); e != nil {
			u, ok := e.(undecidedErr)
			if !ok {
				panic(e)
			}
			if _, ok := r.Rules["ANCHOR"]; !ok {
				r.Rule("ANCHOR", 0, "every rule resolves the constructs it is anchored in (a failure here means the code no longer has the shape the rule was written for: the property is not decided)")
			}
			key := u.msg
			for _, o := range r.Obs {
				if o.Rule == "ANCHOR" && o.Msg == key {
					return
				}
			}
			r.Undecided("ANCHOR", fmt.Sprintf("anchor/%d", len(r.Obs)), token.NoPos, "%s", key)
		}
	}()
	fn()
}

func (r *Report) Analysed(fi *FuncInfo) {
	if fi != nil {
		r.funcs[fi.Pkg.PkgPath+"."+fi.Name()] = true
	}
}

func (r *Report) Note(format string, a ...any) { r.notes = append(r.notes, fmt.Sprintf(format, a...)) }

// ---- known findings ---------------------------------------------------------

type knownEntry struct {
	prop, rule, construct, what string
}

func loadKnown(path string) ([]knownEntry, []string) {
	f, err := os.Open(path)
	if err != nil {
		return nil, nil
	}
	defer f.Close()
	var ks []knownEntry
	var fixed []string
	sc := bufio.NewScanner(f)
	for sc.Scan() {
		line := strings.TrimSpace(sc.Text())
		if strings.HasPrefix(line, "fixed:") {
			fixed = append(fixed, line)
			continue
		}
		if !strings.HasPrefix(line, "known:") {
			continue
		}
		rest := strings.TrimSpace(strings.TrimPrefix(line, "known:"))
		k := knownEntry{}
		// property=Cnn rule=Rnn.m construct=<key> <what>
		fields := strings.SplitN(rest, " ", 4)
		if len(fields) < 3 {
			continue
		}
		for _, f := range fields[:3] {
			switch {
			case strings.HasPrefix(f, "property="):
				k.prop = strings.TrimPrefix(f, "property=")
			case strings.HasPrefix(f, "rule="):
				k.rule = strings.TrimPrefix(f, "rule=")
			case strings.HasPrefix(f, "construct="):
				k.construct = strings.TrimPrefix(f, "construct=")
			}
		}
		if len(fields) == 4 {
			k.what = fields[3]
		}
		if k.prop != "" && k.rule != "" && k.construct != "" {
			ks = append(ks, k)
		}
	}
	return ks, fixed
}

// ---- finishing: evidence + exit status -------------------------------------

type evidence struct {
	PropertyID  string         `json:"property_id"`
	Tier        string         `json:"tier"`
	Seed        int            `json:"seed"`
	Level       string         `json:"level"`
	Coverage    map[string]any `json:"coverage"`
	Assumptions []string       `json:"assumptions"`
	WallS       float64        `json:"wall_s"`
	Violations  int            `json:"violations"`
}

// Finish matches known findings, writes the evidence file and returns the exit status.
func (r *Report) Finish(verifDir string, seed int, explanation string, assumptions []string) int {
	kp := knownPath
	if kp == "" {
		kp = filepath.Join(verifDir, "known_findings.txt")
	}
	known, _ := loadKnown(kp)

	// instance counts
	counts := map[string]int{}
	for _, o := range r.Obs {
		counts[o.Rule]++
	}
	for _, id := range r.order {
		if counts[id] < r.mins[id] {
			r.Obs = append(r.Obs, Ob{Rule: id, Construct: "#instances", Pos: "-", Verdict: "undecided", Nontrivial: false,
				Msg: fmt.Sprintf("rule matched %d construct(s), fewer than the %d confirmed by hand: the pattern no longer recognises the code", counts[id], r.mins[id])})
		}
	}

	var viol, undec, knownHit []Ob
	for i := range r.Obs {
		o := &r.Obs[i]
		if o.Verdict == "violation" {
			for _, k := range known {
				if k.prop == r.Prop && k.rule == o.Rule && k.construct == o.Construct {
					o.Verdict = "known"
					o.Msg += " [known finding: " + k.what + "]"
					break
				}
			}
		}
		switch o.Verdict {
		case "violation":
			viol = append(viol, *o)
		case "undecided":
			undec = append(undec, *o)
		case "known":
			knownHit = append(knownHit, *o)
		}
	}

	// evidence
	distinct := map[string]bool{}
	discharged := 0
	for _, o := range r.Obs {
		if o.Verdict == "ok" || o.Verdict == "known" {
			discharged++
		}
		if o.Nontrivial {
			distinct[o.Rule+"|"+o.Construct] = true
		}
	}
	perRule := []map[string]any{}
	samples := []any{}
	for _, id := range r.order {
		n, bad := 0, 0
		var first *Ob
		for i := range r.Obs {
			if r.Obs[i].Rule == id {
				if first == nil {
					first = &r.Obs[i]
				}
				n++
				if r.Obs[i].Verdict != "ok" {
					bad++
				}
			}
		}
		perRule = append(perRule, map[string]any{"rule": id, "statement": r.Rules[id], "instances": n, "confirmed_minimum": r.mins[id], "not_ok": bad})
		if first != nil {
			samples = append(samples, first)
		}
	}
	for _, o := range append(append([]Ob{}, viol...), append(undec, knownHit...)...) {
		samples = append(samples, o)
	}
	funcs := make([]string, 0, len(r.funcs))
	for f := range r.funcs {
		funcs = append(funcs, f)
	}
	sort.Strings(funcs)
	cov := map[string]any{
		"explanation":            explanation,
		"obligations":            len(r.Obs),
		"discharged":             discharged,
		"evaluations":            len(r.Obs),
		"distinct_nontrivial":    len(distinct),
		"rule":                   "one obligation per (rule, construct) pair enumerated from the type-checked source; non-trivial = deciding it required a control-flow, dominance or value-flow computation (not mere presence of a construct); distinct = distinct (rule, construct) keys",
		"samples":                samples,
		"rules":                  perRule,
		"functions_analysed":     funcs,
		"functions_analysed_n":   len(funcs),
		"files_loaded":           r.W.Files,
		"packages":               len(r.W.Pkgs),
		"all_obligations":        r.Obs,
		"known_findings_matched": len(knownHit),
		"undecided":              len(undec),
		"checker_cmd":            strings.Join(os.Args, " "),
		"trusted_base":           []string{"go/types type checker", "golang.org/x/tools v0.29.0 (go/packages, go/cfg, go/ssa)", "the idiom tables frozen in /verif/checker (DESIGN.md §4)"},
		"exhaustive":             true,
		"notes":                  r.notes,
		"repo_root":              r.W.Root,
	}
	for k, v := range r.aux {
		cov[k] = v
	}
	ev := evidence{PropertyID: r.Prop, Tier: r.Tier, Seed: seed, Level: "other", Coverage: cov,
		Assumptions: assumptions, WallS: time.Since(r.start).Seconds(), Violations: len(viol)}
	evDir := filepath.Join(verifDir, "evidence")
	_ = os.MkdirAll(evDir, 0o755)
	data, _ := json.MarshalIndent(ev, "", " ")
	if err := os.WriteFile(filepath.Join(evDir, r.Prop+".json"), append(data, '\n'), 0o644); err != nil {
		fmt.Printf("UNDECIDED property=%s cannot write evidence: %v\n", r.Prop, err)
		return 2
	}

	// console
	fmt.Printf("property %s tier=%s: %d obligations over %d rules, %d functions, %d files; %d violation(s), %d known, %d undecided\n",
		r.Prop, r.Tier, len(r.Obs), len(r.order), len(funcs), len(r.W.Files), len(viol), len(knownHit), len(undec))
	for _, o := range knownHit {
		fmt.Printf("KNOWN-FINDING: property=%s %s %s (%s) %s\n", r.Prop, o.Rule, o.Construct, o.Pos, o.Msg)
	}
	replay := filepath.Join(evDir, r.Prop+".violation.txt")
	_ = os.Remove(replay)
	if len(viol) > 0 {
		var sb strings.Builder
		for _, o := range viol {
			fmt.Fprintf(&sb, "property=%s rule=%s construct=%s at %s\n  rule: %s\n  finding: %s\n", r.Prop, o.Rule, o.Construct, o.Pos, r.Rules[o.Rule], o.Msg)
			fmt.Printf("  violation: %s %s at %s: %s\n", o.Rule, o.Construct, o.Pos, o.Msg)
		}
		_ = os.WriteFile(replay, []byte(sb.String()), 0o644)
		fmt.Printf("VIOLATION property=%s replay=%s\n", r.Prop, replay)
		return 1
	}
	if len(undec) > 0 {
		for _, o := range undec {
			fmt.Printf("UNDECIDED property=%s %s %s at %s: %s\n", r.Prop, o.Rule, o.Construct, o.Pos, o.Msg)
		}
		return 2
	}
	return 0
}
