package main

import (
	"fmt"
	"go/ast"
	"go/token"
	"go/types"
	"sort"
	"strings"

	"golang.org/x/tools/go/cfg"
)

// asRule runs fn on a private report and re-labels what it produced.
func asRule(w *World, r *Report, rule string, ids []string, fn func(sub *Report)) {
	sub := NewReport(r.Prop, r.Tier, w)
	for _, id := range ids {
		sub.Rule(id, 0, "")
	}
	fn(sub)
	for _, o := range sub.Obs {
		o.Rule = rule
		r.Obs = append(r.Obs, o)
	}
	for f := range sub.funcs {
		r.funcs[f] = true
	}
}

// ruleInitializerListMembership: the list of functions that run whenever a scope
// is created receives a descriptor only where it is known to be Scoped and to
// return nothing (a void singleton in that list would run again for every scope).
func ruleInitializerListMembership(w *World, r *Report, rule string) {
	ro := resolveRoles(w)
	n := 0
	for _, fi := range w.Within(ro.doBuild, 2) {
		info := fi.Pkg.TypesInfo
		fl := w.FlowOf(fi)
		sol := fl.Solve(Spec{Must: true, Edge: condEdge(w, info, 3)})
		for _, nd := range fl.Nodes() {
			for _, c := range callsIn(nd, false) {
				if exprStr(c.Fun) != "append" || len(c.Args) != 2 || c.Ellipsis.IsValid() {
					continue
				}
				// appended to the initializer list field, or to a local that is stored into it
				target := false
				if fieldOf(info, c.Args[0]) == ro.initList {
					target = true
				}
				if o := objOf(info, c.Args[0]); o != nil && !target {
					ast.Inspect(fi.Decl.Body, func(x ast.Node) bool {
						switch s := x.(type) {
						case *ast.AssignStmt:
							for i, l := range s.Lhs {
								if fieldOf(info, l) == ro.initList && i < len(s.Rhs) && objOf(info, s.Rhs[i]) == o {
									target = true
								}
							}
						case *ast.KeyValueExpr:
							if id, ok := s.Key.(*ast.Ident); ok && id.Name == ro.initList.Name() && objOf(info, s.Value) == o {
								target = true
							}
						case *ast.ReturnStmt:
							for _, res := range s.Results {
								if objOf(info, res) == o && fi != ro.doBuild {
									target = true // a helper that builds the list for doBuild
								}
							}
						}
						return true
					})
				}
				if !target {
					continue
				}
				if sl, ok := info.TypeOf(c.Args[0]).Underlying().(*types.Slice); !ok || !isNamedType(sl.Elem(), modPath, "Descriptor") {
					continue
				}
				n++
				d := exprStr(c.Args[1])
				bf := sol.Before[nd]
				scoped := bf.Has(d + ".Lifetime==Scoped")
				void := bf.Has(d + ".VoidReturn=true")
				con := fmt.Sprintf("%s#initializer-list-append/%d", fi.Name(), n)
				r.Check(scoped && void, rule, con, c.Pos(), true,
					"only descriptors known to be Scoped and to return nothing enter the list of per-scope initializers",
					fmt.Sprintf("a descriptor enters the list of functions run at every scope creation without having been found Scoped (%v) and result-less (%v): a singleton initializer would run again for every scope, a transient one for none", scoped, void))
			}
		}
	}
	if n == 0 {
		r.Fail(rule, "doBuild#initializer-list-append", ro.doBuild.Decl.Pos(), "no place where the per-scope initializer list is filled was found")
	}
}

// ruleIdentityComparisons: wherever two registrations / outputs are compared by
// their reflect.Type fields inside a conjunction, the conjunction also compares
// their keys (two outputs of one type differ by key only).
func ruleIdentityComparisons(w *World, r *Report, rule string) {
	ro := resolveRoles(w)
	n := 0
	for _, fi := range w.Within(ro.createInstance, 3) {
		info := fi.Pkg.TypesInfo
		ast.Inspect(fi.Decl.Body, func(x ast.Node) bool {
			ifs, ok := x.(*ast.IfStmt)
			if !ok {
				return true
			}
			var conj []ast.Expr
			var split func(e ast.Expr)
			split = func(e ast.Expr) {
				if be, ok := unparen(e).(*ast.BinaryExpr); ok && be.Op == token.LAND {
					split(be.X)
					split(be.Y)
					return
				}
				conj = append(conj, unparen(e))
			}
			split(ifs.Cond)
			typeCmp, keyCmp := false, false
			var pos token.Pos
			for _, c := range conj {
				be, ok := c.(*ast.BinaryExpr)
				if !ok || be.Op != token.EQL {
					continue
				}
				isTypeSel := func(e ast.Expr) bool {
					tv, ok := info.Types[e]
					return ok && isNamedType(tv.Type, "reflect", "Type") && isFieldNamed(info, e, "Type")
				}
				if isTypeSel(be.X) && isTypeSel(be.Y) && exprStr(selBase(be.X)) != exprStr(selBase(be.Y)) {
					typeCmp, pos = true, be.Pos()
				}
				mentionsKey := func(e ast.Expr) bool {
					return isFieldNamed(info, e, "Key") || strings.Contains(strings.ToLower(exprStr(e)), "key")
				}
				if mentionsKey(be.X) && mentionsKey(be.Y) {
					keyCmp = true
				}
			}
			if typeCmp {
				n++
				r.Check(keyCmp, rule, fmt.Sprintf("%s#identity-comparison/%d", fi.Name(), n), pos, false,
					"the identities are compared by type and key",
					"two identities are compared by their Type (and group) only: two outputs of one type that differ by key are taken for the same service, so a keyed resolution that triggers the constructor is answered with the wrong output")
			}
			return true
		})
	}
	if n == 0 {
		r.OK(rule, "createInstance#identity-comparison/none", ro.createInstance.Decl.Pos(), false, "the creation chain compares no identities by type (outputs are matched by position or by descriptor)")
	}
}

// ruleDependenciesUnfiltered: a descriptor's dependency list is the analyzer's
// list as it is: whatever is injected at run time must be visible to the graph
// and to the build-time validations.
func ruleDependenciesUnfiltered(w *World, r *Report, rule string) {
	n := 0
	var reach map[*FuncInfo]bool
	regReach := func() map[*FuncInfo]bool {
		if reach == nil {
			reach = map[*FuncInfo]bool{}
			if add := w.Fn(w.Godi, "(*collection).addService"); add != nil {
				reach = reachableFrom(w, []*FuncInfo{add})
			} else {
				for _, f := range w.FuncsOf(w.Godi) {
					reach[f] = true
				}
			}
		}
		return reach
	}
	for _, fi := range w.FuncsOf(w.Godi) {
		info := fi.Pkg.TypesInfo
		check := func(val ast.Expr, pos token.Pos) {
			n++
			con := fmt.Sprintf("%s#Descriptor.Dependencies/%d", fi.Name(), n)
			v := resolveLocal(info, fi.Decl.Body, val, 2)
			good := false
			if isFieldNamed(info, v, "Dependencies") {
				good = true // the analyzer's list, or a base descriptor's
			}
			if c, ok := v.(*ast.CallExpr); ok {
				if cal := callee(info, c); cal != nil && recvNamed(cal) != nil && recvNamed(cal).Obj().Name() == "Analyzer" {
					good = true
				}
			}
			if isNilIdent(info, v) {
				good = true
			}
			// deps, err := analyzer.GetDependencies(service): the only definition of the local
			if o := objOf(info, v); o != nil && !good {
				defs, fromAnalyzer := 0, 0
				ast.Inspect(fi.Decl.Body, func(y ast.Node) bool {
					if as, ok := y.(*ast.AssignStmt); ok {
						for _, l := range as.Lhs {
							if objOf(info, l) != o {
								continue
							}
							defs++
							if len(as.Rhs) == 1 {
								if c, ok := unparen(as.Rhs[0]).(*ast.CallExpr); ok {
									if cal := callee(info, c); cal != nil && recvNamed(cal) != nil && recvNamed(cal).Obj().Name() == "Analyzer" {
										fromAnalyzer++
									}
								}
							}
						}
					}
					return true
				})
				good = defs == 1 && fromAnalyzer == 1
			}
			r.Check(good, rule, con, pos, false,
				"the descriptor takes the analyzer's dependency list as it is",
				"Descriptor.Dependencies is set to "+exprStr(val)+", not to the analyzer's list: a dependency that is filtered out here is still injected at resolution time but invisible to the presence, lifetime and cycle validations and to the creation order")
		}
		ast.Inspect(fi.Decl.Body, func(x ast.Node) bool {
			switch s := x.(type) {
			case *ast.CompositeLit:
				if tv, ok := info.Types[s]; ok && isNamedType(tv.Type, modPath, "Descriptor") {
					if v, has := compositeFields(s)["Dependencies"]; has {
						check(v, v.Pos())
					}
				}
			case *ast.AssignStmt:
				for i, l := range s.Lhs {
					if fv := fieldOf(info, l); fv != nil && fv.Name() == "Dependencies" && ownerOfFieldRaw(w, fv) == "Descriptor" && i < len(s.Rhs) {
						// a value copy (`clone := *d`) filled outside the registration chain: the copy is
						// handed to the caller, no registry view can come to hold it
						if !regReach()[fi] && localStructCopy(info, fi, l) {
							continue
						}
						check(s.Rhs[i], s.Pos())
					}
				}
			}
			return true
		})
	}
	if n == 0 {
		r.Fail(rule, "Descriptor.Dependencies", token.NoPos, "no place where a descriptor's dependency list is set was found")
	}
}

// ruleCancelBeforeInitializers: the scope owns its cancel function before
// anything that can fail and close it runs (the initializer pass closes the
// partial scope on failure; a Close that finds no cancel function leaves the
// derived context alive).
func ruleCancelBeforeInitializers(w *World, r *Report, rule string) {
	ro := resolveRoles(w)
	cancelField := w.Field(w.Godi, "scope", "cancel")
	n := 0
	for _, fi := range w.FuncsOf(w.Godi) {
		info := fi.Pkg.TypesInfo
		calls := false
		for _, c := range callsIn(fi.Decl.Body, false) {
			if callee(info, c) == ro.runInits.Obj {
				calls = true
			}
		}
		if !calls || fi == ro.runInits {
			continue
		}
		fl := w.FlowOf(fi)
		sol := fl.Solve(Spec{Must: true, Global: globalPrefixes("cancel:"),
			Stop: func(h *FuncInfo) bool { return h == ro.runInits || h.Obj.Name() == "Close" },
			Node: func(nd ast.Node, in Facts) (gen, kill []string) {
				inspectNoLit(nd, func(x ast.Node) bool {
					switch s := x.(type) {
					case *ast.CompositeLit:
						if tv, ok := info.Types[s]; ok && isNamedType(tv.Type, modPath, "scope") {
							if _, has := compositeFields(s)[cancelField.Name()]; has {
								gen = append(gen, "cancel:set")
							}
						}
					case *ast.AssignStmt:
						for _, l := range s.Lhs {
							if fieldOf(info, l) == cancelField {
								gen = append(gen, "cancel:set")
							}
						}
					}
					return true
				})
				return
			}})
		for _, nd := range fl.Nodes() {
			for _, c := range callsIn(nd, false) {
				if callee(info, c) != ro.runInits.Obj {
					continue
				}
				n++
				r.Check(sol.Before[nd].Has("cancel:set"), rule, fmt.Sprintf("%s#cancel-before-initializers/%d", fi.Name(), n), c.Pos(), true,
					"the scope has been given its cancel function before the initializer pass (which closes the scope when it fails) runs",
					"the initializer pass runs on a scope that has not been given its cancel function yet: when an initializer fails the scope is closed without cancelling its context, which stays alive (and registered with the caller's context) for good")
			}
		}
	}
	if n == 0 {
		r.Fail(rule, "scope#cancel-before-initializers", token.NoPos, "no call of the initializer pass found")
	}
}

// ruleNoErrorTypeAssertions: repository error types are recognised with
// errors.As, never with a type assertion on an error value (wrapping anywhere on
// the way makes the assertion fail silently).
func ruleNoErrorTypeAssertions(w *World, r *Report, rule string) {
	n, bad := 0, 0
	// where an error arrives wrapped: the creation chain and the build (errors of the invoker, of
	// the graph, of constructors pass through several wrappers on their way there). A function at
	// the edge of the API that looks at the error it was just handed by Get may ask for its exact
	// outer shape - "is THIS request not found" is not what errors.As answers.
	ro := resolveRoles(w)
	inner := map[*FuncInfo]bool{}
	for _, root := range []*FuncInfo{ro.createInstance, ro.doBuild, ro.resolve, ro.resolveTop, ro.createAll, ro.runInits} {
		if root != nil {
			for _, f := range w.Within(root, 3) {
				inner[f] = true
			}
		}
	}
	for _, fi := range w.AllFuncs() {
		if fi.Pkg != w.Godi && fi.Pkg != w.Refl && fi.Pkg != w.Graph {
			continue
		}
		if fi.Pkg == w.Godi && !inner[fi] {
			continue
		}
		info := fi.Pkg.TypesInfo
		ast.Inspect(fi.Decl.Body, func(x ast.Node) bool {
			ta, ok := x.(*ast.TypeAssertExpr)
			if !ok || ta.Type == nil {
				return true
			}
			xt := info.TypeOf(ta.X)
			if xt == nil || !isErrorType(xt) {
				return true
			}
			tt := info.TypeOf(ta.Type)
			nt := namedOf(tt)
			if nt == nil || nt.Obj().Pkg() == nil || !strings.HasPrefix(nt.Obj().Pkg().Path(), modPath) {
				return true
			}
			n++
			bad++
			r.Fail(rule, fmt.Sprintf("%s#error-type-assertion/%d", fi.Name(), n), ta.Pos(),
				"an error value is classified with the type assertion %s instead of errors.As: as soon as the error is wrapped on its way here the classification is lost (a recovered panic is reported as a plain invocation error)", exprStr(ta))
			return true
		})
	}
	// how classification is done instead
	as := 0
	for _, fi := range w.AllFuncs() {
		if fi.Pkg != w.Godi {
			continue
		}
		for _, c := range callsIn(fi.Decl.Body, true) {
			if isFunc(callee(fi.Pkg.TypesInfo, c), "errors", "", "As") {
				as++
			}
		}
	}
	if bad == 0 {
		r.OK(rule, "errors#classified-with-errors.As", token.NoPos, false, "no type assertion on an error value to a repository error type; %d errors.As call(s)", as)
	}
}

// ruleNoPooledInvocationState: nothing on the resolution path keeps storage in a
// sync.Pool (or any other recycler): what one constructor call was given must
// not reappear in the next.
func ruleNoPooledInvocationState(w *World, r *Report, rule string) {
	var hits []string
	var pos token.Pos
	isPool := func(t types.Type) bool {
		found := false
		var walk func(t types.Type, depth int)
		walk = func(t types.Type, depth int) {
			if t == nil || depth > 3 || found {
				return
			}
			if isNamedType(t, "sync", "Pool") {
				found = true
				return
			}
			switch u := t.(type) {
			case *types.Pointer:
				walk(u.Elem(), depth+1)
			case *types.Map:
				walk(u.Elem(), depth+1)
			case *types.Slice:
				walk(u.Elem(), depth+1)
			}
		}
		walk(t, 0)
		return found
	}
	for _, p := range []string{"godi", "reflection", "graph"} {
		pkg := w.pkgByShort(p)
		sc := pkg.Types.Scope()
		for _, name := range sc.Names() {
			switch o := sc.Lookup(name).(type) {
			case *types.Var:
				if isPool(o.Type()) {
					hits = append(hits, p+"."+o.Name())
					pos = o.Pos()
				}
			case *types.TypeName:
				if st, ok := o.Type().Underlying().(*types.Struct); ok {
					for i := 0; i < st.NumFields(); i++ {
						if isPool(st.Field(i).Type()) {
							hits = append(hits, p+"."+o.Name()+"."+st.Field(i).Name())
							pos = st.Field(i).Pos()
						}
					}
				}
			}
		}
		for id, o := range pkg.TypesInfo.Defs {
			if v, ok := o.(*types.Var); ok && !v.IsField() && v.Parent() != sc && isPool(v.Type()) {
				hits = append(hits, p+": local "+id.Name)
				pos = id.Pos()
			}
		}
		// any expression of pool type (pools kept behind an untyped container: sync.Map, any)
		seen := map[string]bool{}
		for e, tv := range pkg.TypesInfo.Types {
			if tv.Type != nil && !tv.IsType() && isPool(tv.Type) {
				k := p + ": expression of type " + types.TypeString(tv.Type, nil) + " in " + w.Fset.Position(e.Pos()).Filename[strings.LastIndex(w.Fset.Position(e.Pos()).Filename, "/")+1:]
				if !seen[k] {
					seen[k] = true
					hits = append(hits, k)
					pos = e.Pos()
				}
			}
		}
	}
	sort.Strings(hits)
	r.Check(len(hits) == 0, rule, "resolution#no-pooled-state", pos, false,
		"no sync.Pool in the container, the analyzer or the invoker: argument and parameter-object storage is allocated per call",
		fmt.Sprintf("storage is recycled through sync.Pool (%v): a value written for one constructor call (an injected transient, a parameter object field left untouched because it is optional) is seen by a later call", hits))
}

var _ = cfg.KindBody

// ruleEdgesAgreeWithNodeLists: the edge table and a node's own dependency list
// describe the same edges - either the degree recomputation re-derives the
// node's list from the edge table, or every function that writes an entry of
// the edge table gives the node's list the very same value. (The topological
// sort counts the node's list and decrements along the dependents, which are
// derived from the edge table: if the two disagree an acyclic graph is
// reported unsortable.)
func ruleEdgesAgreeWithNodeLists(w *World, r *Report, rule string) {
	g := resolveGraph(w)
	deps := g.nodeDeps
	// (a) derivation in a function that ranges over the edge table
	derived := false
	var derives func(info *types.Info, body ast.Node, src types.Object, depth int) bool
	derives = func(info *types.Info, body ast.Node, src types.Object, depth int) bool {
		found := false
		mentions := func(e ast.Expr) bool { return usesObj(info, e, src) }
		ast.Inspect(body, func(x ast.Node) bool {
			switch s := x.(type) {
			case *ast.AssignStmt:
				for i, l := range s.Lhs {
					if fieldOf(info, l) == deps && i < len(s.Rhs) && mentions(s.Rhs[i]) {
						found = true // = tos, make([]K, len(tos)) followed by copy, slices.Clone(tos), append(nil, tos...)
					}
				}
			case *ast.CallExpr:
				if id, ok := unparen(s.Fun).(*ast.Ident); ok && id.Name == "copy" && len(s.Args) == 2 {
					if fieldOf(info, s.Args[0]) == deps && mentions(s.Args[1]) {
						found = true
					}
				}
				if depth > 0 {
					if t := w.Decls[callee(info, s)]; t != nil && t.Decl.Body != nil {
						tinfo := t.Pkg.TypesInfo
						k := 0
						for _, fl := range t.Decl.Type.Params.List {
							for _, nm := range fl.Names {
								if k < len(s.Args) && objOf(info, s.Args[k]) == src && derives(tinfo, t.Decl.Body, tinfo.Defs[nm], depth-1) {
									found = true
								}
								k++
							}
						}
					}
				}
			}
			return true
		})
		return found
	}
	for _, fi := range w.FuncsOf(w.Graph) {
		info := fi.Pkg.TypesInfo
		for _, il := range iterLoopsIn(info, fi.Decl.Body) {
			if fieldOf(info, il.Coll) != g.edges || il.Elem == nil {
				continue
			}
			if derives(info, il.Body, il.Elem, 2) {
				derived = true
			}
		}
	}
	if derived {
		r.OK(rule, "graph#node-lists-derived-from-edges", token.NoPos, true, "the degree recomputation rebuilds every node's dependency list from the edge table")
		return
	}
	// (b) every writer of the edge table keeps the node's list identical
	n := 0
	for _, fi := range w.FuncsOf(w.Graph) {
		info := fi.Pkg.TypesInfo
		var edgeVals, depVals []ast.Expr
		var pos token.Pos
		ast.Inspect(fi.Decl.Body, func(x ast.Node) bool {
			as, ok := x.(*ast.AssignStmt)
			if !ok || len(as.Lhs) != len(as.Rhs) {
				return true
			}
			for i, l := range as.Lhs {
				if ix, ok := unparen(l).(*ast.IndexExpr); ok && fieldOf(info, ix.X) == g.edges {
					edgeVals = append(edgeVals, as.Rhs[i])
					pos = as.Pos()
				}
				if fieldOf(info, l) == deps {
					depVals = append(depVals, as.Rhs[i])
				}
			}
			return true
		})
		if len(edgeVals) == 0 {
			continue
		}
		n++
		same := len(depVals) > 0
		for _, ev := range edgeVals {
			match := false
			for _, dv := range depVals {
				if objOf(info, ev) != nil && objOf(info, ev) == objOf(info, dv) {
					match = true
				}
			}
			if !match {
				same = false
			}
		}
		r.Check(same, rule, fi.Name()+"#edges-vs-node-list", pos, false,
			"the function gives the edge table and the node's own dependency list the same value",
			"the edge table and the node's own dependency list are given different values and nothing re-derives one from the other: the topological sort counts the node's list but is decremented along the edge table, so an acyclic graph is reported unsortable (or a cycle is missed)")
	}
	if n == 0 {
		r.Fail(rule, "graph#edges-vs-node-list", token.NoPos, "no writer of the edge table found")
	}
}
