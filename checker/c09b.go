package main

import (
	"fmt"
	"go/ast"
	"go/token"
	"go/types"
	"golang.org/x/tools/go/cfg"
	"sort"
	"strings"
)

// userCodeCall reports whether a call expression directly transfers control to
// code the container does not own: reflect.Value.Call, a Close() error method
// reached through an interface, the resolver / provider / scope / collection
// interfaces (implemented by code that ends in user constructors), or a call
// through a function value that is not a locally bound literal.
func userCodeCall(info *types.Info, call *ast.CallExpr, binds map[types.Object]*ast.FuncLit) (string, bool) {
	cal := callee(info, call)
	if cal != nil {
		if isFunc(cal, "reflect", "Value", "Call") || isFunc(cal, "reflect", "Value", "CallSlice") {
			return "reflect.Value." + cal.Name(), true
		}
		if rn := recvNamed(cal); rn != nil {
			if _, isIface := rn.Underlying().(*types.Interface); isIface {
				if cal.Name() == "Close" {
					return rn.Obj().Name() + ".Close (interface)", true
				}
				if rn.Obj().Pkg() != nil && strings.HasPrefix(rn.Obj().Pkg().Path(), modPath) {
					switch rn.Obj().Name() {
					case "DependencyResolver", "Provider", "Scope", "Collection", "Disposable":
						if rn.Obj().Name() == "Provider" && strings.HasSuffix(rn.Obj().Pkg().Path(), "/graph") {
							return "", false // graph.Provider: plain getters on descriptors
						}
						return rn.Obj().Name() + "." + cal.Name() + " (interface)", true
					}
				}
			}
		} else if sig, ok := cal.Type().(*types.Signature); ok && sig.Recv() != nil {
			// method of an embedded/anonymous interface
			if _, isIface := sig.Recv().Type().Underlying().(*types.Interface); isIface && cal.Name() == "Close" {
				return "Close (interface)", true
			}
		}
		return "", false
	}
	// dynamic call through a function value
	fun := unparen(call.Fun)
	if tv, ok := info.Types[fun]; ok {
		if tv.IsType() {
			return "", false // conversion
		}
		if _, isSig := tv.Type.Underlying().(*types.Signature); !isSig {
			return "", false
		}
		if isNamedType(tv.Type, "context", "CancelFunc") {
			return "", false
		}
	}
	switch f := fun.(type) {
	case *ast.FuncLit:
		return "", false
	case *ast.Ident:
		if _, isBuiltin := info.Uses[f].(*types.Builtin); isBuiltin {
			return "", false
		}
		if binds[info.Uses[f]] != nil {
			return "", false
		}
		if paramAlwaysRepoFunc(info.Uses[f]) {
			return "", false // a callback parameter of a private function that only ever receives the repository's own literals/functions
		}
	}
	return "call through function value " + exprStr(fun), true
}

type lockEdge struct {
	from, to string
	pos      token.Pos
	where    string
}

func checkLockHygiene(w *World, r *Report, la *LockAnalysis) {
	// --- summaries: may reach user code; may acquire locks -----------------
	mayUser := map[*unit]string{}
	mayAcq := map[*unit]map[string]bool{}
	binds := map[*unit]map[types.Object]*ast.FuncLit{}
	for _, u := range la.units {
		binds[u] = litBindings(u.pkg.TypesInfo, u.body)
		if u.parent != nil {
			for k, v := range binds[u.parent] {
				binds[u][k] = v
			}
		}
		mayAcq[u] = map[string]bool{}
	}
	// callee units per call
	calleesOf := map[*unit][]*unit{}
	for _, t := range la.units {
		for _, cs := range t.calls {
			calleesOf[cs.in] = append(calleesOf[cs.in], t)
		}
	}
	for _, u := range la.units {
		info := u.pkg.TypesInfo
		for _, n := range u.flow.Nodes() {
			if _, isGo := n.(*ast.GoStmt); isGo {
				continue
			}
			for _, c := range callsIn(n, false) {
				if what, ok := userCodeCall(info, c, binds[u]); ok && mayUser[u] == "" {
					mayUser[u] = what + " at " + w.Pos(c.Pos())
				}
				if path, fld, op, ok := mutexOp(info, c); ok && (op == "Lock" || op == "RLock") {
					_ = path
					if fld != nil {
						mayAcq[u][w.canonField(fld)] = true
					}
				}
			}
		}
	}
	// literals that run inside their parent contribute to the parent
	for changed := true; changed; {
		changed = false
		for _, u := range la.units {
			var subs []*unit
			subs = append(subs, calleesOf[u]...)
			for _, l := range la.units {
				if l.parent == u && l.inherit {
					subs = append(subs, l)
				}
			}
			// deferred closures run inside the function too
			for _, l := range la.units {
				if l.parent == u && l.lit != nil && litUse(u.body, l.lit) == "defer" {
					subs = append(subs, l)
				}
			}
			for _, s := range subs {
				if mayUser[u] == "" && mayUser[s] != "" {
					mayUser[u] = "via " + s.name + ": " + mayUser[s]
					changed = true
				}
				for k := range mayAcq[s] {
					if !mayAcq[u][k] {
						mayAcq[u][k] = true
						changed = true
					}
				}
			}
		}
	}

	// the rule is about the locks of the container's shared structs; a lock that belongs to a
	// handle type of its own (a Lazy[T] that serialises its first resolution) is held around
	// resolution by design and protects nothing the container itself touches
	ownerOK := map[string]bool{}
	for _, ss := range sharedStructs {
		ownerOK[ss.name] = true
	}
	if ws, _ := discoverWrappers(w); ws != nil {
		for _, ss := range ws {
			ownerOK[ss.name] = true
		}
	}
	exempt := func(lockID string) bool {
		if lockID == "collection.mu" {
			return true
		}
		if i := strings.IndexByte(lockID, '.'); i > 0 && !ownerOK[lockID[:i]] {
			return true
		}
		return false
	}

	// --- (ii) user code under a lock, (i) lock-order edges ------------------
	var edges []lockEdge
	seq := map[string]int{}
	for _, u := range la.units {
		info := u.pkg.TypesInfo
		for _, n := range u.flow.Nodes() {
			if _, isGo := n.(*ast.GoStmt); isGo {
				continue
			}
			held := heldLockFields(la, u.sol.Before[n])
			// also consider may-held locks for ordering edges
			mayHeld := heldLockFields(la, u.solMay.Before[n])
			var heldIDs []string
			for id := range held {
				if !exempt(id) {
					heldIDs = append(heldIDs, id)
				}
			}
			sort.Strings(heldIDs)
			_, isDefer := n.(*ast.DeferStmt)
			for _, c := range callsInEvalOrder(n) {
				if _, fld, op, ok := mutexOp(info, c); ok {
					if (op == "Lock" || op == "RLock") && fld != nil && !isDefer {
						to := w.canonField(fld)
						for from := range mayHeld {
							edges = append(edges, lockEdge{from, to, c.Pos(), u.name})
						}
					}
					continue
				}
				if isDefer {
					continue
				}
				// lock-order edges through callees
				var target *unit
				if cal := callee(info, c); cal != nil {
					target = la.byFunc[cal]
				}
				if target != nil {
					for from := range mayHeld {
						for to := range mayAcq[target] {
							edges = append(edges, lockEdge{from, to, c.Pos(), u.name + " -> " + target.name})
						}
					}
				}
				if len(heldIDs) == 0 {
					continue
				}
				base := fmt.Sprintf("%s#call:%s", u.name, exprStr(c.Fun))
				seq[base]++
				construct := fmt.Sprintf("%s/%d", base, seq[base])
				// the yield of an iterator that is consumed on the spot is the consumer's loop body:
				// repository code at the call site, judged there
				if u.iterOf != nil && u.lit != nil && len(u.lit.Type.Params.List) == 1 && len(u.lit.Type.Params.List[0].Names) == 1 {
					if id, isId := unparen(c.Fun).(*ast.Ident); isId && info.Uses[id] == info.Defs[u.lit.Type.Params.List[0].Names[0]] {
						r.OK("R09.2ii", construct, c.Pos(), true, "yield of an iterator consumed on the spot: the loop body of the repository function that ranges over it")
						continue
					}
				}
				if what, ok := userCodeCall(info, c, binds[u]); ok {
					r.Fail("R09.2ii", construct, c.Pos(), "%s is called while %v is held: user code can re-enter the container or block", what, heldIDs)
					continue
				}
				if target != nil && mayUser[target] != "" {
					r.Fail("R09.2ii", construct, c.Pos(), "%s can reach user code (%s) and is called while %v is held", target.name, mayUser[target], heldIDs)
					continue
				}
				r.OK("R09.2ii", construct, c.Pos(), true, "call under %v does not reach user code", heldIDs)
			}
		}
	}

	// cycle detection on the lock-order graph (by lock field identity)
	adj := map[string]map[string]lockEdge{}
	for _, e := range edges {
		if adj[e.from] == nil {
			adj[e.from] = map[string]lockEdge{}
		}
		if _, ok := adj[e.from][e.to]; !ok {
			adj[e.from][e.to] = e
		}
	}
	reach := func(from, to string) bool {
		seen := map[string]bool{}
		var st []string
		for n := range adj[from] {
			st = append(st, n)
		}
		for len(st) > 0 {
			x := st[len(st)-1]
			st = st[:len(st)-1]
			if x == to {
				return true
			}
			if seen[x] {
				continue
			}
			seen[x] = true
			for n := range adj[x] {
				st = append(st, n)
			}
		}
		return false
	}
	var froms []string
	for f := range adj {
		froms = append(froms, f)
	}
	sort.Strings(froms)
	nEdges := 0
	for _, f := range froms {
		var tos []string
		for t := range adj[f] {
			tos = append(tos, t)
		}
		sort.Strings(tos)
		for _, t := range tos {
			e := adj[f][t]
			nEdges++
			construct := f + "->" + t
			if f == t {
				r.Fail("R09.2i", construct, e.pos, "%s is acquired while a %s may already be held (in %s): self-deadlock on the same instance or an ordering cycle between two instances", t, f, e.where)
			} else if reach(t, f) {
				r.Fail("R09.2i", construct, e.pos, "lock-order cycle: %s is acquired while %s is held (in %s), and elsewhere %s while %s", t, f, e.where, f, t)
			} else {
				r.OK("R09.2i", construct, e.pos, true, "edge of the lock-order graph (in %s); no path back", e.where)
			}
		}
	}
	if nEdges == 0 {
		r.OK("R09.2i", "lock-order-graph", token.NoPos, true, "no lock is ever acquired while another is held")
	}

	// --- (iii) every lock released on every exit ------------------------------
	for _, u := range la.units {
		acquired := map[string]token.Pos{}
		info := u.pkg.TypesInfo
		for _, n := range u.flow.Nodes() {
			if _, isDefer := n.(*ast.DeferStmt); isDefer {
				continue
			}
			for _, c := range callsIn(n, false) {
				if path, _, op, ok := mutexOp(info, c); ok {
					switch op {
					case "Lock":
						acquired["L:"+path+":W"] = c.Pos()
					case "RLock":
						acquired["L:"+path+":R"] = c.Pos()
					}
				}
			}
		}
		var keys []string
		for k := range acquired {
			keys = append(keys, k)
		}
		sort.Strings(keys)
		for _, k := range keys {
			construct := u.name + "#" + k
			leak := ""
			for _, ex := range u.flow.Exits() {
				at := u.solMay.AtExit(ex)
				if at.Has(k) && !at.Has("D:"+k[2:]) && !u.entry.Has(k) {
					leak = w.Pos(ex.Pos)
					break
				}
			}
			if leak != "" {
				r.Fail("R09.2iii", construct, acquired[k], "lock %s may still be held at the exit at %s (no unlock on that path and no deferred unlock)", k[2:], leak)
			} else {
				r.OK("R09.2iii", construct, acquired[k], true, "released on every exit")
			}
		}
	}
}

// closeNiled returns, for a Close method, the fields of the receiver that Close
// resets: field -> "nil" (assigned nil) or "clear" (emptied with clear()).
func closeResets(w *World, fi *FuncInfo) map[*types.Var]string {
	out := map[*types.Var]string{}
	seen := map[*FuncInfo]bool{}
	var visit func(f *FuncInfo, depth int)
	visit = func(f *FuncInfo, depth int) {
		if seen[f] || depth < 0 {
			return
		}
		seen[f] = true
		info := f.Pkg.TypesInfo
		ast.Inspect(f.Decl.Body, func(n ast.Node) bool {
			switch s := n.(type) {
			case *ast.AssignStmt:
				if len(s.Lhs) == len(s.Rhs) {
					for i, l := range s.Lhs {
						if fv := fieldOf(info, l); fv != nil && isNilIdent(info, s.Rhs[i]) {
							out[fv] = "nil"
						}
					}
				}
			case *ast.CallExpr:
				if id, ok := unparen(s.Fun).(*ast.Ident); ok {
					if b, ok := info.Uses[id].(*types.Builtin); ok && b.Name() == "clear" && len(s.Args) == 1 {
						if fv := fieldOf(info, s.Args[0]); fv != nil {
							if _, done := out[fv]; !done {
								out[fv] = "clear"
							}
						}
					}
				}
				// h(&x.f) where the private helper assigns nil through the pointer: a reset of x.f
				if cal := callee(info, s); cal != nil && !cal.Exported() {
					if o := cal.Origin(); o != nil {
						cal = o
					}
					if t := w.Decls[cal]; t != nil {
						tinfo := t.Pkg.TypesInfo
						k := 0
						for _, fl := range t.Decl.Type.Params.List {
							for _, nm := range fl.Names {
								if k < len(s.Args) {
									if ue, isU := unparen(s.Args[k]).(*ast.UnaryExpr); isU && ue.Op == token.AND {
										if fv := fieldOf(info, ue.X); fv != nil && assignsNilThrough(tinfo, t, tinfo.Defs[nm]) {
											out[fv] = "nil"
										}
									}
								}
								k++
							}
						}
					}
				}
				// same-receiver helpers of Close (bound 3)
				if cal := callee(info, s); cal != nil && cal.Name() != "Close" {
					if t := w.Decls[cal]; t != nil && t.Pkg == f.Pkg && recvNamed(cal) != nil && recvNamed(fi.Obj) != nil &&
						recvNamed(cal).Obj() == recvNamed(fi.Obj).Obj() {
						visit(t, depth-1)
					}
				}
			}
			return true
		})
	}
	visit(fi, 3)
	return out
}

// recheckSpec generates the facts used by the typestate rule: which liveness
// conditions have been re-checked since the current critical section began.
func recheckSpec(u *unit) Spec {
	info := u.pkg.TypesInfo
	condFacts := func(cond ast.Expr, truth bool) []string {
		// returns facts known when cond evaluates to truth
		var out []string
		c := unparen(cond)
		for {
			un, ok := c.(*ast.UnaryExpr)
			if !ok || un.Op != token.NOT {
				break
			}
			c = unparen(un.X)
			truth = !truth
		}
		if base, dead, ok := anyDisposedTest(info, c); ok {
			if dead != truth {
				out = append(out, "chk:live:"+base)
			} else {
				out = append(out, "chk:dead:"+base)
			}
			return out
		}
		be, ok := c.(*ast.BinaryExpr)
		if !ok || (be.Op != token.EQL && be.Op != token.NEQ) {
			return nil
		}
		x, y := unparen(be.X), unparen(be.Y)
		// field (!=|==) nil
		for _, pair := range [][2]ast.Expr{{x, y}, {y, x}} {
			if isNilIdent(info, pair[1]) {
				if fv := fieldOf(info, pair[0]); fv != nil {
					nonnil := (be.Op == token.NEQ) == truth
					if nonnil {
						out = append(out, "chk:nonnil:"+exprStr(pair[0]))
					}
				}
			}
			// atomic.LoadInt32(&x.disposed) (!=|==) 0
			if v, isC := constInt(info, pair[1]); isC && v == 0 && false {
				if call, ok := pair[0].(*ast.CallExpr); ok && isAtomicFunc(callee(info, call)) && len(call.Args) >= 1 {
					if ue, ok := unparen(call.Args[0]).(*ast.UnaryExpr); ok && ue.Op == token.AND {
						if fv := fieldOf(info, ue.X); fv != nil {
							live := (be.Op == token.EQL) == truth
							if live {
								out = append(out, "chk:live:"+exprStr(selBase(ue.X)))
							}
						}
					}
				}
			}
		}
		return out
	}
	return Spec{Must: true,
		Node: func(n ast.Node, in Facts) (gen, kill []string) {
			if _, isDefer := n.(*ast.DeferStmt); isDefer {
				return nil, nil
			}
			for _, c := range callsIn(n, false) {
				if _, _, op, ok := mutexOp(info, c); ok {
					// entering or leaving a critical section invalidates earlier re-checks
					_ = op
					kill = append(kill, "chk:*", "when:*")
				}
			}
			// open := x.table != nil  (the re-check kept in a flag, tested later in the same critical section)
			if as, ok := n.(*ast.AssignStmt); ok && len(as.Lhs) == 1 && len(as.Rhs) == 1 {
				if id, ok := unparen(as.Lhs[0]).(*ast.Ident); ok && id.Name != "_" {
					kill = append(kill, "when:"+id.Name+"|*", "whennot:"+id.Name+"|*")
					if tv, ok := info.Types[as.Rhs[0]]; ok && tv.Type != nil {
						if b, isB := tv.Type.Underlying().(*types.Basic); isB && b.Info()&types.IsBoolean != 0 {
							for _, f := range condFacts(as.Rhs[0], true) {
								gen = append(gen, "when:"+id.Name+"|"+f)
							}
							for _, f := range condFacts(as.Rhs[0], false) {
								gen = append(gen, "whennot:"+id.Name+"|"+f)
							}
						}
					}
				}
			}
			return gen, kill
		},
		Edge: func(b *cfg.Block, i int, cond ast.Expr, in Facts) (gen, kill []string) {
			if cond == nil {
				return nil, nil
			}
			if _, isBool := info.Types[cond]; !isBool {
				return nil, nil
			}
			gen = condFacts(cond, i == 0)
			// a flag that remembers a re-check made in this critical section
			c := unparen(cond)
			truth := i == 0
			for {
				un, ok := c.(*ast.UnaryExpr)
				if !ok || un.Op != token.NOT {
					break
				}
				c, truth = unparen(un.X), !truth
			}
			if id, ok := c.(*ast.Ident); ok {
				pfx := "whennot:" + id.Name + "|"
				if truth {
					pfx = "when:" + id.Name + "|"
				}
				for k := range in {
					if strings.HasPrefix(k, pfx) {
						gen = append(gen, k[len(pfx):])
					}
				}
			}
			return gen, nil
		},
	}
}

func checkTypestate(w *World, r *Report, la *LockAnalysis) {
	type owner struct {
		strct string
		close *FuncInfo
	}
	owners := []owner{{"scope", w.MustFn(w.Godi, "(*scope).Close")}, {"provider", w.MustFn(w.Godi, "(*provider).Close")}}
	resets := map[*types.Var]string{}
	closeOf := map[*types.Var]*FuncInfo{}
	for _, o := range owners {
		for fv, how := range closeResets(w, o.close) {
			resets[fv] = how
			closeOf[fv] = o.close
		}
	}
	// tables owned by scope/provider: maps and []Disposable lists
	_, scopeSt := w.Struct(w.Godi, "scope")
	_, provSt := w.Struct(w.Godi, "provider")
	tracked := map[*types.Var]bool{}
	for _, st := range []*types.Struct{scopeSt, provSt} {
		for i := 0; i < st.NumFields(); i++ {
			f := st.Field(i)
			switch t := f.Type().Underlying().(type) {
			case *types.Map:
				tracked[f] = true
			case *types.Slice:
				if isNamedType(t.Elem(), modPath, "Disposable") {
					tracked[f] = true
				}
			}
		}
	}
	accesses := collectAccesses(w, la, func(v *types.Var) bool { return tracked[v] })
	sols := map[*unit]*Sol{}
	seq := map[string]int{}
	sites := map[*types.Var]int{}
	defer func() {
		// every table Close resets has at least one insertion site that was checked
		// (two call sites merged into one helper lower the site count, not the coverage)
		var fs []*types.Var
		for fv := range resets {
			if tracked[fv] {
				fs = append(fs, fv)
			}
		}
		sort.Slice(fs, func(i, j int) bool { return posLess(fs[i].Pos(), fs[j].Pos()) })
		for _, fv := range fs {
			con := "table:" + w.canonField(fv) + "#insertion-sites"
			if sites[fv] == 0 {
				if _, isMap := fv.Type().Underlying().(*types.Map); isMap && w.canonName(fv) == "singletons" {
					continue
				}
				r.Undecided("R09.3", con, fv.Pos(), "no insertion into %s was found outside Close: the typestate rule has nothing to check for this table", w.canonField(fv))
			} else {
				r.OK("R09.3", con, fv.Pos(), false, "%d insertion site(s) checked", sites[fv])
			}
		}
	}()
	for _, a := range accesses {
		if a.Unit == nil || a.Node == nil {
			continue
		}
		isAppend := false
		if a.Kind == "write" {
			// x.f = append(x.f, ...)
			if as, ok := a.Node.(*ast.AssignStmt); ok && len(as.Rhs) == 1 {
				if c, ok := unparen(as.Rhs[0]).(*ast.CallExpr); ok {
					if id, ok := unparen(c.Fun).(*ast.Ident); ok && id.Name == "append" {
						isAppend = true
					}
				}
			}
		}
		if a.Kind != "index-write" && !isAppend {
			continue
		}
		if a.Unit.fi == closeOf[a.Field] {
			continue
		}
		base := fmt.Sprintf("%s#%s:%s", a.Unit.name, w.canonName(a.Field), map[bool]string{true: "append", false: "index-assign"}[isAppend])
		seq[base]++
		sites[a.Field]++
		construct := fmt.Sprintf("%s/%d", base, seq[base])
		// fresh object?
		if id, ok := unparen(a.Base).(*ast.Ident); ok {
			esc := freshEscapes(a.Unit)
			o := a.Unit.pkg.TypesInfo.Uses[id]
			fresh := false
			ast.Inspect(a.Unit.body, func(n ast.Node) bool {
				if as, ok := n.(*ast.AssignStmt); ok && len(as.Lhs) == len(as.Rhs) {
					for i, l := range as.Lhs {
						if objOf(a.Unit.pkg.TypesInfo, l) == o && litOf(as.Rhs[i]) != nil {
							fresh = true
						}
					}
				}
				return true
			})
			if fresh && o != nil && !esc.Before[a.Node].Has("esc:"+o.Name()) {
				r.OK("R09.3", construct, a.Pos(), true, "object still private to its allocating function")
				continue
			}
		}
		sol := sols[a.Unit]
		if sol == nil {
			sol = a.Unit.flow.Solve(recheckSpec(a.Unit))
			sols[a.Unit] = sol
		}
		facts := sol.Before[a.Node]
		nonnil := facts.Has("chk:nonnil:" + exprStr(a.Sel))
		live := facts.Has("chk:live:" + exprStr(a.Base))
		how, isReset := resets[a.Field]
		switch {
		case how != "nil" && !nonnil && !live && holdsInstancesOnly(a.Field) && !closedByIteration(w, a.Field):
			// the singleton table: Close only deletes its entries (no nil map to panic on) and closes
			// what it holds through the disposal list, whose own insertion site is checked
			r.OK("R09.3", construct, a.Pos(), false, "Close never assigns nil to %s and does not dispose by iterating it: an insertion that overlaps Close cannot panic, and what the entry holds is tracked (and re-checked) in the disposal list", exprStr(a.Sel))
		case live:
			r.OK("R09.3", construct, a.Pos(), true, "disposed flag re-checked in the same critical section (Close sets it before touching the table)")
		case nonnil && isReset && how == "nil":
			r.OK("R09.3", construct, a.Pos(), true, "%s != nil re-checked in the same critical section, and Close assigns nil under the same lock", exprStr(a.Sel))
		case !isReset && !holdsClosable(a.Field):
			r.OK("R09.3", construct, a.Pos(), false, "Close never resets %s and it holds nothing Close has to dispose: there is no closed state of this table to respect", exprStr(a.Sel))
		case nonnil:
			r.Fail("R09.3", construct, a.Pos(), "the insertion is guarded by %s != nil, but Close does not assign nil to that field (it %s): an insertion that overlaps Close goes unnoticed", exprStr(a.Sel), map[bool]string{true: "only clears it", false: "leaves it"}[how == "clear"])
		default:
			r.Fail("R09.3", construct, a.Pos(), "%s into %s without re-checking, inside the same critical section, that the owner has not been closed (field != nil or disposed flag): an operation that overlaps Close panics on the nil map or leaves an entry nobody will ever close", map[bool]string{true: "append", false: "index-assignment"}[isAppend], exprStr(a.Sel))
		}
	}
}

func checkGoStatements(w *World, r *Report) {
	for _, p := range []*World{w} {
		_ = p
	}
	for _, fi := range w.AllFuncs() {
		if fi.Pkg != w.Godi && fi.Pkg != w.Graph && fi.Pkg != w.Refl {
			continue
		}
		info := fi.Pkg.TypesInfo
		n := 0
		ast.Inspect(fi.Decl, func(x ast.Node) bool {
			g, ok := x.(*ast.GoStmt)
			if !ok {
				return true
			}
			n++
			construct := fmt.Sprintf("%s#go/%d", fi.Name(), n)
			_, _, bad := watcherOf(w, info, g)
			if bad != "" && closerGoroutine(w, info, fi, g) {
				r.OK("R09.4", construct, g.Pos(), false, "goroutine only calls the idempotent Close of a scope / provider (and hands the result to a channel)")
				return true
			}
			if bad != "" {
				r.Fail("R09.4", construct, g.Pos(), "watcher goroutine: %s", bad)
			} else {
				r.OK("R09.4", construct, g.Pos(), false, "goroutine only waits for Done() and calls the idempotent Close")
			}
			return true
		})
	}
}

func recvTypeOf(f *types.Func) types.Type {
	sig, _ := f.Type().(*types.Signature)
	if sig == nil || sig.Recv() == nil {
		return nil
	}
	return sig.Recv().Type()
}

// isDoneReceive matches <-x.Done() with x a context.Context.
func isDoneReceive(info *types.Info, e ast.Expr) bool {
	u, ok := unparen(e).(*ast.UnaryExpr)
	if !ok || u.Op != token.ARROW {
		return false
	}
	c, ok := unparen(u.X).(*ast.CallExpr)
	if !ok {
		return false
	}
	cal := callee(info, c)
	return cal != nil && cal.Name() == "Done" && isNamedType(recvTypeOf(cal), "context", "Context")
}

// anyDisposedTest matches a test of some x.disposed-like atomic flag (any field
// read through sync/atomic) and returns the base path x.
func anyDisposedTest(info *types.Info, cond ast.Expr) (base string, dead bool, ok bool) {
	var flag *types.Var
	var baseExpr ast.Expr
	var viaParam types.Object
	ast.Inspect(cond, func(n ast.Node) bool {
		call, isC := n.(*ast.CallExpr)
		if !isC {
			return true
		}
		cal := callee(info, call)
		if cal == nil || !isAtomicFunc(cal) || !strings.HasPrefix(cal.Name(), "Load") {
			return true
		}
		if len(call.Args) == 1 {
			if u, isU := unparen(call.Args[0]).(*ast.UnaryExpr); isU && u.Op == token.AND {
				if fv := fieldOf(info, u.X); fv != nil {
					flag, baseExpr = fv, selBase(u.X)
				}
			}
			// atomic.LoadInt32(p): p a pointer parameter of a method to which every call site passes
			// the address of the receiver's own flag (recv.list.add(&recv.disposed, d) after flattening)
			if fv, rcv, po := flagPointerParam(info, call.Args[0]); fv != nil {
				flag, baseExpr, viaParam = fv, rcv, po
			}
		} else if r, _, isM := methodCall(call); isM {
			if fv := fieldOf(info, r); fv != nil {
				flag, baseExpr = fv, selBase(r)
			}
		}
		return true
	})
	if flag == nil {
		// a predicate method of the owner: x.isDisposed()
		c := unparen(cond)
		neg := false
		for {
			u, isU := c.(*ast.UnaryExpr)
			if !isU || u.Op != token.NOT {
				break
			}
			c, neg = unparen(u.X), !neg
		}
		if call, isC := c.(*ast.CallExpr); isC && theWorld != nil {
			if rcv, _, isM := methodCall(call); isM {
				if rn := recvNamed(callee(info, call)); rn != nil && (rn.Obj().Name() == "scope" || rn.Obj().Name() == "provider") {
					fl := theWorld.Field(theWorld.Godi, rn.Obj().Name(), "disposed")
					if d, ok := disposedPredicate(callee(info, call), fl, 2); ok {
						return exprStr(rcv), d != neg, true
					}
				}
			}
		}
		return "", false, false
	}
	saved := flagParam
	if viaParam != nil {
		flagParam = viaParam
	}
	d, ok := disposedTest(info, cond, flag)
	flagParam = saved
	return exprStr(baseExpr), d, ok
}

// flagPointerParam: e is a pointer parameter of the enclosing method, and every
// call site of that method passes &X.f with X the very expression the method is
// called on; returns f, the method's receiver identifier and the parameter.
func flagPointerParam(info *types.Info, e ast.Expr) (*types.Var, ast.Expr, types.Object) {
	w := theWorld
	po, _ := objOf(info, e).(*types.Var)
	if w == nil || po == nil {
		return nil, nil, nil
	}
	fi := w.FuncAt(e.Pos())
	if fi == nil || fi.Decl.Recv == nil || len(fi.Decl.Recv.List[0].Names) != 1 {
		return nil, nil, nil
	}
	idx, k := -1, 0
	for _, fl := range fi.Decl.Type.Params.List {
		for _, nm := range fl.Names {
			if info.Defs[nm] == po {
				idx = k
			}
			k++
		}
	}
	if idx < 0 {
		return nil, nil, nil
	}
	var flag *types.Var
	sites := 0
	for caller := range w.Callers()[fi] {
		cinfo := caller.Pkg.TypesInfo
		for _, c := range callsIn(caller.Decl.Body, true) {
			if callee(cinfo, c) != fi.Obj || idx >= len(c.Args) {
				continue
			}
			sites++
			u, isU := unparen(c.Args[idx]).(*ast.UnaryExpr)
			rcv, _, isM := methodCall(c)
			if !isU || u.Op != token.AND || !isM {
				return nil, nil, nil
			}
			fv := plainFieldOf(cinfo, u.X)
			if fv == nil || exprStr(selBase(u.X)) != exprStr(rcv) || (flag != nil && flag != fv) {
				return nil, nil, nil
			}
			flag = fv
		}
	}
	if sites == 0 || flag == nil {
		return nil, nil, nil
	}
	return flag, fi.Decl.Recv.List[0].Names[0], po
}

// watcherOf recognises a watcher goroutine in either form
//
//	go func() { <-ctx.Done(); sc.Close() }()
//	go sc.closeWhenDone(ctx)   /   go closeWhenDone(ctx, sc)
//
// and returns, in the namespace of the function containing the go statement, the
// context it waits on and the scope it closes. The body may only wait for
// Done() and call the scope's Close.
func watcherOf(w *World, info *types.Info, g *ast.GoStmt) (ctxExpr, scopeExpr ast.Expr, bad string) {
	var body *ast.BlockStmt
	binfo := info
	rename := func(e ast.Expr) ast.Expr { return e }
	if lit, ok := unparen(g.Call.Fun).(*ast.FuncLit); ok {
		body = lit.Body
	} else if cal := callee(info, g.Call); cal != nil && w.Decls[cal] != nil {
		t := w.Decls[cal]
		body, binfo = t.Decl.Body, t.Pkg.TypesInfo
		// parameters / receiver of the callee -> argument expressions at the go statement
		m := map[types.Object]ast.Expr{}
		var params []*ast.Ident
		for _, f := range t.Decl.Type.Params.List {
			params = append(params, f.Names...)
		}
		for i, a := range g.Call.Args {
			if i < len(params) {
				m[binfo.Defs[params[i]]] = a
			}
		}
		if t.Decl.Recv != nil && len(t.Decl.Recv.List[0].Names) == 1 {
			if rcv, _, ok := methodCall(g.Call); ok {
				m[binfo.Defs[t.Decl.Recv.List[0].Names[0]]] = rcv
			}
		}
		rename = func(e ast.Expr) ast.Expr {
			if o := objOf(binfo, e); o != nil {
				if a, ok := m[o]; ok {
					return a
				}
			}
			return nil
		}
	} else {
		return nil, nil, "the go statement starts " + exprStr(g.Call.Fun) + ", which is neither a literal nor a function of the repository"
	}
	if len(body.List) == 0 {
		return nil, nil, "empty watcher"
	}
	es, isE := body.List[0].(*ast.ExprStmt)
	if !isE || !isDoneReceive(binfo, es.X) {
		return nil, nil, "first statement is not a receive from Done() of a context"
	}
	{
		call := unparen(es.X).(*ast.UnaryExpr).X.(*ast.CallExpr)
		rcv, _, _ := methodCall(call)
		ctxExpr = rename(rcv)
	}
	for _, c := range callsIn(body, true) {
		cal := callee(binfo, c)
		switch {
		case cal != nil && cal.Name() == "Done" && isNamedType(recvTypeOf(cal), "context", "Context"):
		case cal != nil && cal.Name() == "Close" && recvNamed(cal) != nil && recvNamed(cal).Obj().Name() == "scope":
			rcv, _, _ := methodCall(c)
			scopeExpr = rename(rcv)
		default:
			bad = "calls " + exprStr(c.Fun) + " besides Done() and Close()"
		}
	}
	return
}

var paramOwner map[types.Object]struct {
	fi  *FuncInfo
	idx int
}

// paramAlwaysRepoFunc: o is a function-typed parameter of an unexported
// repository function every call site of which passes a function literal or a
// function declared in the repository (never a value that came from a caller of
// the library).
func paramAlwaysRepoFunc(o types.Object) bool {
	w := theWorld
	if w == nil || o == nil {
		return false
	}
	if paramOwner == nil || len(paramOwner) == 0 {
		paramOwner = map[types.Object]struct {
			fi  *FuncInfo
			idx int
		}{}
		for _, fi := range w.Decls {
			i := 0
			for _, f := range fi.Decl.Type.Params.List {
				for _, nm := range f.Names {
					if po := fi.Pkg.TypesInfo.Defs[nm]; po != nil {
						paramOwner[po] = struct {
							fi  *FuncInfo
							idx int
						}{fi, i}
					}
					i++
				}
			}
		}
	}
	own, ok := paramOwner[o]
	if !ok || own.fi.Obj.Exported() {
		return false
	}
	callers := w.Callers()[own.fi]
	if len(callers) == 0 {
		return false
	}
	sites := 0
	for c := range callers {
		cinfo := c.Pkg.TypesInfo
		for _, call := range callsIn(c.Decl.Body, true) {
			if callee(cinfo, call) != own.fi.Obj {
				continue
			}
			sites++
			if own.idx >= len(call.Args) {
				return false
			}
			a := unparen(call.Args[own.idx])
			if _, isLit := a.(*ast.FuncLit); isLit {
				continue
			}
			var fo types.Object
			switch x := a.(type) {
			case *ast.Ident:
				fo = cinfo.Uses[x]
			case *ast.SelectorExpr:
				fo = cinfo.Uses[x.Sel]
			}
			if fn, isFn := fo.(*types.Func); isFn && w.Decls[fn] != nil {
				continue
			}
			return false
		}
	}
	return sites > 0
}

// assignsNilThrough: the function contains `*p = nil`.
func assignsNilThrough(info *types.Info, t *FuncInfo, p types.Object) bool {
	found := false
	ast.Inspect(t.Decl.Body, func(n ast.Node) bool {
		if as, ok := n.(*ast.AssignStmt); ok && len(as.Lhs) == len(as.Rhs) {
			for i, l := range as.Lhs {
				if st, isStar := unparen(l).(*ast.StarExpr); isStar && objOf(info, st.X) == p && isNilIdent(info, as.Rhs[i]) {
					found = true
				}
			}
		}
		return true
	})
	return found
}

// holdsClosable: the table's keys or elements are scopes or Disposables (things
// Close has to get to); bookkeeping tables (locks, in-flight records) are not.
func holdsClosable(fv *types.Var) bool {
	check := func(t types.Type) bool {
		if isNamedType(t, modPath, "Disposable") || isNamedType(t, modPath, "scope") || isNamedType(t, modPath, "Scope") {
			return true
		}
		if b, ok := t.Underlying().(*types.Interface); ok && b.NumMethods() == 0 {
			return true // any: may hold instances
		}
		return false
	}
	switch t := fv.Type().Underlying().(type) {
	case *types.Map:
		return check(t.Key()) || check(t.Elem())
	case *types.Slice:
		return check(t.Elem())
	}
	return false
}

// closedByIteration: one of the Close methods disposes the elements of this
// table by ranging over it (or over a snapshot of it).
func closedByIteration(w *World, fv *types.Var) bool {
	for _, o := range []string{"scope", "provider"} {
		fi := w.MustFn(w.Godi, "(*"+o+").Close")
		for _, l := range analyseClose(w, fi, o).reachableLoops() {
			if l.field == fv {
				return true
			}
		}
	}
	return false
}

// holdsInstancesOnly: a map whose values are of type any and whose keys are not
// scopes or disposables - a table of service instances (what it holds is closed
// through the owner's disposal list, never by walking the table).
func holdsInstancesOnly(fv *types.Var) bool {
	m, ok := fv.Type().Underlying().(*types.Map)
	if !ok {
		return false
	}
	if b, ok := m.Elem().Underlying().(*types.Interface); !ok || b.NumMethods() != 0 {
		return false
	}
	return !isNamedType(m.Key(), modPath, "scope") && !isNamedType(m.Key(), modPath, "Disposable") && !isNamedType(m.Key(), modPath, "Scope")
}

// closerGoroutine: the goroutine (a literal, possibly calling literals bound in
// the enclosing function) calls nothing of the repository but Close of a scope or
// provider - through the concrete types or the Scope / Provider interfaces - and
// otherwise only receives, sends and waits. Such a goroutine cannot resolve,
// construct or store: it can only do what any caller of Close may do.
func closerGoroutine(w *World, info *types.Info, fi *FuncInfo, g *ast.GoStmt) bool {
	lit, ok := unparen(g.Call.Fun).(*ast.FuncLit)
	if !ok {
		return false
	}
	binds := litBindings(info, fi.Decl.Body)
	seen := map[*ast.FuncLit]bool{}
	closes := false
	var judge func(body *ast.BlockStmt, depth int) bool
	judge = func(body *ast.BlockStmt, depth int) bool {
		okAll := true
		for _, c := range callsIn(body, true) {
			if tv, isT := info.Types[c.Fun]; isT && tv.IsType() {
				continue
			}
			if _, isLit := unparen(c.Fun).(*ast.FuncLit); isLit {
				continue // its calls are in this list already
			}
			if id, isId := unparen(c.Fun).(*ast.Ident); isId {
				if _, isB := info.Uses[id].(*types.Builtin); isB {
					continue
				}
				if l2, bound := binds[info.Uses[id]]; bound && depth > 0 {
					if !seen[l2] {
						seen[l2] = true
						if !judge(l2.Body, depth-1) {
							okAll = false
						}
					}
					continue
				}
			}
			cal := callee(info, c)
			if cal == nil {
				okAll = false
				continue
			}
			if cal.Name() == "Done" && isNamedType(recvTypeOf(cal), "context", "Context") {
				continue
			}
			if cal.Name() == "Close" {
				if rcv, _, isM := methodCall(c); isM {
					if n := namedOf(info.TypeOf(rcv)); n != nil && n.Obj().Pkg() != nil && n.Obj().Pkg().Path() == modPath {
						switch n.Obj().Name() {
						case "scope", "provider", "Scope", "Provider":
							closes = true
							continue
						}
					}
				}
			}
			if cal.Pkg() != nil && !strings.HasPrefix(cal.Pkg().Path(), modPath) {
				switch cal.Pkg().Path() {
				case "fmt", "errors", "time", "context", "sync":
					continue
				}
			}
			// an accessor that hands out a channel to wait on (closeDone() <-chan struct{})
			if sig, isSig := cal.Type().(*types.Signature); isSig && sig.Params().Len() == 0 && sig.Results().Len() == 1 {
				if _, isChan := sig.Results().At(0).Type().Underlying().(*types.Chan); isChan {
					continue
				}
			}
			okAll = false
		}
		return okAll
	}
	return judge(lit.Body, 2) && closes
}
