package main

import (
	"go/ast"
	"go/constant"
	"go/token"
	"go/types"
	"strings"

	"golang.org/x/tools/go/packages"
	"golang.org/x/tools/go/types/typeutil"
)

// inspectNoLit walks n without descending into function literals.
func inspectNoLit(n ast.Node, f func(ast.Node) bool) {
	if n == nil {
		return
	}
	ast.Inspect(n, func(m ast.Node) bool {
		if m == nil {
			return true
		}
		if _, ok := m.(*ast.FuncLit); ok && m != n {
			return false
		}
		return f(m)
	})
}

// callsIn lists the call expressions in n in source order (inner calls of an
// argument list come after the outer call in this order; callers that need
// evaluation order use callsInEvalOrder).
func callsIn(n ast.Node, intoLits bool) []*ast.CallExpr {
	var out []*ast.CallExpr
	visit := func(m ast.Node) bool {
		if c, ok := m.(*ast.CallExpr); ok {
			out = append(out, c)
		}
		return true
	}
	if intoLits {
		ast.Inspect(n, func(m ast.Node) bool {
			if m == nil {
				return true
			}
			return visit(m)
		})
	} else {
		inspectNoLit(n, visit)
	}
	return out
}

// callsInEvalOrder lists calls so that calls nested in arguments/receivers come
// before the call that consumes them.
func callsInEvalOrder(n ast.Node) []*ast.CallExpr {
	var out []*ast.CallExpr
	var walk func(m ast.Node)
	walk = func(m ast.Node) {
		inspectNoLit(m, func(x ast.Node) bool {
			if x == m {
				return true
			}
			if c, ok := x.(*ast.CallExpr); ok {
				walk(c)
				out = append(out, c)
				return false
			}
			return true
		})
	}
	if c, ok := n.(*ast.CallExpr); ok {
		walk(c)
		out = append(out, c)
		return out
	}
	walk(n)
	return out
}

func unparen(e ast.Expr) ast.Expr {
	for {
		p, ok := e.(*ast.ParenExpr)
		if !ok {
			return e
		}
		e = p.X
	}
}

func exprStr(e ast.Expr) string {
	if e == nil {
		return ""
	}
	return types.ExprString(e)
}

// callee resolves the called function or method (static or interface method).
func callee(info *types.Info, call *ast.CallExpr) *types.Func {
	if call == nil || info == nil {
		return nil
	}
	f, _ := typeutil.Callee(info, call).(*types.Func)
	return f
}

// fieldOf returns the struct field selected by e (x.f), or nil.
func fieldOf(info *types.Info, e ast.Expr) *types.Var {
	e = unparen(e)
	sel, ok := e.(*ast.SelectorExpr)
	if !ok {
		if id, isId := e.(*ast.Ident); isId && theWorld != nil && !theWorld.noAlias {
			if o, ok := info.Uses[id].(*types.Var); ok {
				return theWorld.paramAliases()[o]
			}
		}
		return nil
	}
	if s, ok := info.Selections[sel]; ok && s.Kind() == types.FieldVal {
		v, _ := s.Obj().(*types.Var)
		return v
	}
	if v, ok := synthFields[sel]; ok {
		return v
	}
	return nil
}

// plainFieldOf is fieldOf without the parameter aliases.
func plainFieldOf(info *types.Info, e ast.Expr) *types.Var {
	sel, ok := unparen(e).(*ast.SelectorExpr)
	if !ok {
		return nil
	}
	if v, ok := synthFields[sel]; ok {
		return v
	}
	if s, ok := info.Selections[sel]; ok && s.Kind() == types.FieldVal {
		v, _ := s.Obj().(*types.Var)
		return v
	}
	return nil
}

// paramAliases: a map-typed parameter of an unexported repository function to
// which every call site passes the same struct field (updateDegrees(g.nodes,
// g.edges), checkRegistrable(r.services, d)) denotes that field's table: the
// rules treat an access through the parameter as an access to the field.
// Functions that are also used as values (callbacks) have unseen call sites and
// get no aliases.
func (w *World) paramAliases() map[types.Object]*types.Var {
	if w.palias != nil {
		return w.palias
	}
	w.palias = map[types.Object]*types.Var{}
	// functions referenced other than in call position
	asValue := map[*types.Func]bool{}
	for _, fi := range w.Decls {
		info := fi.Pkg.TypesInfo
		inCall := map[*ast.Ident]bool{}
		ast.Inspect(fi.Decl.Body, func(n ast.Node) bool {
			if c, ok := n.(*ast.CallExpr); ok {
				switch f := unparen(c.Fun).(type) {
				case *ast.Ident:
					inCall[f] = true
				case *ast.SelectorExpr:
					inCall[f.Sel] = true
				}
			}
			return true
		})
		ast.Inspect(fi.Decl.Body, func(n ast.Node) bool {
			if id, ok := n.(*ast.Ident); ok && !inCall[id] {
				if f, ok := info.Uses[id].(*types.Func); ok {
					asValue[f] = true
				}
			}
			return true
		})
	}
	for round := 0; round < 2; round++ {
		type slot struct {
			fv  *types.Var
			bad bool
		}
		cand := map[types.Object]*slot{}
		for _, fi := range w.Decls {
			info := fi.Pkg.TypesInfo
			for _, c := range callsIn(fi.Decl.Body, true) {
				cal := callee(info, c)
				t := w.Decls[cal]
				if t == nil || cal.Exported() || asValue[cal] || t.Decl.Body == nil {
					continue
				}
				tinfo := t.Pkg.TypesInfo
				k := 0
				for _, fl := range t.Decl.Type.Params.List {
					for _, nm := range fl.Names {
						po := tinfo.Defs[nm]
						if po != nil && k < len(c.Args) {
							if _, isMap := po.Type().Underlying().(*types.Map); isMap {
								sl := cand[po]
								if sl == nil {
									sl = &slot{}
									cand[po] = sl
								}
								fv := plainFieldOf(info, c.Args[k])
								if fv == nil {
									if o, ok := objOf(info, c.Args[k]).(*types.Var); ok {
										fv = w.palias[o]
									}
								}
								switch {
								case fv == nil, sl.fv != nil && sl.fv != fv:
									sl.bad = true
								default:
									sl.fv = fv
								}
							}
						}
						k++
					}
				}
			}
		}
		for po, sl := range cand {
			if !sl.bad && sl.fv != nil {
				w.palias[po] = sl.fv
			}
		}
	}
	return w.palias
}

// selBase returns x of a selector x.f.
func selBase(e ast.Expr) ast.Expr {
	if sel, ok := unparen(e).(*ast.SelectorExpr); ok {
		return sel.X
	}
	return nil
}

func derefType(t types.Type) types.Type {
	if t == nil {
		return nil
	}
	if p, ok := t.Underlying().(*types.Pointer); ok {
		return p.Elem()
	}
	return t
}

func namedOf(t types.Type) *types.Named {
	t = derefType(t)
	n, _ := t.(*types.Named)
	if n == nil {
		if a, ok := t.(*types.Alias); ok {
			n, _ = types.Unalias(a).(*types.Named)
		}
	}
	return n
}

// isNamedType reports whether t (or *t) is the named type pkgSuffix.name; the
// package is matched by path suffix so that the copy of godi seen from an
// integration module (loaded from export data) is recognised too.
func isNamedType(t types.Type, pkgPath, name string) bool {
	n := namedOf(t)
	if n == nil || n.Obj() == nil || n.Obj().Name() != name {
		return false
	}
	if n.Obj().Pkg() == nil {
		return pkgPath == ""
	}
	return n.Obj().Pkg().Path() == pkgPath
}

// isFunc reports whether f is the function/method pkg.recv.name (recv "" for functions).
func isFunc(f *types.Func, pkgPath, recv, name string) bool {
	if f == nil || f.Name() != name {
		return false
	}
	if f.Pkg() == nil || f.Pkg().Path() != pkgPath {
		return false
	}
	sig, _ := f.Type().(*types.Signature)
	if sig == nil {
		return false
	}
	if recv == "" {
		return sig.Recv() == nil
	}
	if sig.Recv() == nil {
		return false
	}
	n := namedOf(sig.Recv().Type())
	return n != nil && n.Obj().Name() == recv
}

// recvNamed returns the receiver's named type of a method, or nil.
func recvNamed(f *types.Func) *types.Named {
	if f == nil {
		return nil
	}
	sig, _ := f.Type().(*types.Signature)
	if sig == nil || sig.Recv() == nil {
		return nil
	}
	return namedOf(sig.Recv().Type())
}

// methodCall decomposes x.m(args).
func methodCall(call *ast.CallExpr) (recv ast.Expr, name string, ok bool) {
	sel, isSel := unparen(call.Fun).(*ast.SelectorExpr)
	if !isSel {
		return nil, "", false
	}
	return sel.X, sel.Sel.Name, true
}

func rootIdent(e ast.Expr) *ast.Ident {
	for {
		switch x := unparen(e).(type) {
		case *ast.Ident:
			return x
		case *ast.SelectorExpr:
			e = x.X
		case *ast.IndexExpr:
			e = x.X
		case *ast.StarExpr:
			e = x.X
		case *ast.UnaryExpr:
			e = x.X
		case *ast.CallExpr:
			return nil
		default:
			return nil
		}
	}
}

func isNilIdent(info *types.Info, e ast.Expr) bool {
	id, ok := unparen(e).(*ast.Ident)
	if !ok {
		return false
	}
	_, isNil := info.Uses[id].(*types.Nil)
	return isNil
}

func constInt(info *types.Info, e ast.Expr) (int64, bool) {
	tv, ok := info.Types[e]
	if !ok || tv.Value == nil {
		return 0, false
	}
	if tv.Value.Kind() != constant.Int {
		return 0, false
	}
	v, exact := constant.Int64Val(tv.Value)
	return v, exact
}

func constString(info *types.Info, e ast.Expr) (string, bool) {
	tv, ok := info.Types[e]
	if !ok || tv.Value == nil || tv.Value.Kind() != constant.String {
		return "", false
	}
	return constant.StringVal(tv.Value), true
}

// usesObj reports whether expression e mentions object o.
func usesObj(info *types.Info, e ast.Node, o types.Object) bool {
	found := false
	ast.Inspect(e, func(n ast.Node) bool {
		if id, ok := n.(*ast.Ident); ok && (info.Uses[id] == o || info.Defs[id] == o) {
			found = true
		}
		return !found
	})
	return found
}

// objOf resolves an identifier expression to its object.
func objOf(info *types.Info, e ast.Expr) types.Object {
	id, ok := unparen(e).(*ast.Ident)
	if !ok {
		return nil
	}
	if o := info.Uses[id]; o != nil {
		return o
	}
	return info.Defs[id]
}

// errorType is the predeclared error interface.
var errorType = types.Universe.Lookup("error").Type()

func isErrorType(t types.Type) bool {
	return t != nil && types.Identical(t, errorType)
}

func implementsError(t types.Type) bool {
	if t == nil {
		return false
	}
	iface := errorType.Underlying().(*types.Interface)
	return types.Implements(t, iface) || types.Implements(types.NewPointer(t), iface)
}

// litBindings maps local variables that are bound exactly once to a function
// literal (x := func(){...}) to that literal.
func litBindings(info *types.Info, body ast.Node) map[types.Object]*ast.FuncLit {
	bind := map[types.Object]*ast.FuncLit{}
	count := map[types.Object]int{}
	ast.Inspect(body, func(n ast.Node) bool {
		switch s := n.(type) {
		case *ast.AssignStmt:
			for i, lhs := range s.Lhs {
				o := objOf(info, lhs)
				if o == nil {
					continue
				}
				count[o]++
				if len(s.Rhs) == len(s.Lhs) {
					if lit, ok := unparen(s.Rhs[i]).(*ast.FuncLit); ok {
						bind[o] = lit
					}
				}
			}
		case *ast.ValueSpec:
			for i, name := range s.Names {
				o := info.Defs[name]
				if o == nil {
					continue
				}
				if i < len(s.Values) {
					count[o]++
					if lit, ok := unparen(s.Values[i]).(*ast.FuncLit); ok {
						bind[o] = lit
					}
				}
			}
		}
		return true
	})
	for o := range bind {
		if count[o] != 1 {
			delete(bind, o)
		}
	}
	return bind
}

// enclosing returns, for every node inside root, the chain is not needed; this
// helper finds the innermost FuncLit or FuncDecl body containing pos.
func funcLitsIn(n ast.Node) []*ast.FuncLit {
	var out []*ast.FuncLit
	ast.Inspect(n, func(m ast.Node) bool {
		if l, ok := m.(*ast.FuncLit); ok {
			out = append(out, l)
		}
		return true
	})
	return out
}

func pkgOf(w *World, pos token.Pos) *packages.Package {
	for _, p := range w.Pkgs {
		for _, f := range p.Syntax {
			if f.Pos() <= pos && pos <= f.End() {
				return p
			}
		}
	}
	return nil
}

func hasPrefixAny(s string, ps ...string) bool {
	for _, p := range ps {
		if strings.HasPrefix(s, p) {
			return true
		}
	}
	return false
}

// compositeFields returns the key:value pairs of a struct literal by field name.
func compositeFields(lit *ast.CompositeLit) map[string]ast.Expr {
	m := map[string]ast.Expr{}
	for _, el := range lit.Elts {
		if kv, ok := el.(*ast.KeyValueExpr); ok {
			if id, ok := kv.Key.(*ast.Ident); ok {
				m[id.Name] = kv.Value
			}
		}
	}
	return m
}

// litOf unwraps &T{...} / T{...}.
func litOf(e ast.Expr) *ast.CompositeLit {
	e = unparen(e)
	if u, ok := e.(*ast.UnaryExpr); ok && u.Op == token.AND {
		e = unparen(u.X)
	}
	l, _ := e.(*ast.CompositeLit)
	return l
}

// resolveLocal follows an identifier that is assigned exactly once in body to
// the expression it was assigned (up to depth steps); other expressions are
// returned as they are.
func resolveLocal(info *types.Info, body ast.Node, e ast.Expr, depth int) ast.Expr {
	for i := 0; i < depth; i++ {
		id, ok := unparen(e).(*ast.Ident)
		if !ok {
			break
		}
		o := objOf(info, id)
		if o == nil {
			break
		}
		var rhs ast.Expr
		cnt := 0
		ast.Inspect(body, func(x ast.Node) bool {
			switch s := x.(type) {
			case *ast.AssignStmt:
				if len(s.Lhs) == len(s.Rhs) {
					for k, l := range s.Lhs {
						if objOf(info, l) == o {
							rhs = s.Rhs[k]
							cnt++
						}
					}
				} else {
					for _, l := range s.Lhs {
						if objOf(info, l) == o {
							cnt += 2 // multi-value: not a simple alias
						}
					}
				}
			case *ast.IncDecStmt:
				if objOf(info, s.X) == o {
					cnt += 2
				}
			case *ast.ValueSpec:
				for k, nm := range s.Names {
					if info.Defs[nm] == o && k < len(s.Values) {
						rhs = s.Values[k]
						cnt++
					}
				}
			}
			return true
		})
		if cnt != 1 || rhs == nil {
			break
		}
		e = rhs
	}
	return unparen(e)
}

// posFset is the file set of the current load; posLess orders positions by file
// name and offset. token.Pos values themselves depend on the order in which
// go/packages happened to parse the files (it parses concurrently), so an order
// by raw Pos - and every construct number derived from it - would differ between
// two loads of the same tree.
var posFset *token.FileSet

func posLess(a, b token.Pos) bool {
	if posFset == nil {
		return a < b
	}
	pa, pb := posFset.Position(a), posFset.Position(b)
	if pa.Filename != pb.Filename {
		return pa.Filename < pb.Filename
	}
	return pa.Offset < pb.Offset
}

// setWorld makes w the world the rules read (theWorld) and its file set the one
// posLess interprets positions in.
func setWorld(w *World) {
	theWorld = w
	if w != nil {
		posFset = w.Fset
	}
}
