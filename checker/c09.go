package main

import (
	"fmt"
	"go/ast"
	"go/token"
	"go/types"
	"sort"
	"strings"

	"golang.org/x/tools/go/packages"
)

// guardRow is one row of the frozen guarded-by table (A5 in DESIGN.md).
type guardRow struct {
	pkg, strct, field string
	kind              string // mutex | atomic | immutable | syncmap | lock (the field is itself a lock)
	mu                string // for kind mutex
}

func guardTable() []guardRow {
	g, r, gr := "godi", "reflection", "graph"
	return []guardRow{
		{g, "scope", "instances", "mutex", "instancesMu"},
		{g, "scope", "disposables", "mutex", "disposablesMu"},
		{g, "scope", "children", "mutex", "childrenMu"},
		{g, "scope", "disposed", "atomic", ""},
		{g, "scope", "id", "immutable", ""},
		{g, "scope", "rootProvider", "immutable", ""},
		{g, "scope", "parentScope", "immutable", ""},
		{g, "scope", "context", "immutable", ""},
		{g, "scope", "cancel", "immutable", ""},
		{g, "scope", "instancesMu", "lock", ""},
		{g, "scope", "disposablesMu", "lock", ""},
		{g, "scope", "childrenMu", "lock", ""},
		{g, "provider", "scopes", "mutex", "scopesMu"},
		{g, "provider", "disposables", "mutex", "disposablesMu"},
		{g, "provider", "singletonKeys", "mutex", "singletonKeysMu"},
		{g, "provider", "voidReturnScopedDescriptors", "mutex", "voidReturnScopedDescriptorsMu"},
		{g, "provider", "singletons", "syncmap", ""},
		{g, "provider", "disposed", "atomic", ""},
		{g, "provider", "scopeCounter", "atomic", ""},
		{g, "provider", "id", "immutable", ""},
		{g, "provider", "services", "immutable", ""},
		{g, "provider", "groups", "immutable", ""},
		{g, "provider", "graph", "immutable", ""},
		{g, "provider", "analyzer", "immutable", ""},
		{g, "provider", "rootScope", "immutable", ""},
		{g, "provider", "scopesMu", "lock", ""},
		{g, "provider", "disposablesMu", "lock", ""},
		{g, "provider", "singletonKeysMu", "lock", ""},
		{g, "provider", "voidReturnScopedDescriptorsMu", "lock", ""},
		{g, "collection", "services", "mutex", "mu"},
		{g, "collection", "groups", "mutex", "mu"},
		{g, "collection", "allDescriptors", "mutex", "mu"},
		{g, "collection", "analyzer", "immutable", ""},
		{g, "collection", "mu", "lock", ""},
		{r, "Analyzer", "cache", "mutex", "mu"},
		{r, "Analyzer", "invokerCache", "mutex", "invokerMu"},
		{r, "Analyzer", "mu", "lock", ""},
		{r, "Analyzer", "invokerMu", "lock", ""},
		{gr, "DependencyGraph", "nodes", "mutex", "mu"},
		{gr, "DependencyGraph", "edges", "mutex", "mu"},
		{gr, "DependencyGraph", "sortedNodes", "mutex", "mu"},
		{gr, "DependencyGraph", "sortedNodesDirty", "mutex", "mu"},
		{gr, "DependencyGraph", "cycleCache", "mutex", "mu"},
		{gr, "DependencyGraph", "cycleCacheDirty", "mutex", "mu"},
		{gr, "DependencyGraph", "mu", "lock", ""},
	}
}

// sharedStructs are the structs whose every field must have a discipline.
// Record-like structs are "confined": written only while under construction
// (ctorSet) or, for graph.Node, under the owning graph's lock.
type sharedStruct struct {
	pkg, name string
	confined  bool
	ownerLock string // "DependencyGraph.mu": writes outside ctorSet need this lock (any path)
}

var sharedStructs = []sharedStruct{
	{"godi", "scope", false, ""},
	{"godi", "provider", false, ""},
	{"godi", "collection", false, ""},
	{"reflection", "Analyzer", false, ""},
	{"graph", "DependencyGraph", false, ""},
	{"graph", "Node", true, "DependencyGraph.mu"},
	{"godi", "Descriptor", true, "collection.mu"},
	{"reflection", "ConstructorInfo", true, ""},
	{"reflection", "ConstructorInvoker", true, ""},
	{"reflection", "ParamObjectBuilder", true, ""},
	{"reflection", "ResultObjectProcessor", true, ""},
}

func (w *World) pkgByShort(s string) *packages.Package {
	switch s {
	case "godi":
		return w.Godi
	case "graph":
		return w.Graph
	case "reflection":
		return w.Refl
	}
	undecidedf("unknown package %s", s)
	return nil
}

func fieldKey(v *types.Var, owner string) string { return owner + "." + v.Name() }

// ownerOfField names the struct declaring v.
func ownerOfField(w *World, v *types.Var) string { return ownerOfFieldRaw(w, v) }

// heldLockFields returns "Struct.field" identities of the locks in a fact set.
func heldLockFields(la *LockAnalysis, f Facts) map[string]string {
	out := map[string]string{}
	for _, k := range lockFactsOf(f) {
		rest := k[2:]
		i := strings.LastIndexByte(rest, ':')
		path, mode := rest[:i], rest[i+1:]
		if v := la.lockVar[path]; v != nil {
			id := la.W.canonField(v)
			if old, ok := out[id]; !ok || (old == "R" && mode == "W") {
				out[id] = mode
			}
		}
	}
	return out
}

// ownerOfField finds the struct (by name) that declares field v.
func ownerOfFieldRaw(w *World, v *types.Var) string {
	for _, p := range w.Pkgs {
		sc := p.Types.Scope()
		for _, n := range sc.Names() {
			tn, ok := sc.Lookup(n).(*types.TypeName)
			if !ok {
				continue
			}
			st, ok := tn.Type().Underlying().(*types.Struct)
			if !ok {
				continue
			}
			for i := 0; i < st.NumFields(); i++ {
				if st.Field(i) == v {
					return embeddingOwner(w, tn, 3)
				}
			}
		}
	}
	return "?"
}

// embeddingOwner: a struct that is embedded (anonymously) in exactly one other
// struct of the repository only groups some of that struct's fields: its fields
// are promoted and belong, for the rules, to the embedding struct.
func embeddingOwner(w *World, tn *types.TypeName, depth int) string {
	if depth == 0 {
		return tn.Name()
	}
	var owners []*types.TypeName
	for _, p := range w.Pkgs {
		sc := p.Types.Scope()
		for _, n := range sc.Names() {
			on, ok := sc.Lookup(n).(*types.TypeName)
			if !ok || on == tn {
				continue
			}
			st, ok := on.Type().Underlying().(*types.Struct)
			if !ok {
				continue
			}
			for i := 0; i < st.NumFields(); i++ {
				if f := st.Field(i); f.Embedded() {
					if nn := namedOf(f.Type()); nn != nil && nn.Obj() == tn {
						owners = append(owners, on)
					}
				}
			}
		}
	}
	if len(owners) == 1 {
		return embeddingOwner(w, owners[0], depth-1)
	}
	return tn.Name()
}

// freshSol computes, per unit, for local variables bound to a fresh allocation
// (&T{...}, T{...}, new(T)), whether the variable may have escaped before a node.
func freshEscapes(u *unit) *Sol {
	info := u.pkg.TypesInfo
	fresh := map[types.Object]bool{}
	ast.Inspect(u.body, func(n ast.Node) bool {
		as, ok := n.(*ast.AssignStmt)
		if !ok || len(as.Lhs) != len(as.Rhs) {
			return true
		}
		for i, l := range as.Lhs {
			o := objOf(info, l)
			if o == nil {
				continue
			}
			if litOf(as.Rhs[i]) != nil {
				fresh[o] = true
			} else if c, ok := unparen(as.Rhs[i]).(*ast.CallExpr); ok {
				if id, ok := unparen(c.Fun).(*ast.Ident); ok {
					if b, ok := info.Uses[id].(*types.Builtin); ok && b.Name() == "new" {
						fresh[o] = true
					}
				}
				// a constructor of the repository: every return is a fresh literal
				if isFreshConstructorCall(info, c) {
					fresh[o] = true
				}
			}
		}
		return true
	})
	return u.flow.Solve(Spec{Must: false, Node: func(n ast.Node, in Facts) (gen, kill []string) {
		// any use of a fresh variable other than as the base of a field selector
		// (x.f) or as the target of its defining assignment publishes it
		var stack []ast.Node
		ast.Inspect(n, func(m ast.Node) bool {
			if m == nil {
				stack = stack[:len(stack)-1]
				return true
			}
			stack = append(stack, m)
			id, ok := m.(*ast.Ident)
			if !ok {
				return true
			}
			o := info.Uses[id]
			if o == nil || !fresh[o] {
				return true
			}
			if len(stack) >= 2 {
				switch p := stack[len(stack)-2].(type) {
				case *ast.SelectorExpr:
					if p.X == id {
						if fieldOf(info, p) != nil {
							return true // field access
						}
						// a private method that keeps its receiver to itself (sub.updateDegrees())
						if len(stack) >= 3 {
							if call, isC := stack[len(stack)-3].(*ast.CallExpr); isC && unparen(call.Fun) == ast.Expr(p) {
								if cal := callee(info, call); cal != nil && !cal.Exported() && theWorld != nil {
									if t := theWorld.Decls[cal]; t != nil && keepsReceiverPrivate(t) {
										return true
									}
								}
							}
						}
					}
				case *ast.AssignStmt:
					for _, l := range p.Lhs {
						if l == id {
							return true
						}
					}
				}
			}
			gen = append(gen, "esc:"+o.Name())
			return true
		})
		return gen, nil
	}})
}

func checkC09(w *World, r *Report) {
	la := NewLockAnalysis(w)
	for _, u := range la.units {
		if u.lit == nil {
			r.Analysed(u.fi)
		}
	}
	r.Rule("R09.1", 150, "every access to a field of the shared structs respects the field's discipline: mutex-guarded fields are read under R or W and written under W of their own mutex (same base path), atomic fields are touched only through sync/atomic, immutable fields are written only in the function that allocates the object, record fields (Descriptor, Node, ConstructorInfo, invoker/builder) are written only while the object is under construction or under the owning table's lock; objects still private to their allocating function are exempt")
	r.Rule("R09.1u", 0, "a field that is not in the guarded-by table must still be consistently protected (common lock on all writes, atomic-only, or constructor-only); otherwise it is new unsynchronised shared state")
	r.Rule("R09.2i", 1, "the lock-order graph over mutex fields (edges: acquiring B while holding A, directly or through a callee) has no cycle")
	r.Rule("R09.2ii", 10, "no call that can reach user code (reflect.Value.Call, Disposable.Close, resolver/module/middleware callbacks, scope.Close) is made while a scope/provider/analyzer/graph lock is held (collection.mu is exempt: the collection is documented single-goroutine and holds its lock across Build by design)")
	r.Rule("R09.2iii", 20, "every Lock/RLock is released on every exit of the function that took it (directly or by a deferred unlock)")
	r.Rule("R09.3", 8, "typestate: a map or disposal list that Close sets to nil (or empties) is index-assigned / appended elsewhere only after a re-check, inside the same critical section, of a condition that Close establishes before it snapshots the table: the field is nil, or the disposed flag is set")
	r.Rule("R09.4", 1, "every go statement only waits on Done() of a context and then calls the idempotent Close")
	r.Rule("R09.5", 1, "a Load followed by a Store of the same atomic field runs under a lock or uses compare-and-swap (no lost update)")
	r.Rule("R09.3s", 4, "Close establishes the closed state of a table in the same critical section in which it takes the table's snapshot (before the cascade runs), so an insertion that overlaps Close is either in the snapshot or sees the reset")

	r.Try(func() { checkDiscipline(w, r, la, nil) })
	r.Try(func() { checkLockHygiene(w, r, la) })
	r.Try(func() { checkTypestate(w, r, la) })
	r.Try(func() { ruleSwap(w, r, "R09.3s", la) })
	r.Rule("R09.3n", 2, "the closed marker the insertion sites re-check (table == nil) is established on every path of Close past the gate")
	r.Try(func() { ruleClosedMarkerOnAllPaths(w, r, "R09.3n") })
	r.Try(func() { ruleAtomicRMW(w, r, "R09.5", la) })
	r.Rule("R09.5", 1, "a slice whose header is handed out of its critical section (snapshot idiom) never has an element overwritten in place")
	r.Try(func() { ruleNoWriteUnderEscapedHeader(w, r, "R09.5", la) })
	r.Try(func() { checkGoStatements(w, r) })
}

func orNone(s string) string {
	if s == "" {
		return "any lock"
	}
	return s
}

func isSyncType(t types.Type) bool {
	n := namedOf(t)
	return n != nil && n.Obj().Pkg() != nil && (n.Obj().Pkg().Path() == "sync" || n.Obj().Pkg().Path() == "sync/atomic")
}

// isAllocatingFunc reports whether fi itself contains a composite literal of the type.
func isAllocatingFunc(w *World, fi *FuncInfo, named *types.Named) bool {
	found := false
	ast.Inspect(fi.Decl, func(n ast.Node) bool {
		if cl, ok := n.(*ast.CompositeLit); ok {
			if tv, ok := fi.Pkg.TypesInfo.Types[cl]; ok {
				if nt := namedOf(tv.Type); nt != nil && nt.Obj() == named.Obj() {
					found = true
				}
			}
		}
		return !found
	})
	if found {
		return true
	}
	// x := helper(...) where the private helper holds the literal: the object is still fresh here
	for _, c := range callsIn(fi.Decl.Body, true) {
		cal := callee(fi.Pkg.TypesInfo, c)
		if cal == nil || cal.Exported() || w.Decls[cal] == nil || w.Decls[cal] == fi {
			continue
		}
		if sig, ok := cal.Type().(*types.Signature); ok && sig.Results().Len() >= 1 {
			if nt := namedOf(sig.Results().At(0).Type()); nt != nil && nt.Obj() == named.Obj() {
				inner := false
				ast.Inspect(w.Decls[cal].Decl, func(n ast.Node) bool {
					if cl, ok := n.(*ast.CompositeLit); ok {
						if tv, ok := w.Decls[cal].Pkg.TypesInfo.Types[cl]; ok {
							if nt2 := namedOf(tv.Type); nt2 != nil && nt2.Obj() == named.Obj() {
								inner = true
							}
						}
					}
					return !inner
				})
				if inner {
					return true
				}
			}
		}
	}
	return false
}

// checkDiscipline is rule R09.1 / R09.1u; filter restricts it to some structs.
func checkDiscipline(w *World, r *Report, la *LockAnalysis, filter func(sharedStruct) bool) {
	// wrapper types: a field of a shared struct whose type is a small struct of the repository with
	// a lock (or sync/atomic state) of its own - `cache analysisCache{mu, entries}`. The state moved
	// into the wrapper is shared exactly like its owner; its fields get the inferred discipline
	// (R09.1u: atomic-only, constructor-only, or one common lock on every access).
	wrappers, wrapperOwner := discoverWrappers(w)
	sharedStructs := append(append([]sharedStruct{}, sharedStructs...), wrappers...)
	if filter != nil {
		inner := filter
		filter = func(ss sharedStruct) bool {
			if o, ok := wrapperOwner[ss.name]; ok {
				return inner(o)
			}
			return inner(ss)
		}
	}
	hasWrapper := wrapperUsers
	table := map[*types.Var]guardRow{}
	for _, row := range guardTable() {
		// a row whose field (or lock) no longer exists does not take the other rows down:
		// it is reported as undecided for the struct it belongs to, when that struct is selected
		fv, err := tryField(w, w.pkgByShort(row.pkg), row.strct, row.field)
		if err == "" && row.mu != "" {
			_, err = tryField(w, w.pkgByShort(row.pkg), row.strct, row.mu)
		}
		if err != "" {
			selected := filter == nil
			for _, ss := range sharedStructs {
				if ss.name == row.strct && filter != nil && filter(ss) {
					selected = true
				}
			}
			if selected && hasWrapper[row.strct] {
				// the state (or its lock) moved into a wrapper type of this struct: the wrapper's own
				// fields are checked below by inference
				r.OK("R09.1", "table:"+row.strct+"."+row.field, 0, false, "%s.%s (%s) is no longer a field of %s in that form; %s now has wrapper-typed state whose fields are checked by inference (R09.1u)", row.strct, row.field, row.kind, row.strct, row.strct)
				continue
			}
			if selected {
				r.Undecided("R09.1", "table:"+row.strct+"."+row.field, 0, "the guarded-by table names %s.%s (%s), which no longer exists in that form: the discipline of this state cannot be decided (%s)", row.strct, row.field, row.kind, err)
			}
			continue
		}
		table[fv] = row
	}
	structOf := map[*types.Var]sharedStruct{}
	named := map[string]*types.Named{}
	for _, ss := range sharedStructs {
		n, st := w.Struct(w.pkgByShort(ss.pkg), ss.name)
		named[ss.name] = n
		for _, f := range flatFields(st) {
			structOf[f] = ss
		}
	}
	ctor := map[string]map[*FuncInfo]bool{}
	for _, ss := range sharedStructs {
		ctor[ss.name] = ctorSet(w, la, named[ss.name])
	}
	escapes := map[*unit]*Sol{}
	isFreshAccess := func(a *Access) bool {
		if a.Unit == nil || a.Node == nil {
			return false
		}
		id, ok := unparen(a.Base).(*ast.Ident)
		if !ok {
			return false
		}
		sol := escapes[a.Unit]
		if sol == nil {
			sol = freshEscapes(a.Unit)
			escapes[a.Unit] = sol
		}
		o := a.Unit.pkg.TypesInfo.Uses[id]
		if o == nil {
			return false
		}
		// a local of the struct type itself (clone := *d): the access touches the function's own copy
		if v, isV := o.(*types.Var); isV && !v.IsField() && !isPointerType(v.Type()) {
			if _, isSt := v.Type().Underlying().(*types.Struct); isSt && a.Unit.body.Pos() <= v.Pos() && v.Pos() < a.Unit.body.End() {
				addrTaken := false
				ast.Inspect(a.Unit.body, func(n ast.Node) bool {
					if u, ok := n.(*ast.UnaryExpr); ok && u.Op == token.AND && n.Pos() < a.Pos() && objOf(a.Unit.pkg.TypesInfo, u.X) == o {
						addrTaken = true
					}
					return true
				})
				if !addrTaken {
					return true
				}
			}
		}
		// is it a fresh variable at all? (it has an esc fact universe only if fresh)
		isFresh := false
		ast.Inspect(a.Unit.body, func(n ast.Node) bool {
			if as, ok := n.(*ast.AssignStmt); ok && len(as.Lhs) == len(as.Rhs) {
				for i, l := range as.Lhs {
					if objOf(a.Unit.pkg.TypesInfo, l) == o && litOf(as.Rhs[i]) != nil {
						isFresh = true
					}
					if c, isC := unparen(as.Rhs[i]).(*ast.CallExpr); isC && objOf(a.Unit.pkg.TypesInfo, l) == o && isFreshConstructorCall(a.Unit.pkg.TypesInfo, c) {
						isFresh = true
					}
				}
			}
			return true
		})
		if !isFresh {
			return false
		}
		return !sol.Before[a.Node].Has("esc:" + o.Name())
	}

	accesses := collectAccesses(w, la, func(v *types.Var) bool { _, ok := structOf[v]; return ok })
	sort.SliceStable(accesses, func(i, j int) bool { return posLess(accesses[i].Sel.Pos(), accesses[j].Sel.Pos()) })

	// infer discipline of untabled fields from their accesses
	untabled := map[*types.Var][]*Access{}

	seq := map[string]int{}
	for _, a := range accesses {
		ss := structOf[a.Field]
		if filter != nil && !filter(ss) {
			continue
		}
		uname := "<package level>"
		if a.Unit != nil {
			uname = a.Unit.name
		}
		base := fmt.Sprintf("%s#%s.%s:%s", uname, ss.name, w.canonName(a.Field), a.Kind)
		seq[base]++
		construct := fmt.Sprintf("%s/%d", base, seq[base])
		row, tabled := table[a.Field]
		if !tabled && !ss.confined {
			untabled[a.Field] = append(untabled[a.Field], a)
			continue
		}
		held := Facts(nil)
		if a.Node != nil {
			held = la.HeldAt(a.Node)
		}
		inCtor := a.Unit != nil && ctor[ss.name][a.Unit.fi]
		switch {
		case ss.confined:
			if !a.IsWrite() {
				r.OK("R09.1", construct, a.Pos(), false, "read of a record field")
				continue
			}
			if inCtor {
				r.OK("R09.1", construct, a.Pos(), true, "written while the %s is under construction (function in its constructor set)", ss.name)
				continue
			}
			if ss.ownerLock != "" {
				if m, ok := heldLockFields(la, held)[ss.ownerLock]; ok && m == "W" {
					r.OK("R09.1", construct, a.Pos(), true, "written under %s", ss.ownerLock)
					continue
				}
			}
			if isFreshAccess(a) {
				r.OK("R09.1", construct, a.Pos(), true, "written on a record that is still private to the writing function (a fresh literal or a local copy)")
				continue
			}
			r.Fail("R09.1", construct, a.Pos(), "field %s.%s is written (%s) outside the functions that construct a %s and without %s held: the record is shared once published (locks held: %v)",
				ss.name, a.Field.Name(), a.Kind, ss.name, orNone(ss.ownerLock), lockFactsOf(held))
		case row.kind == "lock":
			r.OK("R09.1", construct, a.Pos(), false, "the lock itself")
		case row.kind == "syncmap" && !isNamedType(a.Field.Type(), "sync", "Map"):
			// the table is no longer a sync.Map: its discipline is inferred like that of a new field
			untabled[a.Field] = append(untabled[a.Field], a)
		case row.kind == "syncmap":
			if a.Kind == "method" {
				r.OK("R09.1", construct, a.Pos(), false, "sync.Map method call")
			} else {
				r.Fail("R09.1", construct, a.Pos(), "sync.Map field %s.%s is used other than through its methods (%s)", ss.name, a.Field.Name(), a.Kind)
			}
		case row.kind == "atomic":
			if a.Kind == "atomic" || (a.Kind == "method" && isSyncType(a.Field.Type())) {
				r.OK("R09.1", construct, a.Pos(), false, "through sync/atomic")
			} else if isFreshAccess(a) {
				r.OK("R09.1", construct, a.Pos(), true, "object still private to its allocating function")
			} else if a.Kind == "addr" && addrOnlyForAtomic(w, a) {
				r.OK("R09.1", construct, a.Pos(), true, "the address is handed to a private function that uses it only through sync/atomic")
			} else {
				r.Fail("R09.1", construct, a.Pos(), "atomic field %s.%s is accessed without sync/atomic (%s)", ss.name, a.Field.Name(), a.Kind)
			}
		case row.kind == "immutable":
			if !a.IsWrite() {
				r.OK("R09.1", construct, a.Pos(), false, "read of an immutable field")
			} else if a.Unit != nil && isAllocatingFunc(w, a.Unit.fi, named[ss.name]) {
				r.OK("R09.1", construct, a.Pos(), true, "written in the function that allocates the %s", ss.name)
			} else {
				r.Fail("R09.1", construct, a.Pos(), "field %s.%s is read without synchronisation by concurrent operations, so it must be immutable after construction, but it is written (%s) in %s", ss.name, a.Field.Name(), a.Kind, uname)
			}
		case row.kind == "mutex":
			need := "R"
			if a.IsWrite() {
				need = "W"
			}
			path := exprStr(a.Base) + "." + w.Field(w.pkgByShort(row.pkg), row.strct, row.mu).Name()
			if holds(held, path, need) {
				r.OK("R09.1", construct, a.Pos(), true, "%s held (%s)", path, need)
			} else if isFreshAccess(a) {
				r.OK("R09.1", construct, a.Pos(), true, "object still private to its allocating function")
			} else if anonHeld(la, held, w.Field(w.pkgByShort(row.pkg), row.strct, row.mu), need) && viaBackReference(a) {
				// a short-lived record (cycleSearch{graph: g}) created and used under g's lock: its methods
				// reach the graph through the record's back-reference and cannot name the lock their caller holds
				r.OK("R09.1", construct, a.Pos(), true, "the lock of the %s is held by the caller (anonymous lock fact); the access goes through a back-reference field of a record created under that lock", row.strct)
			} else if a.Kind == "addr" && addrUnderParamLock(w, la, a, w.Field(w.pkgByShort(row.pkg), row.strct, row.mu)) {
				r.OK("R09.1", construct, a.Pos(), true, "the address is handed, together with the address of %s, to a private function that touches the field only while holding that lock", path)
			} else {
				r.Fail("R09.1", construct, a.Pos(), "%s of %s.%s needs %s held for %s but the locks certainly held here are %v", a.Kind, ss.name, a.Field.Name(), path, map[string]string{"R": "reading", "W": "writing"}[need], lockFactsOf(held))
			}
		}
	}

	// untabled fields of the shared structs: infer a consistent discipline
	var uf []*types.Var
	for v := range untabled {
		uf = append(uf, v)
	}
	sort.Slice(uf, func(i, j int) bool { return posLess(uf[i].Pos(), uf[j].Pos()) })
	for _, v := range uf {
		as := untabled[v]
		ss := structOf[v]
		if filter != nil && !filter(ss) {
			continue
		}
		construct := ss.name + "." + v.Name()
		if isSyncType(v.Type()) {
			r.OK("R09.1u", construct, v.Pos(), false, "synchronisation primitive")
			continue
		}
		allAtomic, writesOnlyCtor := true, true
		var common map[string]string
		for _, a := range as {
			if a.Kind != "atomic" {
				allAtomic = false
			}
			if a.IsWrite() && !(a.Unit != nil && (isAllocatingFunc(w, a.Unit.fi, named[ss.name]) || constructionTimeUnit(w, a.Unit, named[ss.name]))) {
				writesOnlyCtor = false
			}
			if a.Node != nil && !isFreshAccess(a) {
				h := heldLockFields(la, la.HeldAt(a.Node))
				if a.IsWrite() {
					// a write needs the lock exclusively: a read lock held around it protects nothing
					for k, mode := range h {
						if mode == "R" {
							delete(h, k)
						}
					}
				}
				if common == nil {
					common = h
				} else {
					for k := range common {
						if _, ok := h[k]; !ok {
							delete(common, k)
						}
					}
				}
			}
		}
		switch {
		case publishedByClose(w, ss.name, v, as):
			r.OK("R09.1u", construct, v.Pos(), true, "new field, written once by the gated Close before it closes a channel, read only after a receive from that channel (%d accesses)", len(as))
		case allAtomic:
			r.OK("R09.1u", construct, v.Pos(), true, "new field, accessed only through sync/atomic (%d accesses)", len(as))
		case writesOnlyCtor:
			r.OK("R09.1u", construct, v.Pos(), true, "new field, written only in the allocating function (%d accesses)", len(as))
		case len(common) > 0:
			r.OK("R09.1u", construct, v.Pos(), true, "new field, every access holds %v", common)
		default:
			r.Fail("R09.1u", construct, v.Pos(), "field %s.%s is not in the guarded-by table, is written outside the constructor and its %d accesses share no lock: unsynchronised shared state", ss.name, v.Name(), len(as))
		}
	}

}

// checkRecordConfinement is the part of R09.1 about records shared between
// requests (analysis cache entries, invokers, builders, descriptors).
func checkRecordConfinement(w *World, r *Report, la *LockAnalysis) {
	checkDiscipline(w, r, la, func(ss sharedStruct) bool { return ss.confined })
}

// tryField resolves a field, returning the reason as a string instead of aborting the run.
func tryField(w *World, p *packages.Package, structName, field string) (fv *types.Var, why string) {
	defer func() {
		if e := recover(); e != nil {
			if u, ok := e.(undecidedErr); ok {
				fv, why = nil, u.msg
				return
			}
			panic(e)
		}
	}()
	return w.Field(p, structName, field), ""
}

// addrOnlyForAtomic: &x.f is an argument of a call to a repository function whose
// corresponding (pointer) parameter is used only as an argument of sync/atomic functions.
func addrOnlyForAtomic(w *World, a *Access) bool {
	if a.Node == nil || a.Unit == nil {
		return false
	}
	info := a.Unit.pkg.TypesInfo
	ok := false
	for _, c := range callsIn(a.Node, false) {
		for i, arg := range c.Args {
			ue, isU := unparen(arg).(*ast.UnaryExpr)
			if !isU || fieldOf(info, ue.X) != a.Field {
				continue
			}
			cal := callee(info, c)
			if cal == nil || w.Decls[cal] == nil {
				return false
			}
			t := w.Decls[cal]
			tinfo := t.Pkg.TypesInfo
			var params []*ast.Ident
			for _, f := range t.Decl.Type.Params.List {
				params = append(params, f.Names...)
			}
			if i >= len(params) {
				return false
			}
			po := tinfo.Defs[params[i]]
			uses, good := 0, true
			ast.Inspect(t.Decl.Body, func(x ast.Node) bool {
				cc, isC := x.(*ast.CallExpr)
				if isC && isAtomicFunc(callee(tinfo, cc)) {
					for _, aa := range cc.Args {
						if objOf(tinfo, aa) == po {
							uses++
						}
					}
					return false
				}
				if id, isId := x.(*ast.Ident); isId && tinfo.Uses[id] == po {
					good = false // any other use of the pointer
				}
				return true
			})
			ok = good && uses > 0
		}
	}
	return ok
}

// addrUnderParamLock: &x.f is passed to a private function together with &x.mu
// (f's guard), and the function dereferences the field pointer only at points
// where it holds the mutex it was given (takeDisposables(&s.mu, &s.list)).
func addrUnderParamLock(w *World, la *LockAnalysis, a *Access, guard *types.Var) bool {
	if a.Node == nil || a.Unit == nil || guard == nil {
		return false
	}
	info := a.Unit.pkg.TypesInfo
	for _, c := range callsIn(a.Node, false) {
		fi, mi := -1, -1
		base := ""
		for i, arg := range c.Args {
			ue, isU := unparen(arg).(*ast.UnaryExpr)
			if !isU || ue.Op != token.AND {
				continue
			}
			switch plainFieldOf(info, ue.X) {
			case a.Field:
				fi, base = i, exprStr(selBase(ue.X))
			}
		}
		if fi < 0 {
			continue
		}
		for i, arg := range c.Args {
			if ue, isU := unparen(arg).(*ast.UnaryExpr); isU && ue.Op == token.AND && plainFieldOf(info, ue.X) == guard && exprStr(selBase(ue.X)) == base {
				mi = i
			}
		}
		cal := callee(info, c)
		if mi < 0 || cal == nil || cal.Exported() || w.Decls[cal] == nil {
			return false
		}
		t := w.Decls[cal]
		tinfo := t.Pkg.TypesInfo
		var params []*ast.Ident
		for _, f := range t.Decl.Type.Params.List {
			params = append(params, f.Names...)
		}
		if fi >= len(params) || mi >= len(params) {
			return false
		}
		pf, pm := tinfo.Defs[params[fi]], tinfo.Defs[params[mi]]
		uses, good := 0, true
		var stack []ast.Node
		ast.Inspect(t.Decl.Body, func(x ast.Node) bool {
			if x == nil {
				stack = stack[:len(stack)-1]
				return true
			}
			stack = append(stack, x)
			id, isId := x.(*ast.Ident)
			if !isId || tinfo.Uses[id] != pf {
				return true
			}
			uses++
			// only as *pf
			if len(stack) < 2 {
				good = false
				return true
			}
			if _, isStar := stack[len(stack)-2].(*ast.StarExpr); !isStar {
				good = false
				return true
			}
			_, node := la.NodeAt(id.Pos())
			if node == nil || !holds(la.HeldAt(node), pm.Name(), "W") {
				good = false
			}
			return true
		})
		return good && uses > 0
	}
	return false
}

// wrapperUsers: the shared structs that have a wrapper-typed field (set by discoverWrappers).
var wrapperUsers map[string]bool

// discoverWrappers finds the wrapper types of the shared structs (see checkDiscipline).
func discoverWrappers(w *World) ([]sharedStruct, map[string]sharedStruct) {
	known := map[string]bool{}
	for _, ss := range sharedStructs {
		known[ss.name] = true
	}
	short := func(p *types.Package) string {
		switch p {
		case w.Godi.Types:
			return "godi"
		case w.Graph.Types:
			return "graph"
		case w.Refl.Types:
			return "reflection"
		}
		return ""
	}
	var out []sharedStruct
	owner := map[string]sharedStruct{}
	wrapperUsers = map[string]bool{}
	for _, ss := range sharedStructs {
		if ss.confined {
			continue
		}
		_, st := w.Struct(w.pkgByShort(ss.pkg), ss.name)
		for i := 0; i < st.NumFields(); i++ {
			n := namedOf(st.Field(i).Type())
			if n == nil || n.Obj().Pkg() == nil || short(n.Obj().Pkg()) == "" {
				continue
			}
			if _, isW := owner[n.Obj().Name()]; isW {
				wrapperUsers[ss.name] = true // a second owner of an already discovered wrapper type
				continue
			}
			if known[n.Obj().Name()] {
				continue
			}
			wst, ok := n.Underlying().(*types.Struct)
			if !ok {
				continue
			}
			hasSync := false
			for j := 0; j < wst.NumFields(); j++ {
				if isSyncType(wst.Field(j).Type()) {
					hasSync = true
				}
			}
			if !hasSync {
				continue
			}
			known[n.Obj().Name()] = true
			wss := sharedStruct{short(n.Obj().Pkg()), n.Obj().Name(), false, ""}
			out = append(out, wss)
			owner[wss.name] = ss
			wrapperUsers[ss.name] = true
		}
	}
	return out, owner
}

// anonHeld: an anonymous lock fact "^Struct.mu" for this mutex field is held in a sufficient mode.
func anonHeld(la *LockAnalysis, held Facts, mu *types.Var, need string) bool {
	if mu == nil {
		return false
	}
	return holds(held, "^"+la.W.canonField(mu), need)
}

// viaBackReference: the access x.f.field goes through a field f (of pointer type) of the unit's
// receiver or of a parameter - not through the receiver itself.
func viaBackReference(a *Access) bool {
	sel, ok := unparen(a.Base).(*ast.SelectorExpr)
	if !ok || a.Unit == nil {
		return false
	}
	info := a.Unit.pkg.TypesInfo
	fv := plainFieldOf(info, sel)
	if fv == nil {
		return false
	}
	if _, isPtr := fv.Type().Underlying().(*types.Pointer); !isPtr {
		return false
	}
	_, isId := unparen(sel.X).(*ast.Ident)
	return isId
}

// isFreshConstructorCall: a call of a repository function every return of which
// is a fresh literal (NewDependencyGraphWithCapacity(n)).
func isFreshConstructorCall(info *types.Info, c *ast.CallExpr) bool {
	cal := callee(info, c)
	if cal == nil || theWorld == nil {
		return false
	}
	t := theWorld.Decls[cal]
	return t != nil && t.Decl.Recv == nil && returnsFreshLiteral(t)
}

// keepsReceiverPrivate: every use of the receiver in the method is the base of
// a field selector, or the receiver of another unexported method of which the
// same holds (depth 2).
func keepsReceiverPrivate(t *FuncInfo) bool { return keepsReceiverPrivateDepth(t, 2) }

func keepsReceiverPrivateDepth(t *FuncInfo, depth int) bool {
	if t.Decl.Recv == nil || len(t.Decl.Recv.List[0].Names) != 1 || t.Decl.Body == nil {
		return false
	}
	info := t.Pkg.TypesInfo
	recv := info.Defs[t.Decl.Recv.List[0].Names[0]]
	ok := true
	var stack []ast.Node
	ast.Inspect(t.Decl.Body, func(m ast.Node) bool {
		if m == nil {
			stack = stack[:len(stack)-1]
			return true
		}
		stack = append(stack, m)
		id, isId := m.(*ast.Ident)
		if !isId || info.Uses[id] != recv {
			return true
		}
		if len(stack) >= 2 {
			if p, isSel := stack[len(stack)-2].(*ast.SelectorExpr); isSel && p.X == ast.Expr(id) {
				if fieldOf(info, p) != nil {
					return true
				}
				if len(stack) >= 3 && depth > 0 {
					if call, isC := stack[len(stack)-3].(*ast.CallExpr); isC && unparen(call.Fun) == ast.Expr(p) {
						if cal := callee(info, call); cal != nil && !cal.Exported() && theWorld != nil {
							if t2 := theWorld.Decls[cal]; t2 != nil && (t2 == t || keepsReceiverPrivateDepth(t2, depth-1)) {
								return true
							}
						}
					}
				}
			}
		}
		ok = false
		return true
	})
	return ok
}

// publishedByClose: the field is written only in the owner's Close (behind the
// compare-and-swap gate: one writer, once), Close closes a channel field of the
// same struct after the write, and every read sits in the case of a select (or
// after a statement) that receives from that channel: the close of the channel
// is the happens-before edge.
func publishedByClose(w *World, owner string, v *types.Var, as []*Access) bool {
	if owner != "scope" && owner != "provider" {
		return false
	}
	closeFn := w.Fn(w.Godi, "(*"+owner+").Close")
	if closeFn == nil {
		return false
	}
	allowed := w.HelperClosure(map[*FuncInfo]string{closeFn: "Close"})
	var chanField *types.Var
	lastWrite := token.NoPos
	reads := 0
	for _, a := range as {
		fi := w.FuncAt(a.Pos())
		if fi == nil {
			return false
		}
		if a.IsWrite() {
			if _, ok := allowed[fi]; !ok || a.Kind != "write" {
				if a.Unit != nil && isAllocatingFunc(w, a.Unit.fi, namedOfStruct(w, owner)) {
					continue
				}
				return false
			}
			if a.Pos() > lastWrite {
				lastWrite = a.Pos()
			}
			continue
		}
		if _, inClose := allowed[fi]; inClose {
			continue // Close reads its own write
		}
		reads++
		// the read is guarded by a receive from a channel field of the same object
		info := fi.Pkg.TypesInfo
		guarded := false
		var stack []ast.Node
		ast.Inspect(fi.Decl.Body, func(x ast.Node) bool {
			if x == nil {
				stack = stack[:len(stack)-1]
				return true
			}
			stack = append(stack, x)
			if x.Pos() <= a.Pos() && a.Pos() < x.End() {
				if cc, ok := x.(*ast.CommClause); ok && cc.Comm != nil {
					ast.Inspect(cc.Comm, func(y ast.Node) bool {
						if u, ok := y.(*ast.UnaryExpr); ok && u.Op == token.ARROW {
							if fv := fieldOf(info, u.X); fv != nil && ownerOfFieldRaw(w, fv) == owner {
								if _, isChan := fv.Type().Underlying().(*types.Chan); isChan && exprStr(selBase(u.X)) == exprStr(a.Base) {
									guarded, chanField = true, fv
								}
							}
						}
						return true
					})
				}
			}
			return true
		})
		if !guarded {
			// a plain receive statement earlier in the function
			for _, n := range w.FlowOf(fi).Nodes() {
				if n.End() > a.Pos() {
					continue
				}
				ast.Inspect(n, func(y ast.Node) bool {
					if u, ok := y.(*ast.UnaryExpr); ok && u.Op == token.ARROW {
						if fv := fieldOf(info, u.X); fv != nil && ownerOfFieldRaw(w, fv) == owner {
							if _, isChan := fv.Type().Underlying().(*types.Chan); isChan && exprStr(selBase(u.X)) == exprStr(a.Base) {
								if es, isES := n.(*ast.ExprStmt); isES && unparen(es.X) == ast.Expr(u) {
									guarded, chanField = true, fv
								}
							}
						}
					}
					return true
				})
			}
		}
		if !guarded {
			return false
		}
	}
	if chanField == nil || lastWrite == token.NoPos || reads == 0 {
		return false
	}
	// Close closes that channel after the write
	closed := false
	for f := range allowed {
		info := f.Pkg.TypesInfo
		for _, c := range callsIn(f.Decl.Body, true) {
			if id, ok := unparen(c.Fun).(*ast.Ident); ok && id.Name == "close" && len(c.Args) == 1 && fieldOf(info, c.Args[0]) == chanField && c.Pos() > lastWrite {
				closed = true
			}
		}
	}
	return closed
}
