package main

func init() {
	register("C10",
		"Structural necessary conditions of 'every disposable closed exactly once, never early, never leaked': (R10.1) the lifetime switch of setInstance routes singletons to the provider's table+list and scoped/transient disposables to the scope's single list, on every path where the instance is a Disposable it is tracked or closed on the spot; (R10.2) both Close methods take the list under its lock, reset it in the same critical section and close every element of the snapshot by a complete traversal on every path past the gate; (R10.3) compare-and-swap gate; (R10.4) who may call Disposable.Close / (*scope).Close; (R10.5) failure paths: Build closes the partial provider, the initializer pass closes the partial scope, CreateScope closes or returns the scope owning cancel, insertions after Close are re-checked (typestate); (R10.6/R02.3) every output of a constructor call reaches setInstance. NOT decided: close counts over all histories, Close methods that panic.",
		commonAssumptions, func(w *World, r *Report) {
			la := NewLockAnalysis(w)
			r.Rule("R10.1", 5, "tracking: setInstance's lifetime switch sends singletons to setSingleton (table + provider list) and appends scoped/transient disposables to the scope's list; a Disposable instance is tracked or closed on the spot on every path")
			r.Rule("R10.1s", 2, "each owner keeps exactly one disposal list")
			r.Rule("R10.7", 10, "every output the analysis registers is extracted and stored at run time: the result-object walkers of the analyzer and of the processor skip the same fields (an output that is constructed but never reaches setInstance is never closed)")
			r.Try(func() { ruleFieldFilters(w, r, "R10.7") })
			r.Rule("R10.2", 4, "drain: complete traversal of a snapshot of the owner's list, on every path past the gate")
			r.Rule("R10.3", 2, "once: compare-and-swap gate whose losing edge returns nil and which dominates all effects")
			r.Rule("R10.3s", 4, "once: a table's snapshot and its reset happen inside one critical section")
			r.Rule("R10.4", 8, "not early: Disposable.Close is called only by the disposal loops and the overlap-disposal idiom; (*scope).Close only by owners' Close, watchers and failure cleanup")
			r.Rule("R10.5a", 2, "a Build that fails after construction started closes the partial provider")
			r.Rule("R10.5b", 5, "scope creation that fails closes the partial scope; every exit of CreateScope after WithCancel returns the scope or has closed it")
			r.Rule("R10.5c", 8, "construction overlapping Close: insertions into tables that Close resets are re-checked inside the critical section (typestate)")
			r.Rule("R10.6", 2, "fan-out loops hand every output of a multi-output constructor to setInstance")
			r.Rule("R02.3", 5, "every success exit of createInstance has passed setInstance")
			r.Try(func() { ruleTracking(w, r, "R10.1", "", "") })
			r.Try(func() { ruleSingleList(w, r, "R10.1s") })
			r.Try(func() { ruleDrainComplete(w, r, "R10.2", la) })
			r.Try(func() { ruleGate(w, r, "R10.3") })
			r.Try(func() { ruleSwap(w, r, "R10.3s", la) })
			r.Try(func() { ruleWhoCloses(w, r, "R10.4") })
			r.Try(func() { ruleBuildCleanup(w, r, "R10.5a") })
			r.Try(func() { ruleCancelOwnership(w, r, "R10.5b") })
			r.Try(func() { checkTypestateAs(w, r, la, "R10.5c") })
			r.Try(func() { ruleFanOut(w, r, "R10.6") })
			r.Try(func() { ruleCreateStores(w, r, "R02.3") })
		})

	register("C11",
		"Structural necessary conditions of the disposal order: (R11.1) both disposal loops run from the last element to the first; (R11.2) each owner has exactly one disposal list and it is only appended to at its end (or reset), so list order is creation order; (R11.3) in scope.Close the cascade over all children is complete on every path before the scope's own disposal loop starts; (R11.4) in provider.Close: all tracked scopes, then the root scope, then the singleton loop; closes are sequential (not in goroutines); (R11.5) singletons are created by a front-to-back walk of the topological order. NOT decided: 'no dependent still open' over all DAGs and histories.",
		commonAssumptions, func(w *World, r *Report) {
			la := NewLockAnalysis(w)
			r.Rule("R11.1", 2, "disposal loops traverse the list in reverse")
			r.Rule("R11.11", 8, "no captive path: the lifetime-validation rules of C07 (a singleton that captured a scoped instance of the root scope outlives it: the root scope is closed before the singletons)")
			r.Try(func() { reexportC07(w, r, "R11.11", "R07.1", "R07.2", "R07.3", "R07.4", "R07.5", "R07.6", "R07.8") })
			r.Rule("R11.10", 10, "creation order is dependency order only for the dependencies the analysis sees: the field walkers of the analyzer and of the invoker skip the same fields")
			r.Try(func() { ruleFieldFilters(w, r, "R11.10") })
			r.Rule("R11.2", 3, "owner disposal lists are appended to at the end or reset, never reordered")
			r.Rule("R11.2s", 2, "each owner keeps exactly one disposal list")
			r.Rule("R11.3", 3, "children (resp. scopes and the root scope) are closed before the owner's own instances")
			r.Rule("R11.3c", 2, "the cascade closes every element of a snapshot of the table, sequentially")
			r.Rule("R11.5", 1, "eager singleton creation walks the topological order front to back and constructs inside that loop")
			r.Try(func() { ruleReverse(w, r, "R11.1") })
			r.Try(func() { ruleListsAppendOnly(w, r, "R11.2", la) })
			r.Try(func() { ruleSingleList(w, r, "R11.2s") })
			r.Try(func() { ruleCloseOrder(w, r, "R11.3") })
			r.Try(func() { ruleCascade(w, r, "R11.3c") })
			r.Try(func() { ruleSortedCreation(w, r, "R11.5") })
			r.Rule("R11.6", 1, "a list whose snapshot Close takes by plain copy is never compacted or overwritten in place")
			r.Try(func() { ruleSnapshotFieldsNotMutatedInPlace(w, r, "R11.6", la) })
			r.Rule("R11.7", 8, "a scope that is created while its parent or the provider is closing is refused (typestate of the tables Close resets): otherwise it outlives, and is disposed after, its owner")
			r.Try(func() { checkTypestateAs(w, r, la, "R11.7") })
			r.Rule("R11.8", 1, "a scope's context is cancelled only after its cascade over the children has finished (children's contexts derive from it and their watchers would close them concurrently)")
			r.Try(func() { ruleCancelAfterCascade(w, r, "R11.8") })
			r.Rule("R11.9", 2, "the cascade waits for a Close of a descendant that is in progress in a watcher goroutine")
			r.Try(func() { ruleCascadeAwaits(w, r, "R11.9") })
		})

	register("C12",
		"Structural necessary conditions of 'Close is complete under errors, reports them, and is idempotent': (R12.1) compare-and-swap gate on the disposed flag whose losing edge returns nil and which dominates every effect; (R12.2) every Close() error obtained inside Close is appended to the accumulator and the traversal continues (no early exit), all phases (cascade, disposal loop) are on every path past the gate; (R12.3) the result is DisposalError{Errors: acc} exactly on the len(acc)>0 edge, nil otherwise; (R12.4) child/scope errors are accumulated; (R12.5) watchers call the same gated method. NOT decided: contents of the aggregate for all fault sets.",
		commonAssumptions, func(w *World, r *Report) {
			la := NewLockAnalysis(w)
			r.Rule("R12.1", 2, "R-GATE")
			r.Rule("R12.2", 4, "every checked Close() error flows into the accumulator, no early exit; unchecked Close() results are violations")
			r.Rule("R12.2p", 4, "past the gate every path completes the cascade and the disposal loop")
			r.Rule("R12.3", 2, "DisposalError iff accumulator non-empty")
			r.Rule("R12.5", 2, "context-cancellation watchers call the gated Close of the scope they were created for")
			r.Try(func() { ruleGate(w, r, "R12.1") })
			r.Try(func() { ruleErrorsAccumulate(w, r, "R12.2", "R12.3") })
			r.Try(func() { ruleDrainComplete(w, r, "R12.2p", la) })
			r.Try(func() { ruleCascade(w, r, "R12.2p") })
			r.Try(func() { ruleWatcher(w, r, "R12.5") })
			r.Rule("R12.6", 5, "'every instance it owns': a Disposable instance is appended to its owner's list (or closed on the spot) on every path of setInstance/setSingleton - what is not in the list is never attempted")
			r.Try(func() { ruleTracking(w, r, "R12.6", "", "") })
			r.Rule("R12.7", 3, "Close closes owned scopes itself, synchronously: a scope's context is cancelled only by that scope's own Close, so no Close hands an owned scope to the asynchronous watcher whose result nobody receives")
			r.Try(func() { ruleCancelOwnership(w, r, "R12.7") })
			r.Rule("R12.8", 1, "a scope's context is cancelled only after its cascade over the children has finished: otherwise the children's watchers win their gates and the errors of the subtree are lost")
			r.Try(func() { ruleCancelAfterCascade(w, r, "R12.8") })
			r.Rule("R12.9", 2, "the cascade waits for a Close of a descendant that is in progress in a watcher goroutine (its errors belong to this Close's result)")
			r.Try(func() { ruleCascadeAwaits(w, r, "R12.9") })
		})

	register("C13",
		"Structural necessary conditions of 'closed means closed': (R13.1) each of the 8 resolving/creating entry methods begins with an atomic load of its own disposed flag that dominates every other effect and whose set edge returns that owner's sentinel; (R13.2) Close cascades to every element of a snapshot of children/scopes and to the root scope on every path past the gate; (R13.3) registration of a new scope / instance after construction re-checks, inside the table's critical section, a condition that Close establishes (typestate) and such late arrivals are closed; (R13.4) each CreateScope starts exactly one watcher that waits on the context returned by its own WithCancel and closes the scope it created. NOT decided: 'never hangs' in general, timing of eventual closure.",
		commonAssumptions, func(w *World, r *Report) {
			la := NewLockAnalysis(w)
			r.Rule("R13.1", 8, "R-ENTRY")
			r.Rule("R13.2", 3, "cascade")
			r.Rule("R13.2g", 2, "R-GATE: the flag is set before anything else, so later entry checks fail")
			r.Rule("R13.3", 8, "typestate of tables reset by Close")
			r.Rule("R13.3s", 4, "a table's snapshot and its reset happen inside one critical section")
			r.Rule("R13.3b", 5, "a scope that arrives after its owner was closed is closed, not handed out or leaked")
			r.Rule("R13.4", 2, "one watcher per CreateScope, on this context, closing this scope")
			r.Try(func() { ruleEntry(w, r, "R13.1") })
			r.Try(func() { ruleCascade(w, r, "R13.2") })
			r.Try(func() { ruleGate(w, r, "R13.2g") })
			r.Try(func() { checkTypestateAs(w, r, la, "R13.3") })
			r.Try(func() { ruleSwap(w, r, "R13.3s", la) })
			r.Try(func() { ruleCancelOwnership(w, r, "R13.3b") })
			r.Try(func() { ruleWatcher(w, r, "R13.4") })
			r.Rule("R13.5", 5, "setInstance is the last guard for resolutions in flight when Close ran: an instance that arrives at a closed scope is disposed (or refused) and ErrScopeDisposed is returned")
			r.Try(func() { ruleTracking(w, r, "R13.5", "", "") })
			r.Rule("R13.8", 1, "an operation that overlaps Close never hangs: the lock-order graph over the mutex fields has no cycle (child registration and child unlinking take the tracking locks in one order)")
			r.Try(func() {
				la2 := NewLockAnalysis(w)
				reexport(w, r, "R13.8", func(sub *Report) { checkLockHygiene(w, sub, la2) }, "R09.2i")
			})
			r.Rule("R13.7", 8, "the disposed error stays classifiable through every wrapper: every error struct with a cause field unwraps to it")
			r.Try(func() { ruleErrChainUnwrap(w, r, "R13.7") })
			r.Rule("R13.3n", 2, "the closed marker the insertion sites re-check (table == nil) is established on every path of Close past the gate")
			r.Try(func() { ruleClosedMarkerOnAllPaths(w, r, "R13.3n") })
			r.Rule("R13.6", 2, "every success exit of setInstance's Scoped and Transient paths has found the scope open: an instance of any kind that arrives at a closed scope is refused with ErrScopeDisposed")
			r.Try(func() { ruleSetInstanceRefusesClosed(w, r, "R13.6") })
		})

	register("C14",
		"Structural necessary conditions of 'closing a scope releases everything': (R14.1) past the gate every path of scope.Close calls the stored cancel func; (R14.2) and deletes the scope from its parent's children and from the provider's scopes (only a nil test of the owner pointer may guard either); (R14.3) every insertion site into those tables is paired with that deletion; (R14.4) cache, disposal list and child table are reset; (R14.5) on every path from WithCancel to a return, the scope owning cancel is returned or has been closed, including failing initializers; (R14.6) the watcher's only blocking operation is the receive on the context that R14.1 cancels. NOT decided: garbage-collector reachability, bounded memory in general.",
		commonAssumptions, func(w *World, r *Report) {
			la := NewLockAnalysis(w)
			r.Rule("R14.8", 1, "a scope creation that fails leaves nothing behind also when an initializer panics: the invoker's recover handler turns every recovered value into an error (the cleanup of the half-built scope is on the error path)")
			r.Try(func() { ruleRecoverNeverRepanics(w, r, "R14.8") })
			r.Rule("R14.1", 1, "cancel on every path past the gate")
			r.Rule("R14.2", 2, "self-removal from both tables on every path past the gate")
			r.Rule("R14.3", 2, "insertions paired with deletions")
			r.Rule("R14.4", 3, "tables reset")
			r.Rule("R14.5", 5, "ownership of cancel")
			r.Rule("R14.6", 2, "watcher blocks only on this context's Done()")
			r.Rule("R14.g", 2, "R-GATE (the release sequence runs exactly once)")
			r.Try(func() { ruleRelease(w, r, "R14.1", "R14.2", "R14.4") })
			r.Try(func() { ruleTablePairing(w, r, "R14.3", la) })
			r.Try(func() { ruleCancelOwnership(w, r, "R14.5") })
			r.Try(func() { ruleWatcher(w, r, "R14.6") })
			r.Try(func() { ruleGate(w, r, "R14.g") })
			r.Rule("R14.7", 1, "the scope owns its cancel function before the initializer pass can fail and close it")
			r.Try(func() { ruleCancelBeforeInitializers(w, r, "R14.7") })
		})
}

// checkTypestateAs runs the typestate rule under another rule id.
func checkTypestateAs(w *World, r *Report, la *LockAnalysis, rule string) {
	sub := NewReport(r.Prop, r.Tier, w)
	sub.Rule("R09.3", 0, "")
	checkTypestate(w, sub, la)
	for _, o := range sub.Obs {
		o.Rule = rule
		r.Obs = append(r.Obs, o)
	}
}
