package main

import (
	"fmt"
	"go/ast"
	"go/types"
	"strings"
)

// ruleFamilyFanOut: R-FAMILY (b)/(c). Each multi-descriptor registration family
// of addService has a matching fan-out in createInstance, whose lookup identity
// agrees with the identity the members were registered under.
func ruleFamilyFanOut(w *World, r *Report, ruleB, ruleC string) {
	ro := resolveRoles(w)
	add := w.MustFn(w.Godi, "(*collection).addService")
	ci := ro.createInstance
	ainfo := add.Pkg.TypesInfo
	src := func(fi *FuncInfo) string {
		var sb strings.Builder
		for _, f := range w.Within(fi, 3) {
			ast.Inspect(f.Decl.Body, func(x ast.Node) bool {
				if ifs, ok := x.(*ast.IfStmt); ok {
					sb.WriteString(exprStr(ifs.Cond) + "\n")
				}
				return true
			})
		}
		return sb.String()
	}
	regConds, outConds := src(add), src(ci)
	fams := []struct{ name, regMark, outMark string }{
		{"result-object", "IsResultObject", "IsResultObject"},
		{"multi-return", "len(nonErrorReturns) > 1", "MultiReturnIndex"},
		{"As", ".As) > 0", ".As"},
	}
	for _, f := range fams {
		if !strings.Contains(regConds, f.regMark) {
			continue // family not registered this way any more
		}
		if ruleB != "" {
			con := "createInstance#family:" + f.name
			has := strings.Contains(outConds, f.outMark)
			if f.name == "As" {
				// an alias fan-out must learn the sibling aliases: reads descriptor.As or a shared-constructor relation
				has = false
				for _, f := range w.Within(ci, 3) {
					ast.Inspect(f.Decl.Body, func(x ast.Node) bool {
						if sel, ok := x.(*ast.SelectorExpr); ok && sel.Sel.Name == "As" {
							if fv := fieldOf(f.Pkg.TypesInfo, sel); fv != nil && ownerOfField(w, fv) == "Descriptor" {
								has = true
							}
						}
						return true
					})
				}
			}
			r.Check(has, ruleB, con, ci.Decl.Pos(), true,
				"createInstance stores every member of the "+f.name+" family produced by one constructor call",
				"addService registers several descriptors that share one constructor for the "+f.name+" family, but createInstance has no fan-out for it: resolving each member runs the constructor again and yields a different instance")
		}
	}
	if ruleC == "" {
		return
	}
	// a fan-out that does not search the registry (it iterates the family recorded at
	// registration) has no lookup identity to get wrong
	searches := false
	for _, cif := range w.Within(ci, 3) {
		for _, c := range callsIn(cif.Decl.Body, true) {
			if cal := callee(cif.Pkg.TypesInfo, c); w.IsFn(cal, w.Godi, "(*provider).findDescriptor") || w.IsFn(cal, w.Godi, "(*provider).findGroupDescriptors") {
				searches = true
			}
		}
	}
	if !searches {
		r.OK(ruleC, "createInstance#fan-out-lookup:none", ci.Decl.Pos(), false, "the creation chain never searches the registry for the descriptor of an output: outputs are stored under descriptors recorded at registration")
		r.OK(ruleC, "createInstance#fan-out-lookup:none/2", ci.Decl.Pos(), false, "(no lookup in the multi-return fan-out either)")
		return
	}
	// lookup identity of the two fan-outs
	for _, cif := range w.Within(ci, 3) {
		info := cif.Pkg.TypesInfo
		ast.Inspect(cif.Decl.Body, func(x ast.Node) bool {
			st, isStmt := x.(ast.Stmt)
			if !isStmt {
				return true
			}
			il := asIterLoop(info, st)
			if il == nil {
				return true
			}
			rs := struct {
				X    ast.Expr
				Body *ast.BlockStmt
			}{il.Coll, il.Body}
			for _, c := range callsIn(rs.Body, false) {
				cal := callee(info, c)
				if !w.IsFn(cal, w.Godi, "(*provider).findDescriptor") || len(c.Args) != 2 {
					continue
				}
				fam := "result-object"
				if strings.Contains(exprStr(rs.X), "Returns") {
					fam = "multi-return"
				}
				con := fmt.Sprintf("createInstance#fan-out-lookup:%s", fam)
				var problems []string
				// does the loop consult the groups view for members registered into a group?
				looksAtGroups := false
				ast.Inspect(rs.Body, func(y ast.Node) bool {
					if cc, ok := y.(*ast.CallExpr); ok {
						if cal2 := callee(info, cc); w.IsFn(cal2, w.Godi, "(*provider).findGroupDescriptors") {
							looksAtGroups = true
						}
					}
					return true
				})
				// registration side: does the family literal set Group / Key from non-constant data?
				setsGroup, setsKey := false, false
				for _, addf := range w.Within(add, 3) {
					ast.Inspect(addf.Decl.Body, func(y ast.Node) bool {
						cl, ok := y.(*ast.CompositeLit)
						if !ok {
							return true
						}
						tv, ok := ainfo.Types[cl]
						if !ok || !isNamedType(tv.Type, modPath, "Descriptor") {
							return true
						}
						fl := compositeFields(cl)
						isFam := (fam == "result-object" && strings.Contains(exprStr(fl["Type"]), "field.")) ||
							(fam == "multi-return" && strings.Contains(exprStr(fl["Type"]), "ret."))
						if !isFam {
							return true
						}
						if g, ok := fl["Group"]; ok && !isEmptyString(ainfo, g) {
							setsGroup = true
						}
						if _, ok := fl["Key"]; ok {
							setsKey = true
						}
						return true
					})
				}
				if fam == "multi-return" {
					// Key assigned after the literal (options.Name)
					for _, addf := range w.Within(add, 3) {
						ast.Inspect(addf.Decl.Body, func(y ast.Node) bool {
							if as, ok := y.(*ast.AssignStmt); ok {
								for _, l := range as.Lhs {
									if isFieldNamed(ainfo, l, "Key") && strings.Contains(strings.ToLower(exprStr(l)), "descriptor") && !isNilIdent(ainfo, as.Rhs[0]) {
										setsKey = true
									}
								}
							}
							return true
						})
					}
				}
				if setsGroup && !looksAtGroups {
					problems = append(problems, "members registered into a group (filed under groups with an index key) are looked up only in the services view")
				}
				if setsKey && isNilIdent(info, c.Args[1]) {
					problems = append(problems, "the member registered under a name is looked up with a nil key")
				}
				r.Check(len(problems) == 0, ruleC, con, c.Pos(), true,
					"the fan-out looks each output up under the identity it was registered with",
					"the "+fam+" fan-out does not look its outputs up under the identity they were registered with: "+strings.Join(problems, "; "))
			}
			return true
		})
	}
}

// ruleCheckThenAct: R02.5.
func ruleCheckThenAct(w *World, r *Report, rule string, la *LockAnalysis) {
	ro := resolveRoles(w)
	fi := ro.resolve
	info := fi.Pkg.TypesInfo
	con := "resolve#Scoped:check-then-act"
	// (a) one lock held from the miss test to the fill
	heldAcross := false
	for _, n := range la.byFunc[fi.Obj].flow.Nodes() {
		for _, c := range callsIn(n, false) {
			if ro.isCreate(callee(info, c)) {
				if len(lockFactsOf(la.HeldAt(n))) > 0 {
					heldAcross = true
				}
			}
		}
	}
	// (b) the fill re-reads the key inside its critical section
	reread := false
	si := ro.setInstance
	sinfo := si.Pkg.TypesInfo
	ast.Inspect(si.Decl.Body, func(x ast.Node) bool {
		if as, ok := x.(*ast.AssignStmt); ok && len(as.Rhs) == 1 {
			if ix, ok := unparen(as.Rhs[0]).(*ast.IndexExpr); ok && fieldOf(sinfo, ix.X) == ro.cache {
				reread = true
			}
		}
		return true
	})
	// (c) per-key once / singleflight
	once := false
	for _, f := range []*FuncInfo{fi, ro.createInstance} {
		ast.Inspect(f.Decl.Body, func(x ast.Node) bool {
			if c, ok := x.(*ast.CallExpr); ok {
				if cal := callee(f.Pkg.TypesInfo, c); cal != nil && cal.Pkg() != nil && (cal.Pkg().Path() == "sync" && cal.Name() == "Do") {
					once = true
				}
			}
			return true
		})
	}
	// (d) leader/follower: a wrapper between resolve and the constructing core re-reads the cache
	// and claims an in-flight record (another table of the scope) in one critical section
	inflight := false
	for _, f := range w.FuncsOf(w.Godi) {
		if !ro.creators[f.Obj] || f == ro.createInstance {
			continue
		}
		u := la.byFunc[f.Obj]
		if u == nil {
			continue
		}
		finfo := f.Pkg.TypesInfo
		var readLocks, claimLocks []string
		for _, n := range u.flow.Nodes() {
			held := lockFactsOf(la.HeldAt(n))
			if len(held) == 0 {
				continue
			}
			ast.Inspect(n, func(x ast.Node) bool {
				switch e := x.(type) {
				case *ast.IndexExpr:
					if fieldOf(finfo, e.X) == ro.cache {
						readLocks = append(readLocks, held...)
					}
				case *ast.AssignStmt:
					for _, l := range e.Lhs {
						if ix, ok := unparen(l).(*ast.IndexExpr); ok {
							if fv := fieldOf(finfo, ix.X); fv != nil && fv != ro.cache && ownerOfField(w, fv) == "scope" {
								if _, isMap := fv.Type().Underlying().(*types.Map); isMap {
									claimLocks = append(claimLocks, held...)
								}
							}
						}
					}
				}
				return true
			})
		}
		for _, a := range readLocks {
			for _, b := range claimLocks {
				if a == b {
					inflight = true
				}
			}
		}
	}
	r.Check(heldAcross || reread || once || inflight, rule, con, fi.Decl.Pos(), true,
		"the miss test and the fill of the scoped cache are atomic (one critical section, re-read in the fill, a per-key once, or a leader/follower record claimed together with a re-read of the cache)",
		"the scoped branch tests the cache, releases the lock, constructs, and fills the cache without re-checking: two goroutines resolving the same scoped service in one scope both miss and both construct, so the scope ends up with two instances")
}

func init() {
	register("C01",
		"Structural necessary conditions of 'singleton: constructed once, the same instance everywhere': who may write/delete the singleton table; the Singleton clause of resolution only reads the table; createInstance is called only from the initializer pass, the scoped/transient clauses and eager creation, where it is dominated by the Lifetime==Singleton test and by the already-present test on the descriptor's full key; Build returns only after a checked eager creation that walks the topological order; the graph sees every dependency of a descriptor verbatim; the resolution entry points memoise nothing; family fan-out for multi-output constructors (As family: known finding D1); key literals keep every identity component. NOT decided: invocation counts and pointer identity.",
		commonAssumptions, func(w *World, r *Report) {
			la := NewLockAnalysis(w)
			r.Rule("R01.12", 2, "the tables that hold instances are keyed by service type, key and group")
			r.Try(func() { ruleInstanceTableKeyType(w, r, "R01.12") })
			r.Rule("R01.11", 1, "every descriptor derived from a registration (alias, multi-output) runs the function that was registered: its Constructor and Instance never come from the shared analysis record")
			r.Try(func() { ruleDescriptorConstructorSource(w, r, "R01.11") })
			r.Rule("R01.1", 3, "who-may-write the singleton table")
			r.Rule("R01.2", 1, "the Singleton clause of resolve cannot reach a constructor")
			r.Rule("R01.2b", 8, "resolution entry points and lookups store nothing themselves")
			r.Rule("R01.3", 6, "who-may-call createInstance; guards of eager creation")
			r.Rule("R01.4", 2, "Build succeeds only after a checked eager creation over the topological order")
			r.Rule("R01.5", 2, "R-FAMILY (b): one fan-out per multi-descriptor registration family")
			r.Rule("R01.6", 6, "the dependency graph sees every dependency (verbatim getters, one edge per dependency)")
			r.Rule("R01.7", 20, "R-KEYLIT: key literals keep every identity component")
			r.Rule("R01.8", 5, "R10.1 tracking: singletons are stored by setSingleton only")
			r.Try(func() { ruleWhoWritesTables(w, r, "R01.1", "", la) })
			r.Try(func() { ruleResolveSwitch(w, r, "R01.2", "", "") })
			r.Try(func() { ruleEntryPointsStoreNothing(w, r, "R01.2b") })
			r.Try(func() { ruleCreateCallSites(w, r, "R01.3") })
			r.Try(func() { ruleBuildPipeline(w, r, "", "", "", "", "R01.4") })
			r.Try(func() { ruleSortedCreation(w, r, "R01.4") })
			r.Try(func() { ruleFamilyFanOut(w, r, "R01.5", "") })
			r.Try(func() { ruleGraphSeesAllDependencies(w, r, "R01.6") })
			r.Try(func() { ruleKeyLiterals(w, r, "R01.7") })
			r.Try(func() { ruleTracking(w, r, "R01.8", "", "") })
			r.Rule("R01.9", 5, "exactly its outputs are what is resolved: createInstance calls the descriptor's own constructor and answers instance registrations with the descriptor's own instance")
			r.Try(func() { ruleFunctionIdentity(w, r, "R01.9") })
			r.Rule("R01.13", 3, "descriptors are immutable once registered: no instance or per-provider state lives on a Descriptor (it is shared by every provider built from the collection)")
			r.Try(func() { ruleDescriptorImmutable(w, r, "R01.13") })
			r.Rule("R01.14", 1, "the descriptors derived for one constructor are registered all or none (a partly registered family makes the constructor run for the part and store the rest over other registrations)")
			r.Try(func() { ruleFamilyRegisteredWhole(w, r, "R01.14") })
			r.Rule("R01.19", 1, "both instance tables take their keys the same way: as handed in, or through one normalising function at every access")
			r.Try(func() { ruleTableKeysAgree(w, r, "R01.19") })
			r.Rule("R01.15", 3, "group members keep distinct instance keys: a member's key is its position at insertion, so a group only grows by append and every writer keeps the three views in step (a member removed from the middle makes the next one reuse a live key: two registrations, one instance)")
			r.Try(func() { reexport(w, r, "R01.15", func(sub *Report) { checkC17(w, sub) }, "R17.1", "R17.3") })
			r.Rule("R01.16", 1, "every singleton the provider knows was constructed at Build: graph, eager creation order and the registry snapshot come from one critical section of the collection")
			r.Try(func() { ruleBuildOneCriticalSection(w, r, "R01.16") })
			r.Rule("R01.17", 1, "eager creation is sequential: the container starts no goroutine other than the context watchers (sibling outputs of one constructor sit on one level of the graph - built concurrently, each worker passes the already-created test and the constructor runs once per output)")
			r.Try(func() { reexport(w, r, "R01.17", func(sub *Report) { checkGoStatements(w, sub) }, "R09.4") })
			r.Rule("R01.18", 2, "who-may-call setInstance / setSingleton: the creation chain only")
			r.Try(func() { ruleWhoStores(w, r, "R01.18") })
			r.Rule("R01.10", 1, "only scoped result-less registrations enter the list of per-scope initializers (a singleton initializer in it would run again for every scope)")
			r.Try(func() { ruleInitializerListMembership(w, r, "R01.10") })
			r.Rule("R01.20", 1, "presence in the singleton table means constructed: the function that files a singleton records every output it is handed (no success exit without the store) - eager creation skips a descriptor only when its key is present, so an unrecorded output (a nil interface among several return values) makes the constructor run again and replace what the first run filed (known finding D25)")
			r.Try(func() { ruleSingletonStoreRecordsAll(w, r, "R01.20") })
		})
	register("C02",
		"Structural necessary conditions of 'scoped: one instance per scope, never shared': the scoped cache is written only in the Scoped clause of setInstance, starts as a fresh map in every scope and is reached only through the receiver; the Scoped clause of resolve consults the cache on the resolved key, returns the hit, constructs only on a miss; every success exit of createInstance has passed setInstance; the initializer pass runs once per created scope; the miss-test/fill pair must be atomic (known finding D2: it is not). NOT decided: identity/counts; fairness of retries.",
		commonAssumptions, func(w *World, r *Report) {
			la := NewLockAnalysis(w)
			r.Rule("R02.1", 3, "who-may-write the scoped cache; isolation of caches between scopes")
			r.Rule("R02.2", 1, "Scoped clause of resolve: lookup, hit returns, construct on miss")
			r.Rule("R02.3", 5, "every success exit of createInstance has passed setInstance")
			r.Rule("R02.3b", 3, "setInstance's Scoped clause stores into the cache")
			r.Rule("R02.5", 1, "check-then-act atomicity of the scoped branch")
			r.Rule("R02.6", 3, "every scope handed to a caller has run the initializer pass exactly once")
			r.Rule("R02.7", 8, "resolution entry points and lookups store nothing themselves")
			r.Rule("R02.8", 8, "no captive path: the lifetime-validation rules of C07 (a singleton or transient that captures a scoped instance makes scopes share it)")
			r.Rule("R02.9", 20, "R-KEYLIT: cache keys keep every identity component")
			r.Try(func() { ruleWhoWritesTables(w, r, "", "R02.1", la) })
			r.Rule("R02.18", 1, "both instance tables take their keys the same way: as handed in, or through one normalising function at every access (a cache that is not canonicalised while the registry and the singleton table are holds one instance per spelling of a key)")
			r.Try(func() { ruleTableKeysAgree(w, r, "R02.18") })
			r.Rule("R02.19", 6, "who-may-call createInstance: the scope initializer pass, the scoped / transient clauses of resolve, eager creation - a new way to obtain a service goes through resolve (a direct call constructs a scoped service that the cache already holds)")
			r.Try(func() { ruleCreateCallSites(w, r, "R02.19") })
			r.Try(func() { ruleResolveSwitch(w, r, "", "R02.2", "") })
			r.Try(func() { ruleCreateStores(w, r, "R02.3") })
			r.Try(func() { ruleTracking(w, r, "R02.3b", "R02.3b", "") })
			r.Try(func() { ruleCheckThenAct(w, r, "R02.5", la) })
			r.Try(func() { ruleInitializersOnce(w, r, "R02.6") })
			r.Try(func() { ruleEntryPointsStoreNothing(w, r, "R02.7") })
			sub := NewReport(r.Prop, r.Tier, w)
			for _, id := range []string{"R07.1", "R07.2", "R07.3", "R07.4", "R07.5", "R07.6", "R07.7", "R07.8", "R07.9", "R07.10", "R07.11", "R07.12"} {
				sub.Rule(id, 0, "")
			}
			r.Try(func() { checkC07(w, sub) })
			for _, o := range sub.Obs {
				o.Rule = "R02.8"
				r.Obs = append(r.Obs, o)
			}
			r.Try(func() { ruleKeyLiterals(w, r, "R02.9") })
			r.Rule("R02.10", 1, "no lost-update on an atomically published cache: a Load followed by a Store of the same atomic field runs under a lock or uses compare-and-swap")
			r.Try(func() { ruleAtomicRMW(w, r, "R02.10", la) })
			r.Rule("R02.11", 1, "a failed construction leaves no trace and may be retried: no error exit of resolve is reachable with state recorded by resolve or its helpers and not retired")
			r.Try(func() { ruleResolveWritesNothing(w, r, "R02.11") })
			r.Rule("R02.16", 1, "a resolution runs on the caller's goroutine: the container starts no goroutine other than the per-scope context watchers (a construction the caller gave up on would still fill the cache later)")
			r.Try(func() { reexport(w, r, "R02.16", func(sub *Report) { checkGoStatements(w, sub) }, "R09.4") })
			r.Rule("R02.17", 2, "every output of a constructor call is stored whatever its value: the fan-out loops skip no output because of what was produced (an unstored output is constructed again and its siblings are overwritten)")
			r.Try(func() { ruleFanOut(w, r, "R02.17") })
			r.Rule("R02.15", 2, "the tables that hold instances are keyed by service type, key and group")
			r.Try(func() { ruleInstanceTableKeyType(w, r, "R02.15") })
			r.Rule("R02.12", 5, "initializers and constructors are never identified by their code pointer alone (closures of one literal share it: de-duplicating by it makes all but one of them run zero times)")
			r.Try(func() { ruleFunctionIdentity(w, r, "R02.12") })
			r.Rule("R02.13", 1, "only scoped result-less registrations enter the list of per-scope initializers")
			r.Try(func() { ruleInitializerListMembership(w, r, "R02.13") })
			r.Rule("R02.14", 1, "outputs of one constructor call are told apart by type and key")
			r.Try(func() { ruleIdentityComparisons(w, r, "R02.14") })
			r.Rule("R02.20", 1, "commit-after-validate in createInstance: no error exit after an output was stored, except the store's own error (a failed construction that leaves sibling outputs cached is completed by a retry with a second call of the constructor: two instances of one scoped registration in one scope - D19, C02-r11m1)")
			r.Try(func() { ruleCommitAfterValidate(w, r, "R02.20") })
		})
	register("C03",
		"Structural necessary conditions of 'transient: a fresh instance for every resolution and injection site': the Transient clause of resolve never consults a cache and every exit comes from a fresh createInstance; the Transient clause of setInstance writes no cache; resolution entry points (including GetGroup) memoise nothing; the invoker, builder and cached analysis records hold no per-call state (record confinement); arguments are resolved one by one per invocation. NOT decided: counts versus number of request sites.",
		commonAssumptions, func(w *World, r *Report) {
			la := NewLockAnalysis(w)
			r.Rule("R03.1", 1, "Transient clause of resolve always constructs")
			r.Rule("R03.2", 3, "Transient clause of setInstance writes no cache")
			r.Rule("R03.3", 5, "no memoisation in invoker/builder/analysis records (record confinement)")
			r.Rule("R03.3b", 2, "one resolver call per parameter / field inside the per-invocation loop")
			r.Rule("R03.4", 8, "resolution entry points and lookups store nothing themselves")
			r.Try(func() { ruleResolveSwitch(w, r, "", "", "R03.1") })
			r.Try(func() { ruleTracking(w, r, "R03.2", "", "R03.2") })
			sub := NewReport(r.Prop, r.Tier, w)
			sub.Rule("R09.1", 0, "")
			sub.Rule("R09.1u", 0, "")
			checkRecordConfinement(w, sub, la)
			for _, o := range sub.Obs {
				o.Rule = "R03.3"
				r.Obs = append(r.Obs, o)
			}
			r.Try(func() { ruleArgsPerInvocation(w, r, "R03.3b") })
			r.Try(func() { ruleEntryPointsStoreNothing(w, r, "R03.4") })
			r.Rule("R03.5", 1, "wrappers on the way from resolve to the constructing function never hand a transient request an instance this call did not produce")
			r.Try(func() { ruleCreateChain(w, r, "R03.5") })
			r.Rule("R03.6", 3, "every descriptor derived for a multi-output registration copies Lifetime from the base descriptor (the zero value is Singleton)")
			r.Try(func() { ruleFamilyCopies(w, r, "R03.6") })
			r.Rule("R03.8", 1, "a group is resolved member by member in every call: GetGroup returns only lists it assembled from its own resolutions")
			r.Try(func() { ruleGroupResolvedPerCall(w, r, "R03.8") })
			r.Rule("R03.9", 2, "one argument resolution per constructor call: no call site between createInstance and reflect.Value.Call is repeated by a loop that does not resolve the arguments again")
			r.Try(func() { ruleNoRepeatedConstructorCall(w, r, "R03.9") })
			r.Rule("R03.10", 3, "a transient instance cannot enter an instance table: the singleton table and the scope cache are written only by setSingleton / setInstance and their private halves, under the lifetime of the descriptor being stored")
			r.Try(func() { ruleWhoWritesTables(w, r, "R03.10", "R03.10", la) })
			r.Rule("R03.11", 3, "a service is transient exactly when it was registered so: Descriptor.Lifetime is only ever the Lifetime parameter of the registration call or a copy of the base descriptor's (a descriptor made up at resolution time with another lifetime caches what should be fresh)")
			r.Try(func() { ruleLifetimeSource(w, r, "R03.11") })
			r.Rule("R03.13", 6, "a transient is constructed where it is asked for: createInstance is called only from the initializer pass, the scoped / transient clauses of resolve and eager creation (a new way to obtain a service that answers from arguments or a side table before the Transient clause hands the same value to every site)")
			r.Try(func() { ruleCreateCallSites(w, r, "R03.13") })
			r.Rule("R03.12", 1, "what resolution hands out is remembered in the instance tables only: no value that came out of a resolution is stored in a field of a record the container shares")
			r.Try(func() { ruleNoResolvedValueKept(w, r, "R03.12") })
			r.Rule("R03.7", 1, "no recycled storage on the resolution path (no sync.Pool)")
			r.Try(func() { ruleNoPooledInvocationState(w, r, "R03.7") })
		})
	register("C04",
		"Structural necessary conditions of wiring fidelity: a function's code pointer is never an identity on its own and createInstance calls descriptor.Constructor of the descriptor being constructed (instances bypass the invoker); group members are resolved and registered in order and no ordered result depends on map iteration; the four struct-field walkers apply the same skip predicates before touching a field, the two resolvers dispatch group/name/plain in the same priority, one Dependency per parameter with identity copied; only the optional tag lets a failed field resolution continue; key literals keep every identity component; family fan-out looks members up under the identity they were registered with (known finding D4). NOT decided: that the right instance value arrives.",
		commonAssumptions, func(w *World, r *Report) {
			r.Rule("R04.1", 5, "function identity and constructor operand")
			r.Rule("R04.2", 5, "order of group members and of ordered results")
			r.Rule("R04.3", 12, "sibling agreement of field walkers, resolvers and dependency derivation")
			r.Rule("R04.4", 2, "R-FAMILY (c): fan-out lookup identity agrees with registration identity")
			r.Rule("R04.5", 1, "only optional fields survive a failed resolution")
			r.Rule("R04.7", 20, "R-KEYLIT")
			r.Rule("R04.8", 6, "the graph and the invoker see the same dependencies")
			r.Try(func() { ruleFunctionIdentity(w, r, "R04.1") })
			r.Rule("R04.19", 3, "what a provider serves was wired by that provider: the instance tables are written by the creation chain only (an instance adopted from another provider was built with that provider's registrations - its group members, its overrides - not this one's)")
			r.Try(func() { ruleWhoWritesTables(w, r, "R04.19", "R04.19", NewLockAnalysis(w)) })
			r.Rule("R04.20", 10, "a table that outlives the call (struct field or package variable of map / sync.Map type) is never keyed by the printed name of a reflect.Type: String(), Name() and PkgPath() are descriptions - function-local types of one package print alike, and a cache keyed by the text serves the second type the tags, fields or analysis record of the first (C04-r11m1)")
			r.Try(func() { ruleTypeNameKeys(w, r, "R04.20") })
			r.Try(func() { ruleGroupOrder(w, r, "R04.2") })
			r.Try(func() { ruleFieldFilters(w, r, "R04.3") })
			r.Try(func() { ruleFamilyFanOut(w, r, "", "R04.4") })
			r.Try(func() { ruleOptionalOnly(w, r, "R04.5") })
			r.Try(func() { ruleKeyLiterals(w, r, "R04.7") })
			r.Try(func() { ruleGraphSeesAllDependencies(w, r, "R04.8") })
			r.Rule("R04.14", 2, "name and group tags are taken verbatim, like the registration options")
			r.Try(func() { ruleTagValuesVerbatim(w, r, "R04.14") })
			r.Rule("R04.12", 1, "an interface alias (As) is the base registration under another type: the alias descriptor takes IsInstance and Instance from the base")
			r.Try(func() { ruleAliasIsBase(w, r, "R04.12") })
			r.Rule("R04.13", 1, "the outputs of one constructor call are told apart by type and key (an unnamed result field is not confused with a named sibling of the same type)")
			r.Try(func() { ruleIdentityComparisons(w, r, "R04.13") })
			r.Rule("R04.11", 2, "the tables that hold instances are keyed by service type, key and group (what is injected for one group is not another group's member)")
			r.Try(func() { ruleInstanceTableKeyType(w, r, "R04.11") })
			r.Rule("R04.15", 2, "the member list a provider injects for a group is the provider's own copy (a list that shares its backing array with the collection is rewritten by later registrations)")
			r.Try(func() { reexport(w, r, "R04.15", func(sub *Report) { checkC17(w, sub) }, "R17.5") })
			r.Rule("R04.16", 1, "no recycled storage on the resolution path (a pooled parameter object still carries the fields of the consumer it was built for)")
			r.Try(func() { ruleNoPooledInvocationState(w, r, "R04.16") })
			r.Rule("R04.17", 1, "the order of a group is the order of registration for good: no in-place slice operation (sort, reverse, delete) on a slice the function did not build - a provider's group lists are live")
			r.Try(func() { ruleNoInPlaceOnShared(w, r, "R04.17") })
			r.Rule("R04.18", 2, "every parameter and every field that is not skipped is resolved by the one dispatch on group / name / type: no alternative path fills a field from another source first")
			r.Try(func() { ruleArgsPerInvocation(w, r, "R04.18") })
			r.Rule("R04.9", 1, "a descriptor's Constructor is reflect.ValueOf of the value registered, never a value from the shared analysis cache")
			r.Try(func() { ruleDescriptorConstructorSource(w, r, "R04.9") })
			r.Rule("R04.10", 2, "the descriptor list keeps registration order (append, reset, order-preserving delete only)")
			r.Try(func() { ruleListOrderPreserved(w, r, "R04.10", NewLockAnalysis(w)) })
		})
	register("C05",
		"Structural necessary conditions of 'cycle detection is exact; resolution terminates': every descriptor is added to the graph, the add turns every dependency into an edge and the getters are verbatim; a checked DetectCycles dominates provider allocation and its error is kept as Cause; providers are allocated only by Build; the whole-graph check starts a search from every node and the search follows every edge; group placeholders are linked to their members before every search; deferred insertion rejects nothing but nil; key literals keep Key and Group. NOT decided: correctness of the DFS and of the reported path on all graphs (value-level).",
		commonAssumptions, func(w *World, r *Report) {
			r.Rule("R05.1", 3, "fill loop adds every descriptor; checked DetectCycles before the provider exists")
			r.Rule("R05.1c", 10, "errors keep their cause (errors.As reaches CircularDependencyError)")
			r.Rule("R05.2", 1, "providers are allocated only in doBuild")
			r.Rule("R05.3", 2, "the search starts from every node and follows every edge")
			r.Rule("R05.4", 3, "R-GROUPLINK on the graph")
			r.Rule("R05.5", 6, "graph edges = resolution edges")
			r.Rule("R05.6", 1, "deferred insertion fails only for nil")
			r.Rule("R05.7", 20, "R-KEYLIT")
			r.Try(func() { ruleBuildPipeline(w, r, "R05.1", "R05.1", "", "", "") })
			r.Try(func() { ruleCausePreserved(w, r, "R05.1c") })
			r.Try(func() { ruleProviderOnlyFromBuild(w, r, "R05.2") })
			r.Try(func() { ruleSearchComplete(w, r, "R05.3") })
			r.Try(func() { ruleGroupLinkGraph(w, r, "R05.4") })
			r.Rule("R05.13", 2, "a cycle is reported as a cycle: the checked cycle detection precedes lifetime and presence validation")
			r.Try(func() { ruleCycleCheckFirst(w, r, "R05.13") })
			r.Rule("R05.12", 4, "the cycle check never answers from a stale cache: every graph change (a rejected, rolled-back add included) invalidates it")
			r.Rule("R05.12c", 1, "the sorted-order cache is written only together with clearing its dirty flag")
			r.Try(func() { checkGraphCaches(w, r, "R05.12", "", "R05.12c") })
			r.Try(func() { ruleGraphSeesAllDependencies(w, r, "R05.5") })
			r.Try(func() { ruleDeferredAddTotal(w, r, "R05.6") })
			r.Try(func() { ruleKeyLiterals(w, r, "R05.7") })
			r.Rule("R05.8", 10, "analysis = runtime: the dependency list is derived from exactly the fields/parameters the invoker resolves (sibling agreement of the struct walkers and resolvers)")
			r.Try(func() { ruleFieldFilters(w, r, "R05.8") })
			r.Rule("R05.9", 1, "the descriptor list the graph is built from loses exactly the registration that was removed (selected by identity)")
			r.Try(func() { ruleRemovalIdentity(w, r, "R05.9") })
			r.Rule("R05.10", 1, "a descriptor's dependency list is the analyzer's list, unfiltered")
			r.Try(func() { ruleDependenciesUnfiltered(w, r, "R05.10") })
			r.Rule("R05.14", 1, "the cycle check sees the current registrations: whatever Build keeps on the collection is invalidated by every function that changes a registry view")
			r.Try(func() { ruleBuildCachesInvalidated(w, r, "R05.14") })
			r.Rule("R05.15", 3, "the graph component answers correctly after a rejected add: the rollback restores the previous state (a shallow snapshot of the node table leaves the rejected provider on the shared node)")
			r.Try(func() { ruleRollback(w, r, "R05.15") })
			r.Rule("R05.16", 1, "the registrations checked for cycles are the registrations the provider serves: one critical section of the collection per Build")
			r.Try(func() { ruleBuildOneCriticalSection(w, r, "R05.16") })
			r.Rule("R05.17", 3, "two registrations never share one graph node: every insertion is guarded by the duplicate test, group members get a fresh position (append only), and the views stay in step")
			r.Try(func() { reexport(w, r, "R05.17", func(sub *Report) { checkC17(w, sub) }, "R17.1", "R17.2", "R17.3") })
			r.Rule("R05.19", 1, "the graph that is checked for cycles covers every registration the provider serves: no function a Build runs writes a registry view")
			r.Try(func() { ruleBuildReadsRegistry(w, r, "R05.19") })
			r.Rule("R05.18", 2, "the graph that is checked for cycles is the graph that was described: both adds replace the node's edge list on every accepting path (a replacement never inherits edges)")
			r.Try(func() { ruleAddReplacesEdges(w, r, "R05.18") })
			r.Rule("R05.11", 1, "the edge table and the nodes' own dependency lists describe the same edges")
			r.Try(func() { ruleEdgesAgreeWithNodeLists(w, r, "R05.11") })
		})
	register("C06",
		"Structural necessary conditions of 'build is deterministic, order-independent and creates dependencies first': group consumers are ordered after members only if group edges exist (R-GROUPLINK) and every descriptor and dependency is in the graph; eager creation walks the sorted slice front to back; graph mutators mark both caches dirty and the sort cache is written only with its flag cleared; lifetime validation fills its table completely before the first check (no verdict depends on registration or map order); the validation steps are unconditional. NOT decided: Kahn's algorithm correctness; isomorphism of object graphs under permutation.",
		commonAssumptions, func(w *World, r *Report) {
			r.Rule("R06.1", 3, "R-GROUPLINK on the graph")
			r.Rule("R06.1b", 8, "every descriptor and every dependency is in the graph")
			r.Rule("R06.2", 1, "eager creation walks the topological order front to back")
			r.Rule("R06.3", 4, "cache freshness of the graph")
			r.Rule("R06.3c", 1, "sorted-order cache written only with its flag cleared")
			r.Rule("R06.4", 4, "validation verdicts do not depend on registration order: table complete before checks; every validation step runs on every path")
			r.Try(func() { ruleGroupLinkGraph(w, r, "R06.1") })
			r.Rule("R06.11", 5, "what a registration yields does not depend on what was registered before it: constructors and instances are the descriptor's own, never the analysis record's")
			r.Try(func() { ruleFunctionIdentity(w, r, "R06.11") })
			r.Rule("R06.12", 5, "every instance a constructor yields is stored where its lifetime says (a result that is skipped is constructed again, and which copy a consumer holds depends on the order of the build)")
			r.Try(func() { ruleTracking(w, r, "R06.12", "", "") })
			r.Rule("R06.10", 2, "the lifetime table is keyed by the full identity of a registration: a verdict never depends on which of two registrations of one type was written last")
			r.Try(func() { reexportC07(w, r, "R06.10", "R07.4") })
			r.Try(func() { ruleBuildPipeline(w, r, "R06.1b", "R06.4", "R06.4", "R06.4", "") })
			r.Try(func() { ruleGraphSeesAllDependencies(w, r, "R06.1b") })
			r.Try(func() { ruleSortedCreation(w, r, "R06.2") })
			r.Try(func() { checkGraphCaches(w, r, "R06.3", "", "R06.3c") })
			r.Try(func() { ruleLifetimeTableComplete(w, r, "R06.4") })
			r.Rule("R06.5", 10, "analysis = runtime (sibling agreement of the struct walkers and resolvers)")
			r.Try(func() { ruleFieldFilters(w, r, "R06.5") })
			r.Rule("R06.6", 2, "the descriptor list keeps registration order (append, reset, order-preserving delete only)")
			r.Try(func() { ruleListOrderPreserved(w, r, "R06.6", NewLockAnalysis(w)) })
			r.Rule("R06.7", 1, "the degree recomputation counts every edge")
			r.Try(func() { ruleDegreeCountsEveryEdge(w, r, "R06.7") })
			r.Rule("R06.8", 1, "no slice stored in the graph's tables is rewritten in place")
			r.Try(func() { ruleNoInPlaceReuse(w, r, "R06.8") })
			r.Rule("R06.13", 1, "Build derives graph and order from the current registrations: whatever Build keeps on the collection is invalidated by every function that changes a registry view")
			r.Try(func() { ruleBuildCachesInvalidated(w, r, "R06.13") })
			r.Rule("R06.14", 1, "what a registration yields does not depend on what was registered before it: the descriptors derived for one constructor are registered all or none")
			r.Try(func() { ruleFamilyRegisteredWhole(w, r, "R06.14") })
			r.Rule("R06.15", 1, "a second Build of the same collection sees the same registrations: no in-place slice operation (slices.DeleteFunc/Compact/…, x[:0] filter) is applied to a slice its function did not build (a descriptor's dependency list is shared with the analysis cache and read again by the next Build)")
			r.Try(func() { ruleNoInPlaceOnShared(w, r, "R06.15") })
			r.Rule("R06.16", 4, "the graph component stays sortable after a removal: a deleted node is swept out of every edge list, every occurrence of it (a node that lists it twice must not keep a dangling edge)")
			r.Try(func() { ruleDeletedNodesUnlinked(w, r, "R06.16") })
			r.Rule("R06.17", 1, "eager creation follows the topological order, one node after the other: the container starts no goroutine other than the context watchers")
			r.Try(func() { reexport(w, r, "R06.17", func(sub *Report) { checkGoStatements(w, sub) }, "R09.4") })
			r.Rule("R06.18", 3, "what a registration yields does not depend on earlier removals: group members get a fresh position (a group only grows by append), a removal drops exactly the descriptor it found, the views stay in step")
			r.Try(func() { reexport(w, r, "R06.18", func(sub *Report) { checkC17(w, sub) }, "R17.1", "R17.3", "R17.8") })
			r.Rule("R06.9", 1, "the edge table and the nodes' own dependency lists describe the same edges")
			r.Try(func() { ruleEdgesAgreeWithNodeLists(w, r, "R06.9") })
		})
	register("C07",
		"Structural necessary conditions of 'no captive dependencies': a checked lifetime validation dominates provider allocation; only Lifetime==Scoped exempts a dependent and no attribute of a dependency (such as optional) exempts it; the table is complete before the first check, every registration is checked, the dependency loop is left only by continue or by returning the conflict; group dependencies are checked against every member by (Type, Group), plain ones by (Type, Key); the conflict is raised exactly on ==Scoped; derived descriptors copy Lifetime and Dependencies. NOT decided: the 'no false rejection' direction for all sets.",
		commonAssumptions, checkC07)
	register("C08",
		"Structural necessary conditions of 'Build accepts exactly the resolvable sets': a presence check over every registration and dependency, by (Type, Key) in the services view, is checked before the provider is allocated, independent of the dependent's lifetime, and reports ResolutionError{ErrServiceNotFound}; its error is only reachable for dependencies tested non-optional, non-group and not an unkeyed built-in (acceptance); root-scope initializers run after eager singleton creation; empty groups resolve to an empty result; only optional fields survive a failed resolution. NOT decided: the full biconditional over all registration sets.",
		commonAssumptions, checkC08)
}
