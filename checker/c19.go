package main

import (
	"fmt"
	"go/ast"
	"go/token"
	"go/types"
	"sort"
	"strings"

	"golang.org/x/tools/go/cfg"
)

type graphRoles struct {
	nodes, edges, sorted, sortedDirty, cycleCache, cycleDirty *types.Var
	nodeDeps                                                  *types.Var
	updateDegrees                                             *FuncInfo
}

func resolveGraph(w *World) *graphRoles {
	g := &graphRoles{}
	g.nodes = w.FieldByType(w.Graph, "DependencyGraph", "node table", func(t types.Type) bool {
		m, ok := t.Underlying().(*types.Map)
		return ok && isNamedType(m.Key(), modPath+"/internal/graph", "NodeKey") && isNamedType(m.Elem(), modPath+"/internal/graph", "Node")
	})
	g.edges = w.FieldByType(w.Graph, "DependencyGraph", "edge table", func(t types.Type) bool {
		m, ok := t.Underlying().(*types.Map)
		if !ok || !isNamedType(m.Key(), modPath+"/internal/graph", "NodeKey") {
			return false
		}
		_, isSlice := m.Elem().Underlying().(*types.Slice)
		return isSlice
	})
	g.sorted = w.Field(w.Graph, "DependencyGraph", "sortedNodes")
	g.sortedDirty = w.Field(w.Graph, "DependencyGraph", "sortedNodesDirty")
	g.cycleCache = w.Field(w.Graph, "DependencyGraph", "cycleCache")
	g.cycleDirty = w.Field(w.Graph, "DependencyGraph", "cycleCacheDirty")
	g.nodeDeps = w.Field(w.Graph, "Node", "Dependencies")
	// updateDegrees: the function that writes Node.InDegree
	in := w.Field(w.Graph, "Node", "InDegree")
	for _, fi := range w.FuncsOf(w.Graph) {
		ast.Inspect(fi.Decl.Body, func(x ast.Node) bool {
			switch s := x.(type) {
			case *ast.IncDecStmt:
				if fieldOf(fi.Pkg.TypesInfo, s.X) == in {
					g.updateDegrees = fi
				}
			}
			return true
		})
	}
	if g.updateDegrees == nil {
		undecidedf("role %q could not be resolved", "degree recomputation")
	}
	// the increment may live in a private helper (a method of Node): the role is
	// the graph method that drives it
	for hops := 0; hops < 3 && !recvIs(g.updateDegrees, "DependencyGraph"); hops++ {
		cs := w.Callers()[g.updateDegrees]
		if len(cs) != 1 {
			break
		}
		for c := range cs {
			g.updateDegrees = c
		}
	}
	return g
}

// structWrites: what a node writes of the graph structure.
func (g *graphRoles) structWrites(info *types.Info, n ast.Node) (muts []string, resets bool) {
	// a graph the function has just built (sub := NewDependencyGraph…) is not the receiver's graph
	private := func(e ast.Expr) bool {
		id := rootIdent(e)
		if id == nil || theWorld == nil {
			return false
		}
		o := info.Uses[id]
		fi := theWorld.FuncAt(n.Pos())
		if o == nil || fi == nil || isParamOrRecv(fi, info, o) {
			return false
		}
		// a local of the struct type itself (saved := *node): the function's own copy
		if v, isV := o.(*types.Var); isV && !v.IsField() && !isPointerType(v.Type()) {
			if _, isSt := v.Type().Underlying().(*types.Struct); isSt {
				return true
			}
		}
		fresh := false
		ast.Inspect(fi.Decl.Body, func(y ast.Node) bool {
			if as, ok := y.(*ast.AssignStmt); ok && len(as.Lhs) == len(as.Rhs) {
				for i, l := range as.Lhs {
					if objOf(info, l) != o {
						continue
					}
					if litOf(as.Rhs[i]) != nil {
						fresh = true
					}
					if c, isC := unparen(as.Rhs[i]).(*ast.CallExpr); isC && isFreshConstructorCall(info, c) {
						fresh = true
					}
				}
			}
			return true
		})
		return fresh
	}
	inspectNoLit(n, func(m ast.Node) bool {
		switch s := m.(type) {
		case *ast.AssignStmt:
			for i, l := range s.Lhs {
				t := unparen(l)
				if ix, ok := t.(*ast.IndexExpr); ok {
					if fv := fieldOf(info, ix.X); (fv == g.nodes || fv == g.edges) && !private(ix.X) {
						muts = append(muts, fv.Name())
					}
					continue
				}
				if private(t) {
					continue
				}
				if fv := fieldOf(info, t); fv != nil {
					switch fv {
					case g.nodes, g.edges:
						// whole-table replacement (Clear)
						if i < len(s.Rhs) {
							if c, ok := unparen(s.Rhs[i]).(*ast.CallExpr); ok && exprStr(c.Fun) == "make" {
								resets = true
							}
						}
						muts = append(muts, fv.Name())
					case g.nodeDeps:
						muts = append(muts, "Node.Dependencies")
					}
				}
			}
		case *ast.CallExpr:
			if id, ok := unparen(s.Fun).(*ast.Ident); ok && id.Name == "delete" && len(s.Args) == 2 {
				if fv := fieldOf(info, s.Args[0]); fv == g.nodes || fv == g.edges {
					muts = append(muts, fv.Name())
				}
			}
		}
		return true
	})
	return
}

func checkGraphCaches(w *World, r *Report, ruleDirty, ruleDegrees, ruleCacheWrite string) {
	g := resolveGraph(w)
	// transitive writers
	writes := map[*types.Func]bool{}
	for _, fi := range w.FuncsOf(w.Graph) {
		info := fi.Pkg.TypesInfo
		for _, n := range w.FlowOf(fi).Nodes() {
			if m, _ := g.structWrites(info, n); len(m) > 0 {
				writes[fi.Obj] = true
			}
		}
	}
	direct := map[*types.Func]bool{}
	for k := range writes {
		direct[k] = true
	}
	for changed := true; changed; {
		changed = false
		for _, fi := range w.FuncsOf(w.Graph) {
			if writes[fi.Obj] {
				continue
			}
			for _, c := range callsIn(fi.Decl.Body, true) {
				if cal := callee(fi.Pkg.TypesInfo, c); cal != nil && writes[cal] {
					writes[fi.Obj] = true
					changed = true
				}
			}
		}
	}
	var muts []*FuncInfo
	for _, fi := range w.FuncsOf(w.Graph) {
		if writes[fi.Obj] && fi.Obj.Exported() && recvNamed(fi.Obj) != nil && recvNamed(fi.Obj).Obj().Name() == "DependencyGraph" {
			muts = append(muts, fi)
		}
	}
	// functions that fill the sorted-order cache are analysed too (R19.1c)
	for _, fi := range w.FuncsOf(w.Graph) {
		fills := false
		ast.Inspect(fi.Decl.Body, func(x ast.Node) bool {
			if as, ok := x.(*ast.AssignStmt); ok && len(as.Lhs) == len(as.Rhs) {
				for i, l := range as.Lhs {
					if fieldOf(fi.Pkg.TypesInfo, l) == g.sorted && !isNilIdent(fi.Pkg.TypesInfo, as.Rhs[i]) {
						fills = true
					}
				}
			}
			return true
		})
		already := false
		for _, m := range muts {
			if m == fi {
				already = true
			}
		}
		if fills && !already {
			muts = append(muts, fi)
		}
	}
	sort.Slice(muts, func(i, j int) bool { return posLess(muts[i].Decl.Pos(), muts[j].Decl.Pos()) })
	for _, fi := range muts {
		r.Analysed(fi)
		info := fi.Pkg.TypesInfo
		fl := w.FlowOf(fi)
		// only structural mutations count (the degree recomputation rewrites derived data)
		isStruct := func(c *types.Func) bool { return writes[c] && c != g.updateDegrees.Obj }
		gen := func(n ast.Node) (out []string, kill []string) {
			m, resets := g.structWrites(info, n)
			if len(m) > 0 {
				out = append(out, "mutated")
				kill = append(kill, "degrees")
				if resets {
					out = append(out, "reset")
				}
			}
			for _, c := range callsIn(n, false) {
				cal := callee(info, c)
				if cal == nil {
					continue
				}
				if cal == g.updateDegrees.Obj {
					out = append(out, "degrees")
				} else if isStruct(cal) && w.Decls[cal] != nil && !cal.Exported() {
					out = append(out, "mutated")
					kill = append(kill, "degrees")
				}
			}
			if as, ok := n.(*ast.AssignStmt); ok && len(as.Lhs) == len(as.Rhs) {
				for i, l := range as.Lhs {
					fv := fieldOf(info, l)
					if fv != g.sortedDirty && fv != g.cycleDirty {
						continue
					}
					val := exprStr(as.Rhs[i])
					if val == "true" {
						out = append(out, "dirty:"+w.canonName(fv))
					} else {
						kill = append(kill, "dirty:"+w.canonName(fv))
						out = append(out, "clean:"+w.canonName(fv))
					}
				}
				for i, l := range as.Lhs {
					if fv := fieldOf(info, l); fv == g.sorted && !isNilIdent(info, as.Rhs[i]) {
						out = append(out, "wrote:sortedNodes")
					}
				}
			}
			return
		}
		// private helpers are followed: what a helper recomputes or marks after its own changes counts
		glob := globalPrefixes("mutated", "degrees", "dirty:", "clean:", "reset", "wrote:")
		stop := func(h *FuncInfo) bool { return h == g.updateDegrees }
		must := fl.Solve(Spec{Must: true, Global: glob, Stop: stop, Node: func(n ast.Node, in Facts) ([]string, []string) { return gen(n) }})
		// `if len(removed) == 0 { return }` where every change sits beside a growth of `removed`
		unchanged := noChangeWitness(info, fi.Decl.Body, func(n ast.Node) bool {
			o, _ := gen(n)
			for _, f := range o {
				if f == "mutated" {
					return true
				}
			}
			return false
		})
		may := fl.Solve(Spec{Must: false, Global: glob, Stop: stop, Node: func(n ast.Node, in Facts) ([]string, []string) {
			o, _ := gen(n)
			return o, nil
		}, Edge: func(b *cfg.Block, i int, cond ast.Expr, in Facts) (gen, kill []string) {
			if cond != nil && unchanged(cond, i) {
				kill = append(kill, "mutated", "reset")
			}
			return
		}})
		// second opinion, per path: the bad states themselves as may-facts. A change raises
		// "owes a dirty mark / a degree recomputation", the mark or the recomputation that follows
		// withdraws it (a batch add that does all of it inside its loop reaches the exit behind
		// the loop either unchanged or with everything done - which "may changed, must marked"
		// cannot tell apart). An exit is reported only when both views call it bad.
		var badSol *Sol
		badAt := func(ex Exit) Facts {
			if badSol == nil {
				badSol = fl.Solve(Spec{Must: false, Global: globalPrefixes("bad:"), Stop: stop,
					Node: func(n ast.Node, in Facts) (g2, k2 []string) {
						o, _ := gen(n)
						for _, f := range o {
							switch f {
							case "mutated":
								g2 = append(g2, "bad:sorted", "bad:cycle", "bad:degrees")
							}
						}
						for _, f := range o {
							switch f {
							case "degrees":
								k2 = append(k2, "bad:degrees")
							case "dirty:sortedNodesDirty":
								k2 = append(k2, "bad:sorted")
							case "dirty:cycleCacheDirty":
								k2 = append(k2, "bad:cycle")
							}
						}
						// a statement cannot both change the tables and mark: kills of the same node win only
						// when nothing was raised by it
						if len(g2) > 0 {
							k2 = nil
						}
						return
					},
					Edge: func(b *cfg.Block, i int, cond ast.Expr, in Facts) (g2, k2 []string) {
						if cond != nil && unchanged(cond, i) {
							k2 = append(k2, "bad:*")
						}
						return
					}})
			}
			return badSol.AtExit(ex)
		}
		isQueryWithCache := false
		n := 0
		for _, ex := range fl.Exits() {
			if ex.Panic {
				continue
			}
			yf, mf := may.AtExit(ex), must.AtExit(ex)
			if yf.Has("wrote:sortedNodes") {
				isQueryWithCache = true
				con := fmt.Sprintf("%s#cache-write/%d", fi.Name(), n)
				r.Check(mf.Has("clean:sortedNodesDirty"), ruleCacheWrite, con, ex.Pos, true,
					"the sorted-order cache is written together with clearing its dirty flag",
					"the exit at "+w.Pos(ex.Pos)+" can be reached having written the sorted-order cache without clearing (or while leaving stale) its dirty flag")
			}
			if !yf.Has("mutated") {
				continue
			}
			n++
			con := fmt.Sprintf("%s#exit-after-mutation/%d", fi.Name(), n)
			okDirty := mf.Has("dirty:sortedNodesDirty") && mf.Has("dirty:cycleCacheDirty")
			if !okDirty && !badAt(ex).Has("bad:sorted") && !badAt(ex).Has("bad:cycle") {
				okDirty = true
			}
			if !direct[fi.Obj] || isDetect(fi) {
				// functions that only mutate through helpers which complete deferred
				// work (DetectCycles): they recompute, the flags were set by the adder
				okDirty = true
			}
			r.Check(okDirty, ruleDirty, con, ex.Pos, true,
				"both cache flags are set on every path that reaches this exit after changing nodes/edges",
				fmt.Sprintf("the exit at %s can be reached after nodes/edges were changed without marking both caches dirty (sorted order dirty: %v, cycle cache dirty: %v): a cached topological order or cycle verdict stays in use", w.Pos(ex.Pos), mf.Has("dirty:sortedNodesDirty"), mf.Has("dirty:cycleCacheDirty")))
			if ruleDegrees != "" {
				exempt := ""
				switch {
				case yf.Has("reset") && !mf.Has("degrees"):
					exempt = "tables replaced by empty ones: nothing to recompute"
				case isDeferredAdd(fi):
					exempt = "deferred add: degrees are recomputed by DetectCycles (checked separately)"
				}
				if exempt != "" {
					r.OK(ruleDegrees, con+":degrees", ex.Pos, false, "%s", exempt)
				} else {
					r.Check(mf.Has("degrees") || !badAt(ex).Has("bad:degrees"), ruleDegrees, con+":degrees", ex.Pos, true,
						"degrees and dependents lists are recomputed after the last change on every path to this exit",
						"the exit at "+w.Pos(ex.Pos)+" can be reached with nodes/edges changed after the last degree recomputation: roots, leaves, dependents and the topological order are computed from stale degrees")
				}
			}
		}
		_ = isQueryWithCache
	}
	// DetectCycles recomputes degrees before anything else (completes the deferred add)
	if ruleDegrees != "" {
		fi := w.MustFn(w.Graph, "(*DependencyGraph).DetectCycles")
		info := fi.Pkg.TypesInfo
		fl := w.FlowOf(fi)
		sol := fl.Solve(Spec{Must: true, Node: func(n ast.Node, in Facts) (gen, kill []string) {
			for _, c := range callsIn(n, false) {
				if callee(info, c) == g.updateDegrees.Obj {
					gen = append(gen, "degrees")
				}
			}
			return
		}})
		bad := ""
		for _, n := range fl.Nodes() {
			reads := false
			inspectNoLit(n, func(m ast.Node) bool {
				if sel, ok := m.(*ast.SelectorExpr); ok {
					if fv := fieldOf(info, sel); fv == g.nodes || fv == g.edges || fv == g.cycleCache || fv == g.cycleDirty {
						reads = true
					}
				}
				return true
			})
			if reads && !sol.Before[n].Has("degrees") {
				isCall := false
				for _, c := range callsIn(n, false) {
					if callee(info, c) == g.updateDegrees.Obj {
						isCall = true
					}
				}
				if !isCall {
					bad = w.Pos(n.Pos())
				}
			}
		}
		r.Check(bad == "", ruleDegrees, fi.Name()+"#recompute-first", fi.Decl.Pos(), true,
			"DetectCycles recomputes degrees before it looks at the graph (completing deferred adds)",
			"DetectCycles reads the graph at "+bad+" before recomputing degrees: deferred adds are not completed")
	}
}

func isDeferredAdd(fi *FuncInfo) bool { return fi.Obj.Name() == "AddProviderDeferred" }
func isDetect(fi *FuncInfo) bool {
	return fi.Obj.Name() == "DetectCycles" || fi.Obj.Name() == "IsAcyclic"
}

// ruleRollback: R19.3. On the rejection edge of AddProvider, a node is deleted
// only if this call created it.
func ruleRollback(w *World, r *Report, rule string) {
	g := resolveGraph(w)
	fi := w.MustFn(w.Graph, "(*DependencyGraph).AddProvider")
	r.Analysed(fi)
	info := fi.Pkg.TypesInfo
	// exists variables from `x, exists := g.nodes[k]` and creation sites
	type lookup = nodeLookup
	existsOf := map[types.Object]lookup{}
	ast.Inspect(fi.Decl.Body, func(x ast.Node) bool {
		if as, ok := x.(*ast.AssignStmt); ok && len(as.Lhs) == 2 && len(as.Rhs) == 1 {
			if ix, ok := unparen(as.Rhs[0]).(*ast.IndexExpr); ok && fieldOf(info, ix.X) == g.nodes {
				existsOf[objOf(info, as.Lhs[1])] = lookup{exprStr(ix.Index), true}
			}
			// node, created := g.ensureNode(key, …): a lookup-or-create helper
			if c, ok := unparen(as.Rhs[0]).(*ast.CallExpr); ok {
				if idx, existed, ok := lookupOrCreate(w, g, callee(info, c)); ok && idx < len(c.Args) {
					existsOf[objOf(info, as.Lhs[1])] = lookup{exprStr(c.Args[idx]), existed}
				}
			}
		}
		return true
	})
	// "created" lists: slices appended to only under a !exists edge right after creating the node
	fl := w.FlowOf(fi)
	sol := fl.Solve(Spec{Must: true, Edge: func(b *cfg.Block, i int, cond ast.Expr, in Facts) (gen, kill []string) {
		if cond == nil {
			return
		}
		c := unparen(cond)
		neg := false
		if u, ok := c.(*ast.UnaryExpr); ok && u.Op == token.NOT {
			c, neg = unparen(u.X), true
		}
		if lk, ok := existsOf[objOf(info, c)]; ok {
			existed := ((i == 0) != neg) == lk.existed
			if existed {
				gen = append(gen, "existed:"+lk.key)
				kill = append(kill, "new:"+lk.key)
			} else {
				gen = append(gen, "new:"+lk.key)
				kill = append(kill, "existed:"+lk.key)
			}
		}
		// the rejection edge: err != nil after detectCyclesFrom
		if be, ok := c.(*ast.BinaryExpr); ok && (be.Op == token.NEQ || be.Op == token.EQL) && (isNilIdent(info, be.Y) || isNilIdent(info, be.X)) {
			o := objOf(info, be.X)
			if isNilIdent(info, be.X) {
				o = objOf(info, be.Y)
			}
			if o != nil && isErrorType(o.Type()) && (be.Op == token.NEQ) == (i == 0) {
				gen = append(gen, "rejected")
			}
		}
		return
	}})
	createdLists := map[types.Object]bool{}
	badLists := map[types.Object]bool{}
	for _, n := range fl.Nodes() {
		as, ok := n.(*ast.AssignStmt)
		if !ok || len(as.Lhs) != 1 || len(as.Rhs) != 1 {
			continue
		}
		c, ok := unparen(as.Rhs[0]).(*ast.CallExpr)
		if !ok || exprStr(c.Fun) != "append" || len(c.Args) != 2 {
			continue
		}
		o := objOf(info, as.Lhs[0])
		if o == nil || objOf(info, c.Args[0]) != o {
			continue
		}
		if sl, ok := o.Type().Underlying().(*types.Slice); !ok || !isNamedType(sl.Elem(), modPath+"/internal/graph", "NodeKey") {
			continue
		}
		if sol.Before[n].Has("new:" + exprStr(c.Args[1])) {
			createdLists[o] = true
		} else {
			badLists[o] = true
		}
	}
	for o := range badLists {
		delete(createdLists, o)
	}
	nDel := 0
	for _, n := range fl.Nodes() {
		for _, c := range callsIn(n, false) {
			id, ok := unparen(c.Fun).(*ast.Ident)
			if !ok || id.Name != "delete" || len(c.Args) != 2 || fieldOf(info, c.Args[0]) != g.nodes {
				continue
			}
			bf := sol.Before[n]
			if !bf.Has("rejected") {
				continue
			}
			nDel++
			key := exprStr(c.Args[1])
			con := fmt.Sprintf("%s#rollback-delete:%s", fi.Name(), key)
			good, how := false, ""
			if bf.Has("new:" + key) {
				good, how = true, "on the edge where the node did not exist before the call"
			}
			// loop over a created-in-this-call list
			ast.Inspect(fi.Decl.Body, func(x ast.Node) bool {
				if rs, ok := x.(*ast.RangeStmt); ok && rs.Value != nil && isInside(c, rs.Body) && exprStr(rs.Value) == key {
					if createdLists[objOf(info, rs.X)] {
						good, how = true, "while ranging over "+exprStr(rs.X)+", a list that only receives keys of nodes this call created"
					}
				}
				return true
			})
			r.Check(good, rule, con, c.Pos(), true, "the rejected add deletes node "+key+" "+how,
				"on the rejection path delete(g.nodes, "+key+") is not restricted to nodes created by this call: a node that existed before (a placeholder other providers depend on, or the provider being replaced) is removed, so the graph is not left as it was")
		}
	}
	// the rollback may be carried out by a private helper that is handed a record of what this
	// call did (undo := addUndo{isNew: !exists, key: nodeKey, …}; g.rollbackAdd(&undo))
	restoredInHelper := false
	viaRecord := false
	if nDel == 0 {
		nDel, restoredInHelper = rollbackThroughRecord(w, r, rule, g, fi, fl, sol, existsOf2(existsOf))
		viaRecord = nDel > 0
	}
	if !viaRecord {
		// a private helper called on the rejection path that deletes nodes it selects itself
		// (by a property of the graph, not by what this call created)
		for _, n := range fl.Nodes() {
			if !sol.Before[n].Has("rejected") {
				continue
			}
			for _, c := range callsIn(n, false) {
				cal := callee(info, c)
				if cal == nil || cal.Exported() || w.Decls[cal] == nil {
					continue
				}
				for _, h := range w.Within(w.Decls[cal], 1) {
					hinfo := h.Pkg.TypesInfo
					for _, d := range callsIn(h.Decl.Body, true) {
						id, ok := unparen(d.Fun).(*ast.Ident)
						if !ok || id.Name != "delete" || len(d.Args) != 2 || fieldOf(hinfo, d.Args[0]) != g.nodes {
							continue
						}
						// the key must come from a list the caller filled with created nodes
						fromCreated := false
						ast.Inspect(h.Decl.Body, func(x ast.Node) bool {
							if rs, ok := x.(*ast.RangeStmt); ok && rs.Value != nil && isInside(d, rs.Body) && exprStr(rs.Value) == exprStr(d.Args[1]) {
								if po := objOf(hinfo, rs.X); po != nil && isParamOf(h, hinfo, po) {
									k := 0
									for _, f := range h.Decl.Type.Params.List {
										for _, nm := range f.Names {
											if hinfo.Defs[nm] == po && k < len(c.Args) && createdLists[objOf(info, c.Args[k])] {
												fromCreated = true
											}
											k++
										}
									}
								}
							}
							return true
						})
						nDel++
						r.Check(fromCreated, rule, fmt.Sprintf("%s#rollback-delete:%s/%s", fi.Name(), h.Obj.Name(), exprStr(d.Args[1])), d.Pos(), true,
							"the rollback helper deletes only the nodes of a list that receives keys of nodes this call created",
							"on the rejection path "+h.Name()+" deletes nodes it selects itself (delete(g.nodes, "+exprStr(d.Args[1])+") is not restricted to what this call created): a placeholder that existed before the rejected add - left by an earlier removal, or shared with another pending provider - is removed, so the graph is not left as it was")
					}
				}
			}
		}
	}
	if nDel == 0 {
		r.Fail(rule, fi.Name()+"#rollback", fi.Decl.Pos(), "the rejection path of AddProvider removes nothing: a rejected provider stays in the graph")
	}
	// a node that existed before has its previous provider restored
	restored := false
	for _, n := range fl.Nodes() {
		if as, ok := n.(*ast.AssignStmt); ok && len(as.Lhs) == 1 {
			if fv := fieldOf(info, as.Lhs[0]); fv != nil && fv.Name() == "Provider" && sol.Before[n].Has("rejected") {
				for k := range sol.Before[n] {
					if len(k) > 8 && k[:8] == "existed:" {
						restored = true
					}
				}
			}
		}
	}
	restored = restored || restoredInHelper
	r.Check(restored, rule, fi.Name()+"#rollback-restore", fi.Decl.Pos(), true,
		"on the rejection path a node that existed before gets its previous provider back",
		"on the rejection path the previous provider of an existing node is not restored")
}

// ruleSearchComplete: R05.3. The whole-graph cycle check starts a search from
// every node (only a visited test may skip one), and the search pushes every
// outgoing edge (only a visited test may skip one).
func ruleSearchComplete(w *World, r *Report, rule string) {
	g := resolveGraph(w)
	dc := w.MustFn(w.Graph, "(*DependencyGraph).DetectCycles")
	r.Analysed(dc)
	info := dc.Pkg.TypesInfo
	var dfs *types.Func
	found := false
	_ = info
	// the loop over all nodes may live in DetectCycles or in a private helper of it (scanForCycles)
	for _, host := range w.Within(dc, 2) {
		hinfo := host.Pkg.TypesInfo
		for _, il := range iterLoopsIn(hinfo, host.Decl.Body) {
			if fieldOf(hinfo, il.Coll) != g.nodes || il.Index == nil {
				continue
			}
			for _, c := range callsIn(il.Body, false) {
				cal := callee(hinfo, c)
				if cal == nil || w.Decls[cal] == nil || len(c.Args) != 1 || objOf(hinfo, c.Args[0]) != il.Index {
					continue
				}
				if !isCycleSearch(w, w.Decls[cal]) {
					continue
				}
				found = true
				dfs = cal
				bad := ""
				// conditions the call (and every return) is control dependent on, inside one iteration
				conds, _ := controllingConds(w, host, il.Body, c.Pos())
				for _, cd := range conds {
					if !isVisitedTest(hinfo, cd) {
						bad = exprStr(cd)
					}
				}
				inspectNoLit(il.Body, func(m ast.Node) bool {
					switch st := m.(type) {
					case *ast.BranchStmt:
						if st.Tok == token.BREAK || st.Tok == token.GOTO {
							bad = st.Tok.String() + " in the loop over all nodes"
						}
					case *ast.ReturnStmt:
						rc, _ := controllingConds(w, host, il.Body, st.Pos())
						okRet := false
						isErr := func(e ast.Expr) bool { o := objOf(hinfo, e); return o != nil && isErrorType(o.Type()) }
						for _, cd := range rc {
							if isNilTestOf(hinfo, cd, isErr, false) || isNilTestOf(hinfo, cd, isErr, true) {
								okRet = true
							}
						}
						if !okRet {
							bad = "a return that does not depend on the search having found a cycle"
						}
					}
					return true
				})
				r.Check(bad == "", rule, dc.Name()+"#search-from-every-node", il.Stmt.Pos(), true,
					"a search is started from every node of the graph; only the already-visited test may skip one",
					"the loop over all nodes skips nodes on the condition "+bad+": cycles reachable only from those nodes are not found")
			}
		}
	}
	if !found {
		r.Fail(rule, dc.Name()+"#search-from-every-node", dc.Decl.Pos(), "DetectCycles has no loop over all nodes that starts a search from each")
		return
	}
	fi := w.Decls[dfs]
	r.Analysed(fi)
	finfo := fi.Pkg.TypesInfo
	// successor expansion
	okExp := false
	bad := ""
	ast.Inspect(fi.Decl.Body, func(x ast.Node) bool {
		rs, ok := x.(*ast.RangeStmt)
		if !ok || rs.Value == nil {
			return true
		}
		// ranging over g.edges[k] or a variable assigned from it
		src := unparen(rs.X)
		fromEdges := false
		if ix, ok := src.(*ast.IndexExpr); ok && fieldOf(finfo, ix.X) == g.edges {
			fromEdges = true
		}
		if o := objOf(finfo, src); o != nil {
			ast.Inspect(fi.Decl.Body, func(y ast.Node) bool {
				if as, ok := y.(*ast.AssignStmt); ok && len(as.Rhs) == 1 {
					if ix, ok := unparen(as.Rhs[0]).(*ast.IndexExpr); ok && fieldOf(finfo, ix.X) == g.edges {
						for _, l := range as.Lhs {
							if objOf(finfo, l) == o {
								fromEdges = true
							}
						}
					}
				}
				return true
			})
		}
		if !fromEdges {
			return true
		}
		okExp = true
		// body: push every successor; accepted guard: visited test
		for _, st := range rs.Body.List {
			switch s := st.(type) {
			case *ast.IfStmt:
				if !isVisitedTest(finfo, s.Cond) {
					bad = "successors are only followed when " + exprStr(s.Cond)
				}
			case *ast.AssignStmt, *ast.ExprStmt:
			default:
				bad = fmt.Sprintf("unrecognised statement %T in the successor loop", s)
			}
		}
		inspectNoLit(rs.Body, func(m ast.Node) bool {
			if b, ok := m.(*ast.BranchStmt); ok && (b.Tok == token.BREAK || b.Tok == token.CONTINUE) {
				bad = b.Tok.String() + " in the successor loop"
			}
			return true
		})
		return true
	})
	if !okExp {
		bad = "no loop over the outgoing edges of the current node"
	}
	// early outs of the search other than "start node missing" / results
	ast.Inspect(fi.Decl.Body, func(x ast.Node) bool {
		ifs, ok := x.(*ast.IfStmt)
		if !ok || len(ifs.Body.List) == 0 {
			return true
		}
		last := ifs.Body.List[len(ifs.Body.List)-1]
		cond := exprStr(ifs.Cond)
		switch s := last.(type) {
		case *ast.ReturnStmt:
			if len(s.Results) == 1 && isNilIdent(finfo, s.Results[0]) && !containsFold(cond, "nil") {
				bad = "the search returns 'no cycle' early when " + cond
			}
			if len(s.Results) == 1 && isNilIdent(finfo, s.Results[0]) && containsFold(cond, "provider") {
				bad = "the search returns 'no cycle' early when " + cond
			}
		case *ast.BranchStmt:
			if s.Tok == token.CONTINUE && !isVisitedTest(finfo, ifs.Cond) && !containsFold(cond, "visit") {
				bad = "the search skips nodes when " + cond
			}
		}
		return true
	})
	r.Check(bad == "", rule, fi.Name()+"#follows-every-edge", fi.Decl.Pos(), true,
		"the search follows every outgoing edge of every node it reaches; only the visited test may prune",
		fi.Name()+": "+bad+": cycles through such nodes are missed")
}

// isVisitedTest: the condition only consults traversal bookkeeping - a local
// map[NodeKey]bool (whatever its name) or a bool field of Node.
func isVisitedTest(info *types.Info, cond ast.Expr) bool {
	// `_, done := visited[k]; done` - membership in a local set keyed by node key
	if c := unparen(cond); c != nil {
		if u, isU := c.(*ast.UnaryExpr); isU && u.Op == token.NOT {
			c = unparen(u.X)
		}
		if id, isId := c.(*ast.Ident); isId && theWorld != nil {
			if o := info.Uses[id]; o != nil {
				if fi := theWorld.FuncAt(o.Pos()); fi != nil {
					found := false
					ast.Inspect(fi.Decl.Body, func(n ast.Node) bool {
						as, isAs := n.(*ast.AssignStmt)
						if !isAs || len(as.Lhs) != 2 || len(as.Rhs) != 1 || objOf(info, as.Lhs[1]) != o {
							return true
						}
						if ix, isIx := unparen(as.Rhs[0]).(*ast.IndexExpr); isIx {
							if tv, has := info.Types[ix.X]; has {
								if m, isMap := tv.Type.Underlying().(*types.Map); isMap && isNamedType(m.Key(), modPath+"/internal/graph", "NodeKey") {
									if _, isLocal := objOf(info, ix.X).(*types.Var); isLocal && fieldOf(info, ix.X) == nil {
										found = true
									}
								}
							}
						}
						return true
					})
					if found {
						return true
					}
				}
			}
		}
	}
	ok := false
	bad := false
	ast.Inspect(cond, func(n ast.Node) bool {
		switch x := n.(type) {
		case *ast.IndexExpr:
			if tv, has := info.Types[x.X]; has {
				if m, isMap := tv.Type.Underlying().(*types.Map); isMap {
					// a local map keyed by node key: traversal bookkeeping (visited flags or a progress state)
					if _, isB := m.Elem().Underlying().(*types.Basic); isB && isNamedType(m.Key(), modPath+"/internal/graph", "NodeKey") {
						if _, isLocal := objOf(info, x.X).(*types.Var); isLocal && fieldOf(info, x.X) == nil {
							ok = true
							return false
						}
					}
				}
			}
			bad = true
		case *ast.SelectorExpr:
			if fv := fieldOf(info, x); fv != nil {
				if b, isB := fv.Type().Underlying().(*types.Basic); isB && b.Info()&types.IsBoolean != 0 && (fv.Name() == "Visited" || fv.Name() == "Visiting" || containsFold(fv.Name(), "visit") || containsFold(fv.Name(), "enter")) {
					ok = true
					return false
				}
				bad = true
			}
		case *ast.CallExpr:
			bad = true
		}
		return true
	})
	return ok && !bad
}

func containsFold(s, sub string) bool {
	return len(sub) == 0 || indexFold(s, sub) >= 0
}

func indexFold(s, sub string) int {
	ls, lsub := []byte(s), []byte(sub)
	lower := func(b []byte) []byte {
		o := make([]byte, len(b))
		for i, c := range b {
			if c >= 'A' && c <= 'Z' {
				c += 'a' - 'A'
			}
			o[i] = c
		}
		return o
	}
	ls, lsub = lower(ls), lower(lsub)
	for i := 0; i+len(lsub) <= len(ls); i++ {
		if string(ls[i:i+len(lsub)]) == string(lsub) {
			return i
		}
	}
	return -1
}

// lookupOrCreate recognises a private helper `func (g) h(key NodeKey, …) (*Node, bool)`
// that looks key up in the node table, creates the node when it is missing, and
// reports through its bool result whether the node existed (existed=true) or was
// created (existed=false). keyIdx is the index of the key parameter.
func lookupOrCreate(w *World, g *graphRoles, cal *types.Func) (keyIdx int, existed bool, ok bool) {
	if cal == nil || cal.Exported() {
		return 0, false, false
	}
	t := w.Decls[cal]
	if t == nil || t.Pkg != w.Graph {
		return 0, false, false
	}
	sig := cal.Type().(*types.Signature)
	if sig.Results().Len() != 2 {
		return 0, false, false
	}
	if b, isB := sig.Results().At(1).Type().Underlying().(*types.Basic); !isB || b.Info()&types.IsBoolean == 0 {
		return 0, false, false
	}
	info := t.Pkg.TypesInfo
	var params []types.Object
	for _, f := range t.Decl.Type.Params.List {
		for _, nm := range f.Names {
			params = append(params, info.Defs[nm])
		}
	}
	var existsVar types.Object
	keyIdx = -1
	ast.Inspect(t.Decl.Body, func(x ast.Node) bool {
		if as, isAs := x.(*ast.AssignStmt); isAs && len(as.Lhs) == 2 && len(as.Rhs) == 1 {
			if ix, isIx := unparen(as.Rhs[0]).(*ast.IndexExpr); isIx && fieldOf(info, ix.X) == g.nodes {
				for i, p := range params {
					if objOf(info, ix.Index) == p {
						keyIdx, existsVar = i, objOf(info, as.Lhs[1])
					}
				}
			}
		}
		return true
	})
	if keyIdx < 0 || existsVar == nil {
		return 0, false, false
	}
	// every return hands back exists or !exists
	pol, n := 0, 0
	consistent := true
	ast.Inspect(t.Decl.Body, func(x ast.Node) bool {
		if _, isLit := x.(*ast.FuncLit); isLit {
			return false
		}
		ret, isR := x.(*ast.ReturnStmt)
		if !isR {
			return true
		}
		n++
		if len(ret.Results) != 2 {
			consistent = false
			return true
		}
		e := unparen(ret.Results[1])
		p := 1
		if u, isU := e.(*ast.UnaryExpr); isU && u.Op == token.NOT {
			e, p = unparen(u.X), -1
		}
		if objOf(info, e) != existsVar || (pol != 0 && pol != p) {
			consistent = false
		}
		pol = p
		return true
	})
	if !consistent || n == 0 {
		return 0, false, false
	}
	return keyIdx, pol == 1, true
}

// controllingConds: the branch conditions that have a fixed outcome on every
// path from the beginning of body to the node containing pos (the conditions the
// node is control dependent on within body), with the outcome required.
func controllingConds(w *World, fi *FuncInfo, body *ast.BlockStmt, pos token.Pos) ([]ast.Expr, []bool) {
	return controllingCondsInfo(fi.Pkg.TypesInfo, body, pos)
}

func controllingCondsInfo(info *types.Info, body *ast.BlockStmt, pos token.Pos) ([]ast.Expr, []bool) {
	fl := newFlowInfo(info, body)
	byPos := map[string]ast.Expr{}
	sol := fl.Solve(Spec{Must: true, Edge: func(b *cfg.Block, i int, cond ast.Expr, in Facts) (gen, kill []string) {
		if cond == nil {
			return
		}
		k := fmt.Sprintf("c:%d:%d", cond.Pos(), i)
		byPos[k] = cond
		return []string{k}, nil
	}})
	nd := fl.NodeContaining(pos)
	if nd == nil {
		return nil, nil
	}
	var conds []ast.Expr
	var want []bool
	for _, k := range sol.Before[nd].Keys() {
		if c, ok := byPos[k]; ok {
			conds = append(conds, c)
			want = append(want, k[len(k)-1] == '0')
		}
	}
	return conds, want
}

// nodeLookup: a bool variable bound to a lookup of key in the node table.
type nodeLookup struct {
	key     string
	existed bool // the variable is true when the node existed before (false: true when it was created)
}

func existsOf2(m map[types.Object]nodeLookup) map[types.Object]nodeLookup { return m }

// rollbackThroughRecord handles a rollback that a private helper performs from a
// record (a local of a package struct type) the adder filled in: flag fields
// initialised from a lookup's result, key fields holding the looked-up key, list
// fields that only receive keys of nodes this call created.
func rollbackThroughRecord(w *World, r *Report, rule string, g *graphRoles, fi *FuncInfo, fl *Flow, sol *Sol, existsOf map[types.Object]nodeLookup) (nDel int, restored bool) {
	info := fi.Pkg.TypesInfo
	type flag struct {
		key         string
		newWhenTrue bool
	}
	flags := map[*types.Var]flag{}
	keyFields := map[*types.Var]string{}
	var recObj types.Object
	var recStruct *types.Struct
	fieldVar := func(st *types.Struct, name string) *types.Var {
		for i := 0; i < st.NumFields(); i++ {
			if st.Field(i).Name() == name {
				return st.Field(i)
			}
		}
		return nil
	}
	lookupKeys := map[string]bool{}
	for _, lk := range existsOf {
		lookupKeys[lk.key] = true
	}
	ast.Inspect(fi.Decl.Body, func(x ast.Node) bool {
		as, ok := x.(*ast.AssignStmt)
		if !ok || len(as.Lhs) != 1 || len(as.Rhs) != 1 {
			return true
		}
		cl := litOf(as.Rhs[0])
		if cl == nil {
			return true
		}
		tv, ok := info.Types[cl]
		if !ok {
			return true
		}
		n := namedOf(tv.Type)
		st, isSt := tv.Type.Underlying().(*types.Struct)
		if n == nil || !isSt || n.Obj().Pkg() != fi.Pkg.Types || keyTypeName(tv.Type) != "" || n.Obj().Name() == "Node" {
			return true
		}
		recObj, recStruct = objOf(info, as.Lhs[0]), st
		for name, v := range compositeFields(cl) {
			fv := fieldVar(st, name)
			if fv == nil {
				continue
			}
			e, neg := unparen(v), false
			if u, isU := e.(*ast.UnaryExpr); isU && u.Op == token.NOT {
				e, neg = unparen(u.X), true
			}
			if lk, ok := existsOf[objOf(info, e)]; ok {
				flags[fv] = flag{lk.key, neg == lk.existed}
			}
			if lookupKeys[exprStr(v)] {
				keyFields[fv] = exprStr(v)
			}
		}
		return true
	})
	if recObj == nil {
		return 0, false
	}
	// list fields: rec.L = append(rec.L, K) only under new:K
	lists, badLists := map[*types.Var]bool{}, map[*types.Var]bool{}
	for _, n := range fl.Nodes() {
		as, ok := n.(*ast.AssignStmt)
		if !ok || len(as.Lhs) != 1 || len(as.Rhs) != 1 {
			continue
		}
		fv := fieldOf(info, as.Lhs[0])
		if fv == nil || objOf(info, selBase(as.Lhs[0])) != recObj {
			continue
		}
		c, ok := unparen(as.Rhs[0]).(*ast.CallExpr)
		if !ok || exprStr(c.Fun) != "append" || len(c.Args) != 2 || fieldOf(info, c.Args[0]) != fv {
			continue
		}
		if sol.Before[n].Has("new:" + exprStr(c.Args[1])) {
			lists[fv] = true
		} else {
			badLists[fv] = true
		}
	}
	for fv := range badLists {
		delete(lists, fv)
	}
	// the helper call on the rejection path
	var helper *FuncInfo
	var uParam types.Object
	for _, n := range fl.Nodes() {
		if !sol.Before[n].Has("rejected") {
			continue
		}
		for _, c := range callsIn(n, false) {
			cal := callee(info, c)
			if cal == nil || cal.Exported() || w.Decls[cal] == nil {
				continue
			}
			t := w.Decls[cal]
			k := 0
			for _, f := range t.Decl.Type.Params.List {
				for _, nm := range f.Names {
					if k < len(c.Args) {
						a := unparen(c.Args[k])
						if ue, isU := a.(*ast.UnaryExpr); isU && ue.Op == token.AND {
							a = unparen(ue.X)
						}
						if objOf(info, a) == recObj {
							helper, uParam = t, t.Pkg.TypesInfo.Defs[nm]
						}
					}
					k++
				}
			}
		}
	}
	if helper == nil {
		return 0, false
	}
	r.Analysed(helper)
	_ = recStruct
	hinfo := helper.Pkg.TypesInfo
	ofRec := func(e ast.Expr) *types.Var { // u.F
		if fv := fieldOf(hinfo, e); fv != nil && objOf(hinfo, selBase(e)) == uParam {
			return fv
		}
		return nil
	}
	hfl := w.FlowOf(helper)
	hsol := hfl.Solve(Spec{Must: true, Edge: func(b *cfg.Block, i int, cond ast.Expr, in Facts) (gen, kill []string) {
		if cond == nil {
			return
		}
		c, neg := unparen(cond), false
		if u, ok := c.(*ast.UnaryExpr); ok && u.Op == token.NOT {
			c, neg = unparen(u.X), true
		}
		if fv := ofRec(c); fv != nil {
			if fl2, ok := flags[fv]; ok {
				isNew := ((i == 0) != neg) == fl2.newWhenTrue
				if isNew {
					gen = append(gen, "new:"+fl2.key)
				} else {
					gen = append(gen, "existed:"+fl2.key)
				}
			}
		}
		return
	}})
	for _, n := range hfl.Nodes() {
		for _, c := range callsIn(n, false) {
			id, ok := unparen(c.Fun).(*ast.Ident)
			if !ok || id.Name != "delete" || len(c.Args) != 2 || fieldOf(hinfo, c.Args[0]) != g.nodes {
				continue
			}
			nDel++
			keyE := c.Args[1]
			con := fmt.Sprintf("%s#rollback-delete:%s", fi.Name(), exprStr(keyE))
			good, how := false, ""
			if kf := ofRec(resolveLocal(hinfo, helper.Decl.Body, keyE, 2)); kf != nil { // u.key, or nodeKey := u.key
				if k, ok := keyFields[kf]; ok && hsol.Before[n].Has("new:"+k) {
					good, how = true, "under the record's flag that says this call created the node"
				}
			}
			for _, il := range iterLoopsIn(hinfo, helper.Decl.Body) {
				if il.Elem != nil && objOf(hinfo, keyE) == il.Elem && isInside(c, il.Body) {
					if lf := ofRec(il.Coll); lf != nil && lists[lf] {
						good, how = true, "while ranging over "+exprStr(il.Coll)+", a list of the record that only receives keys of nodes this call created"
					}
				}
			}
			r.Check(good, rule, con, c.Pos(), true, "the rejected add deletes node "+exprStr(keyE)+" "+how,
				"on the rejection path delete(g.nodes, "+exprStr(keyE)+") is not restricted to nodes created by this call: a node that existed before (a placeholder other providers depend on, or the provider being replaced) is removed, so the graph is not left as it was")
		}
		if as, ok := n.(*ast.AssignStmt); ok && len(as.Lhs) == 1 {
			if fv := fieldOf(hinfo, as.Lhs[0]); fv != nil && fv.Name() == "Provider" {
				for k := range hsol.Before[n] {
					if strings.HasPrefix(k, "existed:") {
						restored = true
					}
				}
			}
		}
	}
	return nDel, restored
}
