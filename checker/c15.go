package main

import (
	"fmt"
	"go/ast"
	"go/token"
	"go/types"
	"sort"
	"strings"

	"golang.org/x/tools/go/cfg"
	"golang.org/x/tools/go/packages"
)

func rootPkgs(w *World) []*packages.Package { return []*packages.Package{w.Godi, w.Graph, w.Refl} }

// ruleErrChainUnwrap: R-ERRCHAIN (i). Every error struct of the repository with
// a field of type error has Unwrap() error returning that field.
func ruleErrChainUnwrap(w *World, r *Report, rule string) {
	for _, p := range rootPkgs(w) {
		sc := p.Types.Scope()
		names := sc.Names()
		sort.Strings(names)
		for _, name := range names {
			tn, ok := sc.Lookup(name).(*types.TypeName)
			if !ok || tn.IsAlias() {
				continue
			}
			st, ok := tn.Type().Underlying().(*types.Struct)
			if !ok || !implementsError(tn.Type()) {
				continue
			}
			var causeFields []*types.Var
			for i := 0; i < st.NumFields(); i++ {
				if isErrorType(st.Field(i).Type()) {
					causeFields = append(causeFields, st.Field(i))
				}
			}
			if len(causeFields) == 0 {
				continue
			}
			con := p.Types.Name() + "." + name + "#Unwrap"
			// find Unwrap method
			var unwrap *FuncInfo
			for _, fi := range w.FuncsOf(p) {
				if fi.Obj.Name() == "Unwrap" && recvNamed(fi.Obj) != nil && recvNamed(fi.Obj).Obj() == tn {
					unwrap = fi
				}
			}
			if unwrap == nil {
				r.Fail(rule, con, tn.Pos(), "error type %s carries its cause in field %s but has no Unwrap() error: errors.Is/As cannot see through it", name, causeFields[0].Name())
				continue
			}
			// a list of causes beside the cause ([]error): Unwrap must expose it as well
			var listFields []*types.Var
			for i := 0; i < st.NumFields(); i++ {
				if sl, isSl := st.Field(i).Type().Underlying().(*types.Slice); isSl && isErrorType(sl.Elem()) {
					listFields = append(listFields, st.Field(i))
				}
			}
			usig := unwrap.Obj.Type().(*types.Signature)
			returnsList := false
			if usig.Results().Len() == 1 {
				if sl, isSl := usig.Results().At(0).Type().Underlying().(*types.Slice); isSl && isErrorType(sl.Elem()) {
					returnsList = true
				}
			}
			if len(listFields) > 0 || returnsList {
				mentioned := map[*types.Var]bool{}
				uinfo := unwrap.Pkg.TypesInfo
				ast.Inspect(unwrap.Decl.Body, func(n ast.Node) bool {
					if sel, ok := n.(*ast.SelectorExpr); ok {
						if fv := fieldOf(uinfo, sel); fv != nil {
							mentioned[fv] = true
						}
					}
					return true
				})
				bad := ""
				if !returnsList && len(listFields) > 0 {
					bad = fmt.Sprintf("error type %s carries a list of causes in field %s, but its Unwrap returns a single error: errors.Is/As see %s only - every other collected failure ('not found' beside a lifetime conflict) cannot be classified", name, listFields[0].Name(), causeFields[0].Name())
				}
				for _, lf := range listFields {
					if returnsList && !mentioned[lf] {
						bad = fmt.Sprintf("Unwrap of %s never hands out the list field %s", name, lf.Name())
					}
				}
				if returnsList && len(listFields) == 0 && !mentioned[causeFields[0]] {
					bad = fmt.Sprintf("Unwrap of %s never hands out the %s field", name, causeFields[0].Name())
				}
				r.Check(bad == "", rule, con, unwrap.Decl.Pos(), false, "Unwrap exposes the cause list", bad)
				continue
			}
			// every return returns the cause field
			okAll := true
			info := unwrap.Pkg.TypesInfo
			ast.Inspect(unwrap.Decl.Body, func(n ast.Node) bool {
				if ret, ok := n.(*ast.ReturnStmt); ok {
					if len(ret.Results) != 1 || fieldOf(info, ret.Results[0]) != causeFields[0] {
						okAll = false
					}
				}
				return true
			})
			r.Check(okAll, rule, con, unwrap.Decl.Pos(), false,
				"Unwrap returns the "+causeFields[0].Name()+" field", "Unwrap of "+name+" does not return the "+causeFields[0].Name()+" field on every path")
		}
	}
}

// formatVerbs returns the verbs of a format string in order, with their argument index.
func formatVerbs(format string) []byte {
	var verbs []byte
	for i := 0; i < len(format); i++ {
		if format[i] != '%' {
			continue
		}
		i++
		for i < len(format) && strings.IndexByte("+-# 0123456789.*[]", format[i]) >= 0 {
			i++
		}
		if i < len(format) {
			if format[i] == '%' {
				continue
			}
			verbs = append(verbs, format[i])
		}
	}
	return verbs
}

// ruleErrorfWraps: R-ERRCHAIN (ii). Every fmt.Errorf with an argument of type
// error formats it with %w.
func ruleErrorfWraps(w *World, r *Report, rule string) {
	seq := map[string]int{}
	for _, fi := range w.AllFuncs() {
		info := fi.Pkg.TypesInfo
		for _, c := range callsIn(fi.Decl.Body, true) {
			cal := callee(info, c)
			if !isFunc(cal, "fmt", "", "Errorf") || len(c.Args) < 2 {
				continue
			}
			format, ok := constString(info, c.Args[0])
			if !ok {
				continue
			}
			verbs := formatVerbs(format)
			for i, a := range c.Args[1:] {
				tv, ok := info.Types[a]
				if !ok || !(isErrorType(tv.Type) || (implementsError(tv.Type) && !isStringer(tv.Type))) {
					continue
				}
				key := fi.Pkg.Types.Name() + "." + fi.Name() + "#Errorf(" + firstWords(format) + ")"
				seq[key]++
				con := fmt.Sprintf("%s/%d", key, seq[key])
				if i < len(verbs) && verbs[i] == 'w' {
					r.OK(rule, con, c.Pos(), false, "error argument %s is wrapped with %%w", exprStr(a))
				} else {
					v := "?"
					if i < len(verbs) {
						v = "%" + string(verbs[i])
					}
					r.Fail(rule, con, c.Pos(), "fmt.Errorf(%q, ...) renders the error %s with %s instead of %%w: the cause is flattened to text and errors.Is/As no longer reach it", format, exprStr(a), v)
				}
			}
		}
	}
}

func isStringer(t types.Type) bool { return false }

func firstWords(s string) string {
	f := strings.Fields(s)
	if len(f) > 3 {
		f = f[:3]
	}
	return strings.Join(f, "_")
}

// ruleSentinelUse: R-ERRCHAIN (iii). Sentinel Err* variables are used as values
// (returned, stored in an error-typed field, passed, compared, %w) and never
// rendered into the text of another error.
func ruleSentinelUse(w *World, r *Report, rule string) {
	sentinels := map[types.Object]bool{}
	sc := w.Godi.Types.Scope()
	for _, n := range sc.Names() {
		if v, ok := sc.Lookup(n).(*types.Var); ok && strings.HasPrefix(n, "Err") && isErrorType(v.Type()) {
			sentinels[v] = true
		}
	}
	seq := map[string]int{}
	for _, fi := range w.AllFuncs() {
		info := fi.Pkg.TypesInfo
		var stack []ast.Node
		ast.Inspect(fi.Decl, func(n ast.Node) bool {
			if n == nil {
				stack = stack[:len(stack)-1]
				return true
			}
			stack = append(stack, n)
			var o types.Object
			switch x := n.(type) {
			case *ast.Ident:
				o = info.Uses[x]
			default:
				return true
			}
			if o == nil || !isSentinelObj(o, sentinels) {
				return true
			}
			// skip the Sel ident of pkg.ErrX being visited separately: handled through parent
			var parent ast.Node
			for i := len(stack) - 2; i >= 0; i-- {
				if _, isSel := stack[i].(*ast.SelectorExpr); isSel {
					continue
				}
				if _, isP := stack[i].(*ast.ParenExpr); isP {
					continue
				}
				parent = stack[i]
				break
			}
			key := fi.Pkg.Types.Name() + "." + fi.Name() + "#" + o.Name()
			seq[key]++
			con := fmt.Sprintf("%s/%d", key, seq[key])
			bad := ""
			switch p := parent.(type) {
			case *ast.CallExpr:
				cal := callee(info, p)
				if cal != nil && cal.Pkg() != nil && cal.Pkg().Path() == "fmt" {
					if format, ok := constString(info, p.Args[0]); ok && cal.Name() == "Errorf" {
						verbs := formatVerbs(format)
						for i, a := range p.Args[1:] {
							if usesObj(info, a, o) && !(i < len(verbs) && verbs[i] == 'w') {
								bad = "rendered into the text of another error with fmt." + cal.Name()
							}
						}
					} else {
						bad = "rendered to text with fmt." + cal.Name()
					}
				}
				if sel, ok := unparen(p.Fun).(*ast.SelectorExpr); ok && sel.Sel.Name == "Error" && usesObj(info, sel.X, o) {
					bad = "rendered to text with .Error()"
				}
				if cal != nil && isFunc(cal, "errors", "", "New") {
					bad = "used to build a new, unrelated error"
				}
			case *ast.SelectorExpr:
				if p.Sel.Name == "Error" {
					bad = "rendered to text with .Error()"
				}
			}
			// inside the Error() string method of an error type whose Unwrap hands the same sentinel
			// out, the text is only the message: the chain is kept by Unwrap
			if bad != "" && strings.HasPrefix(bad, "rendered to text") && errorMethodWithUnwrapOf(w, fi, o) {
				bad = ""
			}
			if bad != "" {
				r.Fail(rule, con, n.Pos(), "sentinel %s is %s: callers can no longer match it with errors.Is", o.Name(), bad)
			} else {
				r.OK(rule, con, n.Pos(), false, "sentinel used as a value")
			}
			return true
		})
	}
}

func isSentinelObj(o types.Object, sentinels map[types.Object]bool) bool {
	if sentinels[o] {
		return true
	}
	// the copy of package godi seen from an integration module
	v, ok := o.(*types.Var)
	return ok && v.Pkg() != nil && v.Pkg().Path() == modPath && strings.HasPrefix(v.Name(), "Err") && isErrorType(v.Type()) && v.Parent() == v.Pkg().Scope()
}

// ruleRecover: R15.1. The user-constructor call site runs under a deferred
// recover that converts the panic into PanicError{Panic: r}; createInstance
// maps it to ConstructorPanicError carrying the same value.
func ruleRecover(w *World, r *Report, rule string) {
	ro := resolveRoles(w)
	n := 0
	for _, fi := range w.FuncsOf(w.Refl) {
		info := fi.Pkg.TypesInfo
		for _, c := range callsIn(fi.Decl.Body, true) {
			cal := callee(info, c)
			if !isFunc(cal, "reflect", "Value", "Call") && !isFunc(cal, "reflect", "Value", "CallSlice") {
				continue
			}
			n++
			con := fmt.Sprintf("%s#reflect-call/%d", fi.Name(), n)
			r.Analysed(fi)
			// a defer statement with a literal calling recover() and assigning &PanicError{Panic: r} to a named result, dominating the call.
			// The unit analysed is the innermost function (declaration or literal) that contains the call.
			var body *ast.BlockStmt = fi.Decl.Body
			ast.Inspect(fi.Decl.Body, func(x ast.Node) bool {
				if lit, ok := x.(*ast.FuncLit); ok && lit.Body.Pos() <= c.Pos() && c.End() <= lit.Body.End() {
					body = lit.Body
				}
				return true
			})
			fl := NewFlow(w, fi.Pkg, body, fi.Name())
			var deferNode *ast.DeferStmt
			good := false
			for _, nd := range fl.Nodes() {
				d, ok := nd.(*ast.DeferStmt)
				if !ok {
					continue
				}
				lit, ok := unparen(d.Call.Fun).(*ast.FuncLit)
				if !ok {
					continue
				}
				var recObj types.Object
				ast.Inspect(lit.Body, func(x ast.Node) bool {
					if as, ok := x.(*ast.AssignStmt); ok && len(as.Rhs) == 1 {
						if cc, ok := unparen(as.Rhs[0]).(*ast.CallExpr); ok {
							if id, ok := unparen(cc.Fun).(*ast.Ident); ok && id.Name == "recover" {
								recObj = objOf(info, as.Lhs[0])
							}
						}
					}
					return true
				})
				if recObj == nil {
					continue
				}
				ast.Inspect(lit.Body, func(x ast.Node) bool {
					if as, ok := x.(*ast.AssignStmt); ok && len(as.Lhs) == 1 && len(as.Rhs) == 1 {
						if l := litOf(as.Rhs[0]); l != nil {
							if tv, ok := info.Types[l]; ok && isNamedType(tv.Type, modPath+"/internal/reflection", "PanicError") {
								if v, ok := compositeFields(l)["Panic"]; ok && objOf(info, v) == recObj {
									// assigned to a named result of error type
									if o := objOf(info, as.Lhs[0]); o != nil && isErrorType(o.Type()) {
										good = true
										deferNode = d
									}
								}
							}
						}
					}
					return true
				})
			}
			if !good {
				r.Fail(rule, con, c.Pos(), "the call into the user's constructor is not protected by a deferred recover() that turns the panic value into PanicError{Panic: r} returned as the error result")
				continue
			}
			sol := fl.Solve(Spec{Must: true, Node: func(nd ast.Node, in Facts) (gen, kill []string) {
				if nd == ast.Node(deferNode) {
					gen = append(gen, "recovering")
				}
				return
			}})
			callNode := fl.NodeContaining(c.Pos())
			r.Check(callNode != nil && sol.Before[callNode].Has("recovering"), rule, con, c.Pos(), true,
				"the deferred recover is installed on every path before the constructor is called and reports PanicError{Panic: r}",
				"the deferred recover is not installed on every path that reaches the constructor call")
		}
	}
	if n == 0 {
		r.Fail(rule, "reflection#reflect-call", token.NoPos, "no reflect.Value.Call site found in internal/reflection")
	}
	// createInstance maps PanicError to ConstructorPanicError{Panic: panicErr.Panic}
	fi := ro.createInstance
	info := fi.Pkg.TypesInfo
	mapped := false
	chain := &ast.BlockStmt{}
	for _, g := range w.Within(fi, 2) {
		if g == fi || (g != ro.setInstance && g != ro.setSingleton && g != ro.resolve && g != ro.resolveTop) {
			chain.List = append(chain.List, g.Decl.Body)
		}
	}
	ast.Inspect(chain, func(x ast.Node) bool {
		if l, ok := x.(*ast.CompositeLit); ok {
			if tv, ok := info.Types[l]; ok && isNamedType(tv.Type, modPath, "ConstructorPanicError") {
				if v, ok := compositeFields(l)["Panic"]; ok {
					if fv := fieldOf(info, v); fv != nil && fv.Name() == "Panic" {
						mapped = true
					}
				}
			}
		}
		return true
	})
	r.Check(mapped, rule, fi.Name()+"#ConstructorPanicError", fi.Decl.Pos(), false,
		"createInstance reports a recovered panic as ConstructorPanicError carrying the recovered value",
		"createInstance does not build a ConstructorPanicError whose Panic field is the recovered value")
	// the invocation error that is not a panic keeps its cause
	wraps := false
	ast.Inspect(chain, func(x ast.Node) bool {
		if l, ok := x.(*ast.CompositeLit); ok {
			if tv, ok := info.Types[l]; ok && isNamedType(tv.Type, modPath, "ConstructorInvocationError") {
				if v, ok := compositeFields(l)["Cause"]; ok {
					if o := objOf(info, v); o != nil && isErrorType(o.Type()) {
						wraps = true
					}
				}
			}
		}
		return true
	})
	r.Check(wraps, rule, fi.Name()+"#ConstructorInvocationError", fi.Decl.Pos(), false,
		"a constructor's own error is kept as Cause of ConstructorInvocationError",
		"createInstance does not keep the invocation error as Cause of ConstructorInvocationError")
}

// rulePanics: R15.6. Explicit panic calls only in the Must* helpers; no
// single-value type assertions in production code.
func rulePanics(w *World, r *Report, rule string) {
	nPanic := 0
	for _, fi := range w.AllFuncs() {
		info := fi.Pkg.TypesInfo
		ast.Inspect(fi.Decl.Body, func(x ast.Node) bool {
			switch n := x.(type) {
			case *ast.CallExpr:
				if isPanicCall(info, n) {
					nPanic++
					con := fmt.Sprintf("%s.%s#panic", fi.Pkg.Types.Name(), fi.Name())
					if strings.HasPrefix(fi.Obj.Name(), "Must") && fi.Decl.Recv == nil {
						r.OK(rule, con, n.Pos(), false, "Must* helper panics by contract")
					} else {
						r.Fail(rule, con, n.Pos(), "explicit panic in %s: only the Must* helpers may panic", fi.Name())
					}
				}
			}
			return true
		})
		// single-value type assertions
		var stack []ast.Node
		k := 0
		ast.Inspect(fi.Decl.Body, func(x ast.Node) bool {
			if x == nil {
				stack = stack[:len(stack)-1]
				return true
			}
			stack = append(stack, x)
			ta, ok := x.(*ast.TypeAssertExpr)
			if !ok || ta.Type == nil {
				return true
			}
			commaOk := false
			if len(stack) >= 2 {
				switch p := stack[len(stack)-2].(type) {
				case *ast.AssignStmt:
					if len(p.Lhs) == 2 && len(p.Rhs) == 1 && unparen(p.Rhs[0]) == ta {
						commaOk = true
					}
				case *ast.ValueSpec:
					if len(p.Names) == 2 && len(p.Values) == 1 {
						commaOk = true
					}
				}
			}
			k++
			con := fmt.Sprintf("%s.%s#type-assert/%d", fi.Pkg.Types.Name(), fi.Name(), k)
			if commaOk {
				r.OK(rule, con, ta.Pos(), false, "comma-ok type assertion")
			} else {
				r.Fail(rule, con, ta.Pos(), "single-value type assertion %s panics when the dynamic type differs", exprStr(ta))
			}
			return true
		})
	}
	if nPanic < 3 {
		r.Fail(rule, "Must*#panic", token.NoPos, "expected the three Must* helpers to panic on error, found %d panic calls", nPanic)
	}
}

// ruleResolveWritesNothing: R15.5b. resolve itself stores nothing in the scope
// or provider: all caching goes through setInstance, which createInstance
// reaches only after the constructor succeeded. (A failed resolution leaves no
// trace that a retry could observe.)
func ruleResolveWritesNothing(w *World, r *Report, rule string) {
	ro := resolveRoles(w)
	fi := ro.resolve
	r.Analysed(fi)
	storing := storingFuncs(w, ro)
	stop := func(h *FuncInfo) bool { return ro.isCreate(h.Obj) || storing[h.Obj] }
	// what a node records in / retires from the scope's or provider's state
	effects := func(info *types.Info, n ast.Node, deferred bool) (ins, del []string) {
		inspectNoLit(n, func(x ast.Node) bool {
			switch s := x.(type) {
			case *ast.AssignStmt:
				for _, l := range s.Lhs {
					target := unparen(l)
					if ix, ok := target.(*ast.IndexExpr); ok {
						target = unparen(ix.X)
					}
					if fv := fieldOf(info, target); fv != nil {
						if o := ownerOfField(w, fv); o == "scope" || o == "provider" {
							ins = append(ins, w.canonField(fv))
						}
					}
				}
			case *ast.CallExpr:
				if id, ok := unparen(s.Fun).(*ast.Ident); ok && id.Name == "delete" && len(s.Args) == 2 {
					if fv := fieldOf(info, s.Args[0]); fv != nil {
						del = append(del, w.canonField(fv))
					}
				}
				if cal := callee(info, s); cal != nil {
					if rcv, _, ok := methodCall(s); ok {
						if fv := fieldOf(info, rcv); fv != nil && isSyncType(fv.Type()) {
							if o := ownerOfField(w, fv); o == "scope" || o == "provider" {
								if cal.Name() == "Add" && isPureCounter(w, fv) {
									return true
								}
								switch cal.Name() {
								case "Store", "LoadOrStore", "Swap", "CompareAndSwap", "Do", "Add":
									ins = append(ins, w.canonField(fv))
								case "Delete", "LoadAndDelete", "CompareAndDelete":
									del = append(del, w.canonField(fv))
								}
							}
						}
					}
				}
			}
			return true
		})
		return
	}
	info := fi.Pkg.TypesInfo // helpers are in the same package: one types.Info
	may := Spec{Must: false, Global: globalPrefixes("ins:"), Stop: stop,
		Node: func(n ast.Node, in Facts) (gen, kill []string) {
			if d, ok := n.(*ast.DeferStmt); ok {
				// a deferred retire runs when this function returns, whatever happens next:
				// what was recorded before (by a caller) is retired before control gets back
				var body ast.Node = d.Call
				if lit, ok := unparen(d.Call.Fun).(*ast.FuncLit); ok {
					body = lit.Body
				}
				_, del := effects(info, body, true)
				for _, f := range del {
					kill = append(kill, "ins:"+f)
				}
				return
			}
			ins, del := effects(info, n, false)
			for _, f := range ins {
				gen = append(gen, "ins:"+f)
			}
			for _, f := range del {
				kill = append(kill, "ins:"+f)
			}
			return
		}}
	must := Spec{Must: true, Global: globalPrefixes("ddel:"), Stop: stop,
		Node: func(n ast.Node, in Facts) (gen, kill []string) {
			if d, ok := n.(*ast.DeferStmt); ok {
				var body ast.Node = d.Call
				if lit, ok := unparen(d.Call.Fun).(*ast.FuncLit); ok {
					body = lit.Body
				}
				_, del := effects(info, body, true)
				for _, f := range del {
					gen = append(gen, "ddel:"+f)
				}
			}
			return
		}}
	fl := w.FlowOf(fi)
	ms, ds := fl.Solve(may), fl.Solve(must)
	n := 0
	for _, ex := range fl.Exits() {
		if ex.Ret == nil || len(ex.Ret.Results) == 0 {
			continue
		}
		last := ex.Ret.Results[len(ex.Ret.Results)-1]
		if isNilIdent(info, last) {
			continue // a success exit
		}
		at, dat := ms.AtExit(ex), ds.AtExit(ex)
		for _, k := range at.Keys() {
			if !strings.HasPrefix(k, "ins:") {
				continue
			}
			f := strings.TrimPrefix(k, "ins:")
			if dat.Has("ddel:" + f) {
				continue
			}
			n++
			r.Fail(rule, fmt.Sprintf("%s#trace-on-failure:%s", fi.Name(), f), ex.Pos,
				"resolve can return an error after recording state in %s (in resolve or one of its helpers) that is not retired on this path: the failed construction is remembered, and a retry in the same scope does not behave like a first attempt", f)
		}
	}
	if n == 0 {
		r.OK(rule, fi.Name()+"#no-trace-on-failure", fi.Decl.Pos(), true, "no error exit of resolve is reachable with scope or provider state recorded by resolve or its helpers and not retired; caching happens only in setInstance after a successful construction")
	}
}

// ruleCommitAfterValidate: R15.5. In createInstance no setInstance is followed
// by an error return, except the return of setInstance's own error.
func ruleCommitAfterValidate(w *World, r *Report, rule string) {
	ro := resolveRoles(w)
	fi := ro.createInstance
	info := fi.Pkg.TypesInfo
	fl := w.FlowOf(fi)
	// objects holding setInstance's own error
	own := map[types.Object]bool{}
	ast.Inspect(fi.Decl.Body, func(x ast.Node) bool {
		if as, ok := x.(*ast.AssignStmt); ok && len(as.Rhs) == 1 {
			if c, ok := unparen(as.Rhs[0]).(*ast.CallExpr); ok && callee(info, c) != nil && storingFuncs(w, ro)[callee(info, c)] {
				for _, l := range as.Lhs {
					if o := objOf(info, l); o != nil {
						own[o] = true
					}
				}
			}
		}
		return true
	})
	// variables that only ever receive setInstance's error (trackErr = err)
	for changed := true; changed; {
		changed = false
		ast.Inspect(fi.Decl.Body, func(x ast.Node) bool {
			if as, ok := x.(*ast.AssignStmt); ok && len(as.Lhs) == 1 && len(as.Rhs) == 1 {
				if src := objOf(info, as.Rhs[0]); src != nil && own[src] {
					if dst := objOf(info, as.Lhs[0]); dst != nil && !own[dst] {
						own[dst] = true
						changed = true
					}
				}
			}
			return true
		})
	}
	storing := storingFuncs(w, ro)
	may := fl.Solve(Spec{Must: false, Node: func(n ast.Node, in Facts) (gen, kill []string) {
		for _, c := range callsIn(n, false) {
			if cal := callee(info, c); cal != nil && storing[cal] {
				gen = append(gen, "committed")
			}
		}
		return
	}})
	n := 0
	for _, ex := range fl.Exits() {
		if ex.Ret == nil || len(ex.Ret.Results) != 2 || isNilIdent(info, ex.Ret.Results[1]) {
			continue
		}
		if !may.AtExit(ex).Has("committed") {
			continue
		}
		n++
		errExpr := unparen(ex.Ret.Results[1])
		what := exprStr(errExpr)
		if l := litOf(errExpr); l != nil {
			what = exprStr(l.Type)
		}
		con := fmt.Sprintf("%s#error-after-commit:%s/%d", fi.Name(), what, n)
		if o := objOf(info, errExpr); o != nil && own[o] {
			r.OK(rule, con, ex.Pos, true, "the only error returned after a setInstance is setInstance's own (the scope was closed meanwhile; its cache is being discarded)")
		} else {
			r.Fail(rule, con, ex.Pos, "createInstance can return the error %s after some outputs were already committed with setInstance: a failed resolution leaves cached partial state", what)
		}
	}
	if n == 0 {
		r.OK(rule, fi.Name()+"#error-after-commit/0", fi.Decl.Pos(), true, "no error exit is reachable after a setInstance")
	}
}

// ruleNilArgs: R15.8. The exported entry points validate nil arguments before use.
func ruleNilArgs(w *World, r *Report, rule string) {
	type want struct {
		fn, param, sentinel string
	}
	wants := []want{
		{"(*scope).Get", "serviceType", "ErrServiceTypeNil"}, {"(*scope).GetKeyed", "serviceType", "ErrServiceTypeNil"},
		{"(*scope).GetKeyed", "serviceKey", "ErrServiceKeyNil"}, {"(*scope).GetGroup", "serviceType", "ErrServiceTypeNil"},
		{"(*provider).Get", "serviceType", "ErrServiceTypeNil"}, {"(*provider).GetKeyed", "serviceType", "ErrServiceTypeNil"},
		{"(*provider).GetKeyed", "key", "ErrServiceKeyNil"}, {"(*provider).GetGroup", "serviceType", "ErrServiceTypeNil"},
		{"Resolve", "provider", "ErrProviderNil"}, {"ResolveKeyed", "provider", "ErrProviderNil"},
		{"ResolveKeyed", "key", "ErrServiceKeyNil"}, {"ResolveGroup", "provider", "ErrProviderNil"},
	}
	for _, wt := range wants {
		fi := w.Fn(w.Godi, wt.fn)
		con := wt.fn + "#nil:" + wt.param
		if fi == nil {
			r.Undecided(rule, con, token.NoPos, "function %s not found", wt.fn)
			continue
		}
		info := fi.Pkg.TypesInfo
		// parameter by position of name (first param named so), tolerate renames: match by type/ordinal
		var pObj types.Object
		idx := 0
		for _, f := range fi.Decl.Type.Params.List {
			for _, nm := range f.Names {
				if nm.Name == wt.param {
					pObj = info.Defs[nm]
				}
				idx++
			}
		}
		if pObj == nil {
			// renamed parameter: fall back to position (type param first, key second)
			pos := 0
			if strings.Contains(strings.ToLower(wt.param), "key") {
				pos = 1
			}
			i := 0
			for _, f := range fi.Decl.Type.Params.List {
				for _, nm := range f.Names {
					if i == pos {
						pObj = info.Defs[nm]
					}
					i++
				}
			}
		}
		if pObj == nil {
			r.Undecided(rule, con, fi.Decl.Pos(), "parameter %s of %s not found", wt.param, wt.fn)
			continue
		}
		// the parameter and the parameters of private checking helpers it is handed to
		tracked := map[types.Object]bool{pObj: true}
		helperFns := map[*FuncInfo]bool{}
		argOfHelper := map[*ast.Ident]bool{}
		var follow func(f *FuncInfo, o types.Object, depth int)
		follow = func(f *FuncInfo, o types.Object, depth int) {
			if depth == 0 {
				return
			}
			for _, c := range callsIn(f.Decl.Body, true) {
				cal := callee(f.Pkg.TypesInfo, c)
				if cal == nil || cal.Exported() || w.Decls[cal] == nil || w.Decls[cal].Pkg != f.Pkg {
					continue
				}
				h := w.Decls[cal]
				var params []*ast.Ident
				for _, fl := range h.Decl.Type.Params.List {
					params = append(params, fl.Names...)
				}
				for k, a := range c.Args {
					id, ok := unparen(a).(*ast.Ident)
					if !ok || f.Pkg.TypesInfo.Uses[id] != o || k >= len(params) {
						continue
					}
					po := h.Pkg.TypesInfo.Defs[params[k]]
					if po == nil || !nilTestsParam(h, po) {
						continue
					}
					// a checking helper reports through an error result
					hs := h.Obj.Type().(*types.Signature)
					if hs.Results().Len() == 0 || !isErrorType(hs.Results().At(hs.Results().Len()-1).Type()) {
						continue
					}
					tracked[po] = true
					helperFns[h] = true
					argOfHelper[id] = true
					follow(h, po, depth-1)
				}
			}
		}
		follow(fi, pObj, 2)
		edge := func(finfo *types.Info) func(b *cfg.Block, i int, cond ast.Expr, in Facts) (gen, kill []string) {
			return func(b *cfg.Block, i int, cond ast.Expr, in Facts) (gen, kill []string) {
				be, ok := unparen(cond).(*ast.BinaryExpr)
				if cond == nil || !ok || (be.Op != token.EQL && be.Op != token.NEQ) {
					return
				}
				if (tracked[objOf(finfo, be.X)] && isNilIdent(finfo, be.Y)) || (tracked[objOf(finfo, be.Y)] && isNilIdent(finfo, be.X)) {
					if (be.Op == token.EQL) == (i == 0) {
						gen = append(gen, "isnil")
					} else {
						gen = append(gen, "nonnil")
					}
				}
				return
			}
		}
		fl := w.FlowOf(fi)
		sol := fl.Solve(Spec{Must: true, Global: globalPrefixes("nonnil", "isnil"),
			Stop: func(h *FuncInfo) bool { return !helperFns[h] }, Edge: edge(info)})
		bad := ""
		// every use of the parameter other than in the nil test happens with nonnil known
		for _, n := range fl.Nodes() {
			uses := false
			inspectNoLit(n, func(m ast.Node) bool {
				if id, ok := m.(*ast.Ident); ok && info.Uses[id] == pObj && !argOfHelper[id] {
					uses = true
				}
				return true
			})
			if !uses {
				continue
			}
			if e, ok := n.(ast.Expr); ok {
				if be, ok := unparen(e).(*ast.BinaryExpr); ok && (isNilIdent(info, be.X) || isNilIdent(info, be.Y)) {
					continue
				}
			}
			if !sol.Before[n].Has("nonnil") {
				bad = fmt.Sprintf("%s is used at %s before it has been checked against nil", pObj.Name(), w.Pos(n.Pos()))
				break
			}
		}
		checkExits := func(f *FuncInfo, fsol *Sol, ffl *Flow) {
			finfo := f.Pkg.TypesInfo
			for _, ex := range ffl.Exits() {
				if fsol.AtExit(ex).Has("isnil") && bad == "" {
					if ex.Ret == nil || len(ex.Ret.Results) == 0 {
						bad = "the nil edge does not return an error"
						continue
					}
					last := ex.Ret.Results[len(ex.Ret.Results)-1]
					if o := objOf(finfo, last); o == nil || o.Name() != wt.sentinel {
						bad = fmt.Sprintf("on the nil edge %s is returned, not %s", exprStr(last), wt.sentinel)
					}
				}
			}
		}
		checkExits(fi, sol, fl)
		for h := range helperFns {
			hfl := w.FlowOf(h)
			checkExits(h, hfl.Solve(Spec{Must: true, Edge: edge(h.Pkg.TypesInfo)}), hfl)
		}
		// the helper's verdict is propagated: an exit on the non-nil edge of its error returns that error
		r.Check(bad == "", rule, con, fi.Decl.Pos(), true, "nil "+wt.param+" is rejected with "+wt.sentinel+" before any use", wt.fn+": "+bad)
	}
}

// nilTestsParam: the function compares parameter po against nil.
func nilTestsParam(h *FuncInfo, po types.Object) bool {
	info := h.Pkg.TypesInfo
	found := false
	ast.Inspect(h.Decl.Body, func(n ast.Node) bool {
		if be, ok := n.(*ast.BinaryExpr); ok && (be.Op == token.EQL || be.Op == token.NEQ) {
			if (objOf(info, be.X) == po && isNilIdent(info, be.Y)) || (objOf(info, be.Y) == po && isNilIdent(info, be.X)) {
				found = true
			}
		}
		return !found
	})
	return found
}
