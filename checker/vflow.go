package main

import (
	"go/ast"
	"go/token"
	"go/types"
)

// vflow is a flow-insensitive, field-insensitive value-flow graph over the
// objects (variables, parameters, results) of a set of functions of one
// package: an edge a -> b means "the value of a can become part of the value of
// b" (assignment, append, wrapping call, composite literal, argument passing,
// return, range). It is used for rules of the form "every error obtained here
// reaches what is returned there", which must not depend on whether the code
// appends inline, through a helper, or through a method of an accumulator type.
type vflow struct {
	w      *World
	fns    map[*FuncInfo]bool
	edges  map[types.Object]map[types.Object]bool
	result map[*FuncInfo][]types.Object // result objects (named, or synthetic)
	srcs   []vsource
}

type vsource struct {
	obj  types.Object
	call *ast.CallExpr
	fn   *FuncInfo
	drop bool // the value is discarded where it is produced
}

func (v *vflow) edge(from, to types.Object) {
	if from == nil || to == nil || from == to {
		return
	}
	if v.edges[from] == nil {
		v.edges[from] = map[types.Object]bool{}
	}
	v.edges[from][to] = true
}

// reaches: to is reachable from from.
func (v *vflow) reaches(from, to types.Object) bool {
	seen := map[types.Object]bool{from: true}
	work := []types.Object{from}
	for len(work) > 0 {
		x := work[len(work)-1]
		work = work[:len(work)-1]
		if x == to {
			return true
		}
		for y := range v.edges[x] {
			if !seen[y] {
				seen[y] = true
				work = append(work, y)
			}
		}
	}
	return false
}

// objsIn: the variable objects an expression reads (identifiers; the base of
// selectors and index expressions).
func objsIn(info *types.Info, e ast.Expr) []types.Object {
	var out []types.Object
	if e == nil {
		return nil
	}
	ast.Inspect(e, func(n ast.Node) bool {
		switch x := n.(type) {
		case *ast.FuncLit:
			return false
		case *ast.Ident:
			if o, ok := info.Uses[x].(*types.Var); ok && !o.IsField() {
				out = append(out, o)
			}
		case *ast.SelectorExpr:
			// only the base of a field selection
			if fieldOf(info, x) != nil {
				out = append(out, objsIn(info, x.X)...)
				return false
			}
		}
		return true
	})
	return out
}

// baseObj: the variable an assignment target belongs to (x, x.f, x[i], *x).
func baseObj(info *types.Info, e ast.Expr) types.Object {
	for {
		switch x := unparen(e).(type) {
		case *ast.Ident:
			if o := info.Defs[x]; o != nil {
				return o
			}
			if o, ok := info.Uses[x].(*types.Var); ok {
				return o
			}
			return nil
		case *ast.SelectorExpr:
			e = x.X
		case *ast.IndexExpr:
			e = x.X
		case *ast.StarExpr:
			e = x.X
		default:
			return nil
		}
	}
}

// newVFlow builds the graph for the given functions; isSource marks the calls
// whose result is a value of interest (a source object is created per call).
func newVFlow(w *World, fns []*FuncInfo, isSource func(info *types.Info, c *ast.CallExpr) bool) *vflow {
	v := &vflow{w: w, fns: map[*FuncInfo]bool{}, edges: map[types.Object]map[types.Object]bool{}, result: map[*FuncInfo][]types.Object{}}
	for _, f := range fns {
		v.fns[f] = true
	}
	for _, f := range fns {
		info := f.Pkg.TypesInfo
		if f.Decl.Type.Results != nil {
			for _, fl := range f.Decl.Type.Results.List {
				if len(fl.Names) == 0 {
					v.result[f] = append(v.result[f], types.NewVar(token.NoPos, f.Pkg.Types, "result", info.TypeOf(fl.Type)))
				}
				for _, nm := range fl.Names {
					v.result[f] = append(v.result[f], info.Defs[nm])
				}
			}
		}
	}
	params := func(t *FuncInfo) (ps []types.Object, recv types.Object) {
		tinfo := t.Pkg.TypesInfo
		for _, fl := range t.Decl.Type.Params.List {
			for _, nm := range fl.Names {
				ps = append(ps, tinfo.Defs[nm])
			}
		}
		if t.Decl.Recv != nil && len(t.Decl.Recv.List[0].Names) == 1 {
			recv = tinfo.Defs[t.Decl.Recv.List[0].Names[0]]
		}
		return
	}
	for _, f := range fns {
		info := f.Pkg.TypesInfo
		// flowExpr: everything that flows out of e goes to the targets
		var flowExpr func(e ast.Expr, to []types.Object)
		flowCall := func(c *ast.CallExpr, to []types.Object) {
			cal := callee(info, c)
			var t *FuncInfo
			if cal != nil {
				t = w.Decls[cal]
			}
			if isSource != nil && isSource(info, c) {
				s := types.NewVar(c.Pos(), f.Pkg.Types, "source", nil)
				v.srcs = append(v.srcs, vsource{obj: s, call: c, fn: f, drop: len(to) == 0})
				for _, o := range to {
					v.edge(s, o)
				}
				return
			}
			if t != nil && v.fns[t] {
				ps, recv := params(t)
				for i, a := range c.Args {
					if i < len(ps) {
						flowExpr(a, []types.Object{ps[i]})
						// what the callee stores through a pointer parameter is visible in the caller's variable
						if _, isPtr := ps[i].Type().Underlying().(*types.Pointer); isPtr {
							ae := unparen(a)
							if u, ok := ae.(*ast.UnaryExpr); ok && u.Op == token.AND {
								ae = u.X
							}
							if bo := baseObj(info, ae); bo != nil {
								v.edge(ps[i], bo)
							}
						}
					} else if len(ps) > 0 {
						flowExpr(a, []types.Object{ps[len(ps)-1]}) // variadic
					}
				}
				if rcv, _, ok := methodCall(c); ok && recv != nil {
					flowExpr(rcv, []types.Object{recv})
					// what the method puts into its receiver is visible through the caller's receiver
					if bo := baseObj(info, rcv); bo != nil {
						v.edge(recv, bo)
					}
				}
				for i, ro := range v.result[t] {
					if len(v.result[t]) == 1 || len(to) == 1 {
						for _, o := range to {
							v.edge(ro, o)
						}
					} else if i < len(to) {
						v.edge(ro, to[i])
					}
				}
				return
			}
			// any other call (append, fmt.Errorf, errors.Join, conversions, methods of
			// other packages): arguments and receiver flow into the result
			for _, a := range c.Args {
				flowExpr(a, to)
			}
			if rcv, _, ok := methodCall(c); ok {
				flowExpr(rcv, to)
			}
		}
		flowExpr = func(e ast.Expr, to []types.Object) {
			e = unparen(e)
			switch x := e.(type) {
			case nil:
				return
			case *ast.CallExpr:
				flowCall(x, to)
			case *ast.CompositeLit:
				for _, el := range x.Elts {
					if kv, ok := el.(*ast.KeyValueExpr); ok {
						flowExpr(kv.Value, to)
					} else {
						flowExpr(el, to)
					}
				}
			case *ast.UnaryExpr:
				flowExpr(x.X, to)
			case *ast.StarExpr:
				flowExpr(x.X, to)
			case *ast.BinaryExpr:
				flowExpr(x.X, to)
				flowExpr(x.Y, to)
			case *ast.SliceExpr:
				flowExpr(x.X, to)
			case *ast.IndexExpr:
				flowExpr(x.X, to)
			case *ast.TypeAssertExpr:
				flowExpr(x.X, to)
			case *ast.FuncLit:
				return
			default:
				for _, o := range objsIn(info, e) {
					for _, t := range to {
						v.edge(o, t)
					}
				}
			}
		}
		ast.Inspect(f.Decl.Body, func(n ast.Node) bool {
			switch s := n.(type) {
			case *ast.FuncLit:
				return false
			case *ast.AssignStmt:
				if len(s.Lhs) == len(s.Rhs) {
					for i, l := range s.Lhs {
						var to []types.Object
						if o := baseObj(info, l); o != nil {
							to = append(to, o)
						}
						flowExpr(s.Rhs[i], to)
					}
				} else if len(s.Rhs) == 1 {
					var to []types.Object
					for _, l := range s.Lhs {
						if o := baseObj(info, l); o != nil {
							to = append(to, o)
						} else {
							to = append(to, nil)
						}
					}
					clean := to[:0]
					for _, o := range to {
						if o != nil {
							clean = append(clean, o)
						}
					}
					flowExpr(s.Rhs[0], clean)
				}
			case *ast.ValueSpec:
				for i, nm := range s.Names {
					if i < len(s.Values) {
						flowExpr(s.Values[i], []types.Object{info.Defs[nm]})
					}
				}
			case *ast.ExprStmt:
				flowExpr(s.X, nil)
			case *ast.ReturnStmt:
				rs := v.result[f]
				for i, e := range s.Results {
					if len(s.Results) == len(rs) {
						flowExpr(e, []types.Object{rs[i]})
					} else {
						flowExpr(e, rs)
					}
				}
			case *ast.RangeStmt:
				var to []types.Object
				for _, kv := range []ast.Expr{s.Key, s.Value} {
					if kv != nil {
						if o := baseObj(info, kv); o != nil {
							to = append(to, o)
						}
					}
				}
				flowExpr(s.X, to)
			case *ast.IfStmt, *ast.SwitchStmt:
				// init statements are visited as statements of their own
			}
			return true
		})
	}
	return v
}
