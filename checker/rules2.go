package main

import (
	"fmt"
	"go/ast"
	"go/token"
	"go/types"
	"sort"
	"strings"
)

// ruleAtomicRMW: a field of a sync/atomic type that is Load-ed and Store-d in
// the same function, without CompareAndSwap/Swap and without a lock held at the
// Store, is a lost-update read-modify-write.
func ruleAtomicRMW(w *World, r *Report, rule string, la *LockAnalysis) {
	n := 0
	for _, u := range la.units {
		info := u.pkg.TypesInfo
		type ops struct {
			load, store, cas bool
			storePos         token.Pos
			storeNode        ast.Node
			name             string
		}
		per := map[*types.Var]*ops{}
		for _, nd := range u.flow.Nodes() {
			for _, c := range callsIn(nd, false) {
				cal := callee(info, c)
				if cal == nil || !isAtomicFunc(cal) {
					continue
				}
				var fv *types.Var
				if rcv, _, ok := methodCall(c); ok {
					fv = fieldOf(info, rcv)
				}
				if fv == nil && len(c.Args) >= 1 {
					if ue, ok := unparen(c.Args[0]).(*ast.UnaryExpr); ok && ue.Op == token.AND {
						fv = fieldOf(info, ue.X)
					}
				}
				if fv == nil {
					continue
				}
				o := per[fv]
				if o == nil {
					o = &ops{name: w.canonField(fv)}
					per[fv] = o
				}
				switch {
				case strings.HasPrefix(cal.Name(), "Load"):
					o.load = true
				case strings.HasPrefix(cal.Name(), "Store"):
					// storing a constant (a flag, nil) is idempotent: nothing derived from the load is lost
					if len(c.Args) > 0 {
						last := c.Args[len(c.Args)-1]
						if tv, ok := info.Types[last]; ok && (tv.Value != nil || tv.IsNil()) {
							continue
						}
					}
					o.store, o.storePos, o.storeNode = true, c.Pos(), nd
				case strings.HasPrefix(cal.Name(), "CompareAndSwap"), strings.HasPrefix(cal.Name(), "Swap"), strings.HasPrefix(cal.Name(), "Add"):
					o.cas = true
				}
			}
		}
		for _, o := range per {
			if !(o.load && o.store) {
				continue
			}
			n++
			con := fmt.Sprintf("%s#load-then-store:%s", u.name, o.name)
			locked := len(lockFactsOf(la.HeldAt(o.storeNode))) > 0
			r.Check(locked, rule, con, o.storePos, true,
				"the load/store pair runs under a lock",
				"the value of "+o.name+" is loaded, a new value derived from it, and stored back without a compare-and-swap or a lock: two concurrent writers lose one of the updates")
		}
	}
	if n == 0 {
		r.OK(rule, "atomics#no-load-then-store", token.NoPos, true, "no function both loads and stores the same atomic field")
	}
}

// ruleDescriptorConstructorSource: the Constructor of a primary descriptor is
// reflect.ValueOf(<the registered value>), never something taken from a shared
// analysis record.
func ruleDescriptorConstructorSource(w *World, r *Report, rule string) {
	n := 0
	for _, fi := range w.FuncsOf(w.Godi) {
		info := fi.Pkg.TypesInfo
		ast.Inspect(fi.Decl.Body, func(x ast.Node) bool {
			cl, ok := x.(*ast.CompositeLit)
			if !ok {
				return true
			}
			tv, ok := info.Types[cl]
			if !ok || !isNamedType(tv.Type, modPath, "Descriptor") {
				return true
			}
			v, has := compositeFields(cl)["Constructor"]
			if !has {
				return true
			}
			n++
			con := fmt.Sprintf("%s#Descriptor.Constructor/%d", fi.Name(), n)
			// copied from another descriptor
			if isFieldNamed(info, v, "Constructor") {
				if o := objOf(info, selBase(v)); o != nil && isNamedType(o.Type(), modPath, "Descriptor") {
					r.OK(rule, con, v.Pos(), false, "copied from the base descriptor")
					return true
				}
			}
			// a local defined as reflect.ValueOf(param)
			good := false
			if o := objOf(info, v); o != nil {
				ast.Inspect(fi.Decl.Body, func(y ast.Node) bool {
					as, ok := y.(*ast.AssignStmt)
					if !ok || len(as.Lhs) != len(as.Rhs) {
						return true
					}
					for i, l := range as.Lhs {
						if objOf(info, l) != o {
							continue
						}
						c, isC := unparen(as.Rhs[i]).(*ast.CallExpr)
						if isC && isFunc(callee(info, c), "reflect", "", "ValueOf") && len(c.Args) == 1 {
							if p := objOf(info, c.Args[0]); p != nil && isParamOf(fi, info, p) {
								good = true
							}
						}
					}
					return true
				})
			}
			if c, isC := unparen(v).(*ast.CallExpr); isC && isFunc(callee(info, c), "reflect", "", "ValueOf") {
				good = true
			}
			r.Check(good, rule, con, v.Pos(), true,
				"the descriptor's Constructor is reflect.ValueOf of the value passed to the registration call",
				"the descriptor's Constructor is "+exprStr(v)+", not reflect.ValueOf(the registered value): a value taken from the analysis cache belongs to whichever function with the same code pointer and type was analysed first")
			return true
		})
	}
	if n == 0 {
		r.Fail(rule, "Descriptor.Constructor", token.NoPos, "no descriptor literal sets Constructor")
	}
	// the Instance of a descriptor: the registered value itself, never the analysis record's copy
	// (the analyzer caches non-function values per type: the first value of that type it ever saw)
	m := 0
	fromAnalysis := func(info *types.Info, e ast.Expr) bool {
		bad := false
		ast.Inspect(e, func(y ast.Node) bool {
			if sel, ok := y.(*ast.SelectorExpr); ok {
				if fv := plainFieldOf(info, sel); fv != nil {
					if tv, ok := info.Types[sel.X]; ok && isNamedType(tv.Type, modPath+"/internal/reflection", "ConstructorInfo") {
						switch fv.Type().Underlying().(type) {
						case *types.Interface, *types.Struct: // any, reflect.Value
							bad = true
						}
					}
				}
			}
			return true
		})
		return bad
	}
	for _, fi := range w.FuncsOf(w.Godi) {
		info := fi.Pkg.TypesInfo
		check := func(v ast.Expr) {
			m++
			con := fmt.Sprintf("%s#Descriptor.Instance/%d", fi.Name(), m)
			r.Check(!fromAnalysis(info, resolveLocal(info, fi.Decl.Body, v, 2)) && !fromAnalysis(info, v), rule, con, v.Pos(), false,
				"the descriptor's Instance does not come from the analysis record",
				"the descriptor's Instance is "+exprStr(v)+", a value of the shared analysis record: the analyzer caches non-function values per type, so every later instance of that type is served as the first one registered")
		}
		ast.Inspect(fi.Decl.Body, func(x ast.Node) bool {
			switch s := x.(type) {
			case *ast.CompositeLit:
				if tv, ok := info.Types[s]; ok && isNamedType(tv.Type, modPath, "Descriptor") {
					if v, has := compositeFields(s)["Instance"]; has {
						check(v)
					}
				}
			case *ast.AssignStmt:
				if len(s.Lhs) == len(s.Rhs) {
					for i, l := range s.Lhs {
						if fv := plainFieldOf(info, l); fv != nil && fv.Name() == "Instance" {
							if tv, ok := info.Types[selBase(l)]; ok && isNamedType(tv.Type, modPath, "Descriptor") {
								check(s.Rhs[i])
							}
						}
					}
				}
			}
			return true
		})
	}
	if m == 0 {
		r.Fail(rule, "Descriptor.Instance", token.NoPos, "no assignment of a descriptor's Instance found")
	}
}

func isParamOf(fi *FuncInfo, info *types.Info, o types.Object) bool {
	for _, f := range fi.Decl.Type.Params.List {
		for _, nm := range f.Names {
			if info.Defs[nm] == o {
				return true
			}
		}
	}
	return false
}

// ruleListOrderPreserved: the descriptor list keeps registration order: it is
// only appended to, reset, or shortened by an order-preserving delete.
func ruleListOrderPreserved(w *World, r *Report, rule string, la *LockAnalysis) {
	rg := resolveRegistry(w)
	n := 0
	for _, a := range collectAccesses(w, la, func(v *types.Var) bool { return v == rg.all }) {
		if !a.IsWrite() {
			continue
		}
		n++
		con := fmt.Sprintf("%s#allDescriptors:%s/%d", unitName(a.Unit), a.Kind, n)
		info := a.Unit.pkg.TypesInfo
		ok, why := false, ""
		switch a.Kind {
		case "index-write":
			why = "an element of the descriptor list is overwritten in place (swap-remove or reordering): registration order, which group order and Build order derive from, is no longer kept"
		case "write":
			if as, isAs := a.Node.(*ast.AssignStmt); isAs {
				for i, l := range as.Lhs {
					if fieldOf(info, l) != a.Field || i >= len(as.Rhs) {
						continue
					}
					rhs := unparen(as.Rhs[i])
					isList := func(e ast.Expr) bool { return fieldOf(info, e) == a.Field }
					ok = orderPreserving(w, info, rhs, isList, 2)
					if id, isId := rhs.(*ast.Ident); !ok && isId && a.Unit.body != nil {
						ok = filteredCopy(info, a.Unit.body, objOf(info, id), isList) || rehousedCopy(info, a.Unit.body, objOf(info, id), isList)
					}
					if !ok {
						why = "the descriptor list is assigned " + exprStr(rhs) + ", which is neither an append, a reset nor an order-preserving delete"
					}
				}
			}
		default:
			why = "the descriptor list is modified by " + a.Kind
		}
		r.Check(ok, rule, con, a.Pos(), false, "registration order of the descriptor list is preserved", why)
	}
}

// ruleSnapshotFieldsNotMutatedInPlace: a slice field whose snapshot Close takes
// by plain copy (sharing the backing array) is never modified in place.
func ruleSnapshotFieldsNotMutatedInPlace(w *World, r *Report, rule string, la *LockAnalysis) {
	fields := map[*types.Var]bool{}
	for _, c := range closers(w) {
		for _, l := range c.ca.reachableLoops() {
			if l.field != nil && l.origin == "copy" {
				if _, isSlice := l.field.Type().Underlying().(*types.Slice); isSlice {
					fields[l.field] = true
				}
			}
		}
	}
	n := 0
	for _, a := range collectAccesses(w, la, func(v *types.Var) bool { return fields[v] }) {
		info := a.Unit.pkg.TypesInfo
		bad := ""
		switch a.Kind {
		case "index-write", "clear":
			bad = "an element of the list is overwritten in place"
		case "write":
			if as, ok := a.Node.(*ast.AssignStmt); ok {
				for i, l := range as.Lhs {
					if fieldOf(info, l) != a.Field || i >= len(as.Rhs) {
						continue
					}
					if c, isC := unparen(as.Rhs[i]).(*ast.CallExpr); isC && exprStr(c.Fun) == "append" && len(c.Args) >= 1 {
						if sl, isSl := unparen(c.Args[0]).(*ast.SliceExpr); isSl && fieldOf(info, sl.X) == a.Field {
							bad = "the list is compacted in place (" + exprStr(as.Rhs[i]) + ")"
						}
					}
				}
			}
		default:
			continue
		}
		if !a.IsWrite() {
			continue
		}
		n++
		con := fmt.Sprintf("%s#%s:%s/%d", unitName(a.Unit), w.canonField(a.Field), a.Kind, n)
		r.Check(bad == "", rule, con, a.Pos(), true, "the list is only appended to or replaced",
			bad+" while Close iterates over a snapshot that shares its backing array: elements shift under the traversal and some are skipped")
	}
	if n == 0 {
		r.OK(rule, "snapshot-fields#none-written", token.NoPos, false, "no slice field is snapshotted by plain copy and written elsewhere")
	}
}

// ruleNoPackageState: an integration package keeps no package-level variables,
// and the middleware/handler constructors build their configuration afresh.
func ruleNoPackageState(w *World, r *Report, rule string) {
	for _, m := range integrations {
		p := w.Integ[m]
		var vars []string
		sc := p.Types.Scope()
		for _, name := range sc.Names() {
			if v, ok := sc.Lookup(name).(*types.Var); ok {
				if isErrorSentinel(p, v) {
					continue // var errX = errors.New("…"), never assigned: a constant in all but name
				}
				vars = append(vars, v.Name())
			}
		}
		sort.Strings(vars)
		r.Check(len(vars) == 0, rule, m+"/package-variables", token.NoPos, false,
			"no package-level variables: nothing is shared between middleware instances or requests",
			fmt.Sprintf("package %s declares package-level variables %v: state shared between middleware instances (option lists, configurations) or requests", m, vars))
		for _, fn := range []string{"ScopeMiddleware", "Handle"} {
			fi := w.Fn(p, fn)
			if fi == nil {
				continue
			}
			info := p.TypesInfo
			bad := ""
			n := 0
			ast.Inspect(fi.Decl.Body, func(x ast.Node) bool {
				as, ok := x.(*ast.AssignStmt)
				if !ok || len(as.Lhs) != 1 || len(as.Rhs) != 1 {
					return true
				}
				o := objOf(info, as.Lhs[0])
				if o == nil || !(isNamedType(o.Type(), p.PkgPath, "Config") || isNamedType(o.Type(), p.PkgPath, "HandlerConfig")) {
					return true
				}
				n++
				// a literal, new(T), &local, a constructor function every return of which is one of
				// these, or a helper that hands one of them back (applyOptions(defaultConfig(), opts))
				fresh := freshExprIn(fi, as.Rhs[0], 2)
				if !fresh {
					bad = "the configuration is " + exprStr(as.Rhs[0]) + ", not a freshly built value: option lists are shared between instances"
				}
				return true
			})
			if n == 0 {
				bad = "no configuration value is built"
			}
			r.Check(bad == "", rule, m+"/"+fn+"#fresh-config", fi.Decl.Pos(), false, "each call builds its own configuration from a fresh literal", bad)
		}
	}
}

// returnsFreshLiteral: every return of the function is a composite literal (or
// its address), or a local that was defined as one, or the result of a function
// of which the same holds (newConfig(opts) { cfg := defaultConfig(); …; return cfg }).
func returnsFreshLiteral(fi *FuncInfo) bool {
	return returnsFreshLiteralDepth(fi, 2)
}

// returnsParam: every return of fi hands back the same parameter; its index, or -1.
func returnsParam(fi *FuncInfo) int {
	info := fi.Pkg.TypesInfo
	idx := -1
	okAll, any := true, false
	ast.Inspect(fi.Decl.Body, func(x ast.Node) bool {
		if _, isLit := x.(*ast.FuncLit); isLit {
			return false
		}
		ret, isRet := x.(*ast.ReturnStmt)
		if !isRet {
			return true
		}
		any = true
		if len(ret.Results) != 1 {
			okAll = false
			return true
		}
		o := objOf(info, ret.Results[0])
		k, found := 0, -1
		for _, fl := range fi.Decl.Type.Params.List {
			for _, nm := range fl.Names {
				if info.Defs[nm] == o && o != nil {
					found = k
				}
				k++
			}
		}
		if found < 0 || (idx >= 0 && idx != found) {
			okAll = false
		}
		idx = found
		return true
	})
	if !okAll || !any {
		return -1
	}
	return idx
}

// freshExprIn: e, an expression of function fi, denotes a freshly built value.
func freshExprIn(fi *FuncInfo, e ast.Expr, depth int) bool {
	probe := &FuncInfo{Pkg: fi.Pkg, Obj: fi.Obj, Decl: &ast.FuncDecl{Name: fi.Decl.Name, Type: fi.Decl.Type,
		Body: &ast.BlockStmt{Lbrace: fi.Decl.Body.Lbrace, Rbrace: fi.Decl.Body.Rbrace, List: append(append([]ast.Stmt{}, fi.Decl.Body.List...), &ast.ReturnStmt{Return: e.Pos(), Results: []ast.Expr{e}})}}}
	// only the appended return is judged: wrap it so that the other returns of fi do not count
	return returnsFreshLiteralOnly(probe, e, depth)
}

func returnsFreshLiteralDepth(fi *FuncInfo, depth int) bool {
	return returnsFreshLiteralOnly(fi, nil, depth)
}

// returnsFreshLiteralOnly judges every return of fi (only == nil) or just the
// expression only, resolved in fi's body.
func returnsFreshLiteralOnly(fi *FuncInfo, only ast.Expr, depth int) bool {
	info := fi.Pkg.TypesInfo
	ok, any := true, false
	freshExpr := func(e ast.Expr) bool {
		e = resolveLocal(info, fi.Decl.Body, e, 2)
		if litOf(e) != nil {
			return true
		}
		// new(T) / make(T, …): fresh storage (cfg := new(Config); cfg.X = …; return cfg)
		if c, isC := e.(*ast.CallExpr); isC {
			if id, ok := unparen(c.Fun).(*ast.Ident); ok {
				if b, isB := info.Uses[id].(*types.Builtin); isB && (b.Name() == "new" || b.Name() == "make") {
					return true
				}
			}
		}
		// &v of a local declared in this function (var cfg Config; …; return &cfg)
		if u, isU := e.(*ast.UnaryExpr); isU && u.Op == token.AND {
			if o, ok := objOf(info, u.X).(*types.Var); ok && !o.IsField() && fi.Decl.Body.Pos() <= o.Pos() && o.Pos() < fi.Decl.Body.End() {
				return true
			}
		}
		if c, isC := e.(*ast.CallExpr); isC && depth > 0 && theWorld != nil {
			if cal := callee(info, c); cal != nil {
				if o := cal.Origin(); o != nil {
					cal = o
				}
				if t := theWorld.Decls[cal]; t != nil && t.Pkg == fi.Pkg {
					if returnsFreshLiteralDepth(t, depth-1) {
						return true
					}
					// applyOptions(defaultConfig(), opts): the helper hands back one of its parameters
					if i := returnsParam(t); i >= 0 && i < len(c.Args) {
						return freshExprIn(fi, c.Args[i], depth-1)
					}
				}
			}
		}
		return false
	}
	_ = freshExpr
	ast.Inspect(fi.Decl.Body, func(x ast.Node) bool {
		if _, isLit := x.(*ast.FuncLit); isLit {
			return false
		}
		if ret, isRet := x.(*ast.ReturnStmt); isRet {
			if only != nil && (len(ret.Results) != 1 || ret.Results[0] != only) {
				return true
			}
			any = true
			if len(ret.Results) != 1 || !freshExpr(ret.Results[0]) {
				ok = false
			}
		}
		return true
	})
	return ok && any
}

// ruleRemovalIdentity: a removal drops from the descriptor list exactly the
// descriptor found in the services view under the key being removed.
func ruleRemovalIdentity(w *World, r *Report, rule string) {
	rg := resolveRegistry(w)
	for fi, ws := range rg.viewWriters {
		info := fi.Pkg.TypesInfo
		isRemoval := false
		ast.Inspect(fi.Decl.Body, func(x ast.Node) bool {
			if c, ok := x.(*ast.CallExpr); ok {
				if id, ok := unparen(c.Fun).(*ast.Ident); ok && id.Name == "delete" && len(c.Args) == 2 && fieldOf(info, c.Args[0]) == rg.services {
					isRemoval = true
				}
			}
			return true
		})
		if !isRemoval || !ws["allDescriptors"] {
			continue
		}
		r.Analysed(fi)
		// the descriptor looked up in services
		var found types.Object
		ast.Inspect(fi.Decl.Body, func(x ast.Node) bool {
			if as, ok := x.(*ast.AssignStmt); ok && len(as.Rhs) == 1 && len(as.Lhs) >= 1 {
				if ix, ok := unparen(as.Rhs[0]).(*ast.IndexExpr); ok && fieldOf(info, ix.X) == rg.services {
					found = objOf(info, as.Lhs[0])
				}
			}
			return true
		})
		con := fi.Name() + "#removes-the-found-descriptor"
		if found == nil {
			r.Fail(rule, con, fi.Decl.Pos(), "the removal does not look the registration up in the services view before shortening the descriptor list: entries of the list are matched by value, so a group member whose generated key happens to equal the key being removed is dropped from the list while it stays in its group")
			continue
		}
		// an identity comparison with the found descriptor selects the element
		byIdentity := selectsByIdentity(w, fi, found, 2)
		r.Check(byIdentity, rule, con, fi.Decl.Pos(), true,
			"the element removed from the descriptor list is the very descriptor found in the services view",
			"the element removed from the descriptor list is not selected by identity with the descriptor found in the services view")
	}
}

// boolean evaluation of small conditions over named atoms -----------------------

// evalCond evaluates cond under an assignment of atoms ("<base>.Key=nil", "<base>.Group=empty").
func evalCond(info *types.Info, cond ast.Expr, base types.Object, keyNil, groupEmpty bool) (val bool, ok bool) {
	switch x := unparen(cond).(type) {
	case *ast.CallExpr:
		// a predicate method of the descriptor: `func (d *Descriptor) isGroupMember() bool { return … }`
		if rcv, _, isM := methodCall(x); isM && objOf(info, rcv) == base && theWorld != nil {
			if t := theWorld.Decls[callee(info, x)]; t != nil && t.Decl.Recv != nil && len(t.Decl.Recv.List[0].Names) == 1 && len(t.Decl.Body.List) == 1 {
				if ret, isR := t.Decl.Body.List[0].(*ast.ReturnStmt); isR && len(ret.Results) == 1 {
					tinfo := t.Pkg.TypesInfo
					return evalCond(tinfo, ret.Results[0], tinfo.Defs[t.Decl.Recv.List[0].Names[0]], keyNil, groupEmpty)
				}
			}
		}
	case *ast.UnaryExpr:
		if x.Op == token.NOT {
			v, ok := evalCond(info, x.X, base, keyNil, groupEmpty)
			return !v, ok
		}
	case *ast.BinaryExpr:
		switch x.Op {
		case token.LAND, token.LOR:
			a, ok1 := evalCond(info, x.X, base, keyNil, groupEmpty)
			b, ok2 := evalCond(info, x.Y, base, keyNil, groupEmpty)
			if x.Op == token.LAND {
				return a && b, ok1 && ok2
			}
			return a || b, ok1 && ok2
		case token.EQL, token.NEQ:
			for _, pair := range [][2]ast.Expr{{x.X, x.Y}, {x.Y, x.X}} {
				f, o := unparen(pair[0]), unparen(pair[1])
				fv := fieldOf(info, f)
				if fv == nil || objOf(info, selBase(f)) != base {
					continue
				}
				switch {
				case fv.Name() == "Key" && isNilIdent(info, o):
					return keyNil == (x.Op == token.EQL), true
				case fv.Name() == "Group" && isEmptyString(info, o):
					return groupEmpty == (x.Op == token.EQL), true
				}
			}
		}
	}
	return false, false
}

// ruleCheckInsertAgreement: the registration check skips the duplicate test
// exactly for the descriptors that the insert step files under groups.
func ruleCheckInsertAgreement(w *World, r *Report, rule string) {
	rg := resolveRegistry(w)
	if rg.check == nil || len(rg.insert) == 0 {
		r.Fail(rule, "collection#check-vs-insert", token.NoPos, "check or insert function not found")
		return
	}
	ins := rg.insert[0]
	iinfo := ins.Pkg.TypesInfo
	cinfo := rg.check.Pkg.TypesInfo
	param := func(fi *FuncInfo) types.Object {
		if o := descriptorParam(fi); o != nil {
			return o
		}
		if len(fi.Decl.Type.Params.List) > 0 && len(fi.Decl.Type.Params.List[0].Names) > 0 {
			return fi.Pkg.TypesInfo.Defs[fi.Decl.Type.Params.List[0].Names[0]]
		}
		return nil
	}
	iBase, cBase := param(ins), param(rg.check)
	// insert: the condition of the if whose then-branch (or else-branch) writes services
	var insCond ast.Expr
	insThen := true
	ast.Inspect(ins.Decl.Body, func(x ast.Node) bool {
		ifs, ok := x.(*ast.IfStmt)
		if !ok {
			return true
		}
		writes := func(n ast.Node) bool {
			wr := false
			ast.Inspect(n, func(y ast.Node) bool {
				if as, ok := y.(*ast.AssignStmt); ok {
					for _, l := range as.Lhs {
						if ix, ok := unparen(l).(*ast.IndexExpr); ok && fieldOf(iinfo, ix.X) == rg.services {
							wr = true
						}
					}
				}
				return true
			})
			return wr
		}
		if writes(ifs.Body) {
			insCond, insThen = ifs.Cond, true
		} else if ifs.Else != nil && writes(ifs.Else) {
			insCond, insThen = ifs.Cond, false
		}
		return true
	})
	// check: the condition of the if that returns nil before the services lookup
	var skipCond ast.Expr
	var lookupPos token.Pos
	ast.Inspect(rg.check.Decl.Body, func(x ast.Node) bool {
		if ix, ok := x.(*ast.IndexExpr); ok && fieldOf(cinfo, ix.X) == rg.services && !lookupPos.IsValid() {
			lookupPos = ix.Pos()
		}
		return true
	})
	ast.Inspect(rg.check.Decl.Body, func(x ast.Node) bool {
		ifs, ok := x.(*ast.IfStmt)
		if !ok || (lookupPos.IsValid() && ifs.Pos() > lookupPos) || len(ifs.Body.List) != 1 {
			return true
		}
		if ret, ok := ifs.Body.List[0].(*ast.ReturnStmt); ok && len(ret.Results) == 1 && isNilIdent(cinfo, ret.Results[0]) {
			if _, decided := evalCond(cinfo, ifs.Cond, cBase, true, true); decided {
				skipCond = ifs.Cond
			}
		}
		return true
	})
	con := rg.check.Name() + "-vs-" + ins.Name() + "#same-partition"
	if insCond == nil || skipCond == nil {
		r.Undecided(rule, con, rg.check.Decl.Pos(), "could not find the services/groups partition condition in the insert step or the skip condition in the check")
		return
	}
	bad := ""
	for _, keyNil := range []bool{true, false} {
		for _, groupEmpty := range []bool{true, false} {
			iv, ok1 := evalCond(iinfo, insCond, iBase, keyNil, groupEmpty)
			sv, ok2 := evalCond(cinfo, skipCond, cBase, keyNil, groupEmpty)
			if !ok1 || !ok2 {
				r.Undecided(rule, con, rg.check.Decl.Pos(), "partition conditions %s / %s are not over Key==nil and Group==\"\" only", exprStr(insCond), exprStr(skipCond))
				return
			}
			toServices := iv == insThen
			if sv == toServices {
				bad = fmt.Sprintf("for Key%snil and Group%s\"\" the insert step files the descriptor under %s, but the check %s the duplicate test",
					map[bool]string{true: "==", false: "!="}[keyNil], map[bool]string{true: "==", false: "!="}[groupEmpty],
					map[bool]string{true: "services", false: "groups"}[toServices], map[bool]string{true: "skips", false: "runs"}[sv])
			}
		}
	}
	r.Check(bad == "", rule, con, skipCond.Pos(), true,
		"the duplicate test is skipped exactly for the descriptors that are filed under groups",
		"check and insert disagree on which descriptors go to the services view: "+bad+": a second registration of an existing (type, key) is accepted and overwrites the first")
}

// ruleNoInPlaceReuse: slices stored in the graph's tables (edges, a node's
// Dependencies/Dependents) are never rewritten in place ([:0] reuse), because the
// same backing array may be referenced from another table or a saved snapshot.
func ruleNoInPlaceReuse(w *World, r *Report, rule string) {
	n := 0
	for _, fi := range w.FuncsOf(w.Graph) {
		info := fi.Pkg.TypesInfo
		ast.Inspect(fi.Decl.Body, func(x ast.Node) bool {
			sl, ok := x.(*ast.SliceExpr)
			if !ok || sl.High == nil {
				return true
			}
			if v, isC := constInt(info, sl.High); !isC || v != 0 {
				return true
			}
			base := unparen(sl.X)
			if ix, isIx := base.(*ast.IndexExpr); isIx {
				base = unparen(ix.X)
			}
			fv := fieldOf(info, base)
			if fv == nil {
				return true
			}
			owner := ownerOfFieldRaw(w, fv)
			if owner != "Node" && owner != "DependencyGraph" {
				return true
			}
			n++
			r.Fail(rule, fmt.Sprintf("%s#reuse:%s.%s/%d", fi.Name(), owner, fv.Name(), n), sl.Pos(),
				"the backing array of %s.%s is reused in place (%s): the same array may be stored in the edge table, in another node field or in the saved state of a rollback, which is silently rewritten", owner, fv.Name(), exprStr(sl))
			return true
		})
	}
	if n == 0 {
		r.OK(rule, "graph#no-in-place-reuse", token.NoPos, false, "no graph slice is rewritten through a [:0] reslice")
	}
}

// ruleDegreeCountsEveryEdge: the degree recomputation counts every edge: the
// increment of a node's in-degree and the append to its dependents are guarded
// only by the existence of the node.
func ruleDegreeCountsEveryEdge(w *World, r *Report, rule string) {
	g := resolveGraph(w)
	in := w.Field(w.Graph, "Node", "InDegree")
	found := false
	for _, fi := range w.FuncsOf(w.Graph) {
		info := fi.Pkg.TypesInfo
		// variables bound as the comma-ok of a lookup in the node table
		existsVars := map[types.Object]bool{}
		loopConds := map[ast.Expr]bool{}
		ast.Inspect(fi.Decl.Body, func(x ast.Node) bool {
			switch s := x.(type) {
			case *ast.AssignStmt:
				if len(s.Lhs) == 2 && len(s.Rhs) == 1 {
					if ix, ok := unparen(s.Rhs[0]).(*ast.IndexExpr); ok && fieldOf(info, ix.X) == g.nodes {
						existsVars[objOf(info, s.Lhs[1])] = true
					}
				}
			case *ast.ForStmt:
				if s.Cond != nil {
					loopConds[s.Cond] = true
				}
			}
			return true
		})
		ast.Inspect(fi.Decl.Body, func(x ast.Node) bool {
			inc, ok := x.(*ast.IncDecStmt)
			if !ok || fieldOf(info, inc.X) != in || inc.Tok != token.INC {
				return true
			}
			found = true
			bad := ""
			// the conditions the increment is control dependent on: only "the node exists" (and loop bounds)
			conds, _ := controllingCondsInfo(info, fi.Decl.Body, inc.Pos())
			for _, cd := range conds {
				if loopConds[cd] {
					continue
				}
				c := unparen(cd)
				if u, isU := c.(*ast.UnaryExpr); isU && u.Op == token.NOT {
					c = unparen(u.X)
				}
				if existsVars[objOf(info, c)] {
					continue
				}
				// node == nil / node != nil on a variable looked up in the node table
				if be, isB := c.(*ast.BinaryExpr); isB && (be.Op == token.EQL || be.Op == token.NEQ) && (isNilIdent(info, be.X) || isNilIdent(info, be.Y)) {
					continue
				}
				bad = "the increment is conditional on " + exprStr(cd)
			}
			// a helper that holds the increment must not be able to return before it
			if fi != g.updateDegrees {
				ast.Inspect(fi.Decl.Body, func(y ast.Node) bool {
					if ret, ok := y.(*ast.ReturnStmt); ok && ret.Pos() < inc.Pos() {
						bad = "the helper " + fi.Name() + " can return before counting the edge"
					}
					return true
				})
			}
			r.Check(bad == "", rule, fi.Name()+"#InDegree++", inc.Pos(), true,
				"every edge is counted: the increment is guarded only by the existence of the target node",
				"not every edge is counted towards the in-degree ("+bad+"): the degrees disagree with the dependency lists the topological sort counts, so an acyclic graph can be reported unsortable")
			return true
		})
	}
	if !found {
		r.Fail(rule, "graph#InDegree++", token.NoPos, "no function counts in-degrees")
	}
}

// ruleConstructorErrorPosition: the analyzer recognises an error return only in
// the last result position; the invoker must look for the constructor's error in
// that same position (the last element of the call's results), whatever the
// shape of the other results (plain, multi-return, result object).
func ruleConstructorErrorPosition(w *World, r *Report, rule string) {
	n := 0
	for _, fi := range w.FuncsOf(w.Refl) {
		info := fi.Pkg.TypesInfo
		defOf := func(o types.Object) ast.Expr {
			var rhs ast.Expr
			cnt := 0
			ast.Inspect(fi.Decl.Body, func(x ast.Node) bool {
				if as, ok := x.(*ast.AssignStmt); ok && len(as.Lhs) == len(as.Rhs) {
					for i, l := range as.Lhs {
						if objOf(info, l) == o {
							rhs = as.Rhs[i]
							cnt++
						}
					}
				}
				return true
			})
			if cnt == 1 {
				return rhs
			}
			return nil
		}
		resolve := func(e ast.Expr) ast.Expr {
			for i := 0; i < 3; i++ {
				id, ok := unparen(e).(*ast.Ident)
				if !ok {
					break
				}
				o := objOf(info, id)
				if o == nil {
					break
				}
				d := defOf(o)
				if d == nil {
					break
				}
				e = d
			}
			return unparen(e)
		}
		isValueSlice := func(e ast.Expr) bool {
			tv, ok := info.Types[e]
			if !ok {
				return false
			}
			sl, ok := tv.Type.Underlying().(*types.Slice)
			return ok && isNamedType(sl.Elem(), "reflect", "Value")
		}
		ast.Inspect(fi.Decl.Body, func(x ast.Node) bool {
			ta, ok := x.(*ast.TypeAssertExpr)
			if !ok || ta.Type == nil {
				return true
			}
			if tv, ok := info.Types[ta.Type]; !ok || !isErrorType(tv.Type) {
				return true
			}
			c, ok := unparen(ta.X).(*ast.CallExpr)
			if !ok || !isFunc(callee(info, c), "reflect", "Value", "Interface") {
				return true
			}
			rcv, _, _ := methodCall(c)
			n++
			con := fmt.Sprintf("%s#constructor-error-position/%d", fi.Name(), n)
			src := resolve(rcv)
			good, why := false, ""
			switch s := src.(type) {
			case *ast.IndexExpr:
				if !isValueSlice(s.X) {
					why = "the value inspected is not an element of the call's results"
					break
				}
				idx := resolve(s.Index)
				if be, ok := idx.(*ast.BinaryExpr); ok && be.Op == token.SUB {
					if v, isC := constInt(info, be.Y); isC && v == 1 {
						if lc, ok := unparen(be.X).(*ast.CallExpr); ok {
							if exprStr(lc.Fun) == "len" && len(lc.Args) == 1 && objOf(info, lc.Args[0]) != nil && objOf(info, lc.Args[0]) == objOf(info, s.X) {
								good = true
							}
							if isFunc(callee(info, lc), "reflect", "Type", "NumOut") {
								good = true
							}
						}
					}
				}
				if !good {
					why = "the constructor's error is read from results[" + exprStr(s.Index) + "], not from the last result: the analyzer recognises an error return in the last position only, and for result-object constructors the recorded return list describes the fields of the object, not the function's results"
				}
			default:
				// the element variable of a range over the results: every result is inspected
				if id, ok := unparen(rcv).(*ast.Ident); ok {
					for _, l := range iterLoopsIn(info, fi.Decl.Body) {
						if l.Elem != nil && l.Elem == objOf(info, id) && isValueSlice(l.Coll) {
							good = true
						}
					}
				}
				if !good {
					why = "the value inspected for the constructor's error (" + exprStr(rcv) + ") is not the last element of the call's results"
				}
			}
			r.Check(good, rule, con, ta.Pos(), true, "the constructor's error is read from the last result, the position in which the analyzer recognises an error return", why)
			return true
		})
	}
	if n == 0 {
		r.Fail(rule, "invoker#constructor-error-position", token.NoPos, "no function of the reflection package inspects a constructor result for an error: a constructor's error return is never reported")
	}
}

// orderPreserving: e denotes the list (as recognised by isList) with elements
// appended at the end or removed, the others keeping their order: the list
// itself, nil / make, append(list, …), append(list[:i], list[j:]...),
// slices.Delete/DeleteFunc(list, …), or a private helper all of whose returns are
// such expressions over the parameter that receives the list.
func orderPreserving(w *World, info *types.Info, e ast.Expr, isList func(ast.Expr) bool, depth int) bool {
	e = unparen(e)
	if isList(e) || isNilIdent(info, e) {
		return true
	}
	c, ok := e.(*ast.CallExpr)
	if !ok {
		return false
	}
	switch exprStr(c.Fun) {
	case "make":
		return true
	case "append":
		if len(c.Args) == 0 {
			return false
		}
		first := unparen(c.Args[0])
		if isList(first) {
			return true
		}
		if sl, isSl := first.(*ast.SliceExpr); isSl && isList(sl.X) && sl.Low == nil && c.Ellipsis.IsValid() && len(c.Args) == 2 {
			if tail, isT := unparen(c.Args[1]).(*ast.SliceExpr); isT && isList(tail.X) && tail.High == nil {
				return true // order-preserving delete
			}
		}
		return false
	}
	cal := callee(info, c)
	if isFunc(cal, "slices", "", "Delete") || isFunc(cal, "slices", "", "DeleteFunc") || isFunc(cal, "slices", "", "Clone") {
		return len(c.Args) >= 1 && isList(c.Args[0])
	}
	if cal == nil || depth == 0 {
		return false
	}
	t := w.Decls[cal]
	if t == nil || cal.Exported() {
		return false
	}
	// which parameter receives the list
	var params []*ast.Ident
	for _, f := range t.Decl.Type.Params.List {
		params = append(params, f.Names...)
	}
	var po types.Object
	for i, a := range c.Args {
		if isList(a) && i < len(params) {
			po = t.Pkg.TypesInfo.Defs[params[i]]
		}
	}
	if po == nil {
		return false
	}
	tinfo := t.Pkg.TypesInfo
	okAll, any := true, false
	// the parameter must not be written in place
	ast.Inspect(t.Decl.Body, func(x ast.Node) bool {
		if _, isLit := x.(*ast.FuncLit); isLit {
			return false
		}
		switch s := x.(type) {
		case *ast.ReturnStmt:
			any = true
			if len(s.Results) != 1 || !orderPreserving(w, tinfo, resolveLocal(tinfo, t.Decl.Body, s.Results[0], 2), func(e ast.Expr) bool { return objOf(tinfo, e) == po }, depth-1) {
				okAll = false
			}
		case *ast.AssignStmt:
			for _, l := range s.Lhs {
				if ix, isIx := unparen(l).(*ast.IndexExpr); isIx && objOf(tinfo, ix.X) == po {
					okAll = false
				}
			}
		}
		return true
	})
	return okAll && any
}

// selectsByIdentity: within fi (or a private helper that receives obj), obj is
// compared with == / != against a non-nil operand, or is the needle of
// slices.Index over a slice of pointers.
func selectsByIdentity(w *World, fi *FuncInfo, obj types.Object, depth int) bool {
	info := fi.Pkg.TypesInfo
	found := false
	ast.Inspect(fi.Decl.Body, func(x ast.Node) bool {
		switch s := x.(type) {
		case *ast.BinaryExpr:
			if s.Op == token.EQL || s.Op == token.NEQ {
				if objOf(info, s.X) == obj || objOf(info, s.Y) == obj {
					other := s.X
					if objOf(info, s.X) == obj {
						other = s.Y
					}
					if !isNilIdent(info, other) {
						found = true
					}
				}
			}
		case *ast.CallExpr:
			cal := callee(info, s)
			if isFunc(cal, "slices", "", "Index") && len(s.Args) == 2 && objOf(info, s.Args[1]) == obj {
				if _, isPtr := obj.Type().Underlying().(*types.Pointer); isPtr {
					found = true
				}
			}
			if cal != nil && depth > 0 && !cal.Exported() {
				if t := w.Decls[cal]; t != nil {
					var params []*ast.Ident
					for _, f := range t.Decl.Type.Params.List {
						params = append(params, f.Names...)
					}
					for i, a := range s.Args {
						if objOf(info, a) == obj && i < len(params) {
							if selectsByIdentity(w, t, t.Pkg.TypesInfo.Defs[params[i]], depth-1) {
								found = true
							}
						}
					}
				}
			}
		}
		return true
	})
	return found
}

// filteredCopy: the local variable obj holds, at the end of body, the elements of
// the list (as recognised by isList) that pass some test, in the list's order:
//
//	kept := make([]T, 0, n)          (or nil, or an empty literal)
//	for _, x := range list { if … { kept = append(kept, x) } }
//
// Its only definitions are the empty start and ONE `obj = append(obj, elem)`
// inside a forward element loop over the list that is not itself inside another
// loop; its only other uses are len(obj)/cap(obj) and plain reads as a whole on
// the right of an assignment (the hand-over to the field).
func filteredCopy(info *types.Info, body *ast.BlockStmt, obj types.Object, isList func(ast.Expr) bool) bool {
	if obj == nil || body == nil {
		return false
	}
	var loops []*iterLoop
	var nested = map[ast.Stmt]bool{}
	var walk func(n ast.Node, inLoop bool)
	walk = func(n ast.Node, inLoop bool) {
		ast.Inspect(n, func(m ast.Node) bool {
			if m == nil || m == n {
				return true
			}
			switch s := m.(type) {
			case *ast.FuncLit:
				return false
			case *ast.ForStmt:
				nested[s] = inLoop
				walk(s, true)
				return false
			case *ast.RangeStmt:
				nested[s] = inLoop
				walk(s, true)
				return false
			}
			return true
		})
	}
	walk(body, false)
	loops = iterLoopsIn(info, body)
	appends, okAll := 0, true
	allowed := map[*ast.Ident]bool{}
	inspectNoLit(body, func(m ast.Node) bool {
		switch s := m.(type) {
		case *ast.AssignStmt:
			for i, l := range s.Lhs {
				id, isId := unparen(l).(*ast.Ident)
				if !isId || objOf(info, id) != obj {
					continue
				}
				allowed[id] = true
				if len(s.Rhs) != len(s.Lhs) {
					okAll = false
					continue
				}
				rhs := unparen(s.Rhs[i])
				if isNilIdent(info, rhs) {
					continue
				}
				if cl, isCl := rhs.(*ast.CompositeLit); isCl && len(cl.Elts) == 0 {
					continue
				}
				c, isC := rhs.(*ast.CallExpr)
				if !isC {
					okAll = false
					continue
				}
				switch exprStr(c.Fun) {
				case "make":
					continue
				case "append":
					if len(c.Args) != 2 || c.Ellipsis.IsValid() || objOf(info, c.Args[0]) != obj {
						okAll = false
						continue
					}
					allowed[unparen(c.Args[0]).(*ast.Ident)] = true
					found := false
					for _, lp := range loops {
						if lp.Dir != "fwd" || lp.Coll == nil || !isList(lp.Coll) || nested[lp.Stmt] {
							continue
						}
						if s.Pos() >= lp.Body.Pos() && s.End() <= lp.Body.End() && lp.IsElem(c.Args[1]) {
							found = true
						}
					}
					if !found {
						okAll = false
					}
					appends++
				default:
					okAll = false
				}
			}
		case *ast.ValueSpec:
			for i, nm := range s.Names {
				if info.Defs[nm] == obj {
					allowed[nm] = true
					if i < len(s.Values) {
						v := unparen(s.Values[i])
						c, isC := v.(*ast.CallExpr)
						if !(isNilIdent(info, v) || (isC && exprStr(c.Fun) == "make")) {
							okAll = false
						}
					}
				}
			}
		case *ast.CallExpr:
			if f := exprStr(s.Fun); (f == "len" || f == "cap") && len(s.Args) == 1 {
				if id, isId := unparen(s.Args[0]).(*ast.Ident); isId && objOf(info, id) == obj {
					allowed[id] = true
				}
			}
		}
		return true
	})
	if !okAll || appends != 1 {
		return false
	}
	// every other use: a whole-value read on the right of an assignment or in a return
	inspectNoLit(body, func(m ast.Node) bool {
		switch s := m.(type) {
		case *ast.AssignStmt:
			for _, r := range s.Rhs {
				if id, isId := unparen(r).(*ast.Ident); isId && objOf(info, id) == obj {
					allowed[id] = true
				}
			}
		case *ast.ReturnStmt:
			for _, r := range s.Results {
				if id, isId := unparen(r).(*ast.Ident); isId && objOf(info, id) == obj {
					allowed[id] = true
				}
			}
		}
		return true
	})
	ast.Inspect(body, func(m ast.Node) bool {
		if id, isId := m.(*ast.Ident); isId && info.Uses[id] == obj && !allowed[id] {
			okAll = false
		}
		return true
	})
	return okAll
}
