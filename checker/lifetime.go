package main

import (
	"go/ast"
	"go/token"
	"go/types"

	"golang.org/x/tools/go/cfg"
)

// A function dispatches on a lifetime either with `switch x.Lifetime { case … }`
// or with a chain of `if x.Lifetime == C` tests (possibly with early returns and
// a straight-line tail for the last lifetime). Both forms yield the same edges
// in the control-flow graph, so the rules do not look at clause bodies: they
// analyse the whole function restricted to the paths that are consistent with
// "the lifetime is L" (Flow.Restrict).

type ltDispatch struct {
	fi     *FuncInfo
	info   *types.Info
	caseOf map[ast.Expr]bool // case expressions of switches whose tag has type Lifetime
	consts map[string]bool   // lifetime constants the function compares against
	pos    token.Pos         // position of the first test
}

func isLifetimeType(t types.Type) bool { return t != nil && isNamedType(t, modPath, "Lifetime") }

// lifetimeConst returns the name of the Lifetime constant e denotes.
func lifetimeConst(info *types.Info, e ast.Expr) (string, bool) {
	e = unparen(e)
	var o types.Object
	switch x := e.(type) {
	case *ast.Ident:
		o = info.Uses[x]
	case *ast.SelectorExpr:
		o = info.Uses[x.Sel]
	}
	if c, ok := o.(*types.Const); ok && isLifetimeType(c.Type()) {
		return c.Name(), true
	}
	return "", false
}

func lifetimeDispatch(w *World, fi *FuncInfo) *ltDispatch {
	d := &ltDispatch{fi: fi, info: fi.Pkg.TypesInfo, caseOf: map[ast.Expr]bool{}, consts: map[string]bool{}}
	note := func(p token.Pos) {
		if !d.pos.IsValid() || p < d.pos {
			d.pos = p
		}
	}
	ast.Inspect(fi.Decl.Body, func(n ast.Node) bool {
		switch x := n.(type) {
		case *ast.SwitchStmt:
			if x.Tag == nil {
				return true
			}
			if tv, ok := d.info.Types[x.Tag]; !ok || !isLifetimeType(tv.Type) {
				return true
			}
			for _, c := range x.Body.List {
				for _, e := range c.(*ast.CaseClause).List {
					if name, ok := lifetimeConst(d.info, e); ok {
						d.caseOf[e] = true
						d.consts[name] = true
						note(x.Pos())
					}
				}
			}
		case *ast.BinaryExpr:
			if x.Op != token.EQL && x.Op != token.NEQ {
				return true
			}
			for _, pair := range [][2]ast.Expr{{x.X, x.Y}, {x.Y, x.X}} {
				if name, ok := lifetimeConst(d.info, pair[1]); ok {
					if tv, ok := d.info.Types[pair[0]]; ok && isLifetimeType(tv.Type) {
						if _, isConst := lifetimeConst(d.info, pair[0]); !isConst {
							d.consts[name] = true
							note(x.Pos())
						}
					}
				}
			}
		}
		return true
	})
	return d
}

// dispatches: the function distinguishes at least two lifetimes.
func (d *ltDispatch) dispatches() bool { return len(d.consts) >= 2 }

// eval evaluates a branch condition under "the lifetime is L" (three-valued).
func (d *ltDispatch) eval(cond ast.Expr, L string) (val, known bool) {
	if cond == nil {
		return false, false
	}
	if d.caseOf[cond] {
		name, _ := lifetimeConst(d.info, cond)
		return name == L, true
	}
	switch x := unparen(cond).(type) {
	case *ast.UnaryExpr:
		if x.Op == token.NOT {
			v, k := d.eval(x.X, L)
			return !v, k
		}
	case *ast.BinaryExpr:
		switch x.Op {
		case token.EQL, token.NEQ:
			for _, pair := range [][2]ast.Expr{{x.X, x.Y}, {x.Y, x.X}} {
				if name, ok := lifetimeConst(d.info, pair[1]); ok {
					if tv, ok := d.info.Types[pair[0]]; ok && isLifetimeType(tv.Type) {
						if _, isConst := lifetimeConst(d.info, pair[0]); !isConst {
							return (name == L) == (x.Op == token.EQL), true
						}
					}
				}
			}
		case token.LAND:
			a, ka := d.eval(x.X, L)
			b, kb := d.eval(x.Y, L)
			switch {
			case ka && !a, kb && !b:
				return false, true
			case ka && kb:
				return a && b, true
			}
		case token.LOR:
			a, ka := d.eval(x.X, L)
			b, kb := d.eval(x.Y, L)
			switch {
			case ka && a, kb && b:
				return true, true
			case ka && kb:
				return a || b, true
			}
		}
	}
	return false, false
}

// flowFor returns the function's flow restricted to lifetime L; every edge the
// restriction decided carries the fact "lt:L" (so "after the dispatch" is a
// must-fact).
func (d *ltDispatch) flowFor(w *World, L string) *Flow {
	return w.FlowOf(d.fi).Restrict(
		func(b *cfg.Block, i int, cond ast.Expr) bool {
			v, known := d.eval(cond, L)
			return known && ((v && i == 1) || (!v && i == 0))
		},
		func(b *cfg.Block, i int, cond ast.Expr) []string {
			if _, known := d.eval(cond, L); known {
				return []string{"lt:" + L}
			}
			return nil
		})
}

// reachableUnder reports whether CFG node n of the function can execute when the lifetime is L.
func (d *ltDispatch) reachableUnder(w *World, L string, pos token.Pos) bool {
	fl := d.flowFor(w, L)
	for _, n := range fl.Nodes() {
		if n.Pos() <= pos && pos < n.End() {
			return true
		}
	}
	return false
}

// mayFacts: union of the event facts over all blocks reachable when the lifetime is L.
func (d *ltDispatch) mayFacts(w *World, ev *Events, L string) (Facts, *Flow) {
	fl := d.flowFor(w, L)
	// callees that dispatch on the lifetime themselves are followed along the paths of L only
	// (a per-lifetime copy of the event summaries: the memo is keyed by body)
	evL := *ev
	evL.memo, evL.busy = map[evKey]Facts{}, map[evKey]bool{}
	evL.FlowFor = func(body *ast.BlockStmt) *Flow {
		for _, fi := range w.Decls {
			if fi.Decl.Body == body {
				if d2 := lifetimeDispatch(w, fi); d2.dispatches() {
					return d2.flowFor(w, L)
				}
				return nil
			}
		}
		return nil
	}
	ev = &evL
	sol := ev.Solve(fl, false)
	all := Facts{}
	for _, b := range fl.G.Blocks {
		if fl.live(b) {
			for k := range sol.Out[b] {
				all[k] = true
			}
		}
	}
	return all, fl
}
