package main

import (
	"go/ast"
	"go/token"
	"go/types"
)

// A key value (instanceKey, TypeKey, GroupKey, NodeKey) is built by a composite
// literal, or by a call to a key constructor: a repository function or method
// whose body is `return K{…}` with field values taken from its parameters or
// receiver (newInstanceKey(t, k, g), d.serviceKey()). keyConsOf describes either
// form in the caller's namespace, so that the rules about identities do not
// depend on which form the code uses.

type keyField struct {
	set      bool
	base     types.Object // the object the value is selected from (dep, descriptor, …), nil if none
	baseStr  string
	baseType types.Type
	sel      string // the selected field name, "" if the value is not a field selection
	str      string // rendering in the caller's namespace
	expr     ast.Expr
}

type keyCons struct {
	typ  string
	pos  token.Pos
	node ast.Expr
	f    map[string]keyField
}

var keyTypeNames = map[string]bool{"instanceKey": true, "NodeKey": true, "TypeKey": true, "GroupKey": true}

func keyTypeName(t types.Type) string {
	if n := namedOf(t); n != nil && keyTypeNames[n.Obj().Name()] {
		if _, ok := n.Underlying().(*types.Struct); ok {
			return n.Obj().Name()
		}
	}
	return ""
}

func fieldFromExpr(info *types.Info, v ast.Expr) keyField {
	kf := keyField{set: true, str: exprStr(v), expr: v}
	if sel, ok := unparen(v).(*ast.SelectorExpr); ok {
		if fv := fieldOf(info, sel); fv != nil {
			kf.sel = sel.Sel.Name
		}
	}
	if b := selBase(v); b != nil {
		kf.base = objOf(info, b)
		kf.baseStr = exprStr(b)
		kf.baseType = info.TypeOf(b)
	}
	return kf
}

// literalFields maps the fields of a struct literal (keyed or positional).
func literalFields(info *types.Info, cl *ast.CompositeLit) map[string]ast.Expr {
	out := compositeFields(cl)
	if len(out) == 0 && len(cl.Elts) > 0 {
		if tv, ok := info.Types[cl]; ok {
			if st, ok := tv.Type.Underlying().(*types.Struct); ok && st.NumFields() == len(cl.Elts) {
				out = map[string]ast.Expr{}
				for i, e := range cl.Elts {
					out[st.Field(i).Name()] = e
				}
			}
		}
	}
	return out
}

// keyConstructor: fi's body is a single `return K{…}` (optionally preceded by
// nothing else); returns the literal.
func keyConstructorLit(fi *FuncInfo) *ast.CompositeLit {
	if fi == nil || fi.Decl.Body == nil || len(fi.Decl.Body.List) != 1 {
		return nil
	}
	ret, ok := fi.Decl.Body.List[0].(*ast.ReturnStmt)
	if !ok || len(ret.Results) != 1 {
		return nil
	}
	cl := litOf(ret.Results[0])
	if cl == nil {
		return nil
	}
	if tv, ok := fi.Pkg.TypesInfo.Types[cl]; !ok || keyTypeName(tv.Type) == "" {
		return nil
	}
	return cl
}

func keyConsOf(w *World, info *types.Info, e ast.Expr) *keyCons {
	e = unparen(e)
	if cl := litOf(e); cl != nil {
		tv, ok := info.Types[cl]
		if !ok || keyTypeName(tv.Type) == "" {
			return nil
		}
		kc := &keyCons{typ: keyTypeName(tv.Type), pos: cl.Pos(), node: cl, f: map[string]keyField{}}
		for name, v := range literalFields(info, cl) {
			kc.f[name] = fieldFromExpr(info, v)
		}
		return kc
	}
	c, ok := e.(*ast.CallExpr)
	if !ok {
		return nil
	}
	cal := callee(info, c)
	if cal == nil {
		return nil
	}
	t := w.Decls[cal]
	cl := keyConstructorLit(t)
	if cl == nil {
		return nil
	}
	tinfo := t.Pkg.TypesInfo
	// callee objects -> caller expressions
	m := map[types.Object]ast.Expr{}
	var params []*ast.Ident
	for _, f := range t.Decl.Type.Params.List {
		params = append(params, f.Names...)
	}
	for i, a := range c.Args {
		if i < len(params) {
			m[tinfo.Defs[params[i]]] = a
		}
	}
	if t.Decl.Recv != nil && len(t.Decl.Recv.List[0].Names) == 1 {
		if rcv, _, ok := methodCall(c); ok {
			m[tinfo.Defs[t.Decl.Recv.List[0].Names[0]]] = rcv
		}
	}
	kc := &keyCons{typ: keyTypeName(tinfo.Types[cl].Type), pos: c.Pos(), node: c, f: map[string]keyField{}}
	for name, v := range literalFields(tinfo, cl) {
		v = unparen(v)
		if o := objOf(tinfo, v); o != nil {
			if a, ok := m[o]; ok {
				kc.f[name] = fieldFromExpr(info, a)
				continue
			}
		}
		if sel, ok := v.(*ast.SelectorExpr); ok {
			if o := objOf(tinfo, sel.X); o != nil {
				if a, ok := m[o]; ok && fieldOf(tinfo, sel) != nil {
					kf := keyField{set: true, sel: sel.Sel.Name, str: exprStr(a) + "." + sel.Sel.Name, baseStr: exprStr(a), baseType: info.TypeOf(a)}
					kf.base = objOf(info, a)
					if kf.base == nil {
						if b := selBase(a); b != nil {
							kf.base = objOf(info, b)
						}
					}
					kc.f[name] = kf
					continue
				}
			}
		}
		kc.f[name] = keyField{set: true, str: exprStr(v)}
	}
	return kc
}

// keyConsIn lists the key constructions inside n.
func keyConsIn(w *World, info *types.Info, n ast.Node) []*keyCons {
	var out []*keyCons
	if n == nil {
		return nil
	}
	ast.Inspect(n, func(x ast.Node) bool {
		e, ok := x.(ast.Expr)
		if !ok {
			return true
		}
		switch e.(type) {
		case *ast.CompositeLit, *ast.CallExpr:
			if kc := keyConsOf(w, info, e); kc != nil {
				out = append(out, kc)
				return false
			}
		}
		return true
	})
	return out
}
