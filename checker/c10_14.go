package main

import (
	"fmt"
	"go/ast"
	"go/token"
	"go/types"
	"strings"

	"golang.org/x/tools/go/cfg"
	"golang.org/x/tools/go/packages"
)

// ---------------------------------------------------------------------------
// roles

// lifetimeSwitches returns the switch statements of fi whose tag has type Lifetime.
func lifetimeSwitches(w *World, fi *FuncInfo) []*ast.SwitchStmt {
	var out []*ast.SwitchStmt
	info := fi.Pkg.TypesInfo
	ast.Inspect(fi.Decl.Body, func(n ast.Node) bool {
		if sw, ok := n.(*ast.SwitchStmt); ok && sw.Tag != nil {
			if tv, ok := info.Types[sw.Tag]; ok && isNamedType(tv.Type, modPath, "Lifetime") {
				out = append(out, sw)
			}
		}
		return true
	})
	return out
}

// caseRegion returns the statements executed when the switch tag equals the
// lifetime constant name (closed under fallthrough), or nil if there is no clause.
func caseRegion(info *types.Info, sw *ast.SwitchStmt, constName string) ([]ast.Stmt, bool) {
	clauses := sw.Body.List
	for i, c := range clauses {
		cc := c.(*ast.CaseClause)
		match := false
		for _, e := range cc.List {
			if o := objOf(info, e); o != nil && o.Name() == constName {
				match = true
			}
			if sel, ok := unparen(e).(*ast.SelectorExpr); ok && sel.Sel.Name == constName {
				match = true
			}
		}
		if !match {
			continue
		}
		var out []ast.Stmt
		for j := i; j < len(clauses); j++ {
			body := clauses[j].(*ast.CaseClause).Body
			ft := false
			for _, s := range body {
				if b, ok := s.(*ast.BranchStmt); ok && b.Tok == token.FALLTHROUGH {
					ft = true
					continue
				}
				out = append(out, s)
			}
			if !ft {
				break
			}
		}
		return out, true
	}
	return nil, false
}

// roleFuncs resolves the container's internal roles structurally (names are only hints).
type roles struct {
	setInstance    *FuncInfo            // method of *scope with a Lifetime switch that stores into the scope cache
	resolve        *FuncInfo            // method of *scope with a Lifetime switch that calls createInstance
	createInstance *FuncInfo            // method of *scope that calls ConstructorInvoker.Invoke* (the core)
	creators       map[*types.Func]bool // the core and the *scope wrappers through which it is reached
	createEntry    *FuncInfo            // the member of the chain that resolve calls
	resolveTop     *FuncInfo            // the *scope method the entry points call: registry lookup, built-ins, then the lifetime dispatch (= resolve unless that was split)
	setSingleton   *FuncInfo            // method of *provider that stores into the sync.Map
	getInstance    *FuncInfo
	getSingleton   *FuncInfo
	runInits       *FuncInfo // method of *scope ranging over the provider's initializer list
	newScope       *FuncInfo
	allocScope     *FuncInfo // function containing the &scope{} literal
	doBuild        *FuncInfo // the build function: runs the cycle check (itself or through cycleHelper) and allocates the provider (itself or through allocProvider)
	cycleHelper    *FuncInfo // the private helper of doBuild that fills the graph and runs the cycle check, when it is not doBuild itself
	allocProvider  *FuncInfo // function containing the &provider{} literal (doBuild or a private helper of it)
	createAll      *FuncInfo // method of *provider calling TopologicalSort
	cache          *types.Var
	singletons     *types.Var
	initList       *types.Var
}

// isCreate: cal constructs an instance (the core createInstance or a wrapper on the way to it).
func (ro *roles) isCreate(cal *types.Func) bool { return cal != nil && ro.creators[cal] }

var rolesCache *roles

// lookupSite recognises `v, ok := <lookup>(key)` in any form: a call of the
// getInstance / getSingleton helpers (or a pure delegation to them), a comma-ok
// read of the cache map, a Load on the singleton table. It returns the table and
// the key expression.
func (ro *roles) lookupSite(w *World, info *types.Info, rhs ast.Expr) (*types.Var, ast.Expr) {
	switch x := unparen(rhs).(type) {
	case *ast.CallExpr:
		cal := callee(info, x)
		if cal == nil {
			return nil, nil
		}
		if len(x.Args) == 1 {
			if ro.getInstance != nil && cal == ro.getInstance.Obj {
				return ro.cache, x.Args[0]
			}
			if ro.isGetSingleton(w, cal) {
				return ro.singletons, x.Args[0]
			}
			if r, name, ok := methodCall(x); ok && name == "Load" && fieldOf(info, r) == ro.singletons {
				return ro.singletons, x.Args[0]
			}
		}
	case *ast.IndexExpr:
		if fv := fieldOf(info, x.X); fv != nil && (fv == ro.cache || fv == ro.singletons) {
			return fv, x.Index
		}
	}
	return nil, nil
}

// isGetSingleton: the lookup in the singleton table, or a function that only delegates to it.
func (ro *roles) isGetSingleton(w *World, cal *types.Func) bool {
	if cal == nil || ro.getSingleton == nil {
		return false
	}
	if cal == ro.getSingleton.Obj {
		return true
	}
	if t := w.Decls[cal]; t != nil {
		if d := pureDelegation(w, t); d != nil && (d == ro.getSingleton || pureDelegation(w, d) == ro.getSingleton) {
			return true
		}
	}
	return false
}

func resolveRoles(w *World) *roles {
	if rolesCache != nil {
		return rolesCache
	}
	ro := &roles{}
	ro.cache = w.FieldByType(w.Godi, "scope", "scoped cache", func(t types.Type) bool {
		m, ok := t.Underlying().(*types.Map)
		return ok && isNamedType(m.Key(), modPath, "instanceKey")
	})
	ro.singletons = w.FieldByType(w.Godi, "provider", "singleton table", func(t types.Type) bool {
		return isNamedType(t, "sync", "Map")
	})
	ro.initList = w.FieldByType(w.Godi, "provider", "initializer list", func(t types.Type) bool {
		s, ok := t.Underlying().(*types.Slice)
		return ok && isNamedType(s.Elem(), modPath, "Descriptor")
	})
	for _, fi := range w.FuncsOf(w.Godi) {
		info := fi.Pkg.TypesInfo
		rn := recvNamed(fi.Obj)
		recv := ""
		if rn != nil {
			recv = rn.Obj().Name()
		}
		callsInvoke, callsTopo, storesCache, storesSingle, readsCache, loadsSingle, rangesInit := false, false, false, false, false, false, false
		ast.Inspect(fi.Decl.Body, func(n ast.Node) bool {
			switch x := n.(type) {
			case *ast.CallExpr:
				if cal := callee(info, x); cal != nil {
					if rn := recvNamed(cal); rn != nil && rn.Obj().Name() == "ConstructorInvoker" && strings.HasPrefix(cal.Name(), "Invoke") {
						callsInvoke = true
					}
					if cal.Name() == "TopologicalSort" {
						callsTopo = true
					}
					if r, _, ok := methodCall(x); ok && fieldOf(info, r) == ro.singletons {
						switch cal.Name() {
						case "Store", "LoadOrStore", "Swap":
							storesSingle = true
						case "Load":
							loadsSingle = true
						}
					}
				}
			case *ast.AssignStmt:
				for _, l := range x.Lhs {
					if ix, ok := unparen(l).(*ast.IndexExpr); ok && fieldOf(info, ix.X) == ro.cache {
						storesCache = true
					}
				}
				// the singleton table as a plain map under a lock
				if st, ld, _ := tableOpsIn(info, x, ro.singletons); len(st) > 0 || len(ld) > 0 {
					storesSingle = storesSingle || len(st) > 0
					loadsSingle = loadsSingle || len(ld) > 0
				}
				for _, rh := range x.Rhs {
					if ix, ok := unparen(rh).(*ast.IndexExpr); ok && fieldOf(info, ix.X) == ro.cache {
						readsCache = true
					}
				}
			case *ast.CompositeLit:
				if tv, ok := info.Types[x]; ok {
					if isNamedType(tv.Type, modPath, "scope") {
						ro.allocScope = fi
					}
					if isNamedType(tv.Type, modPath, "provider") {
						ro.allocProvider = fi
					}
				}
			case *ast.RangeStmt, *ast.ForStmt:
				if il := asIterLoop(info, x.(ast.Stmt)); il != nil {
					if f, how := exprOrigin(w, fi, il.Coll); f == ro.initList && (how == "copy" || how == "direct") {
						rangesInit = true
					}
				}
			}
			return true
		})
		hasSwitch := lifetimeDispatch(w, fi).dispatches()
		switch {
		case recv == "scope" && callsInvoke:
			if ro.createInstance == nil || isCoreShape(fi) {
				ro.createInstance = fi
			}
		case recv == "scope" && hasSwitch && (storesCache || fi.Obj.Name() == "setInstance") && !callsInvoke:
			ro.setInstance = fi
		case recv == "provider" && storesSingle:
			ro.setSingleton = fi
		case recv == "scope" && readsCache && !hasSwitch:
			// the pure lookup: (key) (any, bool), writes nothing
			sig := fi.Obj.Type().(*types.Signature)
			pure := sig.Results().Len() == 2 && !storesCache
			if b, ok := sig.Results().At(sig.Results().Len() - 1).Type().Underlying().(*types.Basic); !ok || b.Info()&types.IsBoolean == 0 {
				pure = false
			}
			if ro.getInstance == nil || pure {
				ro.getInstance = fi
			}
		case recv == "provider" && loadsSingle && !callsTopo:
			ro.getSingleton = fi
		case recv == "provider" && callsTopo:
			ro.createAll = fi
		case recv == "scope" && rangesInit && fi.Obj.Name() != "Close":
			ro.runInits = fi
		}
	}
	// setInstance / setSingleton when caching and tracking were split into several functions:
	// the role is the function that reaches the append to the owner's disposal list
	{
		tracks := func(fi *FuncInfo, owner string) bool {
			for _, g := range w.Within(fi, 2) {
				if g != fi && lifetimeDispatch(w, g).dispatches() {
					continue
				}
				found := false
				ast.Inspect(g.Decl.Body, func(n ast.Node) bool {
					if as, ok := n.(*ast.AssignStmt); ok {
						for i, l := range as.Lhs {
							fv := fieldOf(g.Pkg.TypesInfo, l)
							if fv == nil || i >= len(as.Rhs) || ownerOfFieldRaw(w, fv) != owner {
								continue
							}
							if sl, ok := fv.Type().Underlying().(*types.Slice); ok && isNamedType(sl.Elem(), modPath, "Disposable") {
								if c, ok := unparen(as.Rhs[i]).(*ast.CallExpr); ok && exprStr(c.Fun) == "append" {
									found = true
								}
							}
						}
					}
					return !found
				})
				if found {
					return true
				}
			}
			return false
		}
		for _, fi := range w.FuncsOf(w.Godi) {
			if recvIs(fi, "scope") && fi != ro.createInstance && lifetimeDispatch(w, fi).dispatches() && tracks(fi, "scope") {
				callsInvoke := false
				for _, c := range callsIn(fi.Decl.Body, true) {
					if cal := callee(fi.Pkg.TypesInfo, c); cal != nil && recvNamed(cal) != nil && recvNamed(cal).Obj().Name() == "ConstructorInvoker" {
						callsInvoke = true
					}
				}
				if !callsInvoke {
					ro.setInstance = fi
				}
			}
		}
		// the provider method that stores a singleton and tracks it
		var storeFns []*FuncInfo
		for _, fi := range w.FuncsOf(w.Godi) {
			if !recvIs(fi, "provider") {
				continue
			}
			for _, g := range w.Within(fi, 2) {
				if g != fi && !recvIs(g, "provider") {
					continue
				}
				stores := false
				if st, _, _ := tableOpsIn(g.Pkg.TypesInfo, g.Decl.Body, ro.singletons); len(st) > 0 {
					stores = true
				}
				for _, c := range callsIn(g.Decl.Body, true) {
					if r2, _, ok := methodCall(c); ok && fieldOf(g.Pkg.TypesInfo, r2) == ro.singletons {
						if cal := callee(g.Pkg.TypesInfo, c); cal != nil && (cal.Name() == "Store" || cal.Name() == "LoadOrStore" || cal.Name() == "Swap") {
							stores = true
						}
					}
				}
				if stores && tracks(fi, "provider") {
					storeFns = append(storeFns, fi)
				}
			}
		}
		if len(storeFns) >= 1 {
			ro.setSingleton = storeFns[0]
		}
	}
	// the invoker call may live in a private helper (invokeConstructor): the core
	// is then the *scope method of the shape func(*Descriptor) (any, error) that drives it
	for hops := 0; ro.createInstance != nil && !isCoreShape(ro.createInstance) && hops < 3; hops++ {
		var up *FuncInfo
		for c := range w.Callers()[ro.createInstance] {
			if recvIs(c, "scope") && (up == nil || isCoreShape(c)) {
				up = c
			}
		}
		if up == nil {
			break
		}
		ro.createInstance = up
	}
	// the creation chain: the core plus *scope methods of the same shape that call a member
	ro.creators = map[*types.Func]bool{}
	if ro.createInstance != nil {
		ro.creators[ro.createInstance.Obj] = true
		coreSig := ro.createInstance.Obj.Type().(*types.Signature)
		for changed := true; changed; {
			changed = false
			for _, fi := range w.FuncsOf(w.Godi) {
				if ro.creators[fi.Obj] || !recvIs(fi, "scope") || fi == ro.setInstance || lifetimeDispatch(w, fi).dispatches() {
					continue
				}
				sig := fi.Obj.Type().(*types.Signature)
				// a wrapper hands back what the core produced: same results, and it is given the descriptor
				if !types.Identical(sig.Results(), coreSig.Results()) || descriptorParam(fi) == nil {
					continue
				}
				if fi == ro.setSingleton || fi.Obj.Name() == "Close" {
					continue
				}
				for _, c := range callsIn(fi.Decl.Body, true) {
					if ro.creators[callee(fi.Pkg.TypesInfo, c)] {
						ro.creators[fi.Obj] = true
						changed = true
					}
				}
			}
		}
	}
	// resolve: the scope method with a Lifetime switch that calls into the creation chain
	for _, fi := range w.FuncsOf(w.Godi) {
		if rn := recvNamed(fi.Obj); rn == nil || rn.Obj().Name() != "scope" || fi == ro.setInstance {
			continue
		}
		if !lifetimeDispatch(w, fi).dispatches() || ro.createInstance == nil {
			continue
		}
		for _, c := range callsIn(fi.Decl.Body, true) {
			if cal := callee(fi.Pkg.TypesInfo, c); ro.creators[cal] {
				ro.resolve = fi
				ro.createEntry = w.Decls[cal]
			}
		}
	}
	// resolveTop: the unexported *scope method from which the dispatching function is reached
	ro.resolveTop = ro.resolve
	for hops := 0; ro.resolveTop != nil && hops < 3; hops++ {
		var up *FuncInfo
		n := 0
		for c := range w.Callers()[ro.resolveTop] {
			if c == ro.resolveTop {
				continue
			}
			n++
			if recvIs(c, "scope") && !c.Obj.Exported() && !ro.creators[c.Obj] && c != ro.runInits {
				up = c
			}
		}
		if n != 1 || up == nil {
			break
		}
		ro.resolveTop = up
	}
	ro.newScope = w.Fn(w.Godi, "newScope")
	// the function that runs the cycle check (a collection method, or a plain helper of the build)
	var cycleFn *FuncInfo
	cycleRank := 0
	for _, fi := range w.FuncsOf(w.Godi) {
		isColl := false
		if rn := recvNamed(fi.Obj); rn != nil && rn.Obj().Name() == "collection" {
			isColl = true
		}
		for _, c := range callsIn(fi.Decl.Body, true) {
			if cal := callee(fi.Pkg.TypesInfo, c); cal != nil && cal.Name() == "DetectCycles" && recvNamed(cal) != nil && recvNamed(cal).Obj().Name() == "DependencyGraph" {
				// several functions may run the cycle check (a Validate dry run next to Build): the one
				// on the way to the provider allocation is Build's
				rank := 1
				if isColl {
					rank = 2
				}
				if ro.allocProvider != nil {
					for _, f := range w.Within(fi, 2) {
						if f == ro.allocProvider {
							rank += 4
						}
					}
					for c := range w.Callers()[fi] {
						for _, f := range w.Within(c, 2) {
							if f == ro.allocProvider {
								rank += 2
							}
						}
					}
				}
				if cycleFn == nil || rank > cycleRank {
					cycleFn, cycleRank = fi, rank
				}
			}
		}
	}
	ro.doBuild = cycleFn
	if cycleFn != nil && ro.allocProvider != nil && cycleFn != ro.allocProvider {
		reaches := false
		for _, f := range w.Within(cycleFn, 2) {
			if f == ro.allocProvider {
				reaches = true
			}
		}
		if !reaches {
			// cycle check and allocation are siblings: the build function is their closest common caller
			up := func(f *FuncInfo) map[*FuncInfo]int {
				out := map[*FuncInfo]int{f: 0}
				frontier := []*FuncInfo{f}
				for d := 1; d <= 2; d++ {
					var next []*FuncInfo
					for _, g := range frontier {
						for c := range w.Callers()[g] {
							if _, seen := out[c]; !seen && c.Pkg == w.Godi {
								out[c] = d
								next = append(next, c)
							}
						}
					}
					frontier = next
				}
				return out
			}
			a, b := up(cycleFn), up(ro.allocProvider)
			var best *FuncInfo
			bestD := 99
			for f, da := range a {
				if db, ok := b[f]; ok && f != cycleFn {
					if d := da + db; d < bestD || (d == bestD && best != nil && f.Decl.Pos() < best.Decl.Pos()) {
						best, bestD = f, d
					}
				}
			}
			if best != nil {
				ro.doBuild = best
				ro.cycleHelper = cycleFn
			}
		}
	}
	if ro.doBuild == nil {
		ro.doBuild = ro.allocProvider
	}
	for name, f := range map[string]*FuncInfo{"setInstance": ro.setInstance, "resolve": ro.resolve, "createInstance": ro.createInstance,
		"setSingleton": ro.setSingleton, "scope initializer pass": ro.runInits,
		"scope allocation": ro.allocScope, "provider allocation (doBuild)": ro.doBuild, "eager singleton creation": ro.createAll} {
		if f == nil {
			undecidedf("role %q could not be resolved structurally", name)
		}
	}
	rolesCache = ro
	return ro
}

// synthFlow builds a flow over a list of statements (a case region).
func synthFlow(w *World, fi *FuncInfo, stmts []ast.Stmt) *Flow {
	return NewFlow(w, fi.Pkg, &ast.BlockStmt{List: stmts, Lbrace: token.NoPos, Rbrace: token.NoPos}, fi.Name()+"#region")
}

// ---------------------------------------------------------------------------
// tracking events (setInstance / setSingleton)

func trackingEvents(w *World, ro *roles) *Events {
	return NewEvents(w, func(info *types.Info, call *ast.CallExpr, cal *types.Func) []string {
		var out []string
		if cal != nil {
			if r, _, ok := methodCall(call); ok && fieldOf(info, r) == ro.singletons && (cal.Name() == "Store" || cal.Name() == "LoadOrStore" || cal.Name() == "Swap") {
				out = append(out, "store:singletons")
			}
			// the lookup written out at its call site (the one-line getSingleton inlined)
			if r, _, ok := methodCall(call); ok && fieldOf(info, r) == ro.singletons && cal.Name() == "Load" {
				out = append(out, "call:getSingleton")
			}
			if _, k, ok := isCloseCall(info, call); ok && k == "disposable" {
				out = append(out, "dispclose")
			}
			if cal == ro.setSingleton.Obj {
				out = append(out, "call:setSingleton")
			}
			if ro.isCreate(cal) {
				out = append(out, "call:createInstance")
			}
			if cal == ro.setInstance.Obj {
				out = append(out, "call:setInstance")
			}
			if ro.getInstance != nil && cal == ro.getInstance.Obj {
				out = append(out, "call:getInstance")
			}
			if ro.isGetSingleton(w, cal) {
				out = append(out, "call:getSingleton")
			}
			if rn := recvNamed(cal); rn != nil && rn.Obj().Name() == "ConstructorInvoker" && strings.HasPrefix(cal.Name(), "Invoke") {
				out = append(out, "call:Invoke")
			}
		}
		return out
	})
}

func withStoreGens(ev *Events, w *World, ro *roles) *Events {
	ev.NodeGen = func(pkg *packages.Package, n ast.Node) []string {
		info := pkg.TypesInfo
		var out []string
		if as, ok := n.(*ast.AssignStmt); ok {
			for i, l := range as.Lhs {
				if ix, ok := unparen(l).(*ast.IndexExpr); ok {
					if fv := fieldOf(info, ix.X); fv != nil {
						out = append(out, "store:"+ownerField(w, fv))
						if fv == ro.singletons {
							out = append(out, "store:singletons")
						}
					}
				}
				if fv := fieldOf(info, l); fv != nil && i < len(as.Rhs) {
					if c, ok := unparen(as.Rhs[i]).(*ast.CallExpr); ok && exprStr(c.Fun) == "append" {
						out = append(out, "append:"+ownerField(w, fv))
					}
				}
			}
			for _, rh := range as.Rhs {
				if ix, ok := unparen(rh).(*ast.IndexExpr); ok {
					if fv := fieldOf(info, ix.X); fv != nil {
						out = append(out, "read:"+ownerField(w, fv))
						if fv == ro.singletons {
							out = append(out, "call:getSingleton")
						}
					}
				}
			}
		}
		return out
	}
	return ev
}

// ---------------------------------------------------------------------------
// R-ENTRY

func ruleEntry(w *World, r *Report, rule string) {
	for _, owner := range []string{"scope", "provider"} {
		sentinel := map[string]string{"scope": "ErrScopeDisposed", "provider": "ErrProviderDisposed"}[owner]
		flag := w.Field(w.Godi, owner, "disposed")
		for _, m := range []string{"Get", "GetKeyed", "GetGroup", "CreateScope"} {
			fi := w.MustFn(w.Godi, "(*"+owner+")."+m)
			r.Analysed(fi)
			con := fi.Name() + "#entry-check"
			// a pure delegation (`return s.getService(t, k, keyed)`) is analysed in the function it delegates to
			body := fi
			for i := 0; i < 2; i++ {
				t := pureDelegation(w, body)
				if t == nil {
					break
				}
				body = t
				r.Analysed(t)
			}
			res := analyseEntry(w, body, flag, sentinel, 2)
			bad := res.bad
			if bad == "" && !res.sawTest {
				bad = "the method never tests its own disposed flag"
			}
			if bad != "" {
				r.Fail(rule, con, fi.Decl.Pos(), "%s: %s", fi.Name(), bad)
			} else {
				r.OK(rule, con, fi.Decl.Pos(), true, "atomic load of %s.disposed dominates every effect; its set edge returns %s", owner, sentinel)
			}
		}
	}
}

// pureDelegation: the body of fi is a single `return recv.helper(args…)` to an
// unexported method of the same receiver (no other statement, no other call).
func pureDelegation(w *World, fi *FuncInfo) *FuncInfo {
	if fi.Decl.Recv == nil || len(fi.Decl.Recv.List[0].Names) != 1 || len(fi.Decl.Body.List) != 1 {
		return nil
	}
	ret, ok := fi.Decl.Body.List[0].(*ast.ReturnStmt)
	if !ok || len(ret.Results) != 1 {
		return nil
	}
	c, ok := unparen(ret.Results[0]).(*ast.CallExpr)
	if !ok {
		return nil
	}
	info := fi.Pkg.TypesInfo
	rcv, _, isM := methodCall(c)
	if !isM || objOf(info, rcv) != info.Defs[fi.Decl.Recv.List[0].Names[0]] {
		return nil
	}
	for _, a := range c.Args {
		if len(callsIn(a, true)) > 0 {
			return nil
		}
	}
	cal := callee(info, c)
	if cal == nil || cal.Exported() {
		return nil
	}
	t := w.Decls[cal]
	if t == nil || t.Pkg != fi.Pkg || t == fi {
		return nil
	}
	return t
}

type entryResult struct {
	bad     string
	sawTest bool
	pure    bool // no effects at all (only the flag test and argument checks)
}

// analyseEntry: in fi (and the private checking helpers it calls: functions
// whose last result is an error or a bool and which test the flag), every
// effect is dominated by "the disposed flag was found clear", and every exit on
// the "found set" edge returns the sentinel (or propagates the helper's error).
func analyseEntry(w *World, fi *FuncInfo, flag *types.Var, sentinel string, depth int) entryResult {
	return analyseEntryWith(w, fi, flag, sentinel, depth, false)
}

// analyseEntryWith: lax counts only calls into the repository (and dynamic
// calls) as effects - what a method does with the standard library before it
// looks at the container is not use of the container.
func analyseEntryWith(w *World, fi *FuncInfo, flag *types.Var, sentinel string, depth int, lax bool) entryResult {
	info := fi.Pkg.TypesInfo
	fl := w.FlowOf(fi)
	res := entryResult{pure: true}
	// checking helpers called here
	checking := map[*types.Func]bool{}
	errVarOf := map[types.Object]bool{}
	if depth > 0 {
		for _, n := range fl.Nodes() {
			for _, c := range callsIn(n, false) {
				cal := callee(info, c)
				if cal == nil || cal.Exported() || w.Decls[cal] == nil || w.Decls[cal].Pkg != fi.Pkg || w.Decls[cal] == fi {
					continue
				}
				sub := analyseEntryWith(w, w.Decls[cal], flag, sentinel, depth-1, lax)
				if !sub.sawTest || !sub.pure {
					continue
				}
				checking[cal] = true
				res.sawTest = true
				if sub.bad != "" && res.bad == "" {
					res.bad = "in " + w.Decls[cal].Name() + ": " + sub.bad
				}
				if as, ok := n.(*ast.AssignStmt); ok && len(as.Rhs) == 1 && unparen(as.Rhs[0]) == ast.Expr(c) {
					if o := objOf(info, as.Lhs[len(as.Lhs)-1]); o != nil && isErrorType(o.Type()) {
						errVarOf[o] = true
					}
				}
			}
		}
	}
	sol := fl.Solve(Spec{Must: true, Global: globalPrefixes("alive", "dead"),
		Stop: func(h *FuncInfo) bool { return !checking[h.Obj] },
		Edge: func(b *cfg.Block, i int, cond ast.Expr, in Facts) (gen, kill []string) {
			if cond == nil {
				return
			}
			if dead, ok := disposedTest(info, cond, flag); ok {
				if dead == (i == 0) {
					gen = append(gen, "dead")
				} else {
					gen = append(gen, "alive")
				}
			}
			// the error of a checking helper, on its non-nil edge
			if be, ok := unparen(cond).(*ast.BinaryExpr); ok && (be.Op == token.NEQ || be.Op == token.EQL) {
				for _, pair := range [][2]ast.Expr{{be.X, be.Y}, {be.Y, be.X}} {
					if o := objOf(info, pair[0]); o != nil && errVarOf[o] && isNilIdent(info, pair[1]) {
						if (be.Op == token.NEQ) == (i == 0) {
							gen = append(gen, "herr:"+o.Name())
						}
					}
				}
			}
			return
		}})
	for _, n := range fl.Nodes() {
		if e, ok := n.(ast.Expr); ok {
			if _, isT := disposedTest(info, e, flag); isT {
				res.sawTest = true
				continue
			}
		}
		if isEffectNodeEntryExcept(info, n, func(cal *types.Func) bool {
			if checking[cal] {
				return true
			}
			if lax && (cal.Pkg() == nil || !strings.HasPrefix(cal.Pkg().Path(), modPath)) {
				return true
			}
			_, isP := disposedPredicate(cal, flag, 2)
			return isP
		}) {
			res.pure = false
			if !sol.Before[n].Has("alive") && res.bad == "" {
				res.bad = fmt.Sprintf("%s at %s is executed without the disposed flag having been found clear", nodeStr(n), w.Pos(n.Pos()))
			}
		}
	}
	for _, ex := range fl.Exits() {
		at := sol.AtExit(ex)
		herr := ""
		for k := range at {
			if strings.HasPrefix(k, "herr:") {
				herr = strings.TrimPrefix(k, "herr:")
			}
		}
		if !at.Has("dead") && herr == "" {
			continue
		}
		if ex.Ret == nil || len(ex.Ret.Results) == 0 {
			if res.bad == "" {
				res.bad = "the disposed edge does not return"
			}
			continue
		}
		last := ex.Ret.Results[len(ex.Ret.Results)-1]
		o := objOf(info, last)
		switch {
		case at.Has("dead") && (o == nil || o.Name() != sentinel):
			if res.bad == "" {
				res.bad = fmt.Sprintf("on the disposed edge the method returns %s, not %s", exprStr(last), sentinel)
			}
		case !at.Has("dead") && herr != "" && (o == nil || o.Name() != herr):
			if res.bad == "" {
				res.bad = fmt.Sprintf("the error of the entry check is not returned as it is (%s instead of %s)", exprStr(last), herr)
			}
		}
	}
	return res
}

// isEffectNodeEntry: calls other than pure builtins/atomic loads/conversions count as effects.
func isEffectNodeEntry(info *types.Info, n ast.Node) bool {
	return isEffectNodeEntryExcept(info, n, nil)
}

func isEffectNodeEntryExcept(info *types.Info, n ast.Node, pure func(*types.Func) bool) bool {
	eff := false
	inspectNoLit(n, func(m ast.Node) bool {
		switch x := m.(type) {
		case *ast.CallExpr:
			if cal := callee(info, x); cal != nil && isAtomicFunc(cal) && strings.HasPrefix(cal.Name(), "Load") {
				return true
			}
			if cal := callee(info, x); cal != nil && pure != nil && pure(cal) {
				return true
			}
			if id, ok := unparen(x.Fun).(*ast.Ident); ok {
				if _, isB := info.Uses[id].(*types.Builtin); isB {
					return true
				}
			}
			if tv, ok := info.Types[x.Fun]; ok && tv.IsType() {
				return true
			}
			eff = true
		case *ast.DeferStmt:
			// deferring something that is no effect (the unlock of a lock just taken) is no effect
			if cal := callee(info, x.Call); cal != nil && pure != nil && pure(cal) {
				return false
			}
			eff = true
		case *ast.GoStmt:
			eff = true
		}
		return true
	})
	return eff
}

// disposedTest matches `atomic.LoadInt32(&x.flag) != 0`, `== 0`, `x.flag.Load()`, `!x.flag.Load()`.
// dead=true means: the expression is true when the flag is set.
func disposedTest(info *types.Info, cond ast.Expr, flag *types.Var) (dead bool, ok bool) {
	return disposedTestDepth(info, cond, flag, 2)
}

// theWorld is set by Load; disposedTest follows boolean predicate helpers through it.
var theWorld *World

// disposedPredicate: for a repository function returning a single bool, whether
// "returns true" means the flag was found set (dead=true) or clear (dead=false).
func disposedPredicate(cal *types.Func, flag *types.Var, depth int) (dead bool, ok bool) {
	w := theWorld
	if w == nil || cal == nil || depth <= 0 {
		return false, false
	}
	fi := w.Decls[cal]
	if fi == nil {
		return false, false
	}
	sig := cal.Type().(*types.Signature)
	if sig.Results().Len() != 1 {
		return false, false
	}
	if b, isB := sig.Results().At(0).Type().Underlying().(*types.Basic); !isB || b.Info()&types.IsBoolean == 0 {
		return false, false
	}
	info := fi.Pkg.TypesInfo
	fl := w.FlowOf(fi)
	sol := fl.Solve(Spec{Must: true, Edge: func(b *cfg.Block, i int, cond ast.Expr, in Facts) (gen, kill []string) {
		if cond == nil {
			return
		}
		if d, isT := disposedTestDepth(info, cond, flag, depth-1); isT {
			if d == (i == 0) {
				gen = append(gen, "dead")
			} else {
				gen = append(gen, "alive")
			}
		}
		return
	}})
	// every `return true` exit agrees on one state and every `return false` exit on the other
	state := map[string]string{}
	for _, ex := range fl.Exits() {
		if ex.Ret == nil || len(ex.Ret.Results) != 1 {
			if ex.Panic {
				continue
			}
			return false, false
		}
		res := ex.Ret.Results[0]
		at := sol.AtExit(ex)
		val := exprStr(unparen(res))
		var st string
		switch {
		case at.Has("dead"):
			st = "dead"
		case at.Has("alive"):
			st = "alive"
		}
		if val != "true" && val != "false" {
			// returns the test itself
			if d, isT := disposedTestDepth(info, res, flag, depth-1); isT && st == "" {
				if d {
					state["true"], state["false"] = merge(state["true"], "dead"), merge(state["false"], "alive")
				} else {
					state["true"], state["false"] = merge(state["true"], "alive"), merge(state["false"], "dead")
				}
				continue
			}
			return false, false
		}
		if st == "" {
			return false, false
		}
		state[val] = merge(state[val], st)
	}
	switch {
	case state["true"] == "dead" && (state["false"] == "alive" || state["false"] == ""):
		return true, true
	case state["true"] == "alive" && (state["false"] == "dead" || state["false"] == ""):
		return false, true
	case state["true"] == "" && state["false"] == "dead":
		return false, true
	case state["true"] == "" && state["false"] == "alive":
		return true, true
	}
	return false, false
}

func merge(a, b string) string {
	if a == "" || a == b {
		return b
	}
	return "mixed"
}

// flagParam: while a predicate helper is being summarised, the pointer parameter
// through which it received the address of the disposed flag (nil otherwise).
var flagParam types.Object

func disposedTestDepth(info *types.Info, cond ast.Expr, flag *types.Var, depth int) (dead bool, ok bool) {
	c := unparen(cond)
	neg := false
	for {
		u, isU := c.(*ast.UnaryExpr)
		if !isU || u.Op != token.NOT {
			break
		}
		c, neg = unparen(u.X), !neg
	}
	isLoad := func(e ast.Expr) bool {
		call, isC := unparen(e).(*ast.CallExpr)
		if !isC {
			return false
		}
		cal := callee(info, call)
		if cal == nil || !isAtomicFunc(cal) || !strings.HasPrefix(cal.Name(), "Load") {
			return false
		}
		if len(call.Args) == 1 {
			if u, isU := unparen(call.Args[0]).(*ast.UnaryExpr); isU && u.Op == token.AND {
				return fieldOf(info, u.X) == flag
			}
			// atomic.LoadInt32(p) with p the pointer parameter that received &x.flag
			if flagParam != nil && objOf(info, call.Args[0]) == flagParam {
				return true
			}
		}
		if r, _, isM := methodCall(call); isM && len(call.Args) == 0 {
			if flagParam != nil && objOf(info, r) == flagParam {
				return true
			}
			return fieldOf(info, r) == flag
		}
		return false
	}
	if isLoad(c) { // atomic.Bool
		return !neg, true
	}
	if call, isC := c.(*ast.CallExpr); isC {
		// l.add(&s.disposed, d): the callee tests the flag through a pointer parameter
		saved := flagParam
		if cal := callee(info, call); cal != nil && theWorld != nil {
			if t := theWorld.Decls[cal]; t != nil {
				k := 0
				for _, f := range t.Decl.Type.Params.List {
					for _, nm := range f.Names {
						if k < len(call.Args) {
							if u, isU := unparen(call.Args[k]).(*ast.UnaryExpr); isU && u.Op == token.AND && fieldOf(info, u.X) == flag {
								flagParam = t.Pkg.TypesInfo.Defs[nm]
							}
						}
						k++
					}
				}
			}
		}
		d, isP := disposedPredicate(callee(info, call), flag, depth)
		flagParam = saved
		if isP {
			return d != neg, true
		}
	}
	be, isB := c.(*ast.BinaryExpr)
	if !isB {
		return false, false
	}
	for _, pair := range [][2]ast.Expr{{be.X, be.Y}, {be.Y, be.X}} {
		if isLoad(pair[0]) {
			if v, isC := constInt(info, pair[1]); isC && v == 0 {
				switch be.Op {
				case token.NEQ, token.GTR:
					return !neg, true
				case token.EQL:
					return neg, true
				}
			}
			if v, isC := constInt(info, pair[1]); isC && v == 1 && be.Op == token.EQL {
				return !neg, true
			}
		}
	}
	return false, false
}

// ---------------------------------------------------------------------------
// watcher goroutines and cancel ownership (R13.4, R14.5, R14.6, R10.5b)

type createScopeFacts struct {
	fi        *FuncInfo
	withCancl *ast.AssignStmt
	ctxObj    types.Object
	cancelObj types.Object
	scopeObj  types.Object // result of newScope
	goStmts   []*ast.GoStmt
}

func analyseCreateScope(w *World, fi *FuncInfo) *createScopeFacts {
	info := fi.Pkg.TypesInfo
	cs := &createScopeFacts{fi: fi}
	ast.Inspect(fi.Decl.Body, func(n ast.Node) bool {
		switch x := n.(type) {
		case *ast.AssignStmt:
			if len(x.Rhs) == 1 {
				if c, ok := unparen(x.Rhs[0]).(*ast.CallExpr); ok {
					if cal := callee(info, c); cal != nil {
						if isFunc(cal, "context", "", "WithCancel") && len(x.Lhs) == 2 {
							cs.withCancl = x
							cs.ctxObj, cs.cancelObj = objOf(info, x.Lhs[0]), objOf(info, x.Lhs[1])
						}
						if w.IsFn(cal, w.Godi, "newScope") && len(x.Lhs) == 2 {
							cs.scopeObj = objOf(info, x.Lhs[0])
						}
					}
				}
			}
		case *ast.GoStmt:
			cs.goStmts = append(cs.goStmts, x)
		}
		return true
	})
	return cs
}

func ruleWatcher(w *World, r *Report, rule string) {
	for _, owner := range []string{"scope", "provider"} {
		fi := w.MustFn(w.Godi, "(*"+owner+").CreateScope")
		info := fi.Pkg.TypesInfo
		cs := analyseCreateScope(w, fi)
		con := fi.Name() + "#watcher"
		if cs.withCancl == nil || cs.scopeObj == nil {
			r.Fail(rule, con, fi.Decl.Pos(), "%s does not derive a cancellable context and create a scope with it", fi.Name())
			continue
		}
		var g ast.Node
		var ctxE, scE ast.Expr
		bad := ""
		if len(cs.goStmts) == 0 {
			// the watcher may be started by a private helper that is handed the new scope and the
			// derived context (child.closeOnDone(ctx)): one go statement, a watcher of its parameters
			g, ctxE, scE = watcherThroughHelper(w, fi)
		}
		if g == nil && len(cs.goStmts) != 1 {
			r.Fail(rule, con, fi.Decl.Pos(), "%s starts %d goroutines; exactly one watcher (wait for the derived context, then close the new scope) is required so that cancelling the caller's context closes the scope", fi.Name(), len(cs.goStmts))
			continue
		}
		if g == nil {
			g = cs.goStmts[0]
			ctxE, scE, bad = watcherOf(w, info, cs.goStmts[0])
		}
		if bad == "" {
			switch {
			case ctxE == nil:
				bad = "the watcher does not wait on a context of this function"
			case objOf(info, ctxE) != cs.ctxObj:
				bad = "the watcher waits on " + exprStr(ctxE) + ", not on the context returned by this function's WithCancel"
			case scE == nil:
				bad = "the watcher never closes the new scope"
			case objOf(info, scE) != cs.scopeObj:
				bad = "the watcher closes " + exprStr(scE) + ", not the scope created here"
			}
		}
		{
			// reaching definition of ctx at the go statement is the WithCancel assignment
			fl := w.FlowOf(fi)
			sol := fl.Solve(Spec{Must: true, Node: func(n ast.Node, in Facts) (gen, kill []string) {
				if as, ok := n.(*ast.AssignStmt); ok {
					for _, l := range as.Lhs {
						if objOf(info, l) == cs.ctxObj {
							kill = append(kill, "def:*")
							if as == cs.withCancl {
								gen = append(gen, "def:withcancel")
							} else {
								gen = append(gen, "def:other")
							}
						}
					}
				}
				return
			}})
			if bad == "" && !sol.Before[g].Has("def:withcancel") {
				bad = "the context variable the watcher captures is not, on every path, the one assigned by WithCancel"
			}
			for _, n := range fl.Nodes() {
				if as, ok := n.(*ast.AssignStmt); ok && as.Pos() > g.Pos() {
					for _, l := range as.Lhs {
						if objOf(info, l) == cs.ctxObj {
							bad = "the captured context variable is reassigned after the watcher is started"
						}
					}
				}
			}
			// the success exit is reached only after the watcher was started
			ev := fl.Solve(Spec{Must: true, Node: func(n ast.Node, in Facts) (gen, kill []string) {
				if n == g {
					gen = append(gen, "watcher")
				}
				return
			}})
			for _, ex := range fl.Exits() {
				if ex.Ret != nil && len(ex.Ret.Results) == 2 && objOf(info, ex.Ret.Results[0]) == cs.scopeObj && !ev.AtExit(ex).Has("watcher") && bad == "" {
					bad = "the scope is returned at " + w.Pos(ex.Pos) + " on a path that did not start the watcher"
				}
			}
		}
		if bad != "" {
			r.Fail(rule, con, g.Pos(), "%s: %s", fi.Name(), bad)
		} else {
			r.OK(rule, con, g.Pos(), true, "one watcher: waits on Done() of the context returned by this WithCancel, then closes the scope created here; started on every path that returns the scope")
		}
	}
}

// watcherThroughHelper: a statement of fi that calls a private function whose
// body starts exactly one goroutine, a watcher of the helper's own parameters;
// returns the statement and the call-site expressions standing for the context
// the goroutine waits on and the scope it closes.
func watcherThroughHelper(w *World, fi *FuncInfo) (ast.Node, ast.Expr, ast.Expr) {
	info := fi.Pkg.TypesInfo
	var node ast.Node
	var ctxE, scE ast.Expr
	found := 0
	for _, n := range w.FlowOf(fi).Nodes() {
		es, ok := n.(*ast.ExprStmt)
		if !ok {
			continue
		}
		c, ok := es.X.(*ast.CallExpr)
		if !ok {
			continue
		}
		cal := callee(info, c)
		if cal == nil || cal.Exported() || w.Decls[cal] == nil {
			continue
		}
		h := w.Decls[cal]
		hinfo := h.Pkg.TypesInfo
		var gos []*ast.GoStmt
		ast.Inspect(h.Decl.Body, func(x ast.Node) bool {
			if g, ok := x.(*ast.GoStmt); ok {
				gos = append(gos, g)
			}
			return true
		})
		if len(gos) != 1 {
			continue
		}
		hc, hs, bad := watcherOf(w, hinfo, gos[0])
		if bad != "" || hc == nil || hs == nil {
			continue
		}
		// map the helper's context / scope operands back to the call site
		back := func(e ast.Expr) ast.Expr {
			o := objOf(hinfo, e)
			if o == nil {
				return nil
			}
			if h.Decl.Recv != nil && len(h.Decl.Recv.List[0].Names) == 1 && hinfo.Defs[h.Decl.Recv.List[0].Names[0]] == o {
				if rcv, _, isM := methodCall(c); isM {
					return rcv
				}
			}
			k := 0
			for _, fl := range h.Decl.Type.Params.List {
				for _, nm := range fl.Names {
					if hinfo.Defs[nm] == o && k < len(c.Args) {
						return c.Args[k]
					}
					k++
				}
			}
			return nil
		}
		ce, se := back(hc), back(hs)
		if ce == nil || se == nil {
			continue
		}
		found++
		node, ctxE, scE = n, ce, se
	}
	if found != 1 {
		return nil, nil, nil
	}
	return node, ctxE, scE
}

// ruleCancelOwnership: R14.5 / R10.5b. On every path from WithCancel to a
// return, the scope that owns cancel is returned, or it has been closed (Close
// calls cancel: R14.1), or creation failed inside newScope - whose failing path
// (the initializer pass) must itself close the partial scope.
func ruleCancelOwnership(w *World, r *Report, rule string) {
	ro := resolveRoles(w)
	// (1) the initializer pass closes the partial scope on every error exit
	{
		fi := ro.runInits
		r.Analysed(fi)
		info := fi.Pkg.TypesInfo
		var recv types.Object
		if fi.Decl.Recv != nil && len(fi.Decl.Recv.List[0].Names) == 1 {
			recv = info.Defs[fi.Decl.Recv.List[0].Names[0]]
		}
		fl := w.FlowOf(fi)
		sol := fl.Solve(Spec{Must: true, Node: func(n ast.Node, in Facts) (gen, kill []string) {
			for _, c := range callsIn(n, false) {
				if rcv, k, ok := isCloseCall(info, c); ok && k == "scope" && objOf(info, rcv) == recv {
					gen = append(gen, "closed")
				}
			}
			return
		}})
		n := 0
		for _, ex := range fl.Exits() {
			if ex.Ret == nil || len(ex.Ret.Results) == 0 {
				continue
			}
			last := ex.Ret.Results[len(ex.Ret.Results)-1]
			if isNilIdent(info, last) {
				continue
			}
			n++
			con := fmt.Sprintf("%s#error-exit/%d", fi.Name(), n)
			r.Check(sol.AtExit(ex).Has("closed"), rule, con, ex.Pos, true,
				"the partially initialised scope is closed (Close cancels its context and disposes what was created) before the error is returned",
				"a failing initializer returns an error without closing the scope: instances already created for it are never disposed and its derived context is never cancelled")
		}
		if n == 0 {
			r.OK(rule, fi.Name()+"#error-exit/0", fi.Decl.Pos(), false, "the initializer pass has no error exit")
		}
	}
	// (2) newScope hands out nothing on failure and fails only through the initializer pass
	if ns := ro.newScope; ns != nil {
		info := ns.Pkg.TypesInfo
		fl := w.FlowOf(ns)
		okShape := true
		for _, ex := range fl.Exits() {
			if ex.Ret == nil || len(ex.Ret.Results) != 2 {
				continue
			}
			if !isNilIdent(info, ex.Ret.Results[1]) && !isNilIdent(info, ex.Ret.Results[0]) {
				okShape = false
			}
		}
		r.Check(okShape, rule, ns.Name()+"#failure-result", ns.Decl.Pos(), true,
			"newScope returns a nil scope together with every error", "newScope returns a scope together with an error: the caller cannot know who owns it")
		// every other step of newScope that can fail (a preload pass, a hook) leaves nothing behind
		// either: it closes the scope on its own error exits, or newScope closes the scope before
		// it reports the failure
		closesOnError := func(h *FuncInfo) bool {
			hinfo := h.Pkg.TypesInfo
			if h.Decl.Recv == nil || len(h.Decl.Recv.List[0].Names) != 1 {
				return false
			}
			recv := hinfo.Defs[h.Decl.Recv.List[0].Names[0]]
			hfl := w.FlowOf(h)
			hs := hfl.Solve(Spec{Must: true, Node: func(n ast.Node, in Facts) (gen, kill []string) {
				for _, c := range callsIn(n, false) {
					if rcv, k, ok := isCloseCall(hinfo, c); ok && k == "scope" && objOf(hinfo, rcv) == recv {
						gen = append(gen, "closed")
					}
				}
				return
			}})
			for _, ex := range hfl.Exits() {
				if ex.Ret == nil || len(ex.Ret.Results) == 0 {
					continue
				}
				if last := ex.Ret.Results[len(ex.Ret.Results)-1]; !isNilIdent(hinfo, last) && !hs.AtExit(ex).Has("closed") {
					return false
				}
			}
			return true
		}
		errFrom := map[types.Object]*FuncInfo{}
		ast.Inspect(ns.Decl.Body, func(x ast.Node) bool {
			if as, ok := x.(*ast.AssignStmt); ok && len(as.Rhs) == 1 {
				if c, ok := unparen(as.Rhs[0]).(*ast.CallExpr); ok {
					if cal := callee(info, c); cal != nil && w.Decls[cal] != nil {
						if o := objOf(info, as.Lhs[len(as.Lhs)-1]); o != nil && isErrorType(o.Type()) {
							errFrom[o] = w.Decls[cal]
						}
					}
				}
			}
			return true
		})
		sol := fl.Solve(Spec{Must: true, Node: func(n ast.Node, in Facts) (gen, kill []string) {
			for _, c := range callsIn(n, false) {
				if _, k, ok := isCloseCall(info, c); ok && k == "scope" {
					gen = append(gen, "closed")
				}
			}
			return
		}})
		k := 0
		for _, ex := range fl.Exits() {
			if ex.Ret == nil || len(ex.Ret.Results) != 2 || isNilIdent(info, ex.Ret.Results[1]) {
				continue
			}
			h := errFrom[objOf(info, ex.Ret.Results[1])]
			if h == ro.runInits {
				continue // judged in (1)
			}
			k++
			ok := sol.AtExit(ex).Has("closed") || (h != nil && closesOnError(h))
			name := "an error"
			if h != nil {
				name = "the error of " + h.Name()
			}
			r.Check(ok, rule, fmt.Sprintf("%s#error-exit/%d", ns.Name(), k), ex.Pos, true,
				"the half-built scope is closed before this failure is reported",
				"newScope returns "+name+" without the scope having been closed (by that step itself or here): the derived context is never cancelled and what was already created for the scope is never disposed")
		}
	}
	// (3) CreateScope: every exit after the scope exists returns it or has closed it
	for _, owner := range []string{"scope", "provider"} {
		fi := w.MustFn(w.Godi, "(*"+owner+").CreateScope")
		r.Analysed(fi)
		info := fi.Pkg.TypesInfo
		cs := analyseCreateScope(w, fi)
		if cs.withCancl == nil || cs.scopeObj == nil {
			r.Fail(rule, fi.Name()+"#ownership", fi.Decl.Pos(), "no WithCancel/newScope pair found")
			continue
		}
		fl := w.FlowOf(fi)
		var errObj types.Object
		sol := fl.Solve(Spec{Must: true,
			Node: func(n ast.Node, in Facts) (gen, kill []string) {
				if n == ast.Node(cs.withCancl) {
					gen = append(gen, "derived")
				}
				if as, ok := n.(*ast.AssignStmt); ok && len(as.Rhs) == 1 {
					if c, ok := unparen(as.Rhs[0]).(*ast.CallExpr); ok {
						if cal := callee(info, c); w.IsFn(cal, w.Godi, "newScope") && len(as.Lhs) == 2 {
							errObj = objOf(info, as.Lhs[1])
							gen = append(gen, "created?")
							// cancel handed to the scope?
							handed := false
							for _, a := range c.Args {
								if objOf(info, a) == cs.cancelObj {
									handed = true
								}
							}
							if handed {
								gen = append(gen, "cancel-handed")
							}
						}
					}
				}
				if g, isGo := n.(*ast.GoStmt); isGo {
					if _, sc, bad := watcherOf(w, info, g); bad == "" && sc != nil && objOf(info, sc) == cs.scopeObj {
						gen = append(gen, "watcher-started")
					}
				}
				for _, c := range callsIn(n, false) {
					if rcv, k, ok := isCloseCall(info, c); ok && k == "scope" && objOf(info, rcv) == cs.scopeObj {
						gen = append(gen, "closed")
					}
					if objOf(info, c.Fun) == cs.cancelObj && cs.cancelObj != nil {
						gen = append(gen, "cancelled")
					}
					if helperMayClose(w, info, c, cs.scopeObj) {
						gen = append(gen, "handed-to-helper")
					}
				}
				return
			},
			Edge: func(b *cfg.Block, i int, cond ast.Expr, in Facts) (gen, kill []string) {
				if cond == nil || errObj == nil || !in.Has("created?") {
					return
				}
				if be, ok := unparen(cond).(*ast.BinaryExpr); ok && (be.Op == token.NEQ || be.Op == token.EQL) {
					if (objOf(info, be.X) == errObj && isNilIdent(info, be.Y)) || (objOf(info, be.Y) == errObj && isNilIdent(info, be.X)) {
						failed := (be.Op == token.NEQ) == (i == 0)
						if failed {
							gen = append(gen, "newScope-failed")
						} else {
							gen = append(gen, "created")
						}
						kill = append(kill, "created?")
					}
				}
				return
			}})
		n := 0
		for _, ex := range fl.Exits() {
			f := sol.AtExit(ex)
			if !f.Has("derived") || ex.Panic {
				continue
			}
			n++
			con := fmt.Sprintf("%s#exit-after-WithCancel/%d", fi.Name(), n)
			returnsScope := ex.Ret != nil && len(ex.Ret.Results) == 2 && objOf(info, ex.Ret.Results[0]) == cs.scopeObj
			switch {
			case !f.Has("cancel-handed") && !f.Has("cancelled"):
				r.Fail(rule, con, ex.Pos, "the cancel func of the derived context is neither handed to the new scope nor called on this path: the derived context leaks")
			case returnsScope && f.Has("created"):
				r.OK(rule, con, ex.Pos, true, "the scope that owns cancel is returned to the caller")
			case f.Has("closed"):
				r.OK(rule, con, ex.Pos, true, "the scope that owns cancel is closed before this failure exit")
			case f.Has("cancelled") && (!f.Has("created") || f.Has("watcher-started")):
				r.OK(rule, con, ex.Pos, true, "the derived context is cancelled before this failure exit (no initialised scope exists yet, or its watcher is running and closes it)")
			case f.Has("cancelled"):
				r.Fail(rule, con, ex.Pos, "this exit only cancels the derived context of a scope whose initializers have already run, and no watcher has been started for it yet: nothing closes the scope, so the instances its initializers created are never disposed")
			case f.Has("handed-to-helper"):
				r.OK(rule, con, ex.Pos, true, "the scope was handed to a private helper that closes it on its failure path (helper not analysed further)")
			case f.Has("newScope-failed"):
				r.OK(rule, con, ex.Pos, true, "creation failed inside newScope, whose failing path closes the partial scope (checked above)")
			default:
				r.Fail(rule, con, ex.Pos, "this exit is reached after the derived context exists, but the scope owning its cancel func is neither returned nor closed: context, watcher and instances leak")
			}
		}
	}
}

// ruleWhoClosesScopes: R10.4 - where (*scope).Close and Disposable.Close may be called.
func ruleWhoCloses(w *World, r *Report, rule string) {
	ro := resolveRoles(w)
	allowedScopeClose := map[*FuncInfo]string{
		w.MustFn(w.Godi, "(*scope).Close"):          "cascade to children",
		w.MustFn(w.Godi, "(*provider).Close"):       "cascade to scopes and root scope",
		w.MustFn(w.Godi, "(*scope).CreateScope"):    "watcher / overlap cleanup",
		w.MustFn(w.Godi, "(*provider).CreateScope"): "watcher / overlap cleanup",
		ro.runInits: "failure cleanup of a partially initialised scope",
	}
	allowedScopeClose = w.HelperClosure(allowedScopeClose)
	n := 0
	for _, p := range []*FuncInfo{} {
		_ = p
	}
	for _, fi := range w.AllFuncs() {
		if fi.Pkg != w.Godi && fi.Pkg != w.Refl && fi.Pkg != w.Graph {
			continue
		}
		info := fi.Pkg.TypesInfo
		loops := findCloseLoops(w, fi)
		isLoopCall := func(c *ast.CallExpr) bool {
			for _, l := range loops {
				if l.closeCall == c {
					return true
				}
			}
			return false
		}
		for _, c := range callsIn(fi.Decl.Body, true) {
			rcv, k, ok := isCloseCall(info, c)
			if !ok {
				continue
			}
			switch k {
			case "scope":
				n++
				con := fmt.Sprintf("%s#scope.Close/%s", fi.Name(), exprStr(rcv))
				if why, ok := allowedScopeClose[fi]; ok {
					r.OK(rule, con, c.Pos(), false, "allowed: %s", why)
				} else {
					r.Fail(rule, con, c.Pos(), "(*scope).Close is called from %s: scopes may only be closed by their owner's Close, the watcher, or failure cleanup - anything else disposes instances while they are still in use", fi.Name())
				}
			case "disposable":
				n++
				con := fmt.Sprintf("%s#Disposable.Close/%s", fi.Name(), exprStr(rcv))
				isCloseMethod := fi.Obj.Name() == "Close" || isHelperOfClose(w, fi)
				switch {
				case isLoopCall(c) && isCloseMethod:
					r.OK(rule, con, c.Pos(), true, "disposal loop of the owner's Close")
				case (isTrackingCode(w, ro, fi) && overlapIdiom(w, fi, c)) || overlapIdiomAnyOwner(w, fi, c):
					r.OK(rule, con, c.Pos(), true, "overlap-disposal idiom: the instance is closed here only because the disposed flag was found set inside the list's critical section, i.e. it was not (and will never be) tracked")
				default:
					r.Fail(rule, con, c.Pos(), "an instance's Close() is called from %s outside the owner's disposal loop: container-held instances may be closed early or twice", fi.Name())
				}
			}
		}
	}
}

func isHelperOfClose(w *World, fi *FuncInfo) bool {
	for _, c := range closers(w) {
		for _, call := range callsIn(c.fi.Decl.Body, true) {
			if callee(c.fi.Pkg.TypesInfo, call) == fi.Obj {
				return true
			}
		}
	}
	return false
}

// overlapIdiom: the Close call is reached only on the edge where the disposed
// flag was found set, after the list's lock was taken, and the function then
// returns an error without appending.
// isTrackingCode: setInstance, setSingleton or a private helper of one of them.
func isTrackingCode(w *World, ro *roles, fi *FuncInfo) bool {
	for _, owner := range []*FuncInfo{ro.setInstance, ro.setSingleton} {
		for _, g := range w.Within(owner, 2) {
			if g == fi && (g == owner || (g != ro.setInstance && g != ro.setSingleton && !ro.isCreate(g.Obj) && g.Obj.Name() != "Close")) {
				return true
			}
		}
	}
	return false
}

func overlapIdiom(w *World, fi *FuncInfo, call *ast.CallExpr) bool {
	info := fi.Pkg.TypesInfo
	if recvNamed(fi.Obj) == nil {
		return false
	}
	owner := recvNamed(fi.Obj).Obj().Name()
	flag := w.Field(w.Godi, owner, "disposed")
	fl := w.FlowOf(fi)
	sol := fl.Solve(Spec{Must: true, Edge: func(b *cfg.Block, i int, cond ast.Expr, in Facts) (gen, kill []string) {
		if cond == nil {
			return
		}
		if dead, ok := disposedTest(info, cond, flag); ok && dead == (i == 0) {
			gen = append(gen, "dead")
		}
		// `!p.trackDisposable(d)`: a private tracking helper that answers false exactly where it
		// found the flag set (inside its own critical section)
		c, neg := unparen(cond), false
		if u, isU := c.(*ast.UnaryExpr); isU && u.Op == token.NOT {
			c, neg = unparen(u.X), true
		}
		if hc, isC := c.(*ast.CallExpr); isC {
			if cal := callee(info, hc); cal != nil && !cal.Exported() && w.Decls[cal] != nil && falseMeansDisposed(w, w.Decls[cal], flag) {
				// the call is false on edge i==1 (or i==0 under negation)
				if (i == 1) != neg {
					gen = append(gen, "dead")
				}
			}
		}
		return
	}})
	n := fl.NodeContaining(call.Pos())
	return n != nil && sol.Before[n].Has("dead")
}

// falseMeansDisposed: h returns a bool; every `return false` of h is reached
// only after the disposed flag was found set, and no `return true` is.
func falseMeansDisposed(w *World, h *FuncInfo, flag *types.Var) bool {
	sig, ok := h.Obj.Type().(*types.Signature)
	if !ok || sig.Results().Len() != 1 {
		return false
	}
	if b, isB := sig.Results().At(0).Type().Underlying().(*types.Basic); !isB || b.Kind() != types.Bool {
		return false
	}
	info := h.Pkg.TypesInfo
	fl := w.FlowOf(h)
	must := fl.Solve(Spec{Must: true, Edge: func(b *cfg.Block, i int, cond ast.Expr, in Facts) (gen, kill []string) {
		if cond == nil {
			return
		}
		if dead, ok := disposedTest(info, cond, flag); ok && dead == (i == 0) {
			gen = append(gen, "dead")
		}
		return
	}})
	may := fl.Solve(Spec{Must: false, Edge: func(b *cfg.Block, i int, cond ast.Expr, in Facts) (gen, kill []string) {
		if cond == nil {
			return
		}
		if dead, ok := disposedTest(info, cond, flag); ok && dead == (i == 0) {
			gen = append(gen, "dead")
		}
		return
	}})
	nFalse := 0
	for _, ex := range fl.Exits() {
		if ex.Ret == nil || len(ex.Ret.Results) != 1 {
			return false
		}
		id, isId := unparen(ex.Ret.Results[0]).(*ast.Ident)
		if !isId {
			return false
		}
		switch id.Name {
		case "false":
			nFalse++
			if !must.AtExit(ex).Has("dead") {
				return false
			}
		case "true":
			if may.AtExit(ex).Has("dead") {
				return false
			}
		default:
			return false
		}
	}
	return nFalse > 0
}

var _ = strings.HasPrefix

// helperMayClose: the call passes obj to a repository function that contains a
// Close call on the corresponding parameter.
func helperMayClose(w *World, info *types.Info, call *ast.CallExpr, obj types.Object) bool {
	cal := callee(info, call)
	if cal == nil || obj == nil {
		return false
	}
	t := w.Decls[cal]
	if t == nil || cal.Name() == "Close" || w.IsFn(cal, w.Godi, "newScope") {
		return false
	}
	var params []*ast.Ident
	for _, f := range t.Decl.Type.Params.List {
		params = append(params, f.Names...)
	}
	for i, a := range call.Args {
		if objOf(info, a) != obj || i >= len(params) {
			continue
		}
		po := t.Pkg.TypesInfo.Defs[params[i]]
		for _, c := range callsIn(t.Decl.Body, true) {
			if rcv, k, ok := isCloseCall(t.Pkg.TypesInfo, c); ok && k == "scope" && objOf(t.Pkg.TypesInfo, rcv) == po {
				return true
			}
		}
	}
	return false
}

// isCoreShape: func (s *scope) f(d *Descriptor) (any, error)
func isCoreShape(fi *FuncInfo) bool {
	sig, ok := fi.Obj.Type().(*types.Signature)
	if !ok || sig.Params().Len() != 1 || sig.Results().Len() != 2 {
		return false
	}
	if !isNamedType(sig.Params().At(0).Type(), modPath, "Descriptor") {
		return false
	}
	if _, isIface := sig.Results().At(0).Type().Underlying().(*types.Interface); !isIface {
		return false
	}
	return isErrorType(sig.Results().At(1).Type())
}

// overlapIdiomAnyOwner: the tracked-or-closed idiom written anywhere (a helper
// that files a rejected instance with its owner): the Close is reached only on
// the edge where the disposed flag of some scope / provider was found set while a
// lock was held, and the same function appends to a disposal list on the other edge.
func overlapIdiomAnyOwner(w *World, fi *FuncInfo, call *ast.CallExpr) bool {
	info := fi.Pkg.TypesInfo
	fl := w.FlowOf(fi)
	sol := fl.Solve(Spec{Must: true, Edge: func(b *cfg.Block, i int, cond ast.Expr, in Facts) (gen, kill []string) {
		if cond == nil {
			return
		}
		if _, dead, ok := anyDisposedTest(info, cond); ok && dead == (i == 0) {
			gen = append(gen, "dead")
		}
		return
	}})
	n := fl.NodeContaining(call.Pos())
	if n == nil || !sol.Before[n].Has("dead") {
		return false
	}
	appends := false
	ast.Inspect(fi.Decl.Body, func(x ast.Node) bool {
		if as, ok := x.(*ast.AssignStmt); ok && len(as.Lhs) == 1 && len(as.Rhs) == 1 {
			if fv := fieldOf(info, as.Lhs[0]); fv != nil {
				if sl, isSl := fv.Type().Underlying().(*types.Slice); isSl && isNamedType(sl.Elem(), modPath, "Disposable") {
					if c, isC := unparen(as.Rhs[0]).(*ast.CallExpr); isC && exprStr(c.Fun) == "append" {
						appends = true
					}
				}
			}
		}
		return true
	})
	return appends
}
