package main

import (
	"go/ast"
	"go/types"
)

// createsVia: functions through which a call constructs an instance: createInstance
// itself and the private helpers of eager creation that call it.
func createsVia(w *World, ro *roles) map[*types.Func]bool {
	out := map[*types.Func]bool{}
	for k := range ro.creators {
		out[k] = true
	}
	for fi := range w.HelperClosure(map[*FuncInfo]string{ro.createAll: "eager creation"}) {
		if fi == ro.createAll {
			continue
		}
		for _, c := range callsIn(fi.Decl.Body, true) {
			if ro.isCreate(callee(fi.Pkg.TypesInfo, c)) {
				out[fi.Obj] = true
			}
		}
	}
	return out
}

// ruleSortedCreation: R06.2 / R11.5 / R01.4 - eager creation iterates, front to
// back, over the slice returned by TopologicalSort and constructs inside that loop.
func ruleSortedCreation(w *World, r *Report, rule string) {
	ro := resolveRoles(w)
	fi := ro.createAll
	r.Analysed(fi)
	info := fi.Pkg.TypesInfo
	var sorted types.Object
	ast.Inspect(fi.Decl.Body, func(n ast.Node) bool {
		if as, ok := n.(*ast.AssignStmt); ok && len(as.Rhs) == 1 {
			if c, ok := unparen(as.Rhs[0]).(*ast.CallExpr); ok {
				if cal := callee(info, c); cal != nil && cal.Name() == "TopologicalSort" && len(as.Lhs) >= 1 {
					sorted = objOf(info, as.Lhs[0])
				}
			}
		}
		return true
	})
	con := fi.Name() + "#creation-loop"
	if sorted == nil {
		r.Fail(rule, con, fi.Decl.Pos(), "%s does not obtain the topological order", fi.Name())
		return
	}
	via := createsVia(w, ro)
	found := false
	for _, il := range iterLoopsIn(info, fi.Decl.Body) {
		creates := false
		for _, c := range callsIn(il.Body, false) {
			if cal := callee(info, c); cal != nil && via[cal] {
				creates = true
			}
		}
		if !creates {
			continue
		}
		found = true
		switch {
		case il.CollObj != sorted:
			r.Fail(rule, con, il.Stmt.Pos(), "singletons are constructed while iterating over %s, not over the topological order: dependencies may be constructed after their dependents", exprStr(il.Coll))
		case il.Dir != "fwd":
			r.Fail(rule, con, il.Stmt.Pos(), "singletons are constructed by a loop that is not a front-to-back walk of the topological order (%s %s)", il.Dir, il.DirWhy)
		default:
			r.OK(rule, con, il.Stmt.Pos(), true, "singletons are constructed inside a front-to-back loop over the slice returned by TopologicalSort")
		}
	}
	if !found {
		r.Fail(rule, con, fi.Decl.Pos(), "%s contains no loop constructing singletons", fi.Name())
	}
}
