package main

import (
	"go/ast"
	"go/types"
)

// ruleSortedCreation: R06.2 / R11.5 / R01.4 - createAllSingletons ranges, front
// to back, over the slice returned by TopologicalSort and constructs inside it.
func ruleSortedCreation(w *World, r *Report, rule string) {
	ro := resolveRoles(w)
	fi := ro.createAll
	r.Analysed(fi)
	info := fi.Pkg.TypesInfo
	var sorted types.Object
	ast.Inspect(fi.Decl.Body, func(n ast.Node) bool {
		if as, ok := n.(*ast.AssignStmt); ok && len(as.Rhs) == 1 {
			if c, ok := unparen(as.Rhs[0]).(*ast.CallExpr); ok {
				if cal := callee(info, c); cal != nil && cal.Name() == "TopologicalSort" && len(as.Lhs) >= 1 {
					sorted = objOf(info, as.Lhs[0])
				}
			}
		}
		return true
	})
	con := fi.Name() + "#creation-loop"
	if sorted == nil {
		r.Fail(rule, con, fi.Decl.Pos(), "%s does not obtain the topological order", fi.Name())
		return
	}
	found := false
	ast.Inspect(fi.Decl.Body, func(n ast.Node) bool {
		switch s := n.(type) {
		case *ast.RangeStmt:
			creates := false
			for _, c := range callsIn(s.Body, false) {
				if callee(info, c) == ro.createInstance.Obj {
					creates = true
				}
			}
			if !creates {
				return true
			}
			found = true
			if objOf(info, s.X) == sorted {
				r.OK(rule, con, s.Pos(), true, "singletons are constructed inside a front-to-back range over the slice returned by TopologicalSort")
			} else {
				r.Fail(rule, con, s.Pos(), "singletons are constructed while ranging over %s, not over the topological order: dependencies may be constructed after their dependents", exprStr(s.X))
			}
		case *ast.ForStmt:
			for _, c := range callsIn(s.Body, false) {
				if callee(info, c) == ro.createInstance.Obj {
					found = true
					var iObj types.Object
					if as, ok := s.Init.(*ast.AssignStmt); ok && len(as.Lhs) == 1 {
						iObj = objOf(info, as.Lhs[0])
					}
					dir, why := "odd", "no index variable"
					if iObj != nil {
						dir, why = indexLoopDirection(info, s, iObj, sorted)
					}
					if dir == "fwd" {
						r.OK(rule, con, s.Pos(), true, "forward index loop over the topological order")
					} else {
						r.Fail(rule, con, s.Pos(), "singletons are constructed by a loop that is not a front-to-back walk of the topological order (%s %s)", dir, why)
					}
				}
			}
		}
		return true
	})
	if !found {
		r.Fail(rule, con, fi.Decl.Pos(), "%s contains no loop constructing singletons", fi.Name())
	}
}
