package main

import (
	"go/ast"
	"go/token"
	"go/types"
	"strings"

	"golang.org/x/tools/go/cfg"
)

// condFacts returns the facts known when cond evaluates to truth, written over
// expression strings: "X=true|false" for boolean expressions X, "X=nil|nonnil",
// "X=empty|nonempty" for comparisons with "", and "X==C"/"X!=C" for comparisons
// with a named constant C.
func condFacts(info *types.Info, cond ast.Expr, truth bool) []string {
	c := unparen(cond)
	for {
		u, ok := c.(*ast.UnaryExpr)
		if !ok || u.Op != token.NOT {
			break
		}
		c, truth = unparen(u.X), !truth
	}
	switch x := c.(type) {
	case *ast.BinaryExpr:
		if x.Op == token.LAND && truth {
			return append(condFacts(info, x.X, true), condFacts(info, x.Y, true)...)
		}
		if x.Op == token.LOR && !truth {
			return append(condFacts(info, x.X, false), condFacts(info, x.Y, false)...)
		}
		if x.Op == token.LAND || x.Op == token.LOR {
			// the other side of De Morgan: a disjunction of the operands' facts
			a, b := condFacts(info, x.X, truth), condFacts(info, x.Y, truth)
			if len(a) == 1 && len(b) == 1 {
				return []string{"or(" + a[0] + "|" + b[0] + ")"}
			}
			return nil
		}
		if x.Op != token.EQL && x.Op != token.NEQ {
			return nil
		}
		eq := (x.Op == token.EQL) == truth
		for _, pair := range [][2]ast.Expr{{x.X, x.Y}, {x.Y, x.X}} {
			a, b := unparen(pair[0]), unparen(pair[1])
			switch {
			case isNilIdent(info, b):
				if eq {
					return []string{exprStr(a) + "=nil"}
				}
				return []string{exprStr(a) + "=nonnil"}
			case isEmptyString(info, b):
				if eq {
					return []string{exprStr(a) + "=empty"}
				}
				return []string{exprStr(a) + "=nonempty"}
			}
			if o := objOf(info, b); o != nil {
				if _, isConst := o.(*types.Const); isConst {
					if eq {
						return []string{exprStr(a) + "==" + o.Name()}
					}
					return []string{exprStr(a) + "!=" + o.Name()}
				}
			}
			if sel, ok := b.(*ast.SelectorExpr); ok {
				if o, isConst := info.Uses[sel.Sel].(*types.Const); isConst {
					if eq {
						return []string{exprStr(a) + "==" + o.Name()}
					}
					return []string{exprStr(a) + "!=" + o.Name()}
				}
			}
		}
	case *ast.CallExpr:
		// a boolean call (a predicate helper): named by its text
		if tv, ok := info.Types[c]; ok && tv.Type != nil {
			if b, ok := tv.Type.Underlying().(*types.Basic); ok && b.Info()&types.IsBoolean != 0 {
				if truth {
					return []string{exprStr(c) + "=true"}
				}
				return []string{exprStr(c) + "=false"}
			}
		}
	case *ast.SelectorExpr, *ast.Ident:
		if tv, ok := info.Types[c]; ok {
			if b, ok := tv.Type.Underlying().(*types.Basic); ok && b.Info()&types.IsBoolean != 0 {
				if truth {
					return []string{exprStr(c) + "=true"}
				}
				return []string{exprStr(c) + "=false"}
			}
		}
	}
	return nil
}

func isEmptyString(info *types.Info, e ast.Expr) bool {
	s, ok := constString(info, e)
	return ok && s == ""
}

// predSummary: for a repository function returning a single bool, the facts
// (over its parameter names) that certainly hold when it returns true / false.
type predSummary struct {
	params      []string
	whenTrue    Facts
	whenFalse   Facts
	recvName    string
	initialised bool
}

var predCache = map[*types.Func]*predSummary{}

func predicateSummary(w *World, f *types.Func, depth int) *predSummary {
	if ps, ok := predCache[f]; ok {
		return ps
	}
	fi := w.Decls[f]
	if fi == nil || depth <= 0 {
		return nil
	}
	sig := f.Type().(*types.Signature)
	if sig.Results().Len() != 1 {
		return nil
	}
	if b, ok := sig.Results().At(0).Type().Underlying().(*types.Basic); !ok || b.Info()&types.IsBoolean == 0 {
		return nil
	}
	ps := &predSummary{}
	predCache[f] = nil // recursion guard
	for _, fl := range fi.Decl.Type.Params.List {
		for _, nm := range fl.Names {
			ps.params = append(ps.params, nm.Name)
		}
	}
	if fi.Decl.Recv != nil && len(fi.Decl.Recv.List[0].Names) == 1 {
		ps.recvName = fi.Decl.Recv.List[0].Names[0].Name
	}
	info := fi.Pkg.TypesInfo
	fl := w.FlowOf(fi)
	sol := fl.Solve(Spec{Must: true, Edge: condEdge(w, info, depth-1)})
	for _, ex := range fl.Exits() {
		if ex.Ret == nil || len(ex.Ret.Results) != 1 {
			continue
		}
		val := exprStr(unparen(ex.Ret.Results[0]))
		at := sol.AtExit(ex)
		switch val {
		case "true":
			ps.whenTrue = meet(ps.whenTrue, at)
		case "false":
			ps.whenFalse = meet(ps.whenFalse, at)
		default:
			// returns an expression: facts of that expression being true / false
			ps.whenTrue = meet(ps.whenTrue, withFacts(at, condFacts(info, ex.Ret.Results[0], true)))
			ps.whenFalse = meet(ps.whenFalse, withFacts(at, condFacts(info, ex.Ret.Results[0], false)))
		}
	}
	ps.initialised = true
	predCache[f] = ps
	return ps
}

func meet(a, b Facts) Facts {
	if a == nil {
		return b.clone()
	}
	out := Facts{}
	for k := range a {
		if b[k] {
			out[k] = true
		}
	}
	return out
}

func withFacts(a Facts, extra []string) Facts {
	out := a.clone()
	if out == nil {
		out = Facts{}
	}
	for _, e := range extra {
		out[e] = true
	}
	return out
}

// condEdge is an Edge function generating condFacts on branch edges, expanding
// calls to boolean helper functions of the repository through predicateSummary.
// Facts about an expression are killed when it is the loop variable... (callers
// that need kills combine this with their own Node function).
func condEdge(w *World, info *types.Info, depth int) func(b *cfg.Block, i int, cond ast.Expr, in Facts) (gen, kill []string) {
	return func(b *cfg.Block, i int, cond ast.Expr, in Facts) (gen, kill []string) {
		if cond == nil {
			return
		}
		if tv, ok := info.Types[cond]; !ok || tv.Type == nil {
			return
		} else if bt, ok := tv.Type.Underlying().(*types.Basic); !ok || bt.Info()&types.IsBoolean == 0 {
			return
		}
		truth := i == 0
		gen = append(gen, condFacts(info, cond, truth)...)
		gen = append(gen, helperFacts(w, info, cond, truth, depth)...)
		return
	}
}

// helperFacts expands calls to boolean helper functions inside a condition
// (through !, && on the true side and || on the false side).
func helperFacts(w *World, info *types.Info, cond ast.Expr, truth bool, depth int) []string {
	c := unparen(cond)
	for {
		u, ok := c.(*ast.UnaryExpr)
		if !ok || u.Op != token.NOT {
			break
		}
		c, truth = unparen(u.X), !truth
	}
	switch x := c.(type) {
	case *ast.BinaryExpr:
		if (x.Op == token.LAND && truth) || (x.Op == token.LOR && !truth) {
			return append(helperFacts(w, info, x.X, truth, depth), helperFacts(w, info, x.Y, truth, depth)...)
		}
	case *ast.CallExpr:
		// a locally bound predicate literal: selected := func(d *Descriptor) bool { return … }
		if id, ok := unparen(x.Fun).(*ast.Ident); ok && callee(info, x) == nil {
			if ps := litPredicateSummary(w, info, info.Uses[id], depth); ps != nil && ps.initialised {
				src := ps.whenFalse
				if truth {
					src = ps.whenTrue
				}
				var out []string
				for k := range src {
					if t, ok := renameFact(k, ps, x); ok {
						out = append(out, t)
					}
				}
				return out
			}
		}
		if cal := callee(info, x); cal != nil {
			if ps := predicateSummary(w, cal, depth); ps != nil && ps.initialised {
				src := ps.whenFalse
				if truth {
					src = ps.whenTrue
				}
				var out []string
				for k := range src {
					if t, ok := renameFact(k, ps, x); ok {
						out = append(out, t)
					}
				}
				return out
			}
		}
	}
	return nil
}

// renameFact rewrites a fact over the callee's parameter names into the
// caller's argument expressions.
func renameFact(f string, ps *predSummary, call *ast.CallExpr) (string, bool) {
	for i, p := range ps.params {
		if i >= len(call.Args) {
			break
		}
		if f == p || strings.HasPrefix(f, p+".") || strings.HasPrefix(f, p+"=") || strings.HasPrefix(f, p+"!") {
			return exprStr(call.Args[i]) + f[len(p):], true
		}
	}
	if ps.recvName != "" {
		if rcv, _, ok := methodCall(call); ok && (strings.HasPrefix(f, ps.recvName+".") || strings.HasPrefix(f, ps.recvName+"=")) {
			return exprStr(rcv) + f[len(ps.recvName):], true
		}
	}
	return "", false
}

// killOnAssign returns kill patterns for facts about variables assigned by node n.
func killOnAssign(info *types.Info, n ast.Node) []string {
	var kill []string
	add := func(e ast.Expr) {
		if id, ok := unparen(e).(*ast.Ident); ok && id.Name != "_" {
			kill = append(kill, id.Name+"=*", id.Name+".*", id.Name+"!*")
		}
	}
	switch s := n.(type) {
	case *ast.AssignStmt:
		for _, l := range s.Lhs {
			add(l)
		}
	case *ast.Ident: // range key/value nodes
		add(s)
	}
	return kill
}

var litPredCache = map[types.Object]*predSummary{}

// litPredicateSummary: like predicateSummary, for a variable that is bound once
// to a function literal returning a single bool.
func litPredicateSummary(w *World, info *types.Info, o types.Object, depth int) *predSummary {
	if o == nil || depth <= 0 {
		return nil
	}
	if ps, ok := litPredCache[o]; ok {
		return ps
	}
	litPredCache[o] = nil
	// find the package and the binding
	var lit *ast.FuncLit
	var pkgInfo *types.Info
	for _, p := range w.Pkgs {
		if p.TypesInfo != info {
			continue
		}
		pkgInfo = p.TypesInfo
		n := 0
		for _, f := range p.Syntax {
			if f.Pos() > o.Pos() || o.Pos() > f.End() {
				continue
			}
			ast.Inspect(f, func(x ast.Node) bool {
				if as, ok := x.(*ast.AssignStmt); ok && len(as.Lhs) == len(as.Rhs) {
					for i, l := range as.Lhs {
						if objOf(info, l) == o {
							n++
							if fl, ok := unparen(as.Rhs[i]).(*ast.FuncLit); ok {
								lit = fl
							}
						}
					}
				}
				return true
			})
		}
		if n != 1 {
			lit = nil
		}
	}
	if lit == nil || pkgInfo == nil {
		return nil
	}
	if lit.Type.Results == nil || len(lit.Type.Results.List) != 1 {
		return nil
	}
	ps := &predSummary{}
	for _, fl := range lit.Type.Params.List {
		for _, nm := range fl.Names {
			ps.params = append(ps.params, nm.Name)
		}
	}
	fl := newFlowInfo(info, lit.Body)
	fl.W = w
	sol := fl.Solve(Spec{Must: true, Edge: condEdge(w, info, depth-1)})
	for _, ex := range fl.Exits() {
		if ex.Ret == nil || len(ex.Ret.Results) != 1 {
			continue
		}
		val := exprStr(unparen(ex.Ret.Results[0]))
		at := sol.AtExit(ex)
		switch val {
		case "true":
			ps.whenTrue = meet(ps.whenTrue, at)
		case "false":
			ps.whenFalse = meet(ps.whenFalse, at)
		default:
			ps.whenTrue = meet(ps.whenTrue, withFacts(at, condFacts(info, ex.Ret.Results[0], true)))
			ps.whenFalse = meet(ps.whenFalse, withFacts(at, condFacts(info, ex.Ret.Results[0], false)))
		}
	}
	ps.initialised = true
	litPredCache[o] = ps
	return ps
}
