package main

import (
	"fmt"
	"go/ast"
	"go/token"
	"go/types"
	"strings"
)

type closer struct {
	owner string
	fi    *FuncInfo
	ca    *closeAnalysis
	flag  *types.Var // disposed flag
	list  *types.Var // []Disposable owner list
}

func closers(w *World) []*closer {
	// the tables Close works on must have the representation the rules talk about
	for _, t := range []struct{ owner, field string }{{"scope", "children"}, {"scope", "instances"}, {"provider", "scopes"}} {
		fv := w.Field(w.Godi, t.owner, t.field)
		if _, isStruct := fv.Type().Underlying().(*types.Struct); isStruct {
			undecidedf("role %q: %s.%s is a %s, no longer a plain table (the representation of the table changed: the rules about Close, which are written for the table and its lock as fields of %s, cannot be decided)", "close tables", t.owner, fv.Name(), types.TypeString(fv.Type(), func(p *types.Package) string { return p.Name() }), t.owner)
		}
	}
	var out []*closer
	for _, o := range []string{"scope", "provider"} {
		fi := w.MustFn(w.Godi, "(*"+o+").Close")
		c := &closer{owner: o, fi: fi, ca: analyseClose(w, fi, o)}
		c.flag = w.Field(w.Godi, o, "disposed")
		_, st := w.Struct(w.Godi, o)
		var lists []*types.Var
		for _, f := range flatFields(st) {
			if sl, ok := f.Type().Underlying().(*types.Slice); ok && isNamedType(sl.Elem(), modPath, "Disposable") {
				lists = append(lists, f)
			}
		}
		if len(lists) == 0 {
			undecidedf("role %q: %s has no field of type []Disposable (the representation of the owner's disposal list changed: the rules about it cannot be decided)", "owner disposal list", o)
		}
		c.list = lists[0]
		out = append(out, c)
	}
	return out
}

// gateWon reports whether the facts include the CAS-won fact for the closer's flag.
func (c *closer) gateWon(f Facts) bool { return f.Has("gate:won:" + c.owner + ".disposed") }

// isEffect: a node that does something observable (a call other than pure
// builtins / the gate itself, or a store to a field).
func isEffectNode(info *types.Info, n ast.Node) bool {
	eff := false
	inspectNoLit(n, func(m ast.Node) bool {
		switch x := m.(type) {
		case *ast.CallExpr:
			if _, ok := casOnField(info, x); ok {
				return true
			}
			if id, ok := unparen(x.Fun).(*ast.Ident); ok {
				if _, isB := info.Uses[id].(*types.Builtin); isB {
					return true
				}
			}
			if tv, ok := info.Types[x.Fun]; ok && tv.IsType() {
				return true
			}
			eff = true
		case *ast.AssignStmt:
			for _, l := range x.Lhs {
				if fieldOf(info, l) != nil {
					eff = true
				}
				if ix, ok := unparen(l).(*ast.IndexExpr); ok && fieldOf(info, ix.X) != nil {
					eff = true
				}
			}
		case *ast.GoStmt, *ast.DeferStmt, *ast.SendStmt, *ast.SelectStmt:
			eff = true
		case *ast.UnaryExpr:
			if x.Op == token.ARROW {
				eff = true // a receive can block: the losing Close must return at once
			}
		}
		return true
	})
	return eff
}

// ruleGate: R-GATE. Close begins with a compare-and-swap on the disposed flag
// whose failure edge returns nil and which dominates every other effect.
func ruleGate(w *World, r *Report, rule string) {
	for _, c := range closers(w) {
		r.Analysed(c.fi)
		info := c.fi.Pkg.TypesInfo
		construct := c.fi.Name() + "#gate"
		hasGate := false
		for _, n := range c.ca.flow.Nodes() {
			if c.gateWon(c.ca.sol.After[n]) || c.gateWon(c.ca.sol.Before[n]) {
				hasGate = true
			}
		}
		for _, b := range c.ca.flow.G.Blocks {
			if b.Live && c.gateWon(c.ca.sol.In[b]) {
				hasGate = true
			}
		}
		if !hasGate {
			r.Fail(rule, construct, c.fi.Decl.Pos(), "%s has no atomic compare-and-swap (0 -> 1) on %s.disposed deciding who runs the disposal: a load followed by a store lets two concurrent Close calls both proceed", c.fi.Name(), c.owner)
			continue
		}
		bad := ""
		for _, n := range c.ca.flow.Nodes() {
			if isEffectNode(info, n) && !c.gateWon(c.ca.sol.Before[n]) {
				bad = fmt.Sprintf("%s at %s happens without having won the compare-and-swap", strings.TrimSpace(nodeStr(n)), w.Pos(n.Pos()))
				break
			}
		}
		for _, ex := range c.ca.flow.Exits() {
			if ex.Panic {
				continue
			}
			if !c.gateWon(c.ca.sol.AtExit(ex)) {
				if ex.Ret == nil || len(ex.Ret.Results) != 1 || !isNilIdent(info, ex.Ret.Results[0]) {
					bad = fmt.Sprintf("the exit at %s is reached without winning the gate but does not return nil", w.Pos(ex.Pos))
				}
			}
		}
		if bad != "" {
			r.Fail(rule, construct, c.fi.Decl.Pos(), "gate of %s: %s", c.fi.Name(), bad)
		} else {
			r.OK(rule, construct, c.fi.Decl.Pos(), true, "compare-and-swap on %s.disposed dominates every effect; losing it returns nil", c.owner)
		}
	}
}

func nodeStr(n ast.Node) string {
	switch x := n.(type) {
	case ast.Expr:
		return exprStr(x)
	case *ast.AssignStmt:
		var l, rr []string
		for _, e := range x.Lhs {
			l = append(l, exprStr(e))
		}
		for _, e := range x.Rhs {
			rr = append(rr, exprStr(e))
		}
		return strings.Join(l, ", ") + " " + x.Tok.String() + " " + strings.Join(rr, ", ")
	case *ast.ExprStmt:
		return exprStr(x.X)
	case *ast.ReturnStmt:
		return "return"
	case *ast.DeferStmt:
		return "defer " + exprStr(x.Call)
	case *ast.GoStmt:
		return "go " + exprStr(x.Call)
	}
	return fmt.Sprintf("%T", n)
}

// drainLoops returns the loops (reachable from Close) that close the owner's disposal list.
func (c *closer) drainLoops() []*closeLoop {
	var out []*closeLoop
	for _, l := range c.ca.reachableLoops() {
		if l.kind == "disposable" {
			out = append(out, l)
		}
	}
	return out
}

// scopeLoops returns the loops that close scopes (children / provider scopes).
func (c *closer) scopeLoops() []*closeLoop {
	var out []*closeLoop
	for _, l := range c.ca.reachableLoops() {
		if l.kind == "scope" {
			out = append(out, l)
		}
	}
	return out
}

// wonExits lists the normal exits reached after winning the gate.
func (c *closer) wonExits() []Exit {
	var out []Exit
	for _, ex := range c.ca.flow.Exits() {
		if ex.Panic {
			continue
		}
		if c.gateWon(c.ca.sol.AtExit(ex)) {
			out = append(out, ex)
		}
	}
	return out
}

// mustAtWonExits checks that one of the alternatives holds at every exit
// reached past the gate; returns the first offending exit.
func (c *closer) mustAtWonExits(alts ...string) (string, bool) {
	exits := c.wonExits()
	if len(exits) == 0 {
		return "no exit past the gate", false
	}
	for _, ex := range exits {
		f := c.ca.sol.AtExit(ex)
		ok := false
		for _, a := range alts {
			if strings.HasSuffix(a, "*") {
				if _, has := f.HasPrefix(strings.TrimSuffix(a, "*")); has {
					ok = true
				}
			} else if f.Has(a) {
				ok = true
			}
		}
		if !ok {
			return c.ca.w.Pos(ex.Pos), false
		}
	}
	return "", true
}

// ruleSingleList: each owner tracks disposables in exactly one creation-ordered list.
func ruleSingleList(w *World, r *Report, rule string) {
	_ = closers(w) // undecided when an owner has no []Disposable field at all
	for _, o := range []string{"scope", "provider"} {
		_, st := w.Struct(w.Godi, o)
		var lists []string
		for i := 0; i < st.NumFields(); i++ {
			f := st.Field(i)
			t := f.Type().Underlying()
			if sl, ok := t.(*types.Slice); ok && isNamedType(sl.Elem(), modPath, "Disposable") {
				lists = append(lists, f.Name())
			}
			if m, ok := t.(*types.Map); ok && (isNamedType(m.Elem(), modPath, "Disposable") || isNamedType(m.Key(), modPath, "Disposable")) {
				lists = append(lists, f.Name())
			}
		}
		construct := o + "#disposal-lists"
		if len(lists) == 1 {
			r.OK(rule, construct, st.Field(0).Pos(), false, "%s tracks the instances it must close in exactly one list (%s): creation order is one sequence", o, lists[0])
		} else {
			r.Fail(rule, construct, st.Field(0).Pos(), "%s keeps %d containers of disposables %v: instances created in one sequence are split over several lists, so no traversal of them is the reverse of creation order", o, len(lists), lists)
		}
	}
}

// ruleDrainComplete: R10.2 - the disposal list is taken under its lock, reset,
// and every element of the snapshot is closed by a complete traversal.
func ruleDrainComplete(w *World, r *Report, rule string, la *LockAnalysis) {
	for _, c := range closers(w) {
		construct := c.fi.Name() + "#disposal-loop"
		unknownOrigin := false
		loops := c.drainLoops()
		if len(loops) == 0 {
			r.Fail(rule, construct, c.fi.Decl.Pos(), "%s contains no loop that calls Close() on the elements of %s.%s", c.fi.Name(), c.owner, nameOf(c.list))
			continue
		}
		for i, l := range loops {
			con := fmt.Sprintf("%s/%d", construct, i+1)
			switch {
			case l.problem != "":
				r.Fail(rule, con, l.head(), "disposal loop: %s", l.problem)
			case l.dir == "odd":
				r.Fail(rule, con, l.head(), "disposal loop does not visit every element: %s", l.dirWhy)
			case l.field == nil:
				unknownOrigin = true
				r.Undecided(rule, con, l.head(), "disposal loop iterates over %s, whose origin the analysis cannot trace to a field (not a plain copy, a collection loop or a recognised helper): whether it is a snapshot of the owner's disposal list is not decided", objName(l.coll))
			case l.field != c.list:
				r.Fail(rule, con, l.head(), "disposal loop iterates over %s, not over the owner's list %s", l.field.Name(), nameOf(c.list))
			default:
				r.OK(rule, con, l.head(), true, "complete traversal (%s) of a snapshot (%s) of %s.%s; every iteration reaches Close()", l.dir, l.origin, c.owner, l.field.Name())
			}
		}
		// the traversal is on every path past the gate
		if c.list != nil {
			key := "closedall:" + w.canonField(c.list) + ":"
			where, ok := c.mustAtWonExits(key+"rev", key+"fwd")
			if !ok && unknownOrigin {
				r.Undecided(rule, c.fi.Name()+"#disposal-on-all-paths", c.fi.Decl.Pos(), "a disposal loop of unknown origin exists: whether every path past the gate drains %s.%s is not decided", c.owner, c.list.Name())
			} else {
				r.Check(ok, rule, c.fi.Name()+"#disposal-on-all-paths", c.fi.Decl.Pos(), true,
					"every path past the gate completes the disposal loop",
					"the exit at "+where+" is reached past the gate without having completed the disposal loop over "+c.owner+"."+c.list.Name())
			}
		}
	}
}

func nameOf(v *types.Var) string {
	if v == nil {
		return "<none>"
	}
	return v.Name()
}

func objName(o types.Object) string {
	if o == nil {
		return "<expression>"
	}
	return o.Name()
}

// ruleReverse: R11.1 - disposal loops run from the last element to the first.
func ruleReverse(w *World, r *Report, rule string) {
	for _, c := range closers(w) {
		for i, l := range c.drainLoops() {
			con := fmt.Sprintf("%s#disposal-loop-direction/%d", c.fi.Name(), i+1)
			if l.dir == "rev" {
				r.OK(rule, con, l.head(), true, "index runs from len-1 down to 0")
			} else {
				r.Fail(rule, con, l.head(), "disposal loop traverses the creation-ordered list %s (%s): instances are closed in creation order, i.e. dependencies before their dependents", map[string]string{"fwd": "front to back", "map": "in map order", "odd": "irregularly"}[l.dir], l.dirWhy)
			}
		}
	}
}

// ruleSwap: the snapshot of a table and its reset happen in one critical section.
func ruleSwap(w *World, r *Report, rule string, la *LockAnalysis) {
	for _, c := range closers(w) {
		// Close and its private helpers: the snapshot and the reset live in one of them
		for _, unitFn := range c.units() {
			info := unitFn.Pkg.TypesInfo
			u := la.byFunc[unitFn.Obj]
			if u == nil {
				continue
			}
			// fact "snap:<field>" from the read of the field until the next mutex operation
			sol := u.flow.Solve(Spec{Must: true, Node: func(n ast.Node, in Facts) (gen, kill []string) {
				for _, cc := range callsIn(n, false) {
					if _, _, _, ok := mutexOp(info, cc); ok {
						kill = append(kill, "snap:*")
					}
				}
				note := func(e ast.Expr) {
					// the field itself, or an expression that reads all of it (maps.Keys(x.f), slices.Collect(…))
					ast.Inspect(e, func(m ast.Node) bool {
						if ex, ok := m.(ast.Expr); ok {
							if fv := fieldOf(info, ex); fv != nil {
								switch fv.Type().Underlying().(type) {
								case *types.Map, *types.Slice:
									gen = append(gen, "snap:"+c.ca.w.canonName(fv))
								}
							}
						}
						return true
					})
				}
				switch s := n.(type) {
				case *ast.AssignStmt:
					for _, rhs := range s.Rhs {
						note(rhs)
					}
				case ast.Expr: // range expression
					note(s)
				}
				return
			}})
			// x := drain(&recv.f): the private helper takes the snapshot and resets the field; both
			// happen inside the call, hence in one critical section, unless the helper itself locks
			for _, n := range u.flow.Nodes() {
				for _, cc := range callsIn(n, false) {
					cal := callee(info, cc)
					if cal == nil || cal.Exported() {
						continue
					}
					if o := cal.Origin(); o != nil {
						cal = o
					}
					t := w.Decls[cal]
					if t == nil {
						continue
					}
					k := 0
					for _, fl := range t.Decl.Type.Params.List {
						for _, nm := range fl.Names {
							if k < len(cc.Args) {
								if ue, isU := unparen(cc.Args[k]).(*ast.UnaryExpr); isU && ue.Op == token.AND {
									if fv := fieldOf(info, ue.X); fv != nil && assignsNilThrough(t.Pkg.TypesInfo, t, t.Pkg.TypesInfo.Defs[nm]) {
										locks := false
										for _, hc := range callsIn(t.Decl.Body, true) {
											if _, _, _, isM := mutexOp(t.Pkg.TypesInfo, hc); isM {
												locks = true
											}
										}
										con := c.fi.Name() + "#reset:" + c.ca.w.canonName(fv)
										if locks && snapshotAndResetInOneSection(w, t, t.Pkg.TypesInfo.Defs[nm]) {
											// takeDisposables(&x.mu, &x.list): the helper takes the lock itself and does both under it
											locks = false
										}
										r.Check(!locks, rule, con, cc.Pos(), true,
											"snapshot and reset of "+fv.Name()+" happen inside one helper call made within the critical section",
											fv.Name()+" is snapshotted and reset by "+t.Name()+", which takes locks of its own: the two are not one critical section")
									}
								}
							}
							k++
						}
					}
				}
			}
			for _, n := range u.flow.Nodes() {
				as, ok := n.(*ast.AssignStmt)
				if !ok || len(as.Lhs) != len(as.Rhs) {
					continue
				}
				for i, l := range as.Lhs {
					fv := fieldOf(info, l)
					if fv == nil || !isNilIdent(info, as.Rhs[i]) {
						continue
					}
					switch fv.Type().Underlying().(type) {
					case *types.Slice, *types.Map:
					default:
						continue
					}
					con := c.fi.Name() + "#reset:" + c.ca.w.canonName(fv)
					// fields that are only reset, never handed on (cache), need no snapshot
					usedAsSnapshot := false
					for _, l := range c.ca.reachableLoops() {
						if l.field == fv {
							usedAsSnapshot = true
						}
					}
					if !usedAsSnapshot {
						r.OK(rule, con, as.Pos(), false, "table is reset without being handed on")
						continue
					}
					if sol.Before[n].Has("snap:" + c.ca.w.canonName(fv)) {
						r.OK(rule, con, as.Pos(), true, "snapshot and reset of %s happen inside one critical section: each entry is handed to exactly one Close call", fv.Name())
					} else {
						r.Fail(rule, con, as.Pos(), "%s is reset to nil in a different critical section than the one that took its snapshot: entries added in between are dropped without being closed", fv.Name())
					}
				}
			}
		}
	}
}

// ruleCloseOrder: R11.3 / R11.4 - children before own instances; scopes, then
// root scope, then singletons.
func ruleCloseOrder(w *World, r *Report, rule string) {
	for _, c := range closers(w) {
		drains := c.drainLoops()
		if len(drains) == 0 || c.list == nil {
			continue
		}
		for i, l := range drains {
			n := c.ca.flow.NodeContaining(l.head())
			if fs, ok := l.stmt.(*ast.ForStmt); ok && fs.Init != nil {
				n = fs.Init
			} else if rs, ok := l.stmt.(*ast.RangeStmt); ok {
				n = rs.X
			}
			before := c.ca.sol.Before[n]
			if before == nil {
				// the loop lives in a helper: use the facts before the call that reaches it
				before = c.factsBeforeHelperWith(l)
			}
			con := fmt.Sprintf("%s#order/%d", c.fi.Name(), i+1)
			switch c.owner {
			case "scope":
				_, kids := before.HasPrefix("closedall:scope.children:")
				r.Check(kids, rule, con, l.head(), true,
					"all child scopes have been closed on every path to the scope's own disposal loop",
					"the scope's own instances can be disposed before (or without) all child scopes having been closed")
			case "provider":
				_, scopes := before.HasPrefix("closedall:provider.scopes:")
				root := before.Has("P:closed:provider.rootScope")
				r.Check(scopes && root, rule, con, l.head(), true,
					"every tracked scope and the root scope have been closed on every path to the singleton disposal loop",
					fmt.Sprintf("singletons can be disposed before every scope is closed (all tracked scopes closed first: %v; root scope closed first: %v)", scopes, root))
			}
		}
		if c.owner == "provider" {
			// root scope after the tracked scopes (the call may live in a private helper of Close)
			for _, unitFn := range c.units() {
				uinfo := unitFn.Pkg.TypesInfo
				for _, call := range callsIn(unitFn.Decl.Body, false) {
					rcv, k, ok := isCloseCall(uinfo, call)
					if !ok || k != "scope" {
						continue
					}
					fv := fieldOf(uinfo, rcv)
					if fv == nil || c.ca.w.canonName(fv) != "rootScope" {
						continue
					}
					var before Facts
					if unitFn == c.fi {
						if n := c.ca.flow.NodeContaining(call.Pos()); n != nil {
							before = c.ca.sol.Before[n]
						}
					} else {
						before = c.factsBeforeCallInto(unitFn)
					}
					_, scopes := before.HasPrefix("closedall:provider.scopes:")
					r.Check(scopes, rule, c.fi.Name()+"#order:root-after-scopes", call.Pos(), true,
						"the root scope is closed after every tracked scope",
						"the root scope can be closed before the tracked scopes")
				}
			}
		}
	}
}

// factsBeforeHelperWith finds the call in Close to the helper that contains loop l.
func (c *closer) factsBeforeHelperWith(l *closeLoop) Facts {
	info := c.fi.Pkg.TypesInfo
	for _, n := range c.ca.flow.Nodes() {
		for _, call := range callsIn(n, false) {
			if cal := callee(info, call); cal != nil {
				if t := c.ca.w.Decls[cal]; t != nil && t.Decl.Body.Pos() <= l.head() && l.head() < t.Decl.Body.End() {
					return c.ca.sol.Before[n]
				}
			}
		}
	}
	return nil
}

// factsBeforeCallInto: the facts that hold in Close before the node through
// which the helper fn is (transitively) reached.
func (c *closer) factsBeforeCallInto(fn *FuncInfo) Facts {
	info := c.fi.Pkg.TypesInfo
	w := c.ca.w
	for _, n := range c.ca.flow.Nodes() {
		for _, call := range callsIn(n, false) {
			cal := callee(info, call)
			if cal == nil || w.Decls[cal] == nil {
				continue
			}
			for _, g := range w.Within(w.Decls[cal], 2) {
				if g == fn {
					return c.ca.sol.Before[n]
				}
			}
		}
	}
	return nil
}

// ruleCascade: R13.2 - Close closes every element of a snapshot of the table of
// children / scopes, and the provider also closes its root scope.
func ruleCascade(w *World, r *Report, rule string) {
	for _, c := range closers(w) {
		table := map[string]string{"scope": "children", "provider": "scopes"}[c.owner]
		tf := w.Field(w.Godi, c.owner, table)
		con := c.fi.Name() + "#cascade:" + table
		var found *closeLoop
		for _, l := range c.scopeLoops() {
			if l.field == tf {
				found = l
			}
		}
		unknown := false
		for _, l := range c.scopeLoops() {
			if l.field == nil {
				unknown = true
			}
		}
		switch {
		case found == nil && unknown:
			r.Undecided(rule, con, c.fi.Decl.Pos(), "%s closes the elements of a collection whose origin the analysis cannot trace to a field: whether it is a snapshot of %s.%s is not decided", c.fi.Name(), c.owner, table)
		case found == nil:
			r.Fail(rule, con, c.fi.Decl.Pos(), "%s has no loop closing every scope recorded in %s.%s", c.fi.Name(), c.owner, table)
		case found.problem != "":
			r.Fail(rule, con, found.head(), "cascade over %s: %s", table, found.problem)
		case found.dir == "odd":
			r.Fail(rule, con, found.head(), "cascade over %s does not visit every element: %s", table, found.dirWhy)
		default:
			where, ok := c.mustAtWonExits("closedall:" + c.owner + "." + table + ":*")
			r.Check(ok, rule, con, found.head(), true,
				"every scope in a snapshot ("+found.origin+") of "+c.owner+"."+table+" is closed, on every path past the gate",
				"the exit at "+where+" is reached past the gate without the cascade over "+table)
		}
		if c.owner == "provider" {
			where, ok := c.mustAtWonExits("P:closed:provider.rootScope")
			r.Check(ok, rule, c.fi.Name()+"#cascade:rootScope", c.fi.Decl.Pos(), true,
				"the root scope is closed on every path past the gate (only a nil test of the pointer may guard it)",
				"the exit at "+where+" is reached past the gate without closing the root scope")
		}
	}
}

// ruleErrorsAccumulate: R12.2/R12.4 - every Close() error inside Close flows
// into the accumulator and the traversal continues; R12.3 - the result is a
// DisposalError carrying the accumulator iff it is non-empty.
func ruleErrorsAccumulate(w *World, r *Report, ruleAcc, ruleResult string) {
	for _, c := range closers(w) {
		info := c.fi.Pkg.TypesInfo
		units := c.units()
		// F: the function (Close or a private helper: disposalResult(errs), acc.result(ctx))
		// that builds the DisposalError; accF: the object it takes Errors from
		var F *FuncInfo
		var accF types.Object
		var lit *ast.CompositeLit
		for _, u := range units {
			ast.Inspect(u.Decl.Body, func(n ast.Node) bool {
				if cl, ok := n.(*ast.CompositeLit); ok {
					if tv, ok := info.Types[cl]; ok && isNamedType(tv.Type, modPath, "DisposalError") {
						if e, ok := compositeFields(cl)["Errors"]; ok {
							e = unparen(e)
							if cv, isConv := e.(*ast.CallExpr); isConv && len(cv.Args) == 1 {
								if tv, ok := info.Types[cv.Fun]; ok && tv.IsType() {
									e = unparen(cv.Args[0]) // []error(acc)
								}
							}
							if o := baseObj(info, e); o != nil {
								F, accF, lit = u, o, cl
							}
						}
					}
				}
				return true
			})
		}
		if F == nil {
			r.Fail(ruleResult, c.fi.Name()+"#result", c.fi.Decl.Pos(), "%s never builds a DisposalError from an error accumulator", c.fi.Name())
			continue
		}
		// ---- the result: DisposalError exactly on the non-empty edge
		con := c.fi.Name() + "#result"
		bad := ""
		checkExit := func(f Facts, ex Exit, acc types.Object) {
			if ex.Ret == nil || len(ex.Ret.Results) != 1 {
				bad = "an exit past the gate returns nothing"
				return
			}
			res := ex.Ret.Results[0]
			switch {
			case isNilIdent(info, res):
				if !f.Has("empty:" + acc.Name()) {
					bad = fmt.Sprintf("the exit at %s returns nil without having established that %s is empty: collected errors are dropped", w.Pos(ex.Pos), acc.Name())
				}
			case litOf(res) == lit:
				if !f.Has("nonempty:" + acc.Name()) {
					bad = fmt.Sprintf("the exit at %s returns a DisposalError without having established that %s is non-empty", w.Pos(ex.Pos), acc.Name())
				}
			default:
				// `var result error; if len(acc) > 0 { result = &DisposalError{…} }; …; return result`
				if resultVarIdiom(w, info, F, res, lit, acc) {
					return
				}
				bad = fmt.Sprintf("the exit at %s returns %s, neither nil nor the DisposalError built from %s", w.Pos(ex.Pos), exprStr(res), acc.Name())
			}
		}
		// A: the accumulator in Close's own namespace
		A := accF
		if F == c.fi {
			for _, ex := range c.wonExits() {
				checkExit(c.ca.sol.AtExit(ex), ex, accF)
			}
		} else {
			ffl := w.FlowOf(F)
			fsol := c.ca.ev.Solve(ffl, true)
			for _, ex := range ffl.Exits() {
				if !ex.Panic {
					checkExit(fsol.AtExit(ex), ex, accF)
				}
			}
			// Close returns F(accumulator) on every exit past the gate
			A = nil
			for _, ex := range c.wonExits() {
				if ex.Ret == nil || len(ex.Ret.Results) != 1 {
					bad = "an exit past the gate returns nothing"
					continue
				}
				call, ok := unparen(ex.Ret.Results[0]).(*ast.CallExpr)
				if !ok || callee(info, call) != F.Obj {
					bad = fmt.Sprintf("the exit at %s returns %s, not the result of %s", w.Pos(ex.Pos), exprStr(ex.Ret.Results[0]), F.Name())
					continue
				}
				// the argument in the accumulator's position
				var arg ast.Expr
				if F.Decl.Recv != nil && len(F.Decl.Recv.List[0].Names) == 1 && info.Defs[F.Decl.Recv.List[0].Names[0]] == accF {
					arg, _, _ = methodCall(call)
				}
				k := 0
				for _, fl := range F.Decl.Type.Params.List {
					for _, nm := range fl.Names {
						if info.Defs[nm] == accF && k < len(call.Args) {
							arg = call.Args[k]
						}
						k++
					}
				}
				if arg == nil || baseObj(info, arg) == nil {
					bad = fmt.Sprintf("%s is not given the error accumulator", F.Name())
					continue
				}
				A = baseObj(info, arg)
			}
			if A == nil && bad == "" {
				bad = "no exit past the gate returns the result of " + F.Name()
			}
		}
		if bad != "" {
			r.Fail(ruleResult, con, lit.Pos(), "%s", bad)
		} else {
			r.OK(ruleResult, con, lit.Pos(), true, "past the gate, Close returns DisposalError{Errors: %s} exactly on the len(%s) > 0 edge and nil otherwise", accF.Name(), accF.Name())
		}
		if A == nil {
			continue
		}
		// ---- every Close() error obtained by Close and its helpers reaches the accumulator
		vf := newVFlow(w, units, func(ci *types.Info, call *ast.CallExpr) bool {
			_, k, isC := isCloseCall(ci, call)
			return isC && k != "other"
		})
		n := 0
		for _, src := range vf.srcs {
			n++
			conE := fmt.Sprintf("%s#close-error/%d", src.fn.Name(), n)
			switch {
			case src.drop:
				r.Fail(ruleAcc, conE, src.call.Pos(), "the error returned by %s is discarded: a failure in the subtree is not reported", exprStr(src.call.Fun))
			case !vf.reaches(src.obj, A):
				r.Fail(ruleAcc, conE, src.call.Pos(), "the error returned by %s is not appended to the accumulator %s that feeds the DisposalError", exprStr(src.call.Fun), A.Name())
			default:
				// leaving early on the error: a return / break / goto that is control dependent on it
				early := earlyExitOnError(w, src)
				if early != "" {
					r.Fail(ruleAcc, conE, src.call.Pos(), "an error from %s makes Close leave early (%s): the remaining instances are never closed", exprStr(src.call.Fun), early)
				} else {
					r.OK(ruleAcc, conE, src.call.Pos(), true, "error of %s flows into %s and the traversal continues", exprStr(src.call.Fun), A.Name())
				}
			}
		}
	}
}

// units: Close and the private functions that only the Close methods (and their
// helpers) call and that this Close reaches.
func (c *closer) units() []*FuncInfo {
	w := c.ca.w
	base := map[*FuncInfo]string{}
	for _, o := range []string{"scope", "provider"} {
		base[w.MustFn(w.Godi, "(*"+o+").Close")] = "Close"
	}
	closure := w.HelperClosure(base)
	var out []*FuncInfo
	for _, f := range w.Within(c.fi, 3) {
		if _, ok := closure[f]; ok && (f == c.fi || f.Obj.Name() != "Close") {
			out = append(out, f)
		}
	}
	return out
}

// earlyExitOnError: inside the statement that binds the error (if err := x.Close(); err != nil {…})
// or right after it, a return/break/goto under the error's non-nil test.
func earlyExitOnError(w *World, src vsource) string {
	info := src.fn.Pkg.TypesInfo
	var errObj types.Object
	var holder ast.Stmt
	ast.Inspect(src.fn.Decl.Body, func(n ast.Node) bool {
		if as, ok := n.(*ast.AssignStmt); ok && len(as.Rhs) == 1 && unparen(as.Rhs[0]) == ast.Expr(src.call) && len(as.Lhs) == 1 {
			errObj = baseObj(info, as.Lhs[0])
			holder = as
		}
		return true
	})
	if errObj == nil {
		return ""
	}
	early := ""
	ast.Inspect(src.fn.Decl.Body, func(n ast.Node) bool {
		ifs, ok := n.(*ast.IfStmt)
		if !ok {
			return true
		}
		if !isNilTestOf(info, ifs.Cond, func(e ast.Expr) bool { return objOf(info, e) == errObj }, true) {
			return true
		}
		if ifs.Init != nil && ifs.Init != holder && ifs.Pos() < holder.Pos() {
			return true
		}
		inspectNoLit(ifs.Body, func(m ast.Node) bool {
			switch b := m.(type) {
			case *ast.ReturnStmt:
				early = "return at " + w.Pos(b.Pos())
			case *ast.BranchStmt:
				if b.Tok == token.BREAK || b.Tok == token.GOTO {
					early = b.Tok.String() + " at " + w.Pos(b.Pos())
				}
			}
			return true
		})
		return true
	})
	return early
}

// ruleRelease: R14.1/R14.2/R14.4 - past the gate every path of scope.Close
// cancels the context, deletes the scope from both tables and resets its cache.
func ruleRelease(w *World, r *Report, rCancel, rDelete, rReset string) {
	var sc *closer
	for _, c := range closers(w) {
		if c.owner == "scope" {
			sc = c
		}
	}
	where, ok := sc.mustAtWonExits("P:cancel")
	r.Check(ok, rCancel, sc.fi.Name()+"#cancel", sc.fi.Decl.Pos(), true,
		"the stored cancel func is called on every path past the gate (only a nil test of it may guard the call)",
		"the exit at "+where+" is reached past the gate without calling the scope's cancel func: the derived context and the watcher goroutine stay alive")
	where, ok = sc.mustAtWonExits("P:del:scope.children")
	r.Check(ok, rDelete, sc.fi.Name()+"#delete:parent.children", sc.fi.Decl.Pos(), true,
		"the scope removes itself from its parent's children on every path past the gate (only a nil test of the parent pointer may guard it)",
		"the exit at "+where+" is reached past the gate without delete(parent.children, s): the parent keeps the closed scope reachable")
	where, ok = sc.mustAtWonExits("P:del:provider.scopes")
	r.Check(ok, rDelete, sc.fi.Name()+"#delete:provider.scopes", sc.fi.Decl.Pos(), true,
		"the scope removes itself from the provider's scope table on every path past the gate (only a nil test of the provider pointer may guard it)",
		"the exit at "+where+" is reached past the gate without delete(provider.scopes, s): the provider keeps every closed scope reachable")
	for _, f := range []string{"instances", "disposables", "children"} {
		where, ok = sc.mustAtWonExits("nil:scope."+f, "clear:scope."+f)
		r.Check(ok, rReset, sc.fi.Name()+"#reset:"+f, sc.fi.Decl.Pos(), true,
			"scope."+f+" is reset on every path past the gate",
			"the exit at "+where+" is reached past the gate without resetting scope."+f+": the closed scope keeps its instances reachable")
	}
}

// insertionsPaired: R14.3 - every insertion into scopes/children has its deletion in Close.
func ruleTablePairing(w *World, r *Report, rule string, la *LockAnalysis) {
	children := w.Field(w.Godi, "scope", "children")
	scopes := w.Field(w.Godi, "provider", "scopes")
	var sc *closer
	for _, c := range closers(w) {
		if c.owner == "scope" {
			sc = c
		}
	}
	acc := collectAccesses(w, la, func(v *types.Var) bool { return v == children || v == scopes })
	n := 0
	for _, a := range acc {
		if a.Kind != "index-write" {
			continue
		}
		n++
		owner := ownerField(w, a.Field)
		con := fmt.Sprintf("%s#insert:%s/%d", unitName(a.Unit), owner, n)
		_, ok := sc.mustAtWonExits("P:del:" + owner)
		r.Check(ok, rule, con, a.Pos(), true,
			"the insertion into "+owner+" is paired with a deletion on every path of (*scope).Close past the gate",
			"scopes are inserted into "+owner+" here but (*scope).Close does not delete them on every path")
	}
}

func unitName(u *unit) string {
	if u == nil {
		return "<package>"
	}
	return u.name
}

var _ = token.NoPos

// snapshotAndResetInOneSection: in helper t, which locks by itself, the read of
// *p (the snapshot) and the assignment *p = nil happen without a mutex
// operation in between, and under a lock (some lock is held at the reset).
func snapshotAndResetInOneSection(w *World, t *FuncInfo, p types.Object) bool {
	info := t.Pkg.TypesInfo
	derefOfP := func(e ast.Expr) bool {
		st, ok := unparen(e).(*ast.StarExpr)
		return ok && objOf(info, st.X) == p
	}
	fl := w.FlowOf(t)
	sol := fl.Solve(Spec{Must: true, Node: func(n ast.Node, in Facts) (gen, kill []string) {
		for _, cc := range callsIn(n, false) {
			if _, _, op, ok := mutexOp(info, cc); ok {
				kill = append(kill, "snap")
				switch op {
				case "Lock", "RLock":
					gen = append(gen, "locked")
				default:
					kill = append(kill, "locked")
				}
			}
		}
		if as, ok := n.(*ast.AssignStmt); ok {
			for _, rhs := range as.Rhs {
				found := false
				ast.Inspect(rhs, func(m ast.Node) bool {
					if ex, ok := m.(ast.Expr); ok && derefOfP(ex) {
						found = true
					}
					return true
				})
				if found {
					gen = append(gen, "snap")
				}
			}
		}
		return
	}})
	resets, good := 0, true
	for _, n := range fl.Nodes() {
		as, ok := n.(*ast.AssignStmt)
		if !ok || len(as.Lhs) != len(as.Rhs) {
			continue
		}
		for i, l := range as.Lhs {
			if derefOfP(l) && isNilIdent(info, as.Rhs[i]) {
				resets++
				if !sol.Before[n].Has("snap") || !sol.Before[n].Has("locked") {
					good = false
				}
			}
		}
	}
	return resets > 0 && good
}

// resultVarIdiom: res is a local error variable that starts as nil and is
// assigned exactly once, the DisposalError literal, under exactly one condition -
// a test of the accumulator's length (the non-empty edge): returning it is
// returning "nil or the DisposalError".
func resultVarIdiom(w *World, info *types.Info, F *FuncInfo, res ast.Expr, lit *ast.CompositeLit, acc types.Object) bool {
	o, ok := objOf(info, res).(*types.Var)
	if !ok || o.IsField() || !isErrorType(o.Type()) {
		return false
	}
	assigns, good := 0, true
	ast.Inspect(F.Decl.Body, func(x ast.Node) bool {
		switch st := x.(type) {
		case *ast.ValueSpec:
			for i, nm := range st.Names {
				if info.Defs[nm] == o && i < len(st.Values) && !isNilIdent(info, st.Values[i]) {
					good = false
				}
			}
		case *ast.AssignStmt:
			for i, l := range st.Lhs {
				if objOf(info, l) != o {
					continue
				}
				if st.Tok == token.DEFINE && i < len(st.Rhs) && isNilIdent(info, st.Rhs[i]) {
					continue
				}
				assigns++
				if i >= len(st.Rhs) || litOf(st.Rhs[i]) != lit {
					good = false
					continue
				}
				// exactly one condition holds on the way to the assignment - the test that the
				// accumulator is non-empty; the others are early exits that were not taken (the gate)
				conds, vals := controllingCondsInfo(info, F.Decl.Body, st.Pos())
				lenTests, others := 0, 0
				for k, cd := range conds {
					if !vals[k] {
						continue
					}
					be, isBe := unparen(cd).(*ast.BinaryExpr)
					if isBe && (be.Op == token.GTR || be.Op == token.NEQ) {
						if c, isC := unparen(be.X).(*ast.CallExpr); isC && exprStr(c.Fun) == "len" && len(c.Args) == 1 && baseObj(info, c.Args[0]) == acc {
							lenTests++
							continue
						}
					}
					others++
				}
				if lenTests != 1 || others != 0 {
					good = false
				}
			}
		}
		return true
	})
	return good && assigns == 1
}
