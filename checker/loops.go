package main

import (
	"go/ast"
	"go/token"
	"go/types"
)

// iterLoop is a loop over the elements of a collection in either surface form:
//
//	for k, v := range coll { … }
//	for i := 0; i < len(coll); i++ { v := coll[i]; … }   (or the reverse traversal)
type iterLoop struct {
	Stmt    ast.Stmt
	Body    *ast.BlockStmt
	Coll    ast.Expr     // the expression iterated over
	CollObj types.Object // its object when it is a plain variable
	Elem    types.Object // element variable (range value; map: range key; index loop: v bound by v := coll[i])
	Index   types.Object // range key / index variable
	Dir     string       // fwd | rev | map | odd
	DirWhy  string
	info    *types.Info
	// for loops whose element index is derived from the loop variable
	// (last := n-1-i; coll[last]): the object holding the derived index
	idxAlias types.Object
}

// synthFields: selector expressions the analysis made up (the field an accessor
// returns, written at the accessor's call site) and the field they denote.
var synthFields = map[*ast.SelectorExpr]*types.Var{}

// IsElem reports whether e denotes the current element of the loop.
func (l *iterLoop) IsElem(e ast.Expr) bool {
	e = unparen(e)
	if l.Elem != nil && objOf(l.info, e) == l.Elem {
		return true
	}
	if ix, ok := e.(*ast.IndexExpr); ok && l.idxAlias != nil && objOf(l.info, ix.Index) == l.idxAlias {
		if l.CollObj != nil {
			return objOf(l.info, ix.X) == l.CollObj
		}
		return exprStr(ix.X) == exprStr(l.Coll)
	}
	if ix, ok := e.(*ast.IndexExpr); ok && l.Index != nil && l.idxAlias == nil && objOf(l.info, ix.Index) == l.Index {
		if l.CollObj != nil {
			return objOf(l.info, ix.X) == l.CollObj
		}
		return exprStr(ix.X) == exprStr(l.Coll)
	}
	return false
}

// asIterLoop recognises a statement as an iterLoop.
func asIterLoop(info *types.Info, st ast.Stmt) *iterLoop {
	switch s := st.(type) {
	case *ast.RangeStmt:
		// for i, v := range slices.Backward(x): a complete reverse traversal of x
		if c, ok := unparen(s.X).(*ast.CallExpr); ok && isFunc(callee(info, c), "slices", "", "Backward") && len(c.Args) == 1 {
			l := &iterLoop{Stmt: s, Body: s.Body, Coll: c.Args[0], CollObj: objOf(info, c.Args[0]), Dir: "rev", info: info}
			if s.Key != nil {
				l.Index = objOf(info, s.Key)
			}
			if s.Value != nil {
				l.Elem = objOf(info, s.Value)
			}
			return l
		}
		// for v := range slices.Values(x): a complete forward traversal of x (the value is in key
		// position); also through a one-line accessor `func (c *T) items() iter.Seq[E] { return slices.Values(c.f) }`
		if c, ok := unparen(s.X).(*ast.CallExpr); ok {
			var coll ast.Expr
			if isFunc(callee(info, c), "slices", "", "Values") && len(c.Args) == 1 {
				coll = c.Args[0]
			} else if cal := callee(info, c); cal != nil && theWorld != nil && len(c.Args) == 0 {
				if t := theWorld.Decls[cal]; t != nil && t.Decl.Body != nil && len(t.Decl.Body.List) == 1 && t.Decl.Recv != nil && len(t.Decl.Recv.List[0].Names) == 1 {
					if ret, isRet := t.Decl.Body.List[0].(*ast.ReturnStmt); isRet && len(ret.Results) == 1 {
						tinfo := t.Pkg.TypesInfo
						if ic, isC := unparen(ret.Results[0]).(*ast.CallExpr); isC && isFunc(callee(tinfo, ic), "slices", "", "Values") && len(ic.Args) == 1 {
							// c.f in the accessor is <receiver of the call>.f at the call site
							if sel, isSel := unparen(ic.Args[0]).(*ast.SelectorExpr); isSel && objOf(tinfo, sel.X) == tinfo.Defs[t.Decl.Recv.List[0].Names[0]] {
								if rcv, _, isM := methodCall(c); isM {
									coll = &ast.SelectorExpr{X: rcv, Sel: sel.Sel}
									if fv := plainFieldOf(tinfo, sel); fv != nil {
										synthFields[coll.(*ast.SelectorExpr)] = fv
									}
								}
							}
						}
					}
				}
			}
			if coll != nil {
				l := &iterLoop{Stmt: s, Body: s.Body, Coll: coll, CollObj: objOf(info, coll), Dir: "fwd", info: info}
				if s.Key != nil {
					l.Elem = objOf(info, s.Key)
				}
				return l
			}
		}
		// for i := range n (n an integer): an index loop 0..n-1
		if tv, ok := info.Types[s.X]; ok && tv.Type != nil {
			if b, isB := tv.Type.Underlying().(*types.Basic); isB && b.Info()&types.IsInteger != 0 {
				return intRangeLoop(info, s)
			}
		}
		l := &iterLoop{Stmt: s, Body: s.Body, Coll: s.X, CollObj: objOf(info, s.X), Dir: "fwd", info: info}
		if s.Key != nil {
			l.Index = objOf(info, s.Key)
		}
		if tv, ok := info.Types[s.X]; ok {
			if _, isMap := tv.Type.Underlying().(*types.Map); isMap {
				l.Dir = "map"
				l.Elem = l.Index // the keys are what a set-like table holds
				if s.Value != nil {
					if o := objOf(info, s.Value); o != nil {
						l.Elem = o
					}
				}
				return l
			}
		}
		if s.Value != nil {
			l.Elem = objOf(info, s.Value)
		}
		return l
	case *ast.ForStmt:
		as, ok := s.Init.(*ast.AssignStmt)
		if !ok || len(as.Lhs) != 1 {
			return nil
		}
		iObj := objOf(info, as.Lhs[0])
		if iObj == nil {
			return nil
		}
		l := &iterLoop{Stmt: s, Body: s.Body, Index: iObj, info: info}
		// the collection: X in `v := X[i]` (first such statement) or any X[i] in the body, or len(X) in the condition
		ast.Inspect(s.Body, func(n ast.Node) bool {
			if l.Coll != nil {
				return false
			}
			if ix, ok := n.(*ast.IndexExpr); ok && objOf(info, ix.Index) == iObj {
				l.Coll = ix.X
			}
			return true
		})
		if l.Coll == nil {
			return nil
		}
		l.CollObj = objOf(info, l.Coll)
		for _, bs := range s.Body.List {
			if a2, ok := bs.(*ast.AssignStmt); ok && len(a2.Lhs) == 1 && len(a2.Rhs) == 1 {
				if ix, ok := unparen(a2.Rhs[0]).(*ast.IndexExpr); ok && objOf(info, ix.Index) == iObj && exprStr(ix.X) == exprStr(l.Coll) {
					l.Elem = objOf(info, a2.Lhs[0])
					break
				}
			}
		}
		if l.CollObj != nil {
			l.Dir, l.DirWhy = indexLoopDirection(info, s, iObj, l.CollObj)
		} else {
			l.Dir, l.DirWhy = "odd", "collection is not a variable"
		}
		return l
	}
	return nil
}

// iterLoopsIn lists the iterLoops inside n (not descending into function literals).
func iterLoopsIn(info *types.Info, n ast.Node) []*iterLoop {
	var out []*iterLoop
	inspectNoLit(n, func(m ast.Node) bool {
		if st, ok := m.(ast.Stmt); ok {
			if l := asIterLoop(info, st); l != nil {
				out = append(out, l)
			}
		}
		return true
	})
	return out
}

// intRangeLoop: `for i := range n` where n is len(coll) (directly or through a
// local), and the body reads coll[i] (forward) or coll[n-1-i] (reverse), the
// derived index possibly kept in a local (`last := n - 1 - i`).
func intRangeLoop(info *types.Info, s *ast.RangeStmt) *iterLoop {
	if s.Key == nil {
		return nil
	}
	iObj := objOf(info, s.Key)
	if iObj == nil {
		return nil
	}
	// the enclosing function body is not at hand: resolve locals within the loop's
	// surroundings by looking at the statement that defines n, found through its object
	nExpr := unparen(s.X)
	lenOf := func(e ast.Expr) ast.Expr { // len(x) -> x
		c, ok := unparen(e).(*ast.CallExpr)
		if !ok || len(c.Args) != 1 {
			return nil
		}
		if id, ok := unparen(c.Fun).(*ast.Ident); ok && id.Name == "len" {
			return c.Args[0]
		}
		return nil
	}
	l := &iterLoop{Stmt: s, Body: s.Body, Index: iObj, info: info, Dir: "odd", DirWhy: "element index not recognised"}
	// candidates for the collection: any X[idx] in the body whose idx is i, or n-1-i, or a local defined as n-1-i
	isRevExpr := func(e ast.Expr) bool {
		// n - 1 - i  |  len(x) - 1 - i  |  n - i - 1
		be, ok := unparen(e).(*ast.BinaryExpr)
		if !ok || be.Op != token.SUB {
			return false
		}
		parts := []ast.Expr{be.Y}
		if inner, ok := unparen(be.X).(*ast.BinaryExpr); ok && inner.Op == token.SUB {
			parts = append(parts, inner.Y)
			base := unparen(inner.X)
			if exprStr(base) != exprStr(nExpr) {
				return false
			}
		} else {
			return false
		}
		one, idx := false, false
		for _, p := range parts {
			if v, ok := constInt(info, p); ok && v == 1 {
				one = true
			}
			if objOf(info, p) == iObj {
				idx = true
			}
		}
		return one && idx
	}
	for _, bs := range s.Body.List {
		if as, ok := bs.(*ast.AssignStmt); ok && len(as.Lhs) == 1 && len(as.Rhs) == 1 && as.Tok == token.DEFINE {
			if isRevExpr(as.Rhs[0]) {
				l.idxAlias = objOf(info, as.Lhs[0])
			}
		}
	}
	ast.Inspect(s.Body, func(n ast.Node) bool {
		if l.Coll != nil {
			return false
		}
		ix, ok := n.(*ast.IndexExpr)
		if !ok {
			return true
		}
		switch {
		case objOf(info, ix.Index) == iObj:
			l.Coll, l.Dir, l.DirWhy = ix.X, "fwd", ""
		case l.idxAlias != nil && objOf(info, ix.Index) == l.idxAlias:
			l.Coll, l.Dir, l.DirWhy = ix.X, "rev", ""
		case isRevExpr(ix.Index):
			l.Coll, l.Dir, l.DirWhy = ix.X, "rev", ""
		}
		return true
	})
	if l.Coll == nil {
		return nil
	}
	l.CollObj = objOf(info, l.Coll)
	// n must be the length of the collection: len(coll) directly, or a local defined as len(coll)
	okLen := false
	if x := lenOf(nExpr); x != nil && exprStr(x) == exprStr(l.Coll) {
		okLen = true
	}
	if o := objOf(info, nExpr); o != nil && !okLen {
		okLen = lenDefinedAs(info, o, l.Coll) // n := len(coll), assigned once
	}
	if !okLen {
		l.Dir, l.DirWhy = "odd", "the loop bound is not the length of the collection"
	}
	for _, bs := range s.Body.List {
		if a2, ok := bs.(*ast.AssignStmt); ok && len(a2.Lhs) == 1 && len(a2.Rhs) == 1 {
			if l.IsElem(a2.Rhs[0]) {
				l.Elem = objOf(info, a2.Lhs[0])
				break
			}
		}
	}
	return l
}

// lenDefs caches, per types.Info, the variables defined as len(x): object -> x.
var lenDefs = map[*types.Info]map[types.Object]ast.Expr{}

func lenDefinedAs(info *types.Info, o types.Object, coll ast.Expr) bool {
	x, ok := lenDefs[info][o]
	return ok && exprStr(x) == exprStr(coll)
}

// recordLenDefs scans a file set of syntax trees for `n := len(x)` definitions.
func recordLenDefs(info *types.Info, files []*ast.File) {
	m := map[types.Object]ast.Expr{}
	for _, f := range files {
		ast.Inspect(f, func(n ast.Node) bool {
			as, ok := n.(*ast.AssignStmt)
			if !ok || len(as.Lhs) != len(as.Rhs) {
				return true
			}
			for i, l := range as.Lhs {
				c, ok := unparen(as.Rhs[i]).(*ast.CallExpr)
				if !ok || len(c.Args) != 1 {
					continue
				}
				if id, ok := unparen(c.Fun).(*ast.Ident); ok && id.Name == "len" {
					if o := objOf(info, l); o != nil {
						if _, dup := m[o]; dup {
							m[o] = nil // assigned twice: not a stable length
						} else {
							m[o] = c.Args[0]
						}
					}
				}
			}
			return true
		})
	}
	lenDefs[info] = m
}
