package main

import (
	"go/ast"
	"go/types"
)

// iterLoop is a loop over the elements of a collection in either surface form:
//
//	for k, v := range coll { … }
//	for i := 0; i < len(coll); i++ { v := coll[i]; … }   (or the reverse traversal)
type iterLoop struct {
	Stmt    ast.Stmt
	Body    *ast.BlockStmt
	Coll    ast.Expr     // the expression iterated over
	CollObj types.Object // its object when it is a plain variable
	Elem    types.Object // element variable (range value; map: range key; index loop: v bound by v := coll[i])
	Index   types.Object // range key / index variable
	Dir     string       // fwd | rev | map | odd
	DirWhy  string
	info    *types.Info
}

// IsElem reports whether e denotes the current element of the loop.
func (l *iterLoop) IsElem(e ast.Expr) bool {
	e = unparen(e)
	if l.Elem != nil && objOf(l.info, e) == l.Elem {
		return true
	}
	if ix, ok := e.(*ast.IndexExpr); ok && l.Index != nil && objOf(l.info, ix.Index) == l.Index {
		if l.CollObj != nil {
			return objOf(l.info, ix.X) == l.CollObj
		}
		return exprStr(ix.X) == exprStr(l.Coll)
	}
	return false
}

// asIterLoop recognises a statement as an iterLoop.
func asIterLoop(info *types.Info, st ast.Stmt) *iterLoop {
	switch s := st.(type) {
	case *ast.RangeStmt:
		l := &iterLoop{Stmt: s, Body: s.Body, Coll: s.X, CollObj: objOf(info, s.X), Dir: "fwd", info: info}
		if s.Key != nil {
			l.Index = objOf(info, s.Key)
		}
		if tv, ok := info.Types[s.X]; ok {
			if _, isMap := tv.Type.Underlying().(*types.Map); isMap {
				l.Dir = "map"
				l.Elem = l.Index // the keys are what a set-like table holds
				if s.Value != nil {
					if o := objOf(info, s.Value); o != nil {
						l.Elem = o
					}
				}
				return l
			}
		}
		if s.Value != nil {
			l.Elem = objOf(info, s.Value)
		}
		return l
	case *ast.ForStmt:
		as, ok := s.Init.(*ast.AssignStmt)
		if !ok || len(as.Lhs) != 1 {
			return nil
		}
		iObj := objOf(info, as.Lhs[0])
		if iObj == nil {
			return nil
		}
		l := &iterLoop{Stmt: s, Body: s.Body, Index: iObj, info: info}
		// the collection: X in `v := X[i]` (first such statement) or any X[i] in the body, or len(X) in the condition
		ast.Inspect(s.Body, func(n ast.Node) bool {
			if l.Coll != nil {
				return false
			}
			if ix, ok := n.(*ast.IndexExpr); ok && objOf(info, ix.Index) == iObj {
				l.Coll = ix.X
			}
			return true
		})
		if l.Coll == nil {
			return nil
		}
		l.CollObj = objOf(info, l.Coll)
		for _, bs := range s.Body.List {
			if a2, ok := bs.(*ast.AssignStmt); ok && len(a2.Lhs) == 1 && len(a2.Rhs) == 1 {
				if ix, ok := unparen(a2.Rhs[0]).(*ast.IndexExpr); ok && objOf(info, ix.Index) == iObj && exprStr(ix.X) == exprStr(l.Coll) {
					l.Elem = objOf(info, a2.Lhs[0])
					break
				}
			}
		}
		if l.CollObj != nil {
			l.Dir, l.DirWhy = indexLoopDirection(info, s, iObj, l.CollObj)
		} else {
			l.Dir, l.DirWhy = "odd", "collection is not a variable"
		}
		return l
	}
	return nil
}

// iterLoopsIn lists the iterLoops inside n (not descending into function literals).
func iterLoopsIn(info *types.Info, n ast.Node) []*iterLoop {
	var out []*iterLoop
	inspectNoLit(n, func(m ast.Node) bool {
		if st, ok := m.(ast.Stmt); ok {
			if l := asIterLoop(info, st); l != nil {
				out = append(out, l)
			}
		}
		return true
	})
	return out
}
