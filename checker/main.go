// godicheck decides structural necessary conditions of the godi properties
// C01..C20 from the type-checked source of the repository (see /verif/DESIGN.md).
// It never executes repository code.
package main

import (
	"flag"
	"fmt"
	"go/ast"
	"go/types"
	"golang.org/x/tools/go/packages"
	"os"
	"path/filepath"
	"runtime"
	"runtime/debug"
	"sort"
	"strconv"
	"strings"
	"time"
)

type propCheck struct {
	run         func(w *World, r *Report)
	explanation string
	assumptions []string
}

var props = map[string]*propCheck{}

var knownPath string

func register(id string, explanation string, assumptions []string, run func(w *World, r *Report)) {
	props[id] = &propCheck{run: run, explanation: explanation, assumptions: assumptions}
}

func main() {
	prop := flag.String("property", "", "property id (C01..C20) or 'all'")
	tier := flag.String("tier", "quick", "quick|thorough")
	root := flag.String("root", "/repo", "repository root")
	verif := flag.String("verif", "/verif", "verification directory (evidence, known findings)")
	list := flag.Bool("list", false, "list properties")
	onlyRule := flag.String("rule", "", "print the obligations of one rule verbosely (replay)")
	flag.StringVar(&knownPath, "known", "", "known-findings file (default <verif>/known_findings.txt)")
	flag.Parse()

	if *list {
		var ids []string
		for id := range props {
			ids = append(ids, id)
		}
		sort.Strings(ids)
		for _, id := range ids {
			fmt.Println(id)
		}
		return
	}
	// watchdog: an analysis that does not terminate (or eats the machine) is an undecided check, not a hung one
	go func() {
		limit := 20 * time.Minute
		if *tier == "thorough" {
			limit = 90 * time.Minute
		}
		start := time.Now()
		for {
			time.Sleep(5 * time.Second)
			var ms runtime.MemStats
			runtime.ReadMemStats(&ms)
			if time.Since(start) > limit || ms.Sys > 24<<30 {
				fmt.Printf("UNDECIDED property=%s the analyser did not finish within its budget (%.0f s, %d MB): no verdict\n", *prop, time.Since(start).Seconds(), ms.Sys>>20)
				cleanupScratch()
				os.Exit(2)
			}
		}
	}()
	seed := 0
	if s := os.Getenv("VERIF_SEED"); s != "" {
		if v, err := strconv.Atoi(s); err == nil {
			seed = v
		}
	}
	if t := os.Getenv("VERIF_TIER"); t == "quick" || t == "thorough" {
		if !flagPassed("tier") {
			*tier = t
		}
	}
	ids := []string{*prop}
	if *prop == "all" {
		ids = nil
		for id := range props {
			ids = append(ids, id)
		}
		sort.Strings(ids)
	}
	status := 0
	var w *World
	for _, id := range ids {
		pc := props[id]
		if pc == nil {
			fmt.Printf("UNDECIDED property=%s unknown property\n", id)
			os.Exit(2)
		}
		st := runOne(id, pc, &w, *root, *verif, *tier, seed, *onlyRule)
		if st == 1 || (st == 2 && status == 0) {
			status = st
		}
	}
	cleanupScratch()
	os.Exit(status)
}

func flagPassed(name string) bool {
	found := false
	flag.Visit(func(f *flag.Flag) {
		if f.Name == name {
			found = true
		}
	})
	return found
}

var flattened string

func runOne(id string, pc *propCheck, wp **World, root, verif, tier string, seed int, onlyRule string) (status int) {
	defer func() {
		if e := recover(); e != nil {
			if u, ok := e.(undecidedErr); ok {
				fmt.Printf("UNDECIDED property=%s %s\n", id, u.msg)
			} else {
				fmt.Printf("UNDECIDED property=%s analyser panic: %v\n%s\n", id, e, debug.Stack())
			}
			status = 2
		}
	}()
	abs, err := filepath.Abs(root)
	if err != nil {
		undecidedf("root: %v", err)
	}
	if *wp == nil {
		*wp = Load(abs)
		// fields grouped in anonymous structs are given back to their owner
		func() {
			defer func() {
				if e := recover(); e != nil {
					fmt.Printf("NOTE anonymous struct fields were not flattened: the rewritten copy does not load (%v)\n", e)
				}
			}()
			if dir, names, why := flattenAnonStructFields(*wp); dir != "" {
				note := fmt.Sprintf("analysed after giving the fields of the anonymous struct group(s) %v back to their owner (scratch copy, type-checked again)", names)
				nw := Load(dir)
				fmt.Println("NOTE " + note)
				flattened = note
				setWorld(nil)
				*wp = nw
			} else if why != "" {
				fmt.Printf("NOTE anonymous struct group(s) %v present but not flattened: %s\n", names, why)
			}
		}()
		// wrapper types around a shared struct's table and its lock are flattened away in a
		// scratch copy (flatten.go); the rules then see private helper methods of the owner
		if dir, names, why := flattenWrappers(*wp); dir != "" {
			if flattened != "" {
				flattened += "; "
			}
			flattened += fmt.Sprintf("analysed after flattening the wrapper type(s) %v into their owners (scratch copy; the rewriting is syntactic and the copy is type-checked again)", names)
			fmt.Println("NOTE " + flattened)
			setWorld(nil)
			*wp = Load(dir)
		} else if why != "" {
			fmt.Printf("NOTE wrapper type(s) %v present but not flattened: %s\n", names, why)
		}
		// critical sections written as a literal handed to a lock-wrapping helper are inlined
		func() {
			defer func() {
				if e := recover(); e != nil {
					fmt.Printf("NOTE lock closures were not inlined: the rewritten copy does not load (%v)\n", e)
				}
			}()
			setWorld(*wp)
			if dir, names, why := inlineLockClosures(*wp); dir != "" {
				note := fmt.Sprintf("analysed after inlining the literals handed to the lock-wrapping helper(s) %v (scratch copy, type-checked again)", names)
				nw := Load(dir)
				fmt.Println("NOTE " + note)
				if flattened != "" {
					flattened += "; "
				}
				flattened += note
				setWorld(nil)
				*wp = nw
			} else if why != "" {
				fmt.Printf("NOTE lock-wrapping helper(s) %v present but their literals were not inlined: %s\n", names, why)
			}
		}()
		// Build's pipeline split into two functions: the tail call is inlined in a scratch copy
		func() {
			defer func() {
				if e := recover(); e != nil {
					_ = e // roles could not be resolved: the rules will say so themselves
				}
			}()
			setWorld(*wp)
			resetCaches()
			func() {
				defer func() {
					if e := recover(); e != nil {
						fmt.Printf("NOTE the head of the build pipeline was not inlined: the inlined copy does not load (%v)\n", e)
					}
				}()
				if dir, name, why := inlineBuildHead(*wp); dir != "" {
					note := fmt.Sprintf("analysed after inlining the head of the build pipeline (%s) into its caller (scratch copy, type-checked again)", name)
					nw := Load(dir)
					fmt.Println("NOTE " + note)
					if flattened != "" {
						flattened += "; "
					}
					flattened += note
					setWorld(nil)
					*wp = nw
				} else if why != "" {
					fmt.Printf("NOTE the head of the build pipeline is in a helper (%s) but was not inlined: %s\n", name, why)
				}
			}()
			setWorld(*wp)
			resetCaches()
			if dir, name, why := inlineBuildTail(*wp); dir != "" {
				note := fmt.Sprintf("analysed after inlining the tail call of the build pipeline to %s (scratch copy, type-checked again)", name)
				fmt.Println("NOTE " + note)
				if flattened != "" {
					flattened += "; "
				}
				flattened += note
				setWorld(nil)
				*wp = Load(dir)
			} else if why != "" {
				fmt.Printf("NOTE the build pipeline is split (%s) but the tail call was not inlined: %s\n", name, why)
			}
			resetCaches()
		}()
	}
	w := *wp
	resetCaches()
	r := NewReport(id, tier, w)
	setWorld(w)
	if flattened != "" {
		r.Rule("FLATTEN", 1, "wrapper types around shared tables are rewritten into their owners before the rules run")
		r.OK("FLATTEN", "wrappers", 0, false, "%s", flattened)
	}
	pc.run(w, r)
	if tier == "thorough" {
		thoroughExtras(id, pc, w, r, abs)
		resetCaches()
	}
	if onlyRule != "" {
		for _, o := range r.Obs {
			if o.Rule == onlyRule {
				fmt.Printf("%s %s %s at %s: %s\n", o.Verdict, o.Rule, o.Construct, o.Pos, o.Msg)
			}
		}
	}
	return r.Finish(verif, seed, pc.explanation, pc.assumptions)
}

func resetCaches() {
	rolesCache = nil
	paramOwner = nil
	aliasCache = map[*packages.Package]map[types.Object]*types.Var{}
	closeCache = map[*FuncInfo]*closeAnalysis{}
	predCache = map[*types.Func]*predSummary{}
	litPredCache = map[types.Object]*predSummary{}
	helperMemo = map[string]*helperSummary{}
	accessCache = nil
	synthFields = map[*ast.SelectorExpr]*types.Var{}
	closeDelegateMemo = map[*FuncInfo]*FuncInfo{}
}

// buildConfigs are the build configurations that could change the set of files
// a static tool sees (GOOS/GOARCH constraints, the verif tag).
var buildConfigs = []struct {
	name string
	env  []string
}{
	{"linux/386", []string{"GOOS=linux", "GOARCH=386"}},
	{"windows/amd64", []string{"GOOS=windows", "GOARCH=amd64"}},
	{"darwin/arm64", []string{"GOOS=darwin", "GOARCH=arm64"}},
	{"tags=verif", []string{"GOFLAGS=-mod=mod -tags=verif"}},
}

// thoroughExtras re-decides the property under every build configuration and
// requires the analysed file set and the verdict vector to be identical.
func thoroughExtras(id string, pc *propCheck, w *World, r *Report, root string) {
	r.Rule("CFG", len(buildConfigs), "thorough tier: under every build configuration (GOOS/GOARCH/tags) the set of analysed source files and every verdict is identical to the default configuration - a static tool only sees what was parsed")
	base := map[string]string{}
	for _, o := range r.Obs {
		base[o.Rule+" "+o.Construct] = o.Verdict
	}
	baseFiles := strings.Join(w.Files, ",")
	var cfgSummary []map[string]any
	for _, bc := range buildConfigs {
		func() {
			defer func() {
				setWorld(w)
				if e := recover(); e != nil {
					msg := fmt.Sprint(e)
					if u, ok := e.(undecidedErr); ok {
						msg = u.msg
					}
					r.Undecided("CFG", "config:"+bc.name, 0, "the repository does not load under %s: %s", bc.name, msg)
				}
			}()
			resetCaches()
			w2 := Load(w.Root, bc.env...) // the (possibly flattened) tree the default configuration analysed
			r2 := NewReport(id, "thorough", w2)
			setWorld(w2)
			pc.run(w2, r2)
			setWorld(w)
			diffs := []string{}
			if f2 := strings.Join(w2.Files, ","); f2 != baseFiles {
				diffs = append(diffs, "the set of analysed files differs: "+f2)
			}
			seen := map[string]bool{}
			for _, o := range r2.Obs {
				k := o.Rule + " " + o.Construct
				seen[k] = true
				if v, ok := base[k]; !ok {
					diffs = append(diffs, "extra obligation "+k+" ("+o.Verdict+")")
				} else if v != o.Verdict {
					diffs = append(diffs, k+": "+v+" by default, "+o.Verdict+" under this configuration")
				}
			}
			for k := range base {
				if !seen[k] && !strings.HasPrefix(k, "CFG ") {
					diffs = append(diffs, "missing obligation "+k)
				}
			}
			sort.Strings(diffs)
			cfgSummary = append(cfgSummary, map[string]any{"config": bc.name, "files": len(w2.Files), "obligations": len(r2.Obs), "differences": len(diffs)})
			if len(diffs) == 0 {
				r.OK("CFG", "config:"+bc.name, 0, true, "%d files, %d obligations, verdict vector identical to the default configuration", len(w2.Files), len(r2.Obs))
			} else {
				if len(diffs) > 5 {
					diffs = append(diffs[:5], fmt.Sprintf("... and %d more", len(diffs)-5))
				}
				r.Fail("CFG", "config:"+bc.name, 0, "the analysis differs under %s: %s", bc.name, strings.Join(diffs, "; "))
			}
		}()
	}
	r.aux["build_configurations"] = cfgSummary
}
