// godicheck decides structural necessary conditions of the godi properties
// C01..C20 from the type-checked source of the repository (see /verif/DESIGN.md).
// It never executes repository code.
package main

import (
	"flag"
	"fmt"
	"os"
	"path/filepath"
	"runtime/debug"
	"sort"
	"strconv"
)

type propCheck struct {
	run         func(w *World, r *Report)
	explanation string
	assumptions []string
}

var props = map[string]*propCheck{}

var knownPath string

func register(id string, explanation string, assumptions []string, run func(w *World, r *Report)) {
	props[id] = &propCheck{run: run, explanation: explanation, assumptions: assumptions}
}

func main() {
	prop := flag.String("property", "", "property id (C01..C20) or 'all'")
	tier := flag.String("tier", "quick", "quick|thorough")
	root := flag.String("root", "/repo", "repository root")
	verif := flag.String("verif", "/verif", "verification directory (evidence, known findings)")
	list := flag.Bool("list", false, "list properties")
	onlyRule := flag.String("rule", "", "print the obligations of one rule verbosely (replay)")
	flag.StringVar(&knownPath, "known", "", "known-findings file (default <verif>/known_findings.txt)")
	flag.Parse()

	if *list {
		var ids []string
		for id := range props {
			ids = append(ids, id)
		}
		sort.Strings(ids)
		for _, id := range ids {
			fmt.Println(id)
		}
		return
	}
	seed := 0
	if s := os.Getenv("VERIF_SEED"); s != "" {
		if v, err := strconv.Atoi(s); err == nil {
			seed = v
		}
	}
	if t := os.Getenv("VERIF_TIER"); t == "quick" || t == "thorough" {
		if !flagPassed("tier") {
			*tier = t
		}
	}
	ids := []string{*prop}
	if *prop == "all" {
		ids = nil
		for id := range props {
			ids = append(ids, id)
		}
		sort.Strings(ids)
	}
	status := 0
	var w *World
	for _, id := range ids {
		pc := props[id]
		if pc == nil {
			fmt.Printf("UNDECIDED property=%s unknown property\n", id)
			os.Exit(2)
		}
		st := runOne(id, pc, &w, *root, *verif, *tier, seed, *onlyRule)
		if st == 1 || (st == 2 && status == 0) {
			status = st
		}
	}
	os.Exit(status)
}

func flagPassed(name string) bool {
	found := false
	flag.Visit(func(f *flag.Flag) {
		if f.Name == name {
			found = true
		}
	})
	return found
}

func runOne(id string, pc *propCheck, wp **World, root, verif, tier string, seed int, onlyRule string) (status int) {
	defer func() {
		if e := recover(); e != nil {
			if u, ok := e.(undecidedErr); ok {
				fmt.Printf("UNDECIDED property=%s %s\n", id, u.msg)
			} else {
				fmt.Printf("UNDECIDED property=%s analyser panic: %v\n%s\n", id, e, debug.Stack())
			}
			status = 2
		}
	}()
	abs, err := filepath.Abs(root)
	if err != nil {
		undecidedf("root: %v", err)
	}
	if *wp == nil {
		*wp = Load(abs)
	}
	w := *wp
	r := NewReport(id, tier, w)
	pc.run(w, r)
	if onlyRule != "" {
		for _, o := range r.Obs {
			if o.Rule == onlyRule {
				fmt.Printf("%s %s %s at %s: %s\n", o.Verdict, o.Rule, o.Construct, o.Pos, o.Msg)
			}
		}
	}
	return r.Finish(verif, seed, pc.explanation, pc.assumptions)
}
