package main

import (
	"fmt"
	"go/ast"
	"go/token"
	"go/types"
	"os"
	"strings"

	"golang.org/x/tools/go/cfg"
	"golang.org/x/tools/go/packages"
)

// requestLiteral finds the innermost function literal of fi that contains pred.
func innermostLitWith(fi *FuncInfo, pred func(*ast.CallExpr) bool) *ast.FuncLit {
	var best *ast.FuncLit
	for _, l := range funcLitsIn(fi.Decl.Body) {
		has := false
		for _, c := range callsIn(l.Body, false) { // not inside nested literals
			if pred(c) {
				has = true
			}
		}
		if has && (best == nil || (l.End()-l.Pos()) < (best.End()-best.Pos())) {
			best = l
		}
	}
	return best
}

func isGodiIfaceMethod(cal *types.Func, iface, name string) bool {
	if cal == nil || cal.Name() != name {
		return false
	}
	rn := recvNamed(cal)
	if rn != nil && rn.Obj().Pkg() != nil && rn.Obj().Pkg().Path() == modPath {
		// Scope embeds Provider: CreateScope/Close belong to Provider/Disposable
		return true
	}
	return false
}

type mwFacts struct {
	m         string
	fi        *FuncInfo
	lit       *ast.FuncLit
	info      *types.Info
	provider  types.Object
	cfg       types.Object
	scope     types.Object
	csErr     types.Object
	csCall    *ast.CallExpr
	csCount   int
	mwElem    types.Object
	mwErr     types.Object
	nextCalls []*ast.CallExpr
	params    map[types.Object]bool
	// the request function is a method of a small struct built by ScopeMiddleware
	// (h := &scopeHandler{provider: provider, cfg: cfg, next: next}; return h.serve):
	outer     map[types.Object]bool       // parameters of a delegated request function that stand for captured values
	recv      types.Object                // its receiver (shared by all requests)
	fieldInit map[*types.Var]types.Object // field -> the object of ScopeMiddleware it was initialised from
}

func isFieldNamed(info *types.Info, e ast.Expr, name string) bool {
	fv := fieldOf(info, e)
	return fv != nil && fv.Name() == name
}

func checkC16(w *World, r *Report) {
	r.Rule("P1", 10, "one CreateScope per request: a single call site in the per-request function, not in a loop, on the provider captured by ScopeMiddleware, with the request's own context; the per-request function stores nothing into captured variables or globals")
	r.Rule("P2", 5, "if scope creation fails, the error handler runs and the request function returns without attaching, running middlewares or calling the next handler")
	r.Rule("P3", 5, "the scope is closed on every exit: a defer that closes it is in force before any user callback (net/http, chi, gin, echo); fiber stores the scope in Locals, closes it explicitly on every normal exit, and fasthttp closes io.Closer user values when the request context is reset (framework lemma, checked in the fasthttp source)")
	r.Rule("P4", 5, "the context handed on is Context() of the same scope, attached before any middleware or the next handler")
	r.Rule("P5", 10, "configured middlewares are called in slice order with that scope; an error leads to the error handler and a return without the next handler")
	r.Rule("P6", 5, "the normal path calls the next handler exactly once")
	r.Rule("H1", 5, "Handle recovers panics only under cfg.PanicRecovery")
	r.Rule("H2", 5, "Handle obtains the scope from the request (FromContext on the request context; fiber: Locals)")
	r.Rule("H3", 10, "on failure exactly the matching handler (scope error / resolution error) runs and the method is not called")
	r.Rule("H4", 5, "the controller method is called once, only after both steps succeeded, with the resolved controller")
	r.Rule("S1", 10, "sibling agreement: the five integrations produce the same verdict vector")
	r.Rule("PS", 15, "no state outside the request: the integration packages declare no package-level variables and every ScopeMiddleware/Handle call builds its configuration from a fresh literal")
	ruleNoPackageState(w, r, "PS")
	r.Rule("P9", 10, "a request never hangs in CreateScope or Close: no user code (scoped initializers, constructors, Close methods) runs while a scope or provider lock is held, and the lock-order graph has no cycle")
	r.Try(func() {
		la := NewLockAnalysis(w)
		reexport(w, r, "P9", func(sub *Report) { checkLockHygiene(w, sub, la) }, "R09.2i", "R09.2ii")
	})
	r.Rule("P10", 2, "a request gets a fresh scope that only it closes: scope objects are never re-opened (the disposed flag is written by the gate of Close only), so the deferred Close of one request cannot close the scope of another")
	r.Try(func() { ruleDisposedFlagWriters(w, r, "P10") })
	r.Rule("P8", 5, "every configured middleware runs: the integrations never identify a user callback by its code pointer (closures of one factory share it)")
	r.Try(func() { ruleNoCallbackIdentity(w, r, "P8") })
	r.Rule("P7", 3, "a scope whose creation fails is closed before the error reaches the middleware's error handler (ownership of the cancel function and of the partial scope)")
	r.Try(func() { ruleCancelOwnership(w, r, "P7") })
	r.Rule("ISO", 5, "requests share no mutable resolution state: cached analysis records and invokers are written only while under construction (record-confinement part of R09.1)")

	for _, m := range integrations {
		p := w.Integ[m]
		checkScopeMiddleware(w, r, m, p)
		checkHandle(w, r, m, p)
	}
	// sibling agreement: every rule instance exists for every integration with the same verdict
	byRule := map[string]map[string]string{}
	for _, o := range r.Obs {
		if i := strings.Index(o.Construct, "/"); i > 0 {
			m, rest := o.Construct[:i], o.Construct[i+1:]
			key := o.Rule + " " + rest
			if byRule[key] == nil {
				byRule[key] = map[string]string{}
			}
			byRule[key][m] = o.Verdict
		}
	}
	for key, per := range byRule {
		if strings.Contains(key, "#mw-call/") || strings.Contains(key, "framework-lemma") || strings.Contains(key, "locals") || strings.Contains(key, "#close-") {
			continue
		}
		missing := []string{}
		for _, m := range integrations {
			if _, ok := per[m]; !ok {
				missing = append(missing, m)
			}
		}
		con := "siblings#" + strings.ReplaceAll(key, " ", ":")
		if len(missing) > 0 && len(missing) < len(integrations) {
			r.Fail("S1", con, token.NoPos, "obligation %q exists for some integrations but not for %v: the sibling implementations of the protocol have diverged", key, missing)
		} else {
			r.OK("S1", con, token.NoPos, false, "present in all five integrations")
		}
	}
	// isolation of per-request resolution state
	la := NewLockAnalysis(w)
	sub := NewReport(r.Prop, r.Tier, w)
	sub.Rule("R09.1", 0, "")
	sub.Rule("R09.1u", 0, "")
	sub.Rule("R09.2i", 0, "")
	sub.Rule("R09.2ii", 0, "")
	sub.Rule("R09.2iii", 0, "")
	sub.Rule("R09.3", 0, "")
	sub.Rule("R09.4", 0, "")
	checkRecordConfinement(w, sub, la)
	for _, o := range sub.Obs {
		o.Rule = "ISO"
		r.Obs = append(r.Obs, o)
	}
}

func checkScopeMiddleware(w *World, r *Report, m string, p *packages.Package) {
	fi := w.Fn(p, "ScopeMiddleware")
	if fi == nil {
		r.Fail("P1", m+"/ScopeMiddleware", token.NoPos, "integration %s has no ScopeMiddleware", m)
		return
	}
	r.Analysed(fi)
	info := p.TypesInfo
	f := &mwFacts{m: m, fi: fi, info: info, params: map[types.Object]bool{}}
	// captured provider parameter
	for _, fl := range fi.Decl.Type.Params.List {
		for _, nm := range fl.Names {
			o := info.Defs[nm]
			if isNamedType(o.Type(), modPath, "Provider") {
				f.provider = o
			}
		}
	}
	isCS := func(c *ast.CallExpr) bool { return isGodiIfaceMethod(callee(info, c), "Provider", "CreateScope") }
	// a private function of the integration package (helpers share the package's types.Info)
	pkgHelper := func(c *ast.CallExpr) *FuncInfo {
		cal := callee(info, c)
		if cal == nil || cal.Exported() {
			return nil
		}
		if o := cal.Origin(); o != nil {
			cal = o
		}
		t := w.Decls[cal]
		if t == nil || t.Pkg != p {
			return nil
		}
		return t
	}
	csIn := func(t *FuncInfo) []*ast.CallExpr {
		var out []*ast.CallExpr
		for _, c := range callsIn(t.Decl.Body, false) {
			if isCS(c) {
				out = append(out, c)
			}
		}
		return out
	}
	reachesCS := func(c *ast.CallExpr) bool {
		if isCS(c) {
			return true
		}
		if t := pkgHelper(c); t != nil && len(csIn(t)) > 0 {
			return true
		}
		return false
	}
	f.lit = innermostLitWith(fi, reachesCS)
	if f.lit == nil {
		// method form: a method value of a struct literal built here
		ast.Inspect(fi.Decl.Body, func(x ast.Node) bool {
			sel, ok := x.(*ast.SelectorExpr)
			if !ok || f.lit != nil {
				return true
			}
			s, ok := info.Selections[sel]
			if !ok || s.Kind() != types.MethodVal {
				return true
			}
			mf, _ := s.Obj().(*types.Func)
			t := w.Decls[mf]
			if t == nil || t.Pkg != p || t.Decl.Recv == nil || len(t.Decl.Recv.List[0].Names) != 1 {
				return true
			}
			reaches := false
			for _, c := range callsIn(t.Decl.Body, false) {
				if reachesCS(c) {
					reaches = true
				}
			}
			if !reaches {
				return true
			}
			holder := objOf(info, sel.X)
			var lit *ast.CompositeLit
			ast.Inspect(fi.Decl.Body, func(y ast.Node) bool {
				if as, ok := y.(*ast.AssignStmt); ok && len(as.Lhs) == len(as.Rhs) {
					for i, l := range as.Lhs {
						if holder != nil && objOf(info, l) == holder {
							lit = litOf(as.Rhs[i])
						}
					}
				}
				return true
			})
			if lit == nil {
				lit = litOf(sel.X)
			}
			if lit == nil {
				return true
			}
			f.lit = &ast.FuncLit{Type: t.Decl.Type, Body: t.Decl.Body}
			f.recv = info.Defs[t.Decl.Recv.List[0].Names[0]]
			f.fieldInit = map[*types.Var]types.Object{}
			if tv, ok := info.Types[lit]; ok {
				if st, ok := derefType(tv.Type).Underlying().(*types.Struct); ok {
					for name, v := range compositeFields(lit) {
						for i := 0; i < st.NumFields(); i++ {
							if st.Field(i).Name() == name {
								f.fieldInit[st.Field(i)] = objOf(info, v)
							}
						}
					}
				}
			}
			r.Analysed(t)
			return true
		})
	}
	if f.lit == nil {
		r.Fail("P1", m+"/ScopeMiddleware#create", fi.Decl.Pos(), "no per-request function calling CreateScope")
		return
	}
	for _, fl := range f.lit.Type.Params.List {
		for _, nm := range fl.Names {
			f.params[info.Defs[nm]] = true
		}
	}
	// cfg variable: local of ScopeMiddleware of type *Config
	ast.Inspect(fi.Decl.Body, func(x ast.Node) bool {
		if as, ok := x.(*ast.AssignStmt); ok {
			for _, l := range as.Lhs {
				if o := objOf(info, l); o != nil && isNamedType(o.Type(), p.PkgPath, "Config") {
					f.cfg = o
				}
			}
		}
		return true
	})
	// the literal only hands its parameters and what it captured to a named function of the
	// package (return http.HandlerFunc(func(w, r) { serveInScope(provider, cfg, next, w, r) })):
	// that function is the request function; its parameters stand for what was passed
	if len(f.lit.Body.List) == 1 {
		var call *ast.CallExpr
		switch st := f.lit.Body.List[0].(type) {
		case *ast.ExprStmt:
			call, _ = unparen(st.X).(*ast.CallExpr)
		case *ast.ReturnStmt:
			if len(st.Results) == 1 {
				call, _ = unparen(st.Results[0]).(*ast.CallExpr)
			}
		}
		if call != nil {
			recvOK := func(t *FuncInfo) bool {
				if t.Decl.Recv == nil {
					return true
				}
				// a method of the configuration: cfg.serveScoped(provider, next, w, r)
				rcv, _, isM := methodCall(call)
				return isM && len(t.Decl.Recv.List[0].Names) == 1 && f.cfg != nil && objOf(info, rcv) == f.cfg
			}
			if t := pkgHelper(call); t != nil && recvOK(t) && len(csIn(t)) > 0 {
				allIdents := true
				for _, a := range call.Args {
					if objOf(info, a) == nil {
						allIdents = false
					}
				}
				if allIdents {
					newParams := map[types.Object]bool{}
					f.outer = map[types.Object]bool{}
					k := 0
					for _, fl := range t.Decl.Type.Params.List {
						for _, nm := range fl.Names {
							po := info.Defs[nm]
							if k < len(call.Args) {
								ao := objOf(info, call.Args[k])
								switch {
								case f.params[ao]:
									newParams[po] = true
								case ao == f.provider:
									f.provider = po
								case ao == f.cfg:
									f.cfg = po
									f.outer[po] = true
								default:
									f.outer[po] = true // a captured value (the wrapped handler)
								}
							}
							k++
						}
					}
					if t.Decl.Recv != nil {
						ro := info.Defs[t.Decl.Recv.List[0].Names[0]]
						f.cfg = ro
						f.outer[ro] = true
					}
					f.params = newParams
					f.lit = &ast.FuncLit{Type: t.Decl.Type, Body: t.Decl.Body}
					r.Analysed(t)
				}
			}
		}
	}
	body := f.lit.Body
	// scope and error variables of the CreateScope call (made here or in a private helper: openScope)
	var csHelper *FuncInfo   // the helper that holds the CreateScope call, if any
	var csSite *ast.CallExpr // the call in the request function through which the scope is created
	csErrObjs := map[types.Object]bool{}
	ast.Inspect(body, func(x ast.Node) bool {
		if _, isLit := x.(*ast.FuncLit); isLit {
			return false
		}
		if as, ok := x.(*ast.AssignStmt); ok && len(as.Rhs) == 1 {
			c, ok := unparen(as.Rhs[0]).(*ast.CallExpr)
			if !ok || !reachesCS(c) {
				return true
			}
			csSite = c
			if isCS(c) {
				f.csCount++
				f.csCall = c
				if len(as.Lhs) == 2 {
					f.scope, f.csErr = objOf(info, as.Lhs[0]), objOf(info, as.Lhs[1])
					csErrObjs[f.csErr] = true
				}
				return true
			}
			csHelper = pkgHelper(c)
			for _, l := range as.Lhs {
				if o := objOf(info, l); o != nil && isNamedType(o.Type(), modPath, "Scope") {
					f.scope = o
				}
			}
			for _, cc := range csIn(csHelper) {
				f.csCount++
				f.csCall = cc
			}
			ast.Inspect(csHelper.Decl.Body, func(y ast.Node) bool {
				if as2, ok := y.(*ast.AssignStmt); ok && len(as2.Rhs) == 1 && len(as2.Lhs) == 2 {
					if c2, ok := unparen(as2.Rhs[0]).(*ast.CallExpr); ok && isCS(c2) {
						csErrObjs[objOf(info, as2.Lhs[1])] = true
					}
				}
				return true
			})
		}
		return true
	})
	pre := m + "/ScopeMiddleware"
	if f.csCall == nil || f.scope == nil {
		r.Fail("P1", pre+"#create", f.lit.Pos(), "the result of CreateScope is not bound to (scope, err)")
		return
	}
	fl := NewFlow(w, p, body, pre)

	// ---- P1
	{
		rcv, _, _ := methodCall(f.csCall)
		bad := ""
		rcvObj := objOf(info, rcv)
		if f.recv != nil && objOf(info, selBase(rcv)) == f.recv {
			rcvObj = f.fieldInit[fieldOf(info, rcv)] // h.provider, initialised from ScopeMiddleware's provider
		}
		ctxParams := f.params
		if csHelper != nil {
			// the helper's parameters stand for what the request function passes
			argOf := map[types.Object]ast.Expr{}
			k := 0
			for _, fl2 := range csHelper.Decl.Type.Params.List {
				for _, nm := range fl2.Names {
					if k < len(csSite.Args) {
						argOf[info.Defs[nm]] = csSite.Args[k]
					}
					k++
				}
			}
			if a, ok := argOf[rcvObj]; ok {
				rcvObj = objOf(info, a)
			} else {
				rcvObj = nil
			}
			ctxParams = map[types.Object]bool{}
			for po, a := range argOf {
				if root := rootIdent(a); root != nil && f.params[info.Uses[root]] {
					ctxParams[po] = true
				}
			}
		}
		switch {
		case f.csCount != 1:
			bad = fmt.Sprintf("%d CreateScope call sites in the per-request function", f.csCount)
		case (rcvObj != f.provider || f.provider == nil) && !selectedProvider(info, f, rcvObj, 2):
			bad = "CreateScope is called on " + exprStr(rcv) + ", not on the provider passed to ScopeMiddleware"
		case fl.InLoop(fl.NodeContaining(csSite.Pos())):
			bad = "CreateScope is called inside a loop"
		case len(f.csCall.Args) != 1 || !(isRequestContext(info, f.csCall.Args[0], ctxParams) || derivedRequestContext(info, f.lit.Body, f.csCall.Args[0], ctxParams) || configuredRequestContext(info, f, f.csCall.Args[0])):
			bad = "the argument of CreateScope (" + exprStr(f.csCall.Args[0]) + ") is not the request's own context"
		}
		r.Check(bad == "", "P1", pre+"#create", f.csCall.Pos(), true, "exactly one CreateScope(request context) on the captured provider, outside any loop", bad)
		// no stores to captured variables / globals
		bad = ""
		ast.Inspect(body, func(x ast.Node) bool {
			var targets []ast.Expr
			switch s := x.(type) {
			case *ast.AssignStmt:
				if s.Tok != token.DEFINE {
					targets = s.Lhs
				}
			case *ast.IncDecStmt:
				targets = []ast.Expr{s.X}
			}
			for _, t := range targets {
				id := rootIdent(t)
				if id == nil || id.Name == "_" {
					continue
				}
				o := info.Uses[id]
				if o == nil {
					o = info.Defs[id]
				}
				if o == nil {
					continue
				}
				inside := f.lit.Pos() <= o.Pos() && o.Pos() < f.lit.End() && o != f.recv
				if !inside {
					bad = "assignment to " + exprStr(t) + ", which is declared outside the per-request function"
				}
			}
			return true
		})
		r.Check(bad == "", "P1", pre+"#no-shared-stores", f.lit.Pos(), true, "the per-request function stores only into its own parameters and locals", bad)
	}

	// ---- event analysis
	isEH := func(c *ast.CallExpr) bool { return isFieldNamed(info, c.Fun, "ErrorHandler") }
	inRequest := func(n ast.Node) bool { return f.lit.Body.Pos() <= n.Pos() && n.End() <= f.lit.Body.End() }
	isScopeTyped := func(e ast.Expr) bool {
		tv, ok := info.Types[e]
		return ok && tv.Type != nil && isNamedType(tv.Type, modPath, "Scope")
	}
	// in the request function the scope is identified by its variable; in a private
	// helper (which receives it as a parameter) by its type - there is one scope per request
	isTheScope := func(c *ast.CallExpr, rcv ast.Expr) bool {
		if inRequest(c) {
			return objOf(info, rcv) == f.scope
		}
		return isScopeTyped(rcv)
	}
	isCloseOnScope := func(c *ast.CallExpr) bool {
		rcv, name, ok := methodCall(c)
		return ok && name == "Close" && isTheScope(c, rcv)
	}
	isScopeContext := func(c *ast.CallExpr) bool {
		rcv, name, ok := methodCall(c)
		return ok && name == "Context" && isTheScope(c, rcv)
	}
	// closesScopeParam: the private helper closes the scope it is given on every path
	closesScopeParam := func(c *ast.CallExpr) bool {
		t := pkgHelper(c)
		if t == nil {
			return false
		}
		k := 0
		for _, fl2 := range t.Decl.Type.Params.List {
			for range fl2.Names {
				if k < len(c.Args) && objOf(info, c.Args[k]) == f.scope {
					hfl := w.FlowOf(t)
					closesIn := func(n ast.Node) bool {
						for _, cc := range callsIn(n, false) {
							if rcv, name, ok := methodCall(cc); ok && name == "Close" && isScopeTyped(rcv) {
								return true
							}
						}
						return false
					}
					hinfo := t.Pkg.TypesInfo
					hs := hfl.Solve(Spec{Must: true, Node: func(n ast.Node, in Facts) (gen, kill []string) {
						if closesIn(n) {
							gen = append(gen, "closed")
						}
						// go func() { … scope.Close() … }(): the close is issued here, once, when the literal
						// closes the scope on every way through it (a bounded wait for it may follow)
						if gs, isGo := n.(*ast.GoStmt); isGo {
							if lit, isLit := unparen(gs.Call.Fun).(*ast.FuncLit); isLit {
								lfl := newFlowInfo(hinfo, lit.Body)
								ls := lfl.Solve(Spec{Must: true, Node: func(m ast.Node, in Facts) (gen, kill []string) {
									if closesIn(m) {
										gen = append(gen, "closed")
									}
									return
								}})
								allExits := true
								for _, ex := range lfl.Exits() {
									if !ex.Panic && !ls.AtExit(ex).Has("closed") {
										allExits = false
									}
								}
								if allExits {
									gen = append(gen, "closed")
								}
							}
						}
						return
					}})
					all := true
					for _, ex := range hfl.Exits() {
						if !ex.Panic && !hs.AtExit(ex).Has("closed") {
							all = false
						}
					}
					return all
				}
				k++
			}
		}
		return false
	}
	// middleware loop: in the request function itself, or in a private function it calls
	var mwLoop *iterLoop
	var mwLoopInfo *types.Info = info
	var mwHelper *FuncInfo
	var mwHelperCall *ast.CallExpr
	isMiddlewaresColl := func(inf *types.Info, fi2 *FuncInfo, il *iterLoop) bool {
		if isFieldNamed(inf, il.Coll, "Middlewares") {
			return true
		}
		if il.CollObj != nil && fi2 != nil {
			// local copy: mws := cfg.Middlewares
			okCopy := false
			ast.Inspect(fi2.Decl.Body, func(y ast.Node) bool {
				if as, ok := y.(*ast.AssignStmt); ok && len(as.Lhs) == 1 && len(as.Rhs) == 1 && objOf(inf, as.Lhs[0]) == il.CollObj && isFieldNamed(inf, as.Rhs[0], "Middlewares") {
					okCopy = true
				}
				return true
			})
			return okCopy
		}
		return false
	}
	for _, il := range iterLoopsIn(info, body) {
		if isMiddlewaresColl(info, fi, il) {
			mwLoop = il
		}
	}
	if mwLoop == nil {
		for _, c := range callsIn(body, false) {
			cal := callee(info, c)
			if cal == nil || cal.Exported() {
				continue
			}
			t := w.Decls[cal]
			if t == nil || t.Pkg != p {
				continue
			}
			for _, il := range iterLoopsIn(t.Pkg.TypesInfo, t.Decl.Body) {
				if isMiddlewaresColl(t.Pkg.TypesInfo, t, il) {
					mwLoop, mwLoopInfo, mwHelper, mwHelperCall = il, t.Pkg.TypesInfo, t, c
				}
			}
		}
	}
	if mwLoop != nil && mwHelper == nil {
		f.mwElem = mwLoop.Elem
	}
	isMW := func(c *ast.CallExpr) bool {
		if mwHelperCall != nil && c == mwHelperCall {
			return true
		}
		return mwLoop != nil && mwHelper == nil && mwLoop.IsElem(c.Fun) && isInside(c, mwLoop.Body)
	}
	isNext := func(c *ast.CallExpr) bool {
		if isMW(c) {
			return false
		}
		switch fun := unparen(c.Fun).(type) {
		case *ast.Ident:
			// next(c): a captured function-typed parameter of an enclosing literal
			if o := info.Uses[fun]; o != nil {
				if _, isSig := o.Type().Underlying().(*types.Signature); isSig && (f.outer[o] || !(f.lit.Pos() <= o.Pos() && o.Pos() < f.lit.End())) {
					// the wrapped handler is handed the request; a captured function that takes none of the
					// request's values (an id generator, a clock) is not the next handler
					takesRequest := false
					for _, a := range c.Args {
						if root := rootIdent(a); root != nil && (f.params[info.Uses[root]] || f.outer[info.Uses[root]]) {
							takesRequest = true
						}
					}
					if _, isVar := o.(*types.Var); isVar && o != f.cfg && takesRequest {
						return true
					}
				}
			}
		case *ast.SelectorExpr:
			if fun.Sel.Name == "ServeHTTP" || fun.Sel.Name == "Next" {
				return true
			}
			// h.next(c): a function-typed field of the request method's receiver that holds the wrapped handler
			if f.recv != nil && objOf(info, fun.X) == f.recv {
				if fv := fieldOf(info, fun); fv != nil {
					if _, isSig := fv.Type().Underlying().(*types.Signature); isSig && f.fieldInit[fv] != nil && f.fieldInit[fv] != f.cfg {
						return true
					}
				}
			}
		}
		return false
	}
	for _, c := range callsIn(body, false) {
		if isNext(c) {
			f.nextCalls = append(f.nextCalls, c)
		}
	}
	ast.Inspect(body, func(x ast.Node) bool {
		if as, ok := x.(*ast.AssignStmt); ok && len(as.Rhs) == 1 {
			if c, ok := unparen(as.Rhs[0]).(*ast.CallExpr); ok && isMW(c) && len(as.Lhs) == 1 {
				f.mwErr = objOf(info, as.Lhs[0])
			}
		}
		return true
	})
	// error variables bound to a middleware call inside the function that holds the loop
	mwErrObjs := map[types.Object]bool{}
	if f.mwErr != nil {
		mwErrObjs[f.mwErr] = true
	}
	if mwLoop != nil {
		ast.Inspect(mwLoop.Body, func(x ast.Node) bool {
			if as, ok := x.(*ast.AssignStmt); ok && len(as.Rhs) == 1 && len(as.Lhs) == 1 {
				if c, ok := unparen(as.Rhs[0]).(*ast.CallExpr); ok && mwLoop.IsElem(c.Fun) {
					mwErrObjs[objOf(mwLoopInfo, as.Lhs[0])] = true
				}
			}
			return true
		})
	}
	gen := func(n ast.Node) (out []string) {
		switch s := n.(type) {
		case *ast.DeferStmt:
			if !inRequest(s) {
				return nil // a defer inside a helper ends with the helper
			}
			for _, c := range callsIn(s, true) {
				if isCloseOnScope(c) || closesScopeParam(c) {
					out = append(out, "DCL")
				}
			}
			return out
		case *ast.GoStmt:
			return nil
		}
		for _, c := range callsIn(n, false) {
			switch {
			case isCS(c):
				out = append(out, "CS")
			case isEH(c):
				out = append(out, "EH")
			case isCloseOnScope(c):
				out = append(out, "CL")
			case isScopeContext(c):
				out = append(out, "AT")
			case isMW(c):
				out = append(out, "MW")
			case mwLoop != nil && mwHelper != nil && mwLoop.IsElem(c.Fun) && isInside(c, mwLoop.Body):
				out = append(out, "MW") // the call through the loop element, inside the helper
			case inRequest(c) && isNext(c):
				out = append(out, "NX")
			case !inRequest(c) && closesScopeParam(c):
				out = append(out, "CL")
			}
			if inRequest(c) && !isCloseOnScope(c) && closesScopeParam(c) {
				out = append(out, "CL")
			}
			if rcv, name, ok := methodCall(c); ok && name == "Locals" && len(c.Args) == 2 && objOf(info, c.Args[1]) == f.scope {
				_ = rcv
				out = append(out, "LOCALS")
			}
		}
		return out
	}
	edge := func(b *cfg.Block, i int, cond ast.Expr, in Facts) (gen, kill []string) {
		be, ok := unparen(cond).(*ast.BinaryExpr)
		if cond == nil || !ok || (be.Op != token.NEQ && be.Op != token.EQL) {
			return
		}
		var o types.Object
		if isNilIdent(info, be.Y) {
			o = objOf(info, be.X)
		} else if isNilIdent(info, be.X) {
			o = objOf(info, be.Y)
		}
		if o == nil {
			return
		}
		failed := (be.Op == token.NEQ) == (i == 0)
		// which call defined this error most recently? use must facts
		if csErrObjs[o] && !in.Has("MW") && !in.Has("cs-ok") {
			if failed {
				gen = append(gen, "cs-failed")
			} else {
				gen = append(gen, "cs-ok")
			}
		}
		if mwErrObjs[o] && in.Has("cs-ok") {
			if failed {
				gen = append(gen, "mw-failed")
			}
		}
		return
	}
	glob := globalPrefixes("CS", "EH", "CL", "AT", "MW", "NX", "cs-", "mw-", "LOCALS")
	must := fl.Solve(Spec{Must: true, Global: glob, Node: func(n ast.Node, in Facts) ([]string, []string) { return gen(n), nil }, Edge: edge})
	may := fl.Solve(Spec{Must: false, Global: glob, Node: func(n ast.Node, in Facts) ([]string, []string) { return gen(n), nil }, Edge: edge})

	// ---- P2
	{
		bad := ""
		n := 0
		for _, ex := range fl.Exits() {
			if !must.AtExit(ex).Has("cs-failed") {
				continue
			}
			n++
			mf, yf := must.AtExit(ex), may.AtExit(ex)
			if !mf.Has("EH") {
				bad = "the creation-error path does not call the error handler"
			}
			for _, ev := range []string{"AT", "MW", "NX"} {
				if yf.Has(ev) {
					bad = "the creation-error path can still " + map[string]string{"AT": "attach a scope context", "MW": "run middlewares", "NX": "call the next handler"}[ev]
				}
			}
		}
		if n == 0 {
			bad = "no exit on the creation-error edge: a failed CreateScope falls through to the handler"
		}
		r.Check(bad == "", "P2", pre+"#create-error", f.csCall.Pos(), true, "creation error: error handler, then return; nothing else", bad)
	}
	// ---- P3
	if m != "fiber" {
		bad := ""
		for _, n := range fl.Nodes() {
			g := gen(n)
			for _, ev := range g {
				if (ev == "MW" || ev == "NX" || ev == "AT") && !must.Before[n].Has("DCL") {
					bad = fmt.Sprintf("%s at %s happens without a deferred scope.Close() in force: a panic or early return there leaks the scope", map[string]string{"MW": "a middleware call", "NX": "the next handler", "AT": "attaching the context"}[ev], w.Pos(n.Pos()))
				}
			}
		}
		for _, ex := range fl.Exits() {
			if must.AtExit(ex).Has("cs-ok") && !must.AtExit(ex).Has("DCL") && !must.AtExit(ex).Has("CL") {
				bad = "the exit at " + w.Pos(ex.Pos) + " is reached with an open scope and no deferred Close"
			}
		}
		r.Check(bad == "", "P3", pre+"#close-deferred", f.lit.Pos(), true, "defer scope.Close() is in force before any user callback and on every exit after creation", bad)
	} else {
		bad := ""
		for _, ex := range fl.Exits() {
			if ex.Panic {
				continue
			}
			if must.AtExit(ex).Has("cs-ok") && !must.AtExit(ex).Has("CL") && !must.AtExit(ex).Has("DCL") {
				bad = "the exit at " + w.Pos(ex.Pos) + " is reached without scope.Close()"
			}
		}
		r.Check(bad == "", "P3", pre+"#close-explicit", f.lit.Pos(), true, "every normal exit after creation has called scope.Close()", bad)
		bad = ""
		for _, n := range fl.Nodes() {
			for _, ev := range gen(n) {
				if (ev == "MW" || ev == "NX") && !must.Before[n].Has("LOCALS") && !must.Before[n].Has("DCL") {
					bad = "a user callback at " + w.Pos(n.Pos()) + " runs before the scope is stored in Locals: a panic there would leak it (fasthttp closes only user values)"
				}
			}
		}
		r.Check(bad == "", "P3", pre+"#close-locals", f.lit.Pos(), true, "the scope is stored with c.Locals before any user callback, so the panic path is covered by the framework lemma", bad)
		checkFasthttpLemma(w, r, p)
	}
	// ---- P4
	{
		bad := ""
		seen := false
		for _, n := range fl.Nodes() {
			for _, ev := range gen(n) {
				if ev == "AT" {
					seen = true
				}
				if (ev == "MW" || ev == "NX") && !must.Before[n].Has("AT") {
					bad = "a middleware or the next handler at " + w.Pos(n.Pos()) + " runs before the request carries scope.Context()"
				}
			}
		}
		if !seen {
			bad = "scope.Context() is never attached to the request"
		}
		// the attached value is what flows on
		if bad == "" {
			bad = attachFlowsOn(w, f, fl)
		}
		r.Check(bad == "", "P4", pre+"#attach", f.lit.Pos(), true, "scope.Context() is attached to the request before any middleware or the next handler sees it", bad)
	}
	// ---- P5
	{
		if mwLoop == nil {
			r.Fail("P5", pre+"#mw-loop", f.lit.Pos(), "no forward loop over cfg.Middlewares in the request function or a private function it calls")
		} else {
			bad := ""
			if mwLoop.Dir != "fwd" {
				bad = "the configured middlewares are not traversed front to back (" + mwLoop.Dir + " " + mwLoop.DirWhy + ")"
			}
			// which value is the scope inside the function holding the loop
			var scopeThere types.Object = f.scope
			if mwHelper != nil {
				scopeThere = nil
				var params []types.Object
				for _, fl2 := range mwHelper.Decl.Type.Params.List {
					for _, nm := range fl2.Names {
						params = append(params, mwLoopInfo.Defs[nm])
					}
				}
				for i, a := range mwHelperCall.Args {
					if objOf(info, a) == f.scope && i < len(params) {
						scopeThere = params[i]
					}
				}
				if scopeThere == nil {
					bad = "the request's scope is not passed to " + mwHelper.Name()
				}
			}
			nCalls := 0
			var mwErrThere types.Object
			for _, c := range callsIn(mwLoop.Body, false) {
				if !mwLoop.IsElem(c.Fun) {
					continue
				}
				nCalls++
				if len(c.Args) < 1 || objOf(mwLoopInfo, c.Args[0]) != scopeThere {
					bad = "the middleware is called with " + exprStr(c.Args[0]) + ", not with the request's scope"
				}
			}
			if nCalls != 1 {
				bad = fmt.Sprintf("each configured middleware is called %d times per request", nCalls)
			}
			errHelper := false
			if mwHelper != nil {
				hs := mwHelper.Obj.Type().(*types.Signature)
				errHelper = hs.Results().Len() == 1 && isErrorType(hs.Results().At(0).Type())
			}
			if mwHelper != nil && bad == "" && errHelper {
				// the helper must fail closed: on a middleware error it returns that very error, otherwise nil
				ast.Inspect(mwLoop.Body, func(x ast.Node) bool {
					if as, ok := x.(*ast.AssignStmt); ok && len(as.Rhs) == 1 && len(as.Lhs) == 1 {
						if c, ok := unparen(as.Rhs[0]).(*ast.CallExpr); ok {
							if mwLoop.IsElem(c.Fun) {
								mwErrThere = objOf(mwLoopInfo, as.Lhs[0])
							}
						}
					}
					return true
				})
				hfl := w.FlowOf(mwHelper)
				hsol := hfl.Solve(Spec{Must: true, Edge: condEdge(w, mwLoopInfo, 1)})
				sawErrReturn := false
				for _, ex := range hfl.Exits() {
					if ex.Ret == nil || len(ex.Ret.Results) != 1 {
						bad = mwHelper.Name() + " does not return a single error"
						continue
					}
					res := ex.Ret.Results[0]
					at := hsol.AtExit(ex)
					failed := mwErrThere != nil && at.Has(mwErrThere.Name()+"=nonnil")
					switch {
					case failed && objOf(mwLoopInfo, res) == mwErrThere:
						sawErrReturn = true
					case failed:
						bad = mwHelper.Name() + " returns " + exprStr(res) + " after a middleware failed, not the middleware's own error: a nil result lets the request continue to the handler"
					case !isNilIdent(mwLoopInfo, res):
						bad = mwHelper.Name() + " returns " + exprStr(res) + " on a path where no middleware failed"
					}
				}
				if !sawErrReturn && bad == "" {
					bad = mwHelper.Name() + " does not stop at the first failing middleware"
				}
				inspectNoLit(mwLoop.Body, func(m ast.Node) bool {
					if b, ok := m.(*ast.BranchStmt); ok && (b.Tok == token.CONTINUE || b.Tok == token.BREAK) {
						bad = b.Tok.String() + " in the middleware loop"
					}
					return true
				})
			}
			r.Check(bad == "", "P5", pre+"#mw-loop", mwLoop.Stmt.Pos(), true, "front-to-back traversal of cfg.Middlewares, each called once with the request's scope", bad)
			bad = ""
			n := 0
			for _, ex := range fl.Exits() {
				if !must.AtExit(ex).Has("mw-failed") {
					continue
				}
				n++
				if !must.AtExit(ex).Has("EH") {
					bad = "a middleware error does not reach the error handler"
				}
			}
			// next must not be reachable after a failure
			for _, nd := range fl.Nodes() {
				for _, ev := range gen(nd) {
					if ev == "NX" && may.Before[nd].Has("mw-failed") {
						bad = "the next handler at " + w.Pos(nd.Pos()) + " is reachable after a middleware returned an error"
					}
					if ev == "MW" && may.Before[nd].Has("mw-failed") {
						bad = "later middlewares still run after one returned an error"
					}
				}
			}
			if n == 0 && bad == "" {
				bad = "a middleware error does not end the request function (no return on the error edge)"
			}
			r.Check(bad == "", "P5", pre+"#mw-error", mwLoop.Stmt.Pos(), true, "middleware error: error handler, return; the next handler is unreachable", bad)
		}
	}
	// ---- P6
	{
		bad := ""
		if len(f.nextCalls) != 1 {
			bad = fmt.Sprintf("%d call sites of the next handler", len(f.nextCalls))
		} else if fl.InLoop(fl.NodeContaining(f.nextCalls[0].Pos())) {
			bad = "the next handler is called inside a loop"
		}
		for _, ex := range fl.Exits() {
			mf := must.AtExit(ex)
			if ex.Panic || mf.Has("cs-failed") || may.AtExit(ex).Has("mw-failed") {
				continue
			}
			if !mf.Has("NX") {
				bad = "the exit at " + w.Pos(ex.Pos) + " ends a successful request without calling the next handler"
			}
		}
		r.Check(bad == "", "P6", pre+"#next-once", f.lit.Pos(), true, "the normal path calls the next handler exactly once", bad)
	}
}

// isRequestContext: x.Context() / x.UserContext() with x rooted at a parameter of the request function.
func isRequestContext(info *types.Info, e ast.Expr, params map[types.Object]bool) bool {
	c, ok := unparen(e).(*ast.CallExpr)
	if !ok {
		return false
	}
	rcv, name, ok := methodCall(c)
	if !ok || (name != "Context" && name != "UserContext") {
		return false
	}
	// root of the receiver expression, through calls like c.Request()
	for {
		switch x := unparen(rcv).(type) {
		case *ast.CallExpr:
			r2, _, ok := methodCall(x)
			if !ok {
				return false
			}
			rcv = r2
			continue
		case *ast.SelectorExpr:
			rcv = x.X
			continue
		case *ast.Ident:
			return params[info.Uses[x]]
		}
		return false
	}
}

// attachFlowsOn checks that the value carrying scope.Context() is the one handed on.
func attachFlowsOn(w *World, f *mwFacts, fl *Flow) string {
	info := f.info
	for _, n := range fl.Nodes() {
		as, ok := n.(*ast.AssignStmt)
		var call *ast.CallExpr
		if ok && len(as.Rhs) == 1 {
			call, _ = unparen(as.Rhs[0]).(*ast.CallExpr)
		} else if es, ok := n.(*ast.ExprStmt); ok {
			call, _ = unparen(es.X).(*ast.CallExpr)
		}
		if call == nil {
			continue
		}
		carries := false
		for _, c := range callsIn(call, false) {
			if rcv, name, ok := methodCall(c); ok && name == "Context" && objOf(info, rcv) == f.scope {
				carries = true
			}
		}
		if !carries {
			continue
		}
		if as != nil {
			// r = r.WithContext(scope.Context()) / c.Request = ...
			root := rootIdent(as.Lhs[0])
			if root == nil || !f.params[info.Uses[root]] {
				if root == nil || !f.params[info.Defs[root]] {
					return "the request carrying scope.Context() is stored in " + exprStr(as.Lhs[0]) + ", not in the request the next handler receives"
				}
			}
			return ""
		}
		// c.SetRequest(...), c.SetUserContext(...)
		rcv, name, ok := methodCall(call)
		if ok && strings.HasPrefix(name, "Set") {
			if root := rootIdent(rcv); root != nil && f.params[info.Uses[root]] {
				return ""
			}
		}
		return "the value carrying scope.Context() (" + exprStr(call) + ") is neither assigned to the request nor set on the framework context"
	}
	return "no statement attaches scope.Context()"
}

// checkFasthttpLemma: fasthttp closes io.Closer user values when a request
// context is reset, fiber's Locals stores through SetUserValue, and godi.Scope
// is an io.Closer.
func checkFasthttpLemma(w *World, r *Report, fiberPkg *packages.Package) {
	con := "fiber/framework-lemma"
	env := goEnv()
	dir := w.Root + "/fiber"
	pkgs := loadModule(w.Fset, dir, env, "github.com/valyala/fasthttp", "github.com/gofiber/fiber/v2")
	var fast, fib *packages.Package
	for _, p := range pkgs {
		switch p.PkgPath {
		case "github.com/valyala/fasthttp":
			fast = p
		case "github.com/gofiber/fiber/v2":
			fib = p
		}
	}
	if fast == nil || fib == nil {
		r.Undecided("P3", con+"#load", token.NoPos, "fasthttp/fiber sources not loadable")
		return
	}
	// (1) userData.Reset closes io.Closer values
	resetCloses := false
	var resetFn *types.Func
	for _, f := range fast.Syntax {
		for _, d := range f.Decls {
			fd, ok := d.(*ast.FuncDecl)
			if !ok || fd.Recv == nil || fd.Name.Name != "Reset" || fd.Body == nil {
				continue
			}
			obj, _ := fast.TypesInfo.Defs[fd.Name].(*types.Func)
			if rn := recvNamed(obj); rn == nil || rn.Obj().Name() != "userData" {
				continue
			}
			resetFn = obj
			closer := map[types.Object]bool{}
			ast.Inspect(fd.Body, func(x ast.Node) bool {
				if as, ok := x.(*ast.AssignStmt); ok && len(as.Lhs) == 2 && len(as.Rhs) == 1 {
					if ta, ok := unparen(as.Rhs[0]).(*ast.TypeAssertExpr); ok && ta.Type != nil {
						if tv, ok := fast.TypesInfo.Types[ta.Type]; ok && isNamedType(tv.Type, "io", "Closer") {
							closer[objOf(fast.TypesInfo, as.Lhs[0])] = true
						}
					}
				}
				if c, ok := x.(*ast.CallExpr); ok {
					if rcv, name, ok := methodCall(c); ok && name == "Close" && closer[objOf(fast.TypesInfo, rcv)] {
						resetCloses = true
					}
				}
				return true
			})
		}
	}
	r.Check(resetCloses, "P3", con+"#userData.Reset", token.NoPos, true,
		"fasthttp (*userData).Reset type-asserts each user value to io.Closer and calls Close",
		"the fasthttp version this module resolves to does not close io.Closer user values in (*userData).Reset: a handler panic leaks the scope")
	// (2) RequestCtx reset paths call userValues.Reset
	calls := 0
	for _, f := range fast.Syntax {
		ast.Inspect(f, func(x ast.Node) bool {
			if c, ok := x.(*ast.CallExpr); ok && resetFn != nil && callee(fast.TypesInfo, c) == resetFn {
				calls++
			}
			return true
		})
	}
	r.Check(calls >= 2, "P3", con+"#reset-paths", token.NoPos, true,
		fmt.Sprintf("fasthttp calls userValues.Reset() at %d sites (request reset and release paths)", calls),
		"fasthttp no longer resets user values when a request context is recycled")
	// (3) fiber Locals stores through SetUserValue
	stores := false
	for _, f := range fib.Syntax {
		for _, d := range f.Decls {
			fd, ok := d.(*ast.FuncDecl)
			if !ok || fd.Recv == nil || fd.Name.Name != "Locals" || fd.Body == nil {
				continue
			}
			for _, c := range callsIn(fd.Body, true) {
				if cal := callee(fib.TypesInfo, c); cal != nil && cal.Name() == "SetUserValue" {
					stores = true
				}
			}
		}
	}
	r.Check(stores, "P3", con+"#Locals", token.NoPos, true, "fiber (*Ctx).Locals stores values with fasthttp SetUserValue", "fiber Locals no longer stores through fasthttp user values")
	// (4) godi.Scope is an io.Closer
	var scopeT types.Type
	if o := w.Godi.Types.Scope().Lookup("Scope"); o != nil {
		scopeT = o.Type()
	}
	isCloser := false
	if scopeT != nil {
		if it, ok := scopeT.Underlying().(*types.Interface); ok {
			for i := 0; i < it.NumMethods(); i++ {
				mm := it.Method(i)
				if mm.Name() == "Close" {
					sig := mm.Type().(*types.Signature)
					isCloser = sig.Params().Len() == 0 && sig.Results().Len() == 1 && isErrorType(sig.Results().At(0).Type())
				}
			}
		}
	}
	r.Check(isCloser, "P3", con+"#Scope-is-Closer", token.NoPos, false, "godi.Scope has Close() error, so it satisfies io.Closer", "godi.Scope no longer satisfies io.Closer")
}

func checkHandle(w *World, r *Report, m string, p *packages.Package) {
	fi := w.Fn(p, "Handle")
	pre := m + "/Handle"
	if fi == nil {
		r.Fail("H2", pre, token.NoPos, "integration %s has no Handle", m)
		return
	}
	r.Analysed(fi)
	info := p.TypesInfo
	var method types.Object
	for _, fl := range fi.Decl.Type.Params.List {
		for _, nm := range fl.Names {
			if _, isSig := info.Defs[nm].Type().Underlying().(*types.Signature); isSig {
				method = info.Defs[nm]
			}
		}
	}
	isMethod := func(c *ast.CallExpr) bool {
		id, ok := unparen(c.Fun).(*ast.Ident)
		return ok && method != nil && info.Uses[id] == method
	}
	lit := innermostLitWith(fi, isMethod)
	var helper *FuncInfo
	if lit == nil {
		// the resolution steps may live in a private (generic) function that receives the method
		for _, l := range funcLitsIn(fi.Decl.Body) {
			for _, c := range callsIn(l.Body, false) {
				cal := callee(info, c)
				if cal == nil {
					continue
				}
				if o := cal.Origin(); o != nil {
					cal = o
				}
				t := w.Decls[cal]
				if t == nil || t.Pkg != p || cal.Exported() {
					continue
				}
				var ps []types.Object
				for _, fl2 := range t.Decl.Type.Params.List {
					for _, nm := range fl2.Names {
						ps = append(ps, info.Defs[nm])
					}
				}
				for i, a := range c.Args {
					if objOf(info, a) == method && i < len(ps) {
						lit, helper, method = l, t, ps[i]
					}
				}
			}
		}
	}
	if lit == nil {
		r.Fail("H4", pre+"#method", fi.Decl.Pos(), "Handle never calls the controller method")
		return
	}
	params := map[types.Object]bool{}
	for _, fl := range lit.Type.Params.List {
		for _, nm := range fl.Names {
			params[info.Defs[nm]] = true
		}
	}
	recoverBody := lit.Body
	body := lit.Body
	if helper != nil {
		body = helper.Decl.Body
		params = map[types.Object]bool{}
		for _, fl := range helper.Decl.Type.Params.List {
			for _, nm := range fl.Names {
				params[info.Defs[nm]] = true
			}
		}
		r.Analysed(helper)
	}
	// H1: recover only under cfg.PanicRecovery
	{
		bad := ""
		n := 0
		var walk func(stmts []ast.Stmt, guarded bool)
		walk = func(stmts []ast.Stmt, guarded bool) {
			for _, st := range stmts {
				switch s := st.(type) {
				case *ast.IfStmt:
					g := guarded || isFieldNamed(info, s.Cond, "PanicRecovery")
					walk(s.Body.List, g)
					if s.Else != nil {
						if b, ok := s.Else.(*ast.BlockStmt); ok {
							walk(b.List, guarded)
						}
					}
				case *ast.DeferStmt:
					recovers := false
					for _, c := range callsIn(s, true) {
						if id, ok := unparen(c.Fun).(*ast.Ident); ok && id.Name == "recover" {
							recovers = true
						}
					}
					// defer recoverPanic(…): a package function that calls recover() itself
					if cal := callee(info, s.Call); cal != nil {
						if o := cal.Origin(); o != nil {
							cal = o
						}
						if t := w.Decls[cal]; t != nil && t.Pkg == p {
							for _, c := range callsIn(t.Decl.Body, false) {
								if id, ok := unparen(c.Fun).(*ast.Ident); ok && id.Name == "recover" {
									recovers = true
								}
							}
						}
					}
					if recovers {
						n++
						if !guarded {
							bad = "a deferred recover() is installed unconditionally: panics are swallowed even when recovery is disabled"
						}
					}
				case *ast.BlockStmt:
					walk(s.List, guarded)
				}
			}
		}
		walk(recoverBody.List, false)
		if helper != nil && n == 0 {
			// the whole per-request part, recovery included, lives in the private function
			walk(helper.Decl.Body.List, false)
		}
		if n == 0 {
			bad = "Handle never recovers, even when PanicRecovery is enabled"
		}
		r.Check(bad == "", "H1", pre+"#recover", lit.Pos(), true, "recover() is deferred only inside `if cfg.PanicRecovery`", bad)
	}
	// scope / controller variables
	var scopeObj, scopeErr, ctrlObj, ctrlErr, okObj types.Object
	var fromCall, resolveCall *ast.CallExpr
	viaAccessor := false
	// the resolution phase may live in a private (generic) function called from the closure
	var resHelper *FuncInfo
	var resHelperCall *ast.CallExpr
	var ctrlOuter types.Object // the variable the closure binds the helper's controller to
	hasResolution := func(b *ast.BlockStmt) bool {
		found := false
		ast.Inspect(b, func(x ast.Node) bool {
			if c, ok := x.(*ast.CallExpr); ok {
				if cal := callee(info, c); cal != nil && cal.Pkg() != nil && cal.Pkg().Path() == modPath && strings.HasPrefix(cal.Name(), "Resolve") {
					found = true
				}
			}
			return true
		})
		return found
	}
	if !hasResolution(body) {
		ast.Inspect(body, func(x ast.Node) bool {
			as, ok := x.(*ast.AssignStmt)
			if !ok || len(as.Rhs) != 1 {
				return true
			}
			c, ok := unparen(as.Rhs[0]).(*ast.CallExpr)
			if !ok {
				return true
			}
			cal := callee(info, c)
			if cal == nil || cal.Exported() {
				return true
			}
			if o := cal.Origin(); o != nil {
				cal = o
			}
			if t := w.Decls[cal]; t != nil && t.Pkg == p && hasResolution(t.Decl.Body) {
				resHelper, resHelperCall = t, c
				ctrlOuter = objOf(info, as.Lhs[0])
				r.Analysed(t)
			}
			return true
		})
	}
	scanBodies := []*ast.BlockStmt{body}
	if resHelper != nil {
		scanBodies = append(scanBodies, resHelper.Decl.Body)
		// request parameters as the helper sees them
		k := 0
		for _, fl := range resHelper.Decl.Type.Params.List {
			for _, nm := range fl.Names {
				if k < len(resHelperCall.Args) {
					if root := rootIdent(resHelperCall.Args[k]); root != nil && params[info.Uses[root]] {
						params[info.Defs[nm]] = true
					}
				}
				k++
			}
		}
	}
	for _, sb := range scanBodies {
		ast.Inspect(sb, func(x ast.Node) bool {
			as, ok := x.(*ast.AssignStmt)
			if !ok || len(as.Rhs) != 1 {
				return true
			}
			switch rhs := unparen(as.Rhs[0]).(type) {
			case *ast.CallExpr:
				cal := callee(info, rhs)
				// the integration's own accessor (fiber: FromContext(c) reads Locals with a checked assertion)
				if cal != nil && cal.Pkg() == p.Types && cal.Name() == "FromContext" && len(as.Lhs) == 1 {
					if t := w.Decls[cal]; t != nil && assertsScopeChecked(info, t) {
						scopeObj, viaAccessor = objOf(info, as.Lhs[0]), true
					}
				}
				// a private lookup helper of the integration: scope, ok := lookupScope(c)
				if cal != nil && cal.Pkg() == p.Types && !cal.Exported() && len(as.Lhs) == 2 {
					gcal := cal
					if o := cal.Origin(); o != nil {
						gcal = o
					}
					scopeTypeArg = typeArgOfCall(info, rhs)
					if t := w.Decls[gcal]; t != nil && assertsScopeChecked(info, t) && returnsTrueOnlyAfterAssertion(info, t) {
						scopeObj, okObj = objOf(info, as.Lhs[0]), objOf(info, as.Lhs[1])
						r.Analysed(t)
					}
					scopeTypeArg = nil
				}
				if cal != nil && cal.Pkg() != nil && cal.Pkg().Path() == modPath && len(as.Lhs) == 2 {
					switch {
					case cal.Name() == "FromContext":
						scopeObj, scopeErr, fromCall = objOf(info, as.Lhs[0]), objOf(info, as.Lhs[1]), rhs
					case strings.HasPrefix(cal.Name(), "Resolve"):
						ctrlObj, ctrlErr, resolveCall = objOf(info, as.Lhs[0]), objOf(info, as.Lhs[1]), rhs
					}
				}
			case *ast.TypeAssertExpr:
				if rhs.Type != nil && len(as.Lhs) == 2 {
					if tv, ok := info.Types[rhs.Type]; ok && isNamedType(tv.Type, modPath, "Scope") {
						scopeObj, okObj = objOf(info, as.Lhs[0]), objOf(info, as.Lhs[1])
					}
				}
			}
			return true
		})
	}
	// H2
	{
		bad := ""
		switch {
		case m != "fiber" && (fromCall == nil || len(fromCall.Args) != 1 || !isRequestContext(info, fromCall.Args[0], params)):
			bad = "the scope is not obtained with godi.FromContext(request context)"
		case m == "fiber" && okObj == nil && !viaAccessor:
			bad = "the scope is not obtained from c.Locals with a checked assertion to godi.Scope"
		case resolveCall == nil || len(resolveCall.Args) < 1 || objOf(info, resolveCall.Args[0]) != scopeObj:
			bad = "the controller is not resolved from the request's scope"
		}
		r.Check(bad == "", "H2", pre+"#scope-source", lit.Pos(), true, "scope taken from the request; controller resolved from that scope", bad)
	}
	if resolveCall == nil || scopeObj == nil {
		return
	}
	fl := NewFlow(w, p, body, pre)
	gen := func(n ast.Node) (out []string) {
		if _, isD := n.(*ast.DeferStmt); isD {
			return nil
		}
		for _, c := range callsIn(n, false) {
			switch {
			case isFieldNamed(info, c.Fun, "ScopeErrorHandler"):
				out = append(out, "SEH")
			case isFieldNamed(info, c.Fun, "ResolutionErrorHandler"):
				out = append(out, "REH")
			case c == resolveCall:
				out = append(out, "RES")
			case isMethod(c):
				out = append(out, "METHOD")
			}
		}
		return out
	}
	edge := func(b *cfg.Block, i int, cond ast.Expr, in Facts) (gen, kill []string) {
		if cond == nil {
			return
		}
		c := unparen(cond)
		neg := false
		if u, ok := c.(*ast.UnaryExpr); ok && u.Op == token.NOT {
			c, neg = unparen(u.X), true
		}
		if id, ok := c.(*ast.Ident); ok && okObj != nil && info.Uses[id] == okObj {
			if (i == 0) != neg {
				gen = append(gen, "scope-ok")
			} else {
				gen = append(gen, "scope-failed")
			}
			return
		}
		be, ok := c.(*ast.BinaryExpr)
		if !ok || (be.Op != token.NEQ && be.Op != token.EQL) {
			return
		}
		var o types.Object
		if isNilIdent(info, be.Y) {
			o = objOf(info, be.X)
		} else if isNilIdent(info, be.X) {
			o = objOf(info, be.Y)
		}
		if o == nil {
			return
		}
		failed := (be.Op == token.NEQ) == (i == 0)
		isErr := isErrorType(o.Type())
		if !isErr {
			// scopeVal == nil (fiber): nil means failure
			failed = (be.Op == token.EQL) == (i == 0)
			if failed {
				gen = append(gen, "scope-failed")
			}
			return
		}
		switch {
		case o == ctrlErr && in.Has("RES"):
			if failed {
				gen = append(gen, "res-failed")
			} else {
				gen = append(gen, "res-ok")
			}
		case o == scopeErr && !in.Has("RES"):
			if failed {
				gen = append(gen, "scope-failed")
			} else {
				gen = append(gen, "scope-ok")
			}
		}
		return
	}
	hglob := globalPrefixes("SEH", "REH", "RES", "METHOD", "scope-", "res-")
	hstop := func(h *FuncInfo) bool { return h != resHelper }
	must := fl.Solve(Spec{Must: true, Global: hglob, Stop: hstop, Node: func(n ast.Node, in Facts) ([]string, []string) { return gen(n), nil }, Edge: edge})
	may := fl.Solve(Spec{Must: false, Global: hglob, Stop: hstop, Node: func(n ast.Node, in Facts) ([]string, []string) { return gen(n), nil }, Edge: edge})
	// H3 - evaluated where the failure paths are separate: in the resolution helper when there is one
	h3fl, h3must, h3may := fl, must, may
	if resHelper != nil {
		h3fl = w.FlowOf(resHelper)
		h3must = h3fl.Solve(Spec{Must: true, Node: func(n ast.Node, in Facts) ([]string, []string) { return gen(n), nil }, Edge: edge})
		h3may = h3fl.Solve(Spec{Must: false, Node: func(n ast.Node, in Facts) ([]string, []string) { return gen(n), nil }, Edge: edge})
	}
	for _, k := range []struct{ fact, handler, other, name string }{
		{"scope-failed", "SEH", "REH", "scope-error"}, {"res-failed", "REH", "SEH", "resolution-error"}} {
		bad := ""
		n := 0
		for _, ex := range h3fl.ExitsPerPath() {
			if os.Getenv("GODICHECK_DEBUG") != "" {
				fmt.Fprintf(os.Stderr, "H3 %s exit %s block=%d ret=%v: %v\n", pre, w.Pos(ex.Pos), ex.Block.Index, ex.Ret != nil, h3must.AtExit(ex).Keys())
			}
			if !h3must.AtExit(ex).Has(k.fact) {
				continue
			}
			n++
			if !h3must.AtExit(ex).Has(k.handler) {
				bad = "the " + k.name + " path does not call its handler"
			}
			if h3may.AtExit(ex).Has("METHOD") {
				bad = "the controller method can run on the " + k.name + " path"
			}
			if k.fact == "scope-failed" && h3may.AtExit(ex).Has(k.other) {
				bad = "both error handlers can run on the " + k.name + " path"
			}
			if resHelper != nil {
				// the helper reports the failure to the closure
				bi := -1
				rsig := resHelper.Obj.Type().(*types.Signature)
				for i := 0; i < rsig.Results().Len(); i++ {
					if b, isB := rsig.Results().At(i).Type().Underlying().(*types.Basic); isB && b.Info()&types.IsBoolean != 0 {
						bi = i
					}
				}
				if ex.Ret == nil || bi < 0 || bi >= len(ex.Ret.Results) || exprStr(ex.Ret.Results[bi]) != "false" {
					bad = "the " + k.name + " path of " + resHelper.Name() + " does not report the failure to its caller"
				}
			}
		}
		if n == 0 {
			bad = "no exit on the " + k.name + " edge: the failure falls through"
		}
		r.Check(bad == "", "H3", pre+"#"+k.name, lit.Pos(), true, k.name+": exactly its handler runs, then return; the method is not called", bad)
	}
	// H4
	{
		bad := ""
		nCalls := 0
		for _, n := range fl.Nodes() {
			for _, c := range callsIn(n, false) {
				if !isMethod(c) {
					continue
				}
				nCalls++
				bf := must.Before[n]
				if !bf.Has("res-ok") {
					bad = "the controller method is called without the resolution having succeeded on every path"
				}
				if scopeErr != nil && !bf.Has("scope-ok") || okObj != nil && !bf.Has("scope-ok") {
					bad = "the controller method is called without a scope having been found on every path"
				}
				wantCtrl := ctrlObj
				if resHelper != nil {
					wantCtrl = ctrlOuter
					// the helper hands back the controller it resolved
					for _, ex := range w.FlowOf(resHelper).Exits() {
						if ex.Ret != nil && len(ex.Ret.Results) >= 1 && objOf(info, ex.Ret.Results[0]) != ctrlObj {
							bad = resHelper.Name() + " returns " + exprStr(ex.Ret.Results[0]) + ", not the controller it resolved"
						}
					}
				}
				if len(c.Args) < 1 || objOf(info, c.Args[0]) != wantCtrl {
					bad = "the method receives " + exprStr(c.Args[0]) + ", not the resolved controller"
				}
				if fl.InLoop(n) {
					bad = "the controller method is called in a loop"
				}
			}
		}
		if nCalls != 1 {
			bad = fmt.Sprintf("%d call sites of the controller method", nCalls)
		}
		r.Check(bad == "", "H4", pre+"#method", lit.Pos(), true, "the method is called once, dominated by both successes, with the resolved controller", bad)
	}
}

// assertsScopeChecked: the function obtains its result through a comma-ok type
// assertion to godi.Scope of a value read with Locals, returning nil otherwise.
// scopeTypeArg: while a generic lookup helper (local[T](c, key) (T, bool)) is
// judged for one call site, the type argument of that call.
var scopeTypeArg types.Type

// isScopeType: godi.Scope, or the type parameter instantiated with it at the call being judged.
func isScopeType(t types.Type) bool {
	if t == nil {
		return false
	}
	if isNamedType(t, modPath, "Scope") {
		return true
	}
	if _, isTP := t.(*types.TypeParam); isTP && scopeTypeArg != nil && isNamedType(scopeTypeArg, modPath, "Scope") {
		return true
	}
	return false
}

func assertsScopeChecked(info *types.Info, t *FuncInfo) bool {
	locals, asserted := false, false
	ast.Inspect(t.Decl.Body, func(x ast.Node) bool {
		switch s := x.(type) {
		case *ast.CallExpr:
			if _, name, ok := methodCall(s); ok && name == "Locals" {
				locals = true
			}
		case *ast.AssignStmt:
			if len(s.Lhs) == 2 && len(s.Rhs) == 1 {
				if ta, ok := unparen(s.Rhs[0]).(*ast.TypeAssertExpr); ok && ta.Type != nil {
					if tv, ok := info.Types[ta.Type]; ok && isScopeType(tv.Type) {
						asserted = true
					}
				}
			}
		}
		return true
	})
	return locals && asserted
}

// returnsTrueOnlyAfterAssertion: a (Scope, bool) lookup helper reports true only
// with the value of a comma-ok assertion that succeeded: every `return x, true`
// is control dependent on the ok of the assertion that bound x.
func returnsTrueOnlyAfterAssertion(info *types.Info, t *FuncInfo) bool {
	sig := t.Obj.Type().(*types.Signature)
	if sig.Results().Len() != 2 || !isScopeType(sig.Results().At(0).Type()) {
		return false
	}
	okOf := map[types.Object]types.Object{} // asserted value -> its ok
	ast.Inspect(t.Decl.Body, func(x ast.Node) bool {
		if s, isAs := x.(*ast.AssignStmt); isAs && len(s.Lhs) == 2 && len(s.Rhs) == 1 {
			if ta, ok := unparen(s.Rhs[0]).(*ast.TypeAssertExpr); ok && ta.Type != nil {
				okOf[objOf(info, s.Lhs[0])] = objOf(info, s.Lhs[1])
			}
		}
		return true
	})
	fl := theWorld.FlowOf(t)
	good, n := true, 0
	for _, ex := range fl.Exits() {
		if ex.Ret == nil || len(ex.Ret.Results) != 2 {
			if !ex.Panic {
				good = false
			}
			continue
		}
		if exprStr(ex.Ret.Results[1]) == "false" {
			continue
		}
		v := objOf(info, ex.Ret.Results[0])
		okv := okOf[v]
		if okv == nil {
			good = false
			continue
		}
		if exprStr(ex.Ret.Results[1]) == "true" {
			held := false
			conds, vals := controllingCondsInfo(info, t.Decl.Body, ex.Ret.Pos())
			for i, cc := range conds {
				if objOf(info, cc) == okv && vals[i] {
					held = true
				}
				if u, isU := unparen(cc).(*ast.UnaryExpr); isU && u.Op == token.NOT && objOf(info, u.X) == okv && !vals[i] {
					held = true
				}
			}
			if !held {
				good = false
			}
			n++
		} else if objOf(info, ex.Ret.Results[1]) == okv {
			n++ // return scope, ok
		} else {
			good = false
		}
	}
	return good && n > 0
}

// derivedRequestContext: e is a local every assignment of which is the request's
// own context or a context derived from that same local / the request context by
// a context.With… call (a timeout, a value): still the request's context, with
// something added.
func derivedRequestContext(info *types.Info, body ast.Node, e ast.Expr, params map[types.Object]bool) bool {
	o, ok := objOf(info, e).(*types.Var)
	if !ok || o.IsField() {
		return false
	}
	okAll, any := true, false
	judge := func(rhs ast.Expr) {
		any = true
		rhs = unparen(rhs)
		if isRequestContext(info, rhs, params) {
			return
		}
		if c, isC := rhs.(*ast.CallExpr); isC {
			cal := callee(info, c)
			if cal != nil && cal.Pkg() != nil && cal.Pkg().Path() == "context" && strings.HasPrefix(cal.Name(), "With") && len(c.Args) >= 1 {
				if objOf(info, c.Args[0]) == o || isRequestContext(info, c.Args[0], params) {
					return
				}
			}
		}
		okAll = false
	}
	ast.Inspect(body, func(x ast.Node) bool {
		switch st := x.(type) {
		case *ast.AssignStmt:
			if len(st.Rhs) == 1 && len(st.Lhs) >= 1 && objOf(info, st.Lhs[0]) == o {
				judge(st.Rhs[0]) // ctx, cancel := context.WithTimeout(…): the first result
				return true
			}
			if len(st.Lhs) == len(st.Rhs) {
				for i, l := range st.Lhs {
					if objOf(info, l) == o {
						judge(st.Rhs[i])
					}
				}
			}
		case *ast.ValueSpec:
			for i, nm := range st.Names {
				if info.Defs[nm] == o && i < len(st.Values) {
					judge(st.Values[i])
				}
			}
		}
		return true
	})
	return okAll && any
}

// selectedProvider: o is a local that starts as the provider passed to
// ScopeMiddleware and may be replaced by what a configured callback selects for
// this request (source := provider; if s := cfg.ScopeSource(r); s != nil { source = s }).
func selectedProvider(info *types.Info, f *mwFacts, o types.Object, depth int) bool {
	if o == nil || f.provider == nil || depth < 0 {
		return false
	}
	okAll, sawProvider := true, false
	judge := func(rhs ast.Expr) {
		rhs = unparen(rhs)
		ro := objOf(info, rhs)
		switch {
		case ro == f.provider:
			sawProvider = true
		case ro != nil && ro != o && callbackResult(info, f, ro):
		default:
			if c, isC := rhs.(*ast.CallExpr); isC && isCfgCallback(info, f, c) {
				return
			}
			okAll = false
		}
	}
	ast.Inspect(f.lit.Body, func(x ast.Node) bool {
		if as, ok := x.(*ast.AssignStmt); ok && len(as.Lhs) == len(as.Rhs) {
			for i, l := range as.Lhs {
				if objOf(info, l) == o {
					judge(as.Rhs[i])
				}
			}
		}
		return true
	})
	return okAll && sawProvider
}

// isCfgCallback: a call of a function-typed field of the configuration.
func isCfgCallback(info *types.Info, f *mwFacts, c *ast.CallExpr) bool {
	sel, ok := unparen(c.Fun).(*ast.SelectorExpr)
	if !ok || f.cfg == nil || objOf(info, sel.X) != f.cfg {
		return false
	}
	fv := fieldOf(info, sel)
	if fv == nil {
		return false
	}
	_, isSig := fv.Type().Underlying().(*types.Signature)
	return isSig
}

// callbackResult: ro is a local bound (once) to the result of a configuration callback.
func callbackResult(info *types.Info, f *mwFacts, ro types.Object) bool {
	n, good := 0, true
	ast.Inspect(f.lit.Body, func(x ast.Node) bool {
		if as, ok := x.(*ast.AssignStmt); ok && len(as.Lhs) == len(as.Rhs) {
			for i, l := range as.Lhs {
				if objOf(info, l) == ro {
					n++
					if c, isC := unparen(as.Rhs[i]).(*ast.CallExpr); !isC || !isCfgCallback(info, f, c) {
						good = false
					}
				}
			}
		}
		return true
	})
	return n == 1 && good
}

// configuredRequestContext: the creation context is what the configuration makes
// of this request - cfg.scopeContext(r), cfg.ScopeContext(r) - a method or a
// function-typed field of the configuration that is handed the request (or a
// local bound to such a call).
func configuredRequestContext(info *types.Info, f *mwFacts, e ast.Expr) bool {
	e = resolveLocal(info, f.lit.Body, e, 2)
	c, ok := unparen(e).(*ast.CallExpr)
	if !ok || f.cfg == nil {
		return false
	}
	sel, ok := unparen(c.Fun).(*ast.SelectorExpr)
	if !ok || objOf(info, sel.X) != f.cfg {
		return false
	}
	for _, a := range c.Args {
		if root := rootIdent(a); root != nil && (f.params[info.Uses[root]] || f.outer[info.Uses[root]]) {
			return true
		}
	}
	return false
}
