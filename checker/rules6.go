package main

import (
	"strings"
	"fmt"
	"sort"
	"go/ast"
	"go/token"
	"go/types"

	"golang.org/x/tools/go/cfg"
	"golang.org/x/tools/go/packages"
)

// Round 9: mode parameters.
//
// A feature is often threaded through an existing chain as a bool parameter
// (`register(service, lifetime, replace bool, …)`): the old entry points pass
// the constant false, the new entry point passes true. A rule that describes
// what the OLD entry points do must not look at the paths only the new mode can
// take. constBoolParams finds the bool parameters of a function that hold one
// constant on every static call chain starting in the given entries; deadUnder
// marks the exits that are unreachable under those constants.

// reachableFrom: the declared functions reachable from the entries through static calls.
func reachableFrom(w *World, entries []*FuncInfo) map[*FuncInfo]bool {
	seen := map[*FuncInfo]bool{}
	var visit func(fi *FuncInfo)
	visit = func(fi *FuncInfo) {
		if fi == nil || seen[fi] || fi.Decl.Body == nil {
			return
		}
		seen[fi] = true
		for _, c := range callsIn(fi.Decl.Body, true) {
			if cal := callee(fi.Pkg.TypesInfo, c); cal != nil {
				visit(w.Decls[cal])
			}
		}
	}
	for _, e := range entries {
		visit(e)
	}
	return seen
}

func paramObjs(fi *FuncInfo) []types.Object {
	var out []types.Object
	if fi.Decl.Type.Params == nil {
		return out
	}
	for _, f := range fi.Decl.Type.Params.List {
		if len(f.Names) == 0 {
			out = append(out, nil)
			continue
		}
		for _, n := range f.Names {
			out = append(out, fi.Pkg.TypesInfo.Defs[n])
		}
	}
	return out
}

// constBoolParams: bool parameter of fi -> the one constant it holds whenever fi
// is reached from one of the entries. A parameter that may hold both values, a
// value that is not a literal or a forwarded constant parameter, a function that
// is used as a value, or an exported function (callable from outside) gives no entry.
func constBoolParams(w *World, fi *FuncInfo, entries []*FuncInfo) map[types.Object]bool {
	out := map[types.Object]bool{}
	if fi == nil || len(entries) == 0 {
		return out
	}
	reach := reachableFrom(w, entries)
	isEntry := map[*FuncInfo]bool{}
	for _, e := range entries {
		isEntry[e] = true
	}
	usedAsValue := map[*FuncInfo]bool{}
	for _, g := range w.Decls {
		if g.Decl.Body == nil {
			continue
		}
		inCall := map[*ast.Ident]bool{}
		ast.Inspect(g.Decl.Body, func(x ast.Node) bool {
			if c, ok := x.(*ast.CallExpr); ok {
				switch f := unparen(c.Fun).(type) {
				case *ast.Ident:
					inCall[f] = true
				case *ast.SelectorExpr:
					inCall[f.Sel] = true
				}
			}
			return true
		})
		ast.Inspect(g.Decl.Body, func(x ast.Node) bool {
			if id, ok := x.(*ast.Ident); ok && !inCall[id] {
				if fn, isFn := g.Pkg.TypesInfo.Uses[id].(*types.Func); isFn {
					if t := w.Decls[fn]; t != nil {
						usedAsValue[t] = true
					}
				}
			}
			return true
		})
	}
	type key struct {
		f *FuncInfo
		i int
	}
	const (
		vFalse = 1
		vTrue  = 2
		vAny   = 4
	)
	memo := map[key]int{}
	busy := map[key]bool{}
	var value func(f *FuncInfo, idx int) int
	value = func(f *FuncInfo, idx int) int {
		k := key{f, idx}
		if v, ok := memo[k]; ok {
			return v
		}
		if busy[k] {
			return 0
		}
		busy[k] = true
		defer func() { busy[k] = false }()
		if isEntry[f] || f.Obj.Exported() || usedAsValue[f] {
			memo[k] = vAny
			return vAny
		}
		sig := f.Obj.Type().(*types.Signature)
		res, sites := 0, 0
		for g := range w.Callers()[f] {
			if !reach[g] {
				continue
			}
			gps := paramObjs(g)
			for _, c := range callsIn(g.Decl.Body, true) {
				if cal := callee(g.Pkg.TypesInfo, c); cal == nil || w.Decls[cal] != f {
					continue
				}
				sites++
				if idx >= len(c.Args) || (sig.Variadic() && idx >= sig.Params().Len()-1) || c.Ellipsis.IsValid() && idx >= len(c.Args)-1 {
					res |= vAny
					continue
				}
				arg := unparen(c.Args[idx])
				if tv, ok := g.Pkg.TypesInfo.Types[arg]; ok && tv.Value != nil && tv.Value.Kind().String() == "Bool" {
					if tv.Value.String() == "true" {
						res |= vTrue
					} else {
						res |= vFalse
					}
					continue
				}
				fwd := false
				if id, ok := arg.(*ast.Ident); ok {
					o := g.Pkg.TypesInfo.Uses[id]
					for gi, po := range gps {
						if po != nil && po == o && !assignedIn(g.Pkg.TypesInfo, g.Decl.Body, o) {
							res |= value(g, gi)
							fwd = true
						}
					}
				}
				if !fwd {
					res |= vAny
				}
			}
		}
		if sites == 0 {
			res = vAny
		}
		memo[k] = res
		return res
	}
	if !reach[fi] {
		return out
	}
	for i, po := range paramObjs(fi) {
		if po == nil {
			continue
		}
		if b, ok := po.Type().Underlying().(*types.Basic); !ok || b.Kind() != types.Bool {
			continue
		}
		if assignedIn(fi.Pkg.TypesInfo, fi.Decl.Body, po) {
			continue
		}
		switch value(fi, i) {
		case vFalse:
			out[po] = false
		case vTrue:
			out[po] = true
		}
	}
	return out
}

// assignedIn: obj is assigned (or its address taken) somewhere in body.
func assignedIn(info *types.Info, body ast.Node, obj types.Object) bool {
	found := false
	ast.Inspect(body, func(x ast.Node) bool {
		switch s := x.(type) {
		case *ast.AssignStmt:
			for _, l := range s.Lhs {
				if id, ok := unparen(l).(*ast.Ident); ok && (info.Uses[id] == obj || info.Defs[id] == obj) {
					found = true
				}
			}
		case *ast.IncDecStmt:
			if id, ok := unparen(s.X).(*ast.Ident); ok && info.Uses[id] == obj {
				found = true
			}
		case *ast.UnaryExpr:
			if s.Op == token.AND {
				if id, ok := unparen(s.X).(*ast.Ident); ok && info.Uses[id] == obj {
					found = true
				}
			}
		}
		return true
	})
	return found
}

// deadUnder: a must-solution over fi whose fact "dead" holds where every path
// passes an edge that the constants make infeasible.
func deadUnder(w *World, fi *FuncInfo, consts map[types.Object]bool) *Sol {
	if len(consts) == 0 {
		return nil
	}
	info := fi.Pkg.TypesInfo
	return w.FlowOf(fi).Solve(Spec{Must: true, Edge: func(b *cfg.Block, i int, cond ast.Expr, in Facts) (gen, kill []string) {
		if cond == nil || (i != 0 && i != 1) {
			return
		}
		c, neg := unparen(cond), false
		if u, ok := c.(*ast.UnaryExpr); ok && u.Op == token.NOT {
			c, neg = unparen(u.X), true
		}
		id, ok := c.(*ast.Ident)
		if !ok {
			return
		}
		v, known := consts[info.Uses[id]]
		if !known {
			return
		}
		edgeTruth := (i == 0) != neg // the value the parameter has on this edge
		if edgeTruth != v {
			gen = append(gen, "dead")
		}
		return
	}})
}

// addEntries: the registration entry points of the collection that existed
// before any feature: AddSingleton / AddScoped / AddTransient.
func addEntries(w *World) []*FuncInfo {
	var out []*FuncInfo
	for _, n := range []string{"(*collection).AddSingleton", "(*collection).AddScoped", "(*collection).AddTransient"} {
		if f := w.Fn(w.Godi, n); f != nil {
			out = append(out, f)
		}
	}
	return out
}

// localStructCopy: the base of the selector e is a local variable of struct
// (not pointer) type, not a parameter: a value the function owns.
func localStructCopy(info *types.Info, fi *FuncInfo, e ast.Expr) bool {
	sel, ok := unparen(e).(*ast.SelectorExpr)
	if !ok {
		return false
	}
	id, ok := unparen(sel.X).(*ast.Ident)
	if !ok {
		return false
	}
	o, _ := info.Uses[id].(*types.Var)
	if o == nil || o.IsField() || o.Parent() == nil || o.Pkg() == nil || o.Parent() == o.Pkg().Scope() || isParamOrRecv(fi, info, o) {
		return false
	}
	_, isStruct := o.Type().Underlying().(*types.Struct)
	return isStruct
}

// errBranchOutcome: what the error branch of a per-element check does. ok: every
// way through it ends in a return, or in `flag = true; continue` (the element is
// skipped and the flag remembers that a check failed). flags: the flags raised;
// conts: the continue statements accounted for.
func errBranchOutcome(info *types.Info, body *ast.BlockStmt) (ok bool, flags []types.Object, conts []*ast.BranchStmt) {
	seen := map[types.Object]bool{}
	var terminal func(list []ast.Stmt) bool
	noBranches := func(n ast.Node) bool {
		clean := true
		inspectNoLit(n, func(m ast.Node) bool {
			switch m.(type) {
			case *ast.BranchStmt, *ast.ReturnStmt:
				clean = false
			}
			return true
		})
		return clean
	}
	terminal = func(list []ast.Stmt) bool {
		if len(list) == 0 {
			return false
		}
		for _, st := range list[:len(list)-1] {
			switch s := st.(type) {
			case *ast.IfStmt:
				for cur := s; cur != nil; {
					if !noBranches(cur.Body) && !terminal(cur.Body.List) {
						return false
					}
					switch e := cur.Else.(type) {
					case *ast.IfStmt:
						cur = e
						continue
					case *ast.BlockStmt:
						if !noBranches(e) && !terminal(e.List) {
							return false
						}
					}
					cur = nil
				}
			default:
				if !noBranches(st) {
					return false
				}
			}
		}
		switch last := list[len(list)-1].(type) {
		case *ast.ReturnStmt:
			return true
		case *ast.BranchStmt:
			if last.Tok != token.CONTINUE || last.Label != nil {
				return false
			}
			raised := false
			for _, st := range list[:len(list)-1] {
				as, isAs := st.(*ast.AssignStmt)
				if !isAs || as.Tok != token.ASSIGN || len(as.Lhs) != 1 || len(as.Rhs) != 1 {
					continue
				}
				id, isId := unparen(as.Lhs[0]).(*ast.Ident)
				if tv, okT := info.Types[as.Rhs[0]]; isId && okT && tv.Value != nil && tv.Value.String() == "true" {
					if o := info.Uses[id]; o != nil {
						raised = true
						if !seen[o] {
							seen[o] = true
							flags = append(flags, o)
						}
					}
				}
			}
			if raised {
				conts = append(conts, last)
			}
			return raised
		}
		return false
	}
	ok = terminal(body.List)
	return
}

// flagOnlyRaisedIn: the local bool flag starts false (`flag := false` / `var flag
// bool`) and its only other assignments are `flag = true` inside branch.
func flagOnlyRaisedIn(info *types.Info, fn ast.Node, flag types.Object, branch ast.Node) bool {
	v, isVar := flag.(*types.Var)
	if !isVar || v.IsField() {
		return false
	}
	if b, ok := v.Type().Underlying().(*types.Basic); !ok || b.Kind() != types.Bool {
		return false
	}
	ok, declared := true, false
	ast.Inspect(fn, func(x ast.Node) bool {
		switch s := x.(type) {
		case *ast.ValueSpec:
			for i, nm := range s.Names {
				if info.Defs[nm] == flag {
					declared = true
					if i < len(s.Values) {
						if tv, okT := info.Types[s.Values[i]]; !okT || tv.Value == nil || tv.Value.String() != "false" {
							ok = false
						}
					}
				}
			}
		case *ast.AssignStmt:
			for i, l := range s.Lhs {
				id, isId := unparen(l).(*ast.Ident)
				if !isId {
					continue
				}
				if info.Defs[id] == flag {
					declared = true
					if len(s.Rhs) != len(s.Lhs) {
						ok = false
					} else if tv, okT := info.Types[s.Rhs[i]]; !okT || tv.Value == nil || tv.Value.String() != "false" {
						ok = false
					}
				} else if info.Uses[id] == flag {
					inside := s.Pos() >= branch.Pos() && s.End() <= branch.End()
					tv, okT := info.Types[s.Rhs[min(i, len(s.Rhs)-1)]]
					if !inside || len(s.Rhs) != len(s.Lhs) || !okT || tv.Value == nil || tv.Value.String() != "true" {
						ok = false
					}
				}
			}
		case *ast.UnaryExpr:
			if s.Op == token.AND {
				if id, isId := unparen(s.X).(*ast.Ident); isId && info.Uses[id] == flag {
					ok = false
				}
			}
		}
		return true
	})
	return ok && declared
}

// noChangeWitness recognises the "nothing happened" early exit of a batch operation:
//
//	removed := make(map[K]struct{})          (a map, a slice or an int counter, empty/zero)
//	for … { …; delete(g.nodes, k); removed[k] = struct{}{} }   every change sits beside a growth of the witness
//	if len(removed) == 0 { return 0 }        => on this edge nothing has been changed
//
// It returns, for a condition and an edge, whether that edge proves that no
// statement for which isMut holds has run. Conditions: the witness must be a
// local that starts empty, is only ever grown (W[k] = v, W = append(W, …), W++,
// W += n) and is not handed to anything; every changing statement that lies
// textually before the test must have such a growth as a sibling in its own
// statement list; the test is an if statement outside every loop, and the
// function has no goto.
func noChangeWitness(info *types.Info, body *ast.BlockStmt, isMut func(ast.Node) bool) func(cond ast.Expr, i int) bool {
	never := func(ast.Expr, int) bool { return false }
	if body == nil {
		return never
	}
	// statement lists, loops, gotos
	listOf := map[ast.Stmt][]ast.Stmt{}
	inLoop := map[ast.Stmt]bool{}
	hasGoto := false
	var walk func(n ast.Node, loop bool)
	walkList := func(list []ast.Stmt, loop bool) {
		for _, s := range list {
			listOf[s] = list
			inLoop[s] = loop
			walk(s, loop)
		}
	}
	walk = func(n ast.Node, loop bool) {
		switch s := n.(type) {
		case *ast.BlockStmt:
			walkList(s.List, loop)
		case *ast.IfStmt:
			walk(s.Body, loop)
			if s.Else != nil {
				inLoop[s.Else] = loop
				walk(s.Else, loop)
			}
		case *ast.ForStmt:
			walk(s.Body, true)
		case *ast.RangeStmt:
			walk(s.Body, true)
		case *ast.SwitchStmt:
			walk(s.Body, loop)
		case *ast.TypeSwitchStmt:
			walk(s.Body, loop)
		case *ast.SelectStmt:
			walk(s.Body, loop)
		case *ast.CaseClause:
			walkList(s.Body, loop)
		case *ast.CommClause:
			walkList(s.Body, loop)
		case *ast.LabeledStmt:
			hasGoto = true
		case *ast.BranchStmt:
			if s.Tok == token.GOTO {
				hasGoto = true
			}
		}
	}
	walk(body, false)
	if hasGoto {
		return never
	}
	// growth statements per local
	growOf := func(s ast.Stmt) types.Object {
		switch st := s.(type) {
		case *ast.IncDecStmt:
			if st.Tok == token.INC {
				if id, ok := unparen(st.X).(*ast.Ident); ok {
					return info.Uses[id]
				}
			}
		case *ast.AssignStmt:
			if len(st.Lhs) != 1 || len(st.Rhs) != 1 {
				return nil
			}
			switch st.Tok {
			case token.ADD_ASSIGN:
				if id, ok := unparen(st.Lhs[0]).(*ast.Ident); ok {
					if tv, okT := info.Types[st.Rhs[0]]; okT && tv.Value != nil && tv.Value.String() != "0" && tv.Value.String()[0] != '-' {
						return info.Uses[id]
					}
				}
			case token.ASSIGN:
				if ix, ok := unparen(st.Lhs[0]).(*ast.IndexExpr); ok {
					if id, isId := unparen(ix.X).(*ast.Ident); isId {
						if o := info.Uses[id]; o != nil {
							if _, isMap := o.Type().Underlying().(*types.Map); isMap {
								return o
							}
						}
					}
				}
				if id, ok := unparen(st.Lhs[0]).(*ast.Ident); ok {
					if c, isC := unparen(st.Rhs[0]).(*ast.CallExpr); isC && exprStr(c.Fun) == "append" && len(c.Args) >= 2 && !c.Ellipsis.IsValid() {
						if a0, isId := unparen(c.Args[0]).(*ast.Ident); isId && info.Uses[a0] == info.Uses[id] && info.Uses[id] != nil {
							return info.Uses[id]
						}
					}
				}
			}
		}
		return nil
	}
	// a witness is only defined empty, grown, measured and compared
	soundWitness := func(o types.Object) bool {
		v, isVar := o.(*types.Var)
		if !isVar || v.IsField() || v.Parent() == nil || v.Pkg() == nil || v.Parent() == v.Pkg().Scope() {
			return false
		}
		allowed := map[*ast.Ident]bool{}
		declared := false
		ast.Inspect(body, func(x ast.Node) bool {
			switch s := x.(type) {
			case *ast.AssignStmt:
				if growOf(s) == o {
					ast.Inspect(s, func(y ast.Node) bool {
						if id, ok := y.(*ast.Ident); ok && info.Uses[id] == o {
							allowed[id] = true
						}
						return true
					})
				}
				for i, l := range s.Lhs {
					if id, ok := unparen(l).(*ast.Ident); ok && info.Defs[id] == o && len(s.Lhs) == len(s.Rhs) {
						rhs := unparen(s.Rhs[i])
						empty := isNilIdent(info, rhs)
						if c, isC := rhs.(*ast.CallExpr); isC && exprStr(c.Fun) == "make" {
							empty = len(c.Args) < 2 || isMapType(info.TypeOf(rhs)) || exprStr(c.Args[1]) == "0"
						}
						if cl, isCl := rhs.(*ast.CompositeLit); isCl && len(cl.Elts) == 0 {
							empty = true
						}
						if tv, okT := info.Types[rhs]; okT && tv.Value != nil && tv.Value.String() == "0" {
							empty = true
						}
						if empty {
							declared = true
						}
					}
				}
			case *ast.ValueSpec:
				for i, nm := range s.Names {
					if info.Defs[nm] == o {
						if i >= len(s.Values) {
							declared = true
						} else if tv, okT := info.Types[s.Values[i]]; okT && (tv.IsNil() || (tv.Value != nil && tv.Value.String() == "0")) {
							declared = true
						}
					}
				}
			case *ast.IncDecStmt:
				if growOf(s) == o {
					allowed[unparen(s.X).(*ast.Ident)] = true
				}
			case *ast.CallExpr:
				if f := exprStr(s.Fun); f == "len" && len(s.Args) == 1 {
					if id, ok := unparen(s.Args[0]).(*ast.Ident); ok && info.Uses[id] == o {
						allowed[id] = true
					}
				}
			case *ast.BinaryExpr:
				for _, side := range []ast.Expr{s.X, s.Y} {
					if id, ok := unparen(side).(*ast.Ident); ok && info.Uses[id] == o {
						if b, isB := o.Type().Underlying().(*types.Basic); isB && b.Info()&types.IsInteger != 0 {
							allowed[id] = true
						}
					}
				}
			case *ast.ReturnStmt:
				for _, res := range s.Results {
					if id, ok := unparen(res).(*ast.Ident); ok && info.Uses[id] == o {
						if b, isB := o.Type().Underlying().(*types.Basic); isB && b.Info()&types.IsInteger != 0 {
							allowed[id] = true
						}
					}
				}
			case *ast.IndexExpr:
				// reading W[k] (the comma-ok test of a map witness) does not change it
				if id, ok := unparen(s.X).(*ast.Ident); ok && info.Uses[id] == o && isMapType(o.Type()) {
					allowed[id] = true
				}
			}
			return true
		})
		if !declared {
			return false
		}
		ok := true
		ast.Inspect(body, func(x ast.Node) bool {
			if id, isId := x.(*ast.Ident); isId && info.Uses[id] == o && !allowed[id] {
				ok = false
			}
			return true
		})
		return ok
	}
	// candidate tests: if statements outside loops
	type test struct {
		w        types.Object
		emptyOn  int // the edge (0 true, 1 false) on which the witness is empty
		cond     ast.Expr
		position token.Pos
	}
	var tests []test
	witnessOf := func(e ast.Expr) types.Object {
		e = unparen(e)
		if c, ok := e.(*ast.CallExpr); ok && exprStr(c.Fun) == "len" && len(c.Args) == 1 {
			if id, isId := unparen(c.Args[0]).(*ast.Ident); isId {
				return info.Uses[id]
			}
			return nil
		}
		if id, ok := e.(*ast.Ident); ok {
			if o := info.Uses[id]; o != nil {
				if b, isB := o.Type().Underlying().(*types.Basic); isB && b.Info()&types.IsInteger != 0 {
					return o
				}
			}
		}
		return nil
	}
	for s := range listOf {
		ifs, ok := s.(*ast.IfStmt)
		if !ok || inLoop[s] || ifs.Init != nil {
			continue
		}
		be, ok := unparen(ifs.Cond).(*ast.BinaryExpr)
		if !ok {
			continue
		}
		tv, okT := info.Types[be.Y]
		if !okT || tv.Value == nil {
			continue
		}
		o := witnessOf(be.X)
		if o == nil {
			continue
		}
		emptyOn := -1
		switch lit := tv.Value.String(); {
		case be.Op == token.EQL && lit == "0", be.Op == token.LSS && lit == "1", be.Op == token.LEQ && lit == "0":
			emptyOn = 0
		case be.Op == token.NEQ && lit == "0", be.Op == token.GTR && lit == "0", be.Op == token.GEQ && lit == "1":
			emptyOn = 1
		}
		if emptyOn < 0 || !soundWitness(o) {
			continue
		}
		// every change before the test sits beside a growth of the witness
		covered := true
		for st, list := range listOf {
			if st.Pos() >= ifs.Pos() {
				continue
			}
			switch st.(type) {
			case *ast.ExprStmt, *ast.AssignStmt, *ast.IncDecStmt, *ast.DeclStmt, *ast.GoStmt, *ast.DeferStmt, *ast.SendStmt, *ast.ReturnStmt:
			default:
				continue
			}
			if !isMut(st) {
				continue
			}
			beside := false
			for _, sib := range list {
				if growOf(sib) == o {
					beside = true
				}
			}
			if !beside {
				covered = false
			}
		}
		// statements that are not in a list (if/for/switch init or post) must not change anything
		ast.Inspect(body, func(x ast.Node) bool {
			if _, isLit := x.(*ast.FuncLit); isLit {
				return false
			}
			if st, isSt := x.(ast.Stmt); isSt && st.Pos() < ifs.Pos() {
				if _, listed := listOf[st]; !listed {
					switch st.(type) {
					case *ast.ExprStmt, *ast.AssignStmt, *ast.IncDecStmt, *ast.GoStmt, *ast.DeferStmt, *ast.SendStmt:
						if isMut(st) {
							covered = false
						}
					}
				}
			}
			return true
		})
		if covered {
			tests = append(tests, test{o, emptyOn, ifs.Cond, ifs.Pos()})
		}
	}
	if len(tests) == 0 {
		return never
	}
	return func(cond ast.Expr, i int) bool {
		for _, t := range tests {
			if cond == t.cond && i == t.emptyOn {
				return true
			}
		}
		return false
	}
}

func isMapType(t types.Type) bool {
	if t == nil {
		return false
	}
	_, ok := t.Underlying().(*types.Map)
	return ok
}

// interfaceKeyUses: the index, delete and literal uses of maps of type t in the
// repository packages whose key expression has an interface type, and the first
// one that is not dominated by a hashability test of that key.
func interfaceKeyUses(w *World, t types.Type) (uses int, unguarded string) {
	for _, fi := range w.AllFuncs() {
		if fi.Decl.Body == nil {
			continue
		}
		info := fi.Pkg.TypesInfo
		check := func(k ast.Expr, pos token.Pos) {
			kt := info.TypeOf(k)
			if kt == nil {
				return
			}
			if _, isIface := kt.Underlying().(*types.Interface); !isIface {
				return // a value of a concrete key type: the compiler checked it
			}
			uses++
			if unguarded == "" && !comparableGuarded(w, info, fi, pos, k) {
				unguarded = fi.Name() + " at " + w.Pos(pos)
			}
		}
		ast.Inspect(fi.Decl.Body, func(x ast.Node) bool {
			switch s := x.(type) {
			case *ast.IndexExpr:
				if mt := info.TypeOf(s.X); mt != nil && types.Identical(mt, t) {
					check(s.Index, s.Pos())
				}
			case *ast.CallExpr:
				if id, ok := unparen(s.Fun).(*ast.Ident); ok && id.Name == "delete" && len(s.Args) == 2 {
					if mt := info.TypeOf(s.Args[0]); mt != nil && types.Identical(mt, t) {
						check(s.Args[1], s.Pos())
					}
				}
			case *ast.CompositeLit:
				if mt := info.TypeOf(s); mt != nil && types.Identical(mt, t) {
					for _, el := range s.Elts {
						if kv, ok := el.(*ast.KeyValueExpr); ok {
							check(kv.Key, kv.Pos())
						}
					}
				}
			}
			return true
		})
	}
	return
}

// comparableGuarded: at pos in fi, a test that key is hashable is known to have
// succeeded: reflect.ValueOf(key).Comparable() (or reflect.TypeOf(key).Comparable())
// was true, directly or through a private predicate whose result is a conjunction
// that includes that test of its parameter.
func comparableGuarded(w *World, info *types.Info, fi *FuncInfo, pos token.Pos, key ast.Expr) bool {
	ko := objOf(info, key)
	if ko == nil {
		return false
	}
	var isTest func(tinfo *types.Info, e ast.Expr, obj types.Object, depth int) bool
	isTest = func(tinfo *types.Info, e ast.Expr, obj types.Object, depth int) bool {
		c, ok := unparen(e).(*ast.CallExpr)
		if !ok {
			return false
		}
		if rcv, name, isM := methodCall(c); isM && name == "Comparable" {
			if inner, okI := unparen(rcv).(*ast.CallExpr); okI && len(inner.Args) == 1 && objOf(tinfo, inner.Args[0]) == obj {
				if cal := callee(tinfo, inner); isFunc(cal, "reflect", "", "ValueOf") || isFunc(cal, "reflect", "", "TypeOf") {
					return true
				}
			}
			return false
		}
		// predicate helper: single return of a conjunction containing the test of its parameter
		cal := callee(tinfo, c)
		t := w.Decls[cal]
		if t == nil || depth == 0 || t.Decl.Body == nil || len(t.Decl.Body.List) != 1 {
			return false
		}
		ret, isRet := t.Decl.Body.List[0].(*ast.ReturnStmt)
		if !isRet || len(ret.Results) != 1 {
			return false
		}
		var po types.Object
		ps := paramObjs(t)
		for i, a := range c.Args {
			if objOf(tinfo, a) == obj && i < len(ps) {
				po = ps[i]
			}
		}
		if po == nil {
			return false
		}
		found := false
		var conj func(e ast.Expr)
		conj = func(e ast.Expr) {
			if be, ok := unparen(e).(*ast.BinaryExpr); ok && be.Op == token.LAND {
				conj(be.X)
				conj(be.Y)
				return
			}
			if isTest(t.Pkg.TypesInfo, e, po, depth-1) {
				found = true
			}
		}
		conj(ret.Results[0])
		return found
	}
	if assignedIn(info, fi.Decl.Body, ko) {
		return false
	}
	conds, vals := controllingCondsInfo(info, fi.Decl.Body, pos)
	for i, cd := range conds {
		e, want := unparen(cd), vals[i]
		if u, isU := e.(*ast.UnaryExpr); isU && u.Op == token.NOT {
			e, want = unparen(u.X), !want
		}
		if want && isTest(info, e, ko, 2) {
			return true
		}
	}
	return false
}

// isErrorSentinel: the package-level variable v is `var errX = errors.New("…")`
// (or fmt.Errorf of constant arguments), of type error, and nothing in the
// package assigns it or takes its address: an immutable value.
func isErrorSentinel(p *packages.Package, v *types.Var) bool {
	if !isErrorType(v.Type()) {
		return false
	}
	info := p.TypesInfo
	initOK := false
	for _, f := range p.Syntax {
		for _, d := range f.Decls {
			gd, ok := d.(*ast.GenDecl)
			if !ok || gd.Tok != token.VAR {
				continue
			}
			for _, sp := range gd.Specs {
				vs := sp.(*ast.ValueSpec)
				for i, nm := range vs.Names {
					if info.Defs[nm] != v || len(vs.Values) != len(vs.Names) {
						continue
					}
					c, isC := unparen(vs.Values[i]).(*ast.CallExpr)
					if !isC {
						continue
					}
					cal := callee(info, c)
					if !isFunc(cal, "errors", "", "New") && !isFunc(cal, "fmt", "", "Errorf") {
						continue
					}
					constArgs := true
					for _, a := range c.Args {
						if tv, okT := info.Types[a]; !okT || tv.Value == nil {
							constArgs = false
						}
					}
					initOK = constArgs
				}
			}
		}
	}
	if !initOK {
		return false
	}
	written := false
	for _, f := range p.Syntax {
		ast.Inspect(f, func(x ast.Node) bool {
			switch s := x.(type) {
			case *ast.AssignStmt:
				for _, l := range s.Lhs {
					if id, ok := unparen(l).(*ast.Ident); ok && info.Uses[id] == v {
						written = true
					}
				}
			case *ast.UnaryExpr:
				if s.Op == token.AND {
					if id, ok := unparen(s.X).(*ast.Ident); ok && info.Uses[id] == v {
						written = true
					}
				}
			}
			return true
		})
	}
	return !written
}

// ruleTableKeysAgree: the two instance tables (the scope's cache, the provider's
// singleton table) are reached with the key as it was handed in, or every access
// passes it through the same normalising function. A resolution looks an
// instance up under the caller's key and files it under the descriptor's: when
// one table canonicalises keys (a KeyFunc, a case fold) and the other does not,
// the same service has one entry per spelling in the other - constructed once
// per spelling, each construction overwriting the last.
func ruleTableKeysAgree(w *World, r *Report, rule string) {
	ro := resolveRoles(w)
	if ro.cache == nil || ro.singletons == nil {
		r.Undecided(rule, "instance-tables", token.NoPos, "the instance tables were not resolved")
		return
	}
	type site struct {
		fi   *FuncInfo
		pos  token.Pos
		tbl  string
		norm string
	}
	var sites []site
	normaliserOf := func(fi *FuncInfo, key ast.Expr) string {
		info := fi.Pkg.TypesInfo
		name := func(c *ast.CallExpr) string {
			cal := callee(info, c)
			if cal != nil && w.Decls[cal] != nil {
				return w.Decls[cal].Name()
			}
			// a function-typed field or variable applied to the key (p.keyFunc(k))
			if cal == nil {
				if _, isConv := info.Types[c.Fun]; isConv && info.Types[c.Fun].IsType() {
					return ""
				}
				return "dynamic:" + exprStr(c.Fun)
			}
			return ""
		}
		key = unparen(key)
		if c, ok := key.(*ast.CallExpr); ok {
			return name(c)
		}
		o := objOf(info, key)
		if o == nil {
			return ""
		}
		out := ""
		ast.Inspect(fi.Decl.Body, func(x ast.Node) bool {
			as, ok := x.(*ast.AssignStmt)
			if !ok || len(as.Lhs) != len(as.Rhs) {
				return true
			}
			for i, l := range as.Lhs {
				// key = f(key) / k := f(key) / key.Key = f(key.Key)
				if root := rootIdent(l); root != nil && (info.Uses[root] == o || info.Defs[root] == o) {
					if c, isC := unparen(as.Rhs[i]).(*ast.CallExpr); isC {
						if n := name(c); n != "" {
							out = n
						}
					}
				}
			}
			return true
		})
		return out
	}
	for _, fi := range w.FuncsOf(w.Godi) {
		info := fi.Pkg.TypesInfo
		ast.Inspect(fi.Decl.Body, func(x ast.Node) bool {
			switch s := x.(type) {
			case *ast.IndexExpr:
				if fieldOf(info, s.X) == ro.cache {
					sites = append(sites, site{fi, s.Pos(), "scope cache", normaliserOf(fi, s.Index)})
				}
			case *ast.CallExpr:
				if id, ok := unparen(s.Fun).(*ast.Ident); ok && id.Name == "delete" && len(s.Args) == 2 && fieldOf(info, s.Args[0]) == ro.cache {
					sites = append(sites, site{fi, s.Pos(), "scope cache", normaliserOf(fi, s.Args[1])})
				}
				if rcv, name, ok := methodCall(s); ok && fieldOf(info, rcv) == ro.singletons && len(s.Args) >= 1 {
					switch name {
					case "Load", "Store", "LoadOrStore", "LoadAndDelete", "Delete", "Swap", "CompareAndSwap", "CompareAndDelete":
						sites = append(sites, site{fi, s.Pos(), "singleton table", normaliserOf(fi, s.Args[0])})
					}
				}
				if fieldOf(info, s.Fun) == nil {
					// plain-map singleton table: handled by the IndexExpr case through ro.singletons below
				}
			}
			if ix, ok := x.(*ast.IndexExpr); ok && fieldOf(info, ix.X) == ro.singletons {
				sites = append(sites, site{fi, ix.Pos(), "singleton table", normaliserOf(fi, ix.Index)})
			}
			return true
		})
	}
	if len(sites) < 4 {
		r.Undecided(rule, "instance-tables#accesses", token.NoPos, "only %d keyed accesses of the instance tables were found (expected the get/set pair of each table)", len(sites))
		return
	}
	sort.Slice(sites, func(i, j int) bool { return posLess(sites[i].pos, sites[j].pos) })
	// the reference: what the majority does; on a tie, no normaliser
	count := map[string]int{}
	for _, s := range sites {
		count[s.norm]++
	}
	ref, best := "", -1
	for n, c := range count {
		if c > best || (c == best && n == "") {
			ref, best = n, c
		}
	}
	// keys iterated out of a key list the table's owner filled (Close walking singletonKeys) were
	// normalised when they were stored: a site that uses them verbatim agrees with any reference
	bad := 0
	for i, s := range sites {
		if s.norm == ref {
			continue
		}
		if s.norm == "" && keyFromOwnList(w, s.fi, s.pos) {
			continue
		}
		bad++
		what := "uses the key as handed in"
		if s.norm != "" {
			what = "passes the key through " + s.norm
		}
		want := "as handed in"
		if ref != "" {
			want = "through " + ref
		}
		r.Fail(rule, fmt.Sprintf("%s#table-key/%d", s.fi.Name(), i+1), s.pos,
			"%s reaches the %s with a key that %s, while %d of the %d accesses of the instance tables take it %s: one service is filed under one spelling of its key in one table and looked up under another in the other (constructed again per spelling, entries overwritten)", s.fi.Name(), s.tbl, what, best, len(sites), want)
	}
	if bad == 0 {
		how := "as they are handed in"
		if ref != "" {
			how = "through " + ref
		}
		r.OK(rule, "instance-tables#keys-agree", sites[0].pos, false, "%d keyed accesses of the scope cache and the singleton table all take their keys %s", len(sites), how)
	}
}

// keyFromOwnList: the key used at pos is the element of a loop over a list field
// of the same owner (the recorded keys of the table).
func keyFromOwnList(w *World, fi *FuncInfo, pos token.Pos) bool {
	info := fi.Pkg.TypesInfo
	for _, l := range iterLoopsIn(info, fi.Decl.Body) {
		if l.Body == nil || pos < l.Body.Pos() || pos > l.Body.End() {
			continue
		}
		if fv := fieldOf(info, l.Coll); fv != nil {
			return true
		}
		if l.CollObj != nil {
			// a local snapshot of such a field
			snap := false
			ast.Inspect(fi.Decl.Body, func(x ast.Node) bool {
				if as, ok := x.(*ast.AssignStmt); ok && len(as.Lhs) == len(as.Rhs) {
					for i, lh := range as.Lhs {
						if objOf(info, lh) == l.CollObj {
							ast.Inspect(as.Rhs[i], func(y ast.Node) bool {
								if sel, isSel := y.(*ast.SelectorExpr); isSel && fieldOf(info, sel) != nil {
									snap = true
								}
								return true
							})
						}
					}
				}
				return true
			})
			if snap {
				return true
			}
		}
	}
	return false
}

// isResolutionFunc: cal hands out an instance that a scope already holds (or
// constructs and files itself): resolve, the entry function above it, Get /
// GetKeyed / GetGroup of a scope, a provider or the resolver interface. The
// creation chain itself is not one: what it returns is being created.
func isResolutionFunc(w *World, ro *roles, cal *types.Func) bool {
	if cal == nil {
		return false
	}
	if ro.creators[cal] {
		return false
	}
	if t := w.Decls[cal]; t != nil && (t == ro.resolve || t == ro.resolveTop) {
		return true
	}
	switch cal.Name() {
	case "Get", "GetKeyed", "GetGroup":
		if rn := recvNamed(cal); rn != nil && rn.Obj().Pkg() != nil && strings.HasPrefix(rn.Obj().Pkg().Path(), modPath) {
			switch rn.Obj().Name() {
			case "scope", "provider", "Scope", "Provider", "DependencyResolver":
				return true
			}
		}
	}
	return false
}

// ruleNoResolutionAfterTracking: disposal runs in the reverse of the order in
// which instances were filed, and that is dependents-first only because an
// instance is filed after everything it depends on has been resolved (and filed).
// In the creation chain no resolution may follow the call that files the new
// instance: a member injected afterwards is created - and filed - after its
// dependent, and is closed before it.
func ruleNoResolutionAfterTracking(w *World, r *Report, rule string) {
	ro := resolveRoles(w)
	if ro.createInstance == nil || ro.setInstance == nil {
		r.Undecided(rule, "creation-chain", token.NoPos, "createInstance / setInstance not resolved")
		return
	}
	chain := map[*FuncInfo]bool{}
	for _, f := range w.Within(ro.createInstance, 3) {
		chain[f] = true
	}
	for _, f := range w.FuncsOf(w.Godi) {
		if ro.creators[f.Obj] {
			chain[f] = true
		}
	}
	isStoreFn := func(cal *types.Func) bool {
		return cal != nil && ((ro.setInstance != nil && cal == ro.setInstance.Obj) || (ro.setSingleton != nil && cal == ro.setSingleton.Obj))
	}
	memoS, memoR := map[*FuncInfo]int{}, map[*FuncInfo]int{}
	var stores, resolves func(f *FuncInfo, depth int) bool
	stores = func(f *FuncInfo, depth int) bool {
		if f == nil || depth == 0 {
			return false
		}
		if v, ok := memoS[f]; ok {
			return v == 1
		}
		memoS[f] = 0
		res := false
		for _, c := range callsIn(f.Decl.Body, true) {
			cal := callee(f.Pkg.TypesInfo, c)
			if isStoreFn(cal) || (cal != nil && !ro.creators[cal] && stores(w.Decls[cal], depth-1)) {
				res = true
			}
		}
		if res {
			memoS[f] = 1
		}
		return res
	}
	isResolverCall := func(info *types.Info, c *ast.CallExpr) bool {
		cal := callee(info, c)
		if cal == nil {
			return false
		}
		if isResolutionFunc(w, ro, cal) || ro.creators[cal] {
			return true
		}
		rn := recvNamed(cal)
		return rn != nil && rn.Obj().Name() == "DependencyResolver"
	}
	resolves = func(f *FuncInfo, depth int) bool {
		if f == nil || depth == 0 {
			return false
		}
		if v, ok := memoR[f]; ok {
			return v == 1
		}
		memoR[f] = 0
		res := false
		for _, c := range callsIn(f.Decl.Body, true) {
			if isResolverCall(f.Pkg.TypesInfo, c) {
				res = true
			} else if cal := callee(f.Pkg.TypesInfo, c); cal != nil && resolves(w.Decls[cal], depth-1) {
				res = true
			}
		}
		if res {
			memoR[f] = 1
		}
		return res
	}
	var fns []*FuncInfo
	for f := range chain {
		fns = append(fns, f)
	}
	sort.Slice(fns, func(i, j int) bool { return posLess(fns[i].Decl.Pos(), fns[j].Decl.Pos()) })
	sites, bad := 0, 0
	for _, fi := range fns {
		info := fi.Pkg.TypesInfo
		fl := w.FlowOf(fi)
		storesAt := func(n ast.Node) bool {
			for _, c := range callsIn(n, false) {
				cal := callee(info, c)
				if isStoreFn(cal) || (cal != nil && !ro.creators[cal] && stores(w.Decls[cal], 3)) {
					return true
				}
			}
			return false
		}
		any := false
		for _, n := range fl.Nodes() {
			if storesAt(n) {
				any = true
			}
		}
		if !any {
			continue
		}
		r.Analysed(fi)
		may := fl.Solve(Spec{Must: false, Node: func(n ast.Node, in Facts) (gen, kill []string) {
			if storesAt(n) {
				gen = append(gen, "filed")
			}
			return
		}})
		for _, n := range fl.Nodes() {
			if !may.Before[n].Has("filed") {
				continue
			}
			for _, c := range callsIn(n, false) {
				cal := callee(info, c)
				res := isResolverCall(info, c) || (cal != nil && !isStoreFn(cal) && resolves(w.Decls[cal], 3))
				if !res {
					continue
				}
				// filing the next output of the same call (a helper that files and nothing else) is not a resolution
				sites++
				bad++
				r.Fail(rule, fmt.Sprintf("%s#resolution-after-filing/%d", fi.Name(), bad), c.Pos(),
					"%s calls %s, which resolves services, on a path on which the new instance has already been filed for disposal: whatever that resolution creates is filed after its dependent and closed before it (Close runs in the reverse of the filing order)", fi.Name(), exprStr(c.Fun))
			}
		}
		sites++
	}
	if sites == 0 {
		r.Fail(rule, "creation-chain#filing", token.NoPos, "no function of the creation chain files an instance")
		return
	}
	if bad == 0 {
		r.OK(rule, "creation-chain#filing-is-last", ro.createInstance.Decl.Pos(), true, "in the %d function(s) of the creation chain that file instances, no resolution follows a filing", sites)
	}
}

// ruleCreatedScopeReleased: a scope the container creates inside one of its own
// functions (a private child scope for one resolution, a batch of scopes) is, on
// every exit of that function, handed to the caller, handed on (stored, passed,
// captured), or closed. The exit that forgets it - typically the error exit of
// the step that follows the creation - leaves a scope registered with its parent
// and the provider, its watcher goroutine parked and everything resolved in it
// undisposed until the parent closes.
func ruleCreatedScopeReleased(w *World, r *Report, rule string) {
	sites, bad := 0, 0
	ro := resolveRoles(w)
	for _, fi := range w.FuncsOf(w.Godi) {
		info := fi.Pkg.TypesInfo
		type created struct {
			obj, err types.Object
			node     *ast.AssignStmt
		}
		var cs []created
		inspectNoLit(fi.Decl.Body, func(x ast.Node) bool {
			as, ok := x.(*ast.AssignStmt)
			if !ok || len(as.Lhs) != 2 || len(as.Rhs) != 1 {
				return true
			}
			c, ok := unparen(as.Rhs[0]).(*ast.CallExpr)
			if !ok {
				return true
			}
			cal := callee(info, c)
			if cal == nil || cal.Pkg() == nil || !strings.HasPrefix(cal.Pkg().Path(), modPath) {
				return true
			}
			// by what it returns: (a scope, error) - whatever the function is called
			sig, _ := cal.Type().(*types.Signature)
			isCreate := sig != nil && sig.Results().Len() == 2 && isErrorType(sig.Results().At(1).Type()) &&
				(isNamedType(sig.Results().At(0).Type(), modPath, "scope") || isNamedType(sig.Results().At(0).Type(), modPath, "Scope"))
			// … and makes one: CreateScope of the API, or a function that reaches the scope allocator
			// (an accessor that hands out an existing scope - the root scope - creates nothing)
			if isCreate && cal.Name() != "CreateScope" {
				reaches := false
				if t := w.Decls[cal]; t != nil && ro.allocScope != nil {
					for _, f := range w.Within(t, 3) {
						if f == ro.allocScope {
							reaches = true
						}
					}
				}
				isCreate = reaches
			}
			if !isCreate {
				return true
			}
			o, e := objOf(info, as.Lhs[0]), objOf(info, as.Lhs[1])
			if o == nil || e == nil {
				return true
			}
			cs = append(cs, created{o, e, as})
			return true
		})
		if len(cs) == 0 {
			continue
		}
		fl := w.FlowOf(fi)
		for _, c := range cs {
			sites++
			uses := func(n ast.Node) bool {
				found := false
				ast.Inspect(n, func(y ast.Node) bool {
					if id, ok := y.(*ast.Ident); ok && info.Uses[id] == c.obj {
						found = true
					}
					return true
				})
				return found
			}
			// handing on: the scope appears as an argument, on the right of an assignment, in a literal,
			// in a send, in a function literal (captured), or its Close is called
			releases := func(n ast.Node) bool {
				if n == ast.Node(c.node) {
					return false
				}
				rel := false
				ast.Inspect(n, func(y ast.Node) bool {
					switch s := y.(type) {
					case *ast.FuncLit:
						if uses(s) {
							rel = true
						}
						return false
					case *ast.CallExpr:
						if rcv, name, ok := methodCall(s); ok && name == "Close" && objOf(info, rcv) == c.obj {
							rel = true
						}
						for _, a := range s.Args {
							if uses(a) {
								rel = true
							}
						}
					case *ast.AssignStmt:
						for _, rh := range s.Rhs {
							if id, ok := unparen(rh).(*ast.Ident); ok && info.Uses[id] == c.obj {
								rel = true
							}
						}
					case *ast.CompositeLit:
						if uses(s) {
							rel = true
						}
					case *ast.SendStmt:
						if uses(s.Value) {
							rel = true
						}
					}
					return true
				})
				return rel
			}
			errEdge := func(cond ast.Expr, i int) (failed, known bool) {
				be, ok := unparen(cond).(*ast.BinaryExpr)
				if !ok || (be.Op != token.NEQ && be.Op != token.EQL) {
					return
				}
				var o types.Object
				if isNilIdent(info, be.Y) {
					o = objOf(info, be.X)
				} else if isNilIdent(info, be.X) {
					o = objOf(info, be.Y)
				}
				if o != c.err {
					return
				}
				return (be.Op == token.NEQ) == (i == 0), true
			}
			may := fl.Solve(Spec{Must: false,
				Node: func(n ast.Node, in Facts) (gen, kill []string) {
					if n == ast.Node(c.node) {
						return []string{"open", "fresh-err"}, nil
					}
					// handed on or closed: no longer this function's to release (per path - a loop
					// that creates and appends leaves nothing open behind it, however often it ran)
					if releases(n) {
						kill = append(kill, "open")
					}
					// the error variable is assigned again: later tests are about another call
					if as, ok := n.(*ast.AssignStmt); ok {
						for _, l := range as.Lhs {
							if objOf(info, l) == c.err {
								kill = append(kill, "fresh-err")
							}
						}
					}
					return
				},
				Edge: func(b *cfg.Block, i int, cond ast.Expr, in Facts) (gen, kill []string) {
					if cond == nil || !in.Has("fresh-err") {
						return
					}
					if failed, known := errEdge(cond, i); known && failed {
						kill = append(kill, "open")
					}
					return
				}})
			must := fl.Solve(Spec{Must: true, Node: func(n ast.Node, in Facts) (gen, kill []string) {
				if releases(n) {
					gen = append(gen, "released")
				}
				return
			}})
			okAll := true
			for _, ex := range fl.Exits() {
				if ex.Panic || !may.AtExit(ex).Has("open") {
					continue
				}
				if ex.Ret != nil && uses(ex.Ret) {
					continue
				}
				_ = must
				okAll = false
				bad++
				r.Fail(rule, fmt.Sprintf("%s#created-scope:%s/%d", fi.Name(), c.obj.Name(), bad), ex.Pos,
					"the exit of %s at %s can be reached with the scope %s (created at %s) neither returned, handed on nor closed: it stays registered with its parent and the provider, its watcher goroutine stays parked and what was resolved in it is not disposed", fi.Name(), w.Pos(ex.Pos), c.obj.Name(), w.Pos(c.node.Pos()))
			}
			if okAll {
				r.OK(rule, fmt.Sprintf("%s#created-scope:%s", fi.Name(), c.obj.Name()), c.node.Pos(), true, "every exit after the creation returns, hands on or closes the scope")
			}
		}
	}
	if sites == 0 {
		r.Fail(rule, "godi#created-scopes", token.NoPos, "no function of the container creates a scope (CreateScope / newScope with an error result)")
	}
}

// ruleInstanceStaysWithOwner: setInstance files the new instance with the scope
// it was constructed in; only a singleton goes to the provider. In setInstance
// and its private halves the instance is handed to another owner (a method or a
// field reached through the scope's provider or parent) only inside the Singleton
// clause of the lifetime switch: a scoped or transient instance that the provider
// (or an ancestor) also keeps stays reachable - and is used - after its scope closed.
func ruleInstanceStaysWithOwner(w *World, r *Report, rule string) {
	ro := resolveRoles(w)
	if ro.setInstance == nil {
		r.Undecided(rule, "setInstance", token.NoPos, "setInstance not resolved")
		return
	}
	sites, bad := 0, 0
	for _, fi := range w.Within(ro.setInstance, 2) {
		if fi.Decl.Recv == nil || !recvIs(fi, "scope") || len(fi.Decl.Recv.List[0].Names) != 1 {
			continue
		}
		info := fi.Pkg.TypesInfo
		recv := info.Defs[fi.Decl.Recv.List[0].Names[0]]
		// the instance: interface-typed parameters and what is asserted from them
		inst := map[types.Object]bool{}
		for _, po := range paramObjs(fi) {
			if po != nil && types.IsInterface(po.Type()) && !isErrorType(po.Type()) {
				if _, isCtx := po.Type().(*types.Named); !isCtx || !isNamedType(po.Type(), "context", "Context") {
					inst[po] = true
				}
			}
		}
		ast.Inspect(fi.Decl.Body, func(x ast.Node) bool {
			switch s := x.(type) {
			case *ast.AssignStmt:
				if len(s.Rhs) == 1 {
					if ta, ok := unparen(s.Rhs[0]).(*ast.TypeAssertExpr); ok && inst[objOf(info, ta.X)] && len(s.Lhs) >= 1 {
						if o := objOf(info, s.Lhs[0]); o != nil {
							inst[o] = true
						}
					}
				}
			case *ast.TypeSwitchStmt:
				if as, ok := s.Assign.(*ast.AssignStmt); ok && len(as.Rhs) == 1 {
					if ta, isTA := unparen(as.Rhs[0]).(*ast.TypeAssertExpr); isTA && inst[objOf(info, ta.X)] {
						for _, cl := range s.Body.List {
							if o := info.Implicits[cl]; o != nil {
								inst[o] = true
							}
						}
					}
				}
			}
			return true
		})
		mentionsInst := func(e ast.Node) bool {
			found := false
			ast.Inspect(e, func(y ast.Node) bool {
				if id, ok := y.(*ast.Ident); ok && inst[info.Uses[id]] {
					found = true
				}
				return true
			})
			return found
		}
		// x reaches another owner: recv.<field of type *provider / *scope>…
		otherOwner := func(e ast.Expr) bool {
			through := false
			for {
				sel, ok := unparen(e).(*ast.SelectorExpr)
				if !ok {
					break
				}
				if t := info.TypeOf(sel); t != nil {
					if isNamedType(t, modPath, "provider") || isNamedType(t, modPath, "scope") {
						if _, isField := info.Uses[sel.Sel].(*types.Var); isField {
							through = true
						}
					}
				}
				e = sel.X
			}
			id, ok := unparen(e).(*ast.Ident)
			return ok && through && info.Uses[id] == recv
		}
		lifeSol := w.FlowOf(fi).Solve(Spec{Must: true, Edge: condEdge(w, info, 1)})
		inSingletonClause := func(pos token.Pos) bool {
			okClause := false
			// the same knowledge from an if ladder: <d>.Lifetime == Singleton holds at the node
			if nd := w.FlowOf(fi).NodeContaining(pos); nd != nil {
				for k := range lifeSol.Before[nd] {
					if strings.HasSuffix(k, "==Singleton") {
						okClause = true
					}
				}
			}
			ast.Inspect(fi.Decl.Body, func(y ast.Node) bool {
				sw, ok := y.(*ast.SwitchStmt)
				if !ok || sw.Tag == nil || !isFieldNamed(info, sw.Tag, "Lifetime") {
					return true
				}
				for _, st := range sw.Body.List {
					cc := st.(*ast.CaseClause)
					if pos < cc.Pos() || pos >= cc.End() || len(cc.List) != 1 {
						continue
					}
					if exprStr(cc.List[0]) == "Singleton" {
						okClause = true
					}
				}
				return true
			})
			return okClause
		}
		ast.Inspect(fi.Decl.Body, func(x ast.Node) bool {
			switch s := x.(type) {
			case *ast.CallExpr:
				rcv, name, ok := methodCall(s)
				if !ok || !otherOwner(rcv) {
					return true
				}
				passes := false
				for ai, a := range s.Args {
					if mentionsInst(a) && calleeKeeps(w, callee(info, s), ai, 2) {
						passes = true
					}
				}
				if !passes {
					return true
				}
				sites++
				if inSingletonClause(s.Pos()) {
					return true
				}
				bad++
				r.Fail(rule, fmt.Sprintf("%s#hands-instance-to:%s/%d", fi.Name(), name, bad), s.Pos(),
					"%s hands the instance to %s outside the Singleton clause of the lifetime switch: another owner keeps a scoped or transient instance, which stays reachable (and in use) after the scope that constructed it has closed", fi.Name(), exprStr(s.Fun))
			case *ast.AssignStmt:
				for i, l := range s.Lhs {
					base := l
					if ix, ok := unparen(l).(*ast.IndexExpr); ok {
						base = ix.X
					}
					if !otherOwner(base) {
						continue
					}
					rhs := s.Rhs[min(i, len(s.Rhs)-1)]
					if !mentionsInst(rhs) {
						continue
					}
					sites++
					if inSingletonClause(s.Pos()) {
						continue
					}
					bad++
					r.Fail(rule, fmt.Sprintf("%s#stores-instance-in:%s/%d", fi.Name(), exprStr(base), bad), s.Pos(),
						"%s stores the instance in %s outside the Singleton clause of the lifetime switch: another owner keeps a scoped or transient instance, which stays reachable (and in use) after the scope that constructed it has closed", fi.Name(), exprStr(base))
				}
			}
			return true
		})
	}
	if sites == 0 {
		r.Fail(rule, "setInstance#singleton-hand-over", token.NoPos, "setInstance hands no instance to the provider: the Singleton clause was not recognised")
		return
	}
	if bad == 0 {
		r.OK(rule, "setInstance#instance-stays-with-owner", ro.setInstance.Decl.Pos(), false, "%d hand-over(s) of the instance to another owner, all inside the Singleton clause", sites)
	}
}

// ruleImplementsArgIsInterface: reflect.Type.Implements(u) panics ("non-interface
// type passed to Type.Implements") unless u is an interface type. Every call in
// the repository packages passes a type that is known to be one:
//   - reflect.TypeOf((*I)(nil)).Elem() with I a declared interface type (directly,
//     through a local, or a package-level variable initialised that way);
//   - an expression whose Kind() was compared with reflect.Interface on the way;
//   - reflect.TypeOf(x).Elem() with x an element of an As list, in a function
//     that ran the list owner's Validate (which rejects anything but pointers to
//     interfaces) first.
func ruleImplementsArgIsInterface(w *World, r *Report, rule string) {
	sites, bad := 0, 0
	for _, p := range []*packages.Package{w.Godi, w.Refl, w.Graph} {
		for _, fi := range w.FuncsOf(p) {
			info := fi.Pkg.TypesInfo
			var validated *Sol
			k := 0
			ast.Inspect(fi.Decl.Body, func(x ast.Node) bool {
				c, ok := x.(*ast.CallExpr)
				if !ok {
					return true
				}
				rcv, name, isM := methodCall(c)
				if !isM || name != "Implements" || len(c.Args) != 1 || !isNamedType(info.TypeOf(rcv), "reflect", "Type") {
					return true
				}
				sites++
				k++
				arg := c.Args[0]
				how := ""
				switch {
				case staticInterfaceType(fi.Pkg, info, resolveLocal(info, fi.Decl.Body, arg, 2)):
					how = "the argument is reflect.TypeOf((*I)(nil)).Elem() of a declared interface type"
				case kindGuarded(info, fi, c.Pos(), arg):
					how = "the argument's Kind() was found to be reflect.Interface"
				default:
					_ = validated
					if fromValidatedAs(w, info, fi, arg, 2) && validatedAt(w, fi, c.Pos(), 2) {
						how = "the argument is the element type of an As entry, after the options' Validate accepted the list"
					}
				}
				con := fmt.Sprintf("%s#Implements/%d", fi.Name(), k)
				if how == "" {
					bad++
				}
				r.Check(how != "", rule, con, c.Pos(), true, how,
					fmt.Sprintf("%s is passed to reflect.Type.Implements without being known to be an interface type (no Kind() == reflect.Interface test on the way, not a (*I)(nil) literal of an interface): a concrete type here panics with \"reflect: non-interface type passed to Type.Implements\" - outside any recover", exprStr(arg)))
				return true
			})
		}
	}
	if sites == 0 {
		r.Fail(rule, "reflect#Implements", token.NoPos, "no call of reflect.Type.Implements found")
	}
	_ = bad
}

// staticInterfaceType: e is reflect.TypeOf((*I)(nil)).Elem() with I a (non
// type-parameter) interface type, or a package-level variable initialised so.
func staticInterfaceType(p *packages.Package, info *types.Info, e ast.Expr) bool {
	e = unparen(e)
	if id, ok := e.(*ast.Ident); ok {
		if v, isVar := info.Uses[id].(*types.Var); isVar && v.Pkg() != nil && v.Parent() == v.Pkg().Scope() {
			// package-level: its initialiser, never assigned elsewhere
			var init ast.Expr
			for _, f := range p.Syntax {
				for _, d := range f.Decls {
					gd, isGd := d.(*ast.GenDecl)
					if !isGd || gd.Tok != token.VAR {
						continue
					}
					for _, sp := range gd.Specs {
						vs := sp.(*ast.ValueSpec)
						for i, nm := range vs.Names {
							if info.Defs[nm] == v && i < len(vs.Values) && len(vs.Values) == len(vs.Names) {
								init = vs.Values[i]
							}
						}
					}
				}
			}
			if init == nil {
				return false
			}
			for _, f := range p.Syntax {
				assigned := false
				ast.Inspect(f, func(y ast.Node) bool {
					if as, isAs := y.(*ast.AssignStmt); isAs {
						for _, l := range as.Lhs {
							if lid, isId := unparen(l).(*ast.Ident); isId && info.Uses[lid] == v {
								assigned = true
							}
						}
					}
					return true
				})
				if assigned {
					return false
				}
			}
			return staticInterfaceType(p, info, init)
		}
		return false
	}
	c, ok := e.(*ast.CallExpr)
	if !ok {
		return false
	}
	// reflect.TypeFor[I]()
	if cal := callee(info, c); isFunc(cal, "reflect", "", "TypeFor") && len(c.Args) == 0 {
		if inst, okI := info.Instances[calleeIdent(c)]; okI && inst.TypeArgs != nil && inst.TypeArgs.Len() == 1 {
			ta := inst.TypeArgs.At(0)
			if _, isTP := ta.(*types.TypeParam); !isTP && types.IsInterface(ta) {
				return true
			}
		}
		return false
	}
	// typeOf[I](): a generic one-liner of the repository around one of the two forms
	if cal := callee(info, c); cal != nil && theWorld != nil && len(c.Args) == 0 {
		if t := theWorld.Decls[cal.Origin()]; t != nil && t.Decl.Body != nil && len(t.Decl.Body.List) == 1 {
			if ret, isRet := t.Decl.Body.List[0].(*ast.ReturnStmt); isRet && len(ret.Results) == 1 && typeOfTypeParam(t.Pkg.TypesInfo, ret.Results[0]) {
				if inst, okI := info.Instances[calleeIdent(c)]; okI && inst.TypeArgs != nil && inst.TypeArgs.Len() == 1 {
					ta := inst.TypeArgs.At(0)
					if _, isTP := ta.(*types.TypeParam); !isTP && types.IsInterface(ta) {
						return true
					}
				}
			}
		}
	}
	rcv, name, isM := methodCall(c)
	if !isM || name != "Elem" || len(c.Args) != 0 {
		return false
	}
	inner, ok := unparen(rcv).(*ast.CallExpr)
	if !ok || !isFunc(callee(info, inner), "reflect", "", "TypeOf") || len(inner.Args) != 1 {
		return false
	}
	t := info.TypeOf(inner.Args[0])
	ptr, ok := t.(*types.Pointer)
	if !ok {
		return false
	}
	if _, isTP := ptr.Elem().(*types.TypeParam); isTP {
		return false
	}
	return types.IsInterface(ptr.Elem())
}

// kindGuarded: at pos, `<e>.Kind() == reflect.Interface` is known to hold.
func kindGuarded(info *types.Info, fi *FuncInfo, pos token.Pos, e ast.Expr) bool {
	want := exprStr(e)
	if o := objOf(info, e); o != nil && assignedAfterDef(info, fi.Decl.Body, o) {
		return false
	}
	conds, vals := controllingCondsInfo(info, fi.Decl.Body, pos)
	// the left operands of the && chain the call itself sits in hold when it is evaluated
	ast.Inspect(fi.Decl.Body, func(x ast.Node) bool {
		be, ok := x.(*ast.BinaryExpr)
		if !ok || be.Op != token.LAND || !(be.Y.Pos() <= pos && pos < be.Y.End()) {
			return true
		}
		conds = append(conds, be.X)
		vals = append(vals, true)
		for _, part := range edgeOperands(be.X, 0) {
			conds = append(conds, part)
			vals = append(vals, true)
		}
		return true
	})
	// isInterface := t.Kind() == reflect.Interface; … if isInterface …
	for i := 0; i < len(conds); i++ {
		cd, want := unparen(conds[i]), vals[i]
		if u, isU := cd.(*ast.UnaryExpr); isU && u.Op == token.NOT {
			cd, want = unparen(u.X), !want
		}
		if id, isId := cd.(*ast.Ident); isId {
			if o := info.Uses[id]; o != nil && !assignedAfterDef(info, fi.Decl.Body, o) {
				if def := resolveLocal(info, fi.Decl.Body, id, 1); def != ast.Expr(id) {
					conds = append(conds, def)
					vals = append(vals, want)
				}
			}
		}
	}
	for i, cd := range conds {
		be, ok := unparen(cd).(*ast.BinaryExpr)
		if !ok || (be.Op != token.EQL && be.Op != token.NEQ) {
			continue
		}
		x, y := unparen(be.X), unparen(be.Y)
		if exprStr(y) != "reflect.Interface" {
			x, y = y, x
		}
		if exprStr(y) != "reflect.Interface" {
			continue
		}
		c, isC := x.(*ast.CallExpr)
		if !isC {
			continue
		}
		rcv, name, isM := methodCall(c)
		if !isM || name != "Kind" || exprStr(rcv) != want {
			continue
		}
		if (be.Op == token.EQL) == vals[i] {
			return true
		}
	}
	return false
}

// assignedAfterDef: obj has more than one assignment (its definition apart).
func assignedAfterDef(info *types.Info, body ast.Node, obj types.Object) bool {
	n := 0
	ast.Inspect(body, func(x ast.Node) bool {
		if as, ok := x.(*ast.AssignStmt); ok {
			for _, l := range as.Lhs {
				if id, isId := unparen(l).(*ast.Ident); isId && info.Uses[id] == obj {
					n++
				}
			}
		}
		return true
	})
	return n > 0
}

// fromValidatedAs: e (through locals) is reflect.TypeOf(x).Elem() where x is the
// element of a loop over a field named As of a struct that has a Validate method
// which compares a Kind() with reflect.Interface.
func fromValidatedAs(w *World, info *types.Info, fi *FuncInfo, e ast.Expr, depth int) bool {
	e = resolveLocal(info, fi.Decl.Body, e, 2)
	c, ok := unparen(e).(*ast.CallExpr)
	if !ok {
		return false
	}
	rcv, name, isM := methodCall(c)
	if !isM || name != "Elem" {
		return false
	}
	inner, ok := unparen(rcv).(*ast.CallExpr)
	if !ok || !isFunc(callee(info, inner), "reflect", "", "TypeOf") || len(inner.Args) != 1 {
		return false
	}
	xo := objOf(info, inner.Args[0])
	if xo == nil {
		return false
	}
	for _, l := range iterLoopsIn(info, fi.Decl.Body) {
		if l.Elem != xo || l.Dir != "fwd" {
			continue
		}
		if fv := fieldOf(info, l.Coll); fv != nil {
			if fv.Name() == "As" && asOwnerValidates(w, info, l.Coll) != nil {
				return true
			}
			continue
		}
		// the list is a parameter of a private helper: every caller hands in such an As field
		if pi := paramIndexOf(fi, l.CollObj); pi >= 0 && depth > 0 && !fi.Obj.Exported() {
			sites, okAll := 0, true
			for caller := range w.Callers()[fi] {
				cinfo := caller.Pkg.TypesInfo
				for _, cc := range callsIn(caller.Decl.Body, true) {
					if callee(cinfo, cc) != fi.Obj {
						continue
					}
					sites++
					if pi >= len(cc.Args) {
						okAll = false
						continue
					}
					a := resolveLocal(cinfo, caller.Decl.Body, cc.Args[pi], 2)
					if fv := fieldOf(cinfo, a); fv == nil || fv.Name() != "As" || asOwnerValidates(w, cinfo, a) == nil {
						okAll = false
					}
				}
			}
			return sites > 0 && okAll
		}
	}
	return false
}

// validatedAt: the options' Validate is known to have accepted the As list at
// pos in fi - in fi itself, or at every call site of the private helper fi.
func validatedAt(w *World, fi *FuncInfo, pos token.Pos, depth int) bool {
	if nd := w.FlowOf(fi).NodeContaining(pos); nd != nil && validatedAsList(w, fi).Before[nd].Has("validated") {
		return true
	}
	if depth == 0 || fi.Obj.Exported() {
		return false
	}
	sites := 0
	for caller := range w.Callers()[fi] {
		for _, cc := range callsIn(caller.Decl.Body, true) {
			if callee(caller.Pkg.TypesInfo, cc) != fi.Obj {
				continue
			}
			sites++
			if !validatedAt(w, caller, cc.Pos(), depth-1) {
				return false
			}
		}
	}
	return sites > 0
}

// calleeIdent: the identifier that names the called function (for info.Instances).
func calleeIdent(c *ast.CallExpr) *ast.Ident {
	fun := unparen(c.Fun)
	if ix, ok := fun.(*ast.IndexExpr); ok {
		fun = unparen(ix.X)
	}
	if il, ok := fun.(*ast.IndexListExpr); ok {
		fun = unparen(il.X)
	}
	switch f := fun.(type) {
	case *ast.Ident:
		return f
	case *ast.SelectorExpr:
		return f.Sel
	}
	return nil
}

// asOwnerValidates: the Validate method of the struct whose As field coll is,
// when that method tests a Kind() against reflect.Interface.
func asOwnerValidates(w *World, info *types.Info, coll ast.Expr) *FuncInfo {
	sel, ok := unparen(coll).(*ast.SelectorExpr)
	if !ok {
		return nil
	}
	nt := namedOf(info.TypeOf(sel.X))
	if nt == nil {
		return nil
	}
	for _, f := range w.AllFuncs() {
		if f.Obj.Name() != "Validate" || recvNamed(f.Obj) == nil || recvNamed(f.Obj).Obj() != nt.Obj() {
			continue
		}
		tests := false
		for _, h := range w.Within(f, 2) {
			ast.Inspect(h.Decl.Body, func(x ast.Node) bool {
				if be, isBe := x.(*ast.BinaryExpr); isBe && (be.Op == token.NEQ || be.Op == token.EQL) {
					if exprStr(unparen(be.Y)) == "reflect.Interface" || exprStr(unparen(be.X)) == "reflect.Interface" {
						tests = true
					}
				}
				// switch t.Kind() { case reflect.Interface: … }
				if cc, isCC := x.(*ast.CaseClause); isCC {
					for _, e := range cc.List {
						if exprStr(unparen(e)) == "reflect.Interface" {
							tests = true
						}
					}
				}
				return true
			})
		}
		if tests {
			return f
		}
	}
	return nil
}

// validatedAsList: must-solution over fi with the fact "validated" after a call
// of a Validate method of an As-owning struct whose error was found nil.
func validatedAsList(w *World, fi *FuncInfo) *Sol {
	info := fi.Pkg.TypesInfo
	errOf := map[types.Object]bool{}
	isValidate := func(c *ast.CallExpr) bool {
		rcv, name, ok := methodCall(c)
		if !ok || name != "Validate" {
			return false
		}
		nt := namedOf(info.TypeOf(rcv))
		if nt == nil {
			return false
		}
		st, isSt := nt.Underlying().(*types.Struct)
		if !isSt {
			return false
		}
		for i := 0; i < st.NumFields(); i++ {
			if st.Field(i).Name() == "As" {
				return true
			}
		}
		return false
	}
	ast.Inspect(fi.Decl.Body, func(x ast.Node) bool {
		if as, ok := x.(*ast.AssignStmt); ok && len(as.Lhs) == 1 && len(as.Rhs) == 1 {
			if c, isC := unparen(as.Rhs[0]).(*ast.CallExpr); isC && isValidate(c) {
				errOf[objOf(info, as.Lhs[0])] = true
			}
		}
		return true
	})
	return w.FlowOf(fi).Solve(Spec{Must: true, Edge: func(b *cfg.Block, i int, cond ast.Expr, in Facts) (gen, kill []string) {
		be, ok := unparen(cond).(*ast.BinaryExpr)
		if cond == nil || !ok || (be.Op != token.NEQ && be.Op != token.EQL) {
			return
		}
		var o types.Object
		if isNilIdent(info, be.Y) {
			o = objOf(info, be.X)
		} else if isNilIdent(info, be.X) {
			o = objOf(info, be.Y)
		}
		if o != nil && errOf[o] && (be.Op == token.EQL) == (i == 0) {
			gen = append(gen, "validated")
		}
		return
	}})
}

// paramIndexOf: the position of obj among fi's parameters, -1 if it is none.
func paramIndexOf(fi *FuncInfo, obj types.Object) int {
	if obj == nil {
		return -1
	}
	for i, po := range paramObjs(fi) {
		if po == obj {
			return i
		}
	}
	return -1
}

// typeOfTypeParam: e is reflect.TypeOf((*T)(nil)).Elem() or reflect.TypeFor[T]()
// with T a type parameter.
func typeOfTypeParam(info *types.Info, e ast.Expr) bool {
	c, ok := unparen(e).(*ast.CallExpr)
	if !ok {
		return false
	}
	if isFunc(callee(info, c), "reflect", "", "TypeFor") && len(c.Args) == 0 {
		if inst, okI := info.Instances[calleeIdent(c)]; okI && inst.TypeArgs != nil && inst.TypeArgs.Len() == 1 {
			_, isTP := inst.TypeArgs.At(0).(*types.TypeParam)
			return isTP
		}
		return false
	}
	rcv, name, isM := methodCall(c)
	if !isM || name != "Elem" {
		return false
	}
	inner, ok := unparen(rcv).(*ast.CallExpr)
	if !ok || !isFunc(callee(info, inner), "reflect", "", "TypeOf") || len(inner.Args) != 1 {
		return false
	}
	ptr, ok := info.TypeOf(inner.Args[0]).(*types.Pointer)
	if !ok {
		return false
	}
	_, isTP := ptr.Elem().(*types.TypeParam)
	return isTP
}

// constructionTimeUnit: the code unit u runs only while an object of the named
// struct is being built, before anyone else can see it:
//   - a private function or method all of whose callers (two levels) are
//     allocating functions of the struct (an index filled by doBuild's helper);
//   - the function literal of a functional option (`func(a *T) { a.f = … }`
//     returned as a named func type) when every call through a value of that
//     option type sits in an allocating function (`for _, opt := range opts { opt(a) }`).
func constructionTimeUnit(w *World, u *unit, named *types.Named) bool {
	if u == nil || u.fi == nil || named == nil {
		return false
	}
	if u.lit == nil {
		return onlyCalledWhileBuilding(w, u.fi, named, 2)
	}
	// functional option
	info := u.pkg.TypesInfo
	lt, ok := info.TypeOf(u.lit).(*types.Signature)
	if !ok || lt.Params().Len() != 1 {
		return false
	}
	pt, isPtr := lt.Params().At(0).Type().(*types.Pointer)
	if !isPtr || namedOf(pt.Elem()) == nil || namedOf(pt.Elem()).Obj() != named.Obj() {
		return false
	}
	// the literal is returned (or converted and returned) by its maker as a named func type
	var optType *types.Named
	ast.Inspect(u.fi.Decl.Body, func(x ast.Node) bool {
		ret, isRet := x.(*ast.ReturnStmt)
		if !isRet || len(ret.Results) != 1 {
			return true
		}
		e := unparen(ret.Results[0])
		if c, isC := e.(*ast.CallExpr); isC && len(c.Args) == 1 {
			if tv, okT := info.Types[c.Fun]; okT && tv.IsType() {
				e = unparen(c.Args[0])
			}
		}
		if e == ast.Expr(u.lit) {
			if sig := u.fi.Obj.Type().(*types.Signature); sig.Results().Len() == 1 {
				if nt, isN := sig.Results().At(0).Type().(*types.Named); isN {
					if _, isSig := nt.Underlying().(*types.Signature); isSig {
						optType = nt
					}
				}
			}
		}
		return true
	})
	if optType == nil {
		return false
	}
	calls, okAll := 0, true
	for _, f := range w.AllFuncs() {
		if f.Decl.Body == nil {
			continue
		}
		finfo := f.Pkg.TypesInfo
		for _, c := range callsIn(f.Decl.Body, true) {
			ft := finfo.TypeOf(c.Fun)
			nt, isN := ft.(*types.Named)
			if !isN || nt.Obj() != optType.Obj() {
				continue
			}
			if tv, okT := finfo.Types[c.Fun]; okT && tv.IsType() {
				continue // a conversion Option(f)
			}
			calls++
			if !isAllocatingFunc(w, f, named) && !onlyCalledWhileBuilding(w, f, named, 1) && !(len(c.Args) == 1 && boundToFreshObject(finfo, f, c.Args[0])) {
				okAll = false
			}
		}
	}
	return calls > 0 && okAll
}

// onlyCalledWhileBuilding: fi is unexported, is not used as a value, and every
// static caller is an allocating function of the struct (or, depth permitting, a
// function of which the same holds).
func onlyCalledWhileBuilding(w *World, fi *FuncInfo, named *types.Named, depth int) bool {
	if fi == nil || fi.Obj.Exported() || depth < 0 {
		return false
	}
	callers := w.Callers()[fi]
	if len(callers) == 0 {
		return false
	}
	for c := range callers {
		if isAllocatingFunc(w, c, named) {
			continue
		}
		if depth > 0 && c != fi && onlyCalledWhileBuilding(w, c, named, depth-1) {
			continue
		}
		return false
	}
	return true
}

// boundToFreshObject: e is a local of f whose only definition is a composite
// literal (or its address) or a call of a constructor function every return of
// which is a fresh literal (a := New()).
func boundToFreshObject(info *types.Info, f *FuncInfo, e ast.Expr) bool {
	o := objOf(info, e)
	if o == nil || isParamOrRecv(f, info, o) {
		return false
	}
	defs, fresh := 0, 0
	ast.Inspect(f.Decl.Body, func(x ast.Node) bool {
		as, ok := x.(*ast.AssignStmt)
		if !ok || len(as.Lhs) != len(as.Rhs) {
			return true
		}
		for i, l := range as.Lhs {
			if objOf(info, l) != o {
				continue
			}
			defs++
			if litOf(as.Rhs[i]) != nil {
				fresh++
			} else if c, isC := unparen(as.Rhs[i]).(*ast.CallExpr); isC && isFreshConstructorCall(info, c) {
				fresh++
			}
		}
		return true
	})
	return defs == 1 && fresh == 1
}

// anyKeyInstanceEvidence: among the writes into maps of type t (index assignment,
// literal entries) the first key that is known to be a service instance: the
// interface-typed parameter of a function of the storing / creation chain, a
// value bound from a resolution, a construction, a type assertion on one of
// those, or reflect.Value.Interface().
func anyKeyInstanceEvidence(w *World, t types.Type) (uses int, inst string) {
	ro := resolveRoles(w)
	chain := map[*FuncInfo]bool{}
	for _, root := range []*FuncInfo{ro.setInstance, ro.setSingleton, ro.createInstance} {
		if root != nil {
			for _, f := range w.Within(root, 3) {
				chain[f] = true
			}
		}
	}
	for _, fi := range w.AllFuncs() {
		if fi.Decl.Body == nil {
			continue
		}
		info := fi.Pkg.TypesInfo
		var isInstance func(e ast.Expr, depth int) bool
		isInstance = func(e ast.Expr, depth int) bool {
			e = unparen(e)
			switch x := e.(type) {
			case *ast.TypeAssertExpr:
				return isInstance(x.X, depth)
			case *ast.CallExpr:
				cal := callee(info, x)
				if isResolutionFunc(w, ro, cal) || ro.isCreate(cal) {
					return true
				}
				if rcv, name, ok := methodCall(x); ok && name == "Interface" && isNamedType(info.TypeOf(rcv), "reflect", "Value") {
					return true
				}
				return false
			case *ast.Ident:
				o := info.Uses[x]
				if o == nil || depth == 0 {
					return false
				}
				if chain[fi] && paramIndexOf(fi, o) >= 0 && types.IsInterface(o.Type()) && !isErrorType(o.Type()) && !isNamedType(o.Type(), "context", "Context") {
					// the key parameter of the storing functions is a struct (instanceKey); an `any` parameter there is the instance
					return true
				}
				found := false
				ast.Inspect(fi.Decl.Body, func(y ast.Node) bool {
					if as, ok := y.(*ast.AssignStmt); ok && len(as.Rhs) >= 1 {
						for i, l := range as.Lhs {
							if objOf(info, l) != o {
								continue
							}
							rhs := as.Rhs[min(i, len(as.Rhs)-1)]
							if isInstance(rhs, depth-1) {
								found = true
							}
						}
					}
					return true
				})
				return found
			}
			return false
		}
		note := func(k ast.Expr, pos token.Pos) {
			uses++
			if inst == "" && isInstance(k, 3) {
				inst = fi.Name() + " at " + w.Pos(pos)
			}
		}
		ast.Inspect(fi.Decl.Body, func(x ast.Node) bool {
			switch s := x.(type) {
			case *ast.AssignStmt:
				for _, l := range s.Lhs {
					if ix, ok := unparen(l).(*ast.IndexExpr); ok {
						if mt := info.TypeOf(ix.X); mt != nil && types.Identical(mt, t) {
							note(ix.Index, ix.Pos())
						}
					}
				}
			case *ast.CompositeLit:
				if mt := info.TypeOf(s); mt != nil && types.Identical(mt, t) {
					for _, el := range s.Elts {
						if kv, ok := el.(*ast.KeyValueExpr); ok {
							note(kv.Key, kv.Pos())
						}
					}
				}
			}
			return true
		})
	}
	return
}

// calleeKeeps: the repository function cal stores its parameter idx (or something
// derived from it by a type assertion) somewhere that outlives the call: a field,
// an element of a field, a package variable, a channel - directly or through a
// callee it hands the parameter to. A function that only passes the value to
// callbacks keeps nothing. Unknown callees (interfaces, other modules) keep.
func calleeKeeps(w *World, cal *types.Func, idx int, depth int) bool {
	if cal == nil {
		return true
	}
	t := w.Decls[cal]
	if t == nil || t.Decl.Body == nil {
		return true
	}
	ps := paramObjs(t)
	if idx >= len(ps) || ps[idx] == nil {
		return true
	}
	info := t.Pkg.TypesInfo
	derived := map[types.Object]bool{ps[idx]: true}
	for changed := true; changed; {
		changed = false
		ast.Inspect(t.Decl.Body, func(x ast.Node) bool {
			as, ok := x.(*ast.AssignStmt)
			if !ok || len(as.Rhs) != 1 {
				return true
			}
			src := unparen(as.Rhs[0])
			if ta, isTA := src.(*ast.TypeAssertExpr); isTA {
				src = unparen(ta.X)
			}
			if id, isId := src.(*ast.Ident); isId && derived[info.Uses[id]] {
				if o := objOf(info, as.Lhs[0]); o != nil && !derived[o] {
					if v, isV := o.(*types.Var); isV && !v.IsField() && v.Parent() != v.Pkg().Scope() {
						derived[o] = true
						changed = true
					}
				}
			}
			return true
		})
	}
	mentions := func(e ast.Node) bool {
		found := false
		ast.Inspect(e, func(y ast.Node) bool {
			if id, ok := y.(*ast.Ident); ok && derived[info.Uses[id]] {
				found = true
			}
			return true
		})
		return found
	}
	keeps := false
	ast.Inspect(t.Decl.Body, func(x ast.Node) bool {
		switch s := x.(type) {
		case *ast.AssignStmt:
			for i, l := range s.Lhs {
				rhs := s.Rhs[min(i, len(s.Rhs)-1)]
				if !mentions(rhs) {
					continue
				}
				base := unparen(l)
				if ix, ok := base.(*ast.IndexExpr); ok {
					base = unparen(ix.X)
				}
				switch b := base.(type) {
				case *ast.SelectorExpr:
					keeps = true // a field (or an element of one)
				case *ast.Ident:
					if v, ok := info.Uses[b].(*types.Var); ok && v.Pkg() != nil && v.Parent() == v.Pkg().Scope() {
						keeps = true // a package variable
					}
				case *ast.StarExpr:
					keeps = true
				}
			}
		case *ast.SendStmt:
			if mentions(s.Value) {
				keeps = true
			}
		case *ast.CallExpr:
			// handed to another repository function: ask that one; a method value or a dynamic
			// call (a listener) receives the value for the duration of the call only
			if c2 := callee(info, s); c2 != nil && w.Decls[c2] != nil && depth > 0 {
				for ai, a := range s.Args {
					if id, ok := unparen(a).(*ast.Ident); ok && derived[info.Uses[id]] && calleeKeeps(w, c2, ai, depth-1) {
						keeps = true
					}
				}
			} else if c2 != nil && w.Decls[c2] == nil && c2.Pkg() != nil && (c2.Pkg().Path() == "sync" || c2.Pkg().Path() == "sync/atomic") {
				for _, a := range s.Args {
					if mentions(a) {
						keeps = true // sync.Map.Store, atomic.Value.Store
					}
				}
			}
		case *ast.GoStmt:
			if mentions(s) {
				keeps = true
			}
		}
		return true
	})
	return keeps
}

// errorMethodWithUnwrapOf: fi is the `Error() string` method of a type whose
// Unwrap method returns (among its results) the sentinel o.
func errorMethodWithUnwrapOf(w *World, fi *FuncInfo, o types.Object) bool {
	if fi.Obj.Name() != "Error" || recvNamed(fi.Obj) == nil {
		return false
	}
	sig := fi.Obj.Type().(*types.Signature)
	if sig.Params().Len() != 0 || sig.Results().Len() != 1 {
		return false
	}
	if b, ok := sig.Results().At(0).Type().Underlying().(*types.Basic); !ok || b.Kind() != types.String {
		return false
	}
	for _, g := range w.FuncsOf(fi.Pkg) {
		if g.Obj.Name() != "Unwrap" || recvNamed(g.Obj) == nil || recvNamed(g.Obj).Obj() != recvNamed(fi.Obj).Obj() {
			continue
		}
		found := false
		ast.Inspect(g.Decl.Body, func(x ast.Node) bool {
			if ret, ok := x.(*ast.ReturnStmt); ok {
				ast.Inspect(ret, func(y ast.Node) bool {
					if id, isId := y.(*ast.Ident); isId && g.Pkg.TypesInfo.Uses[id] == o {
						found = true
					}
					return true
				})
			}
			return true
		})
		return found
	}
	return false
}

var closeDelegateMemo = map[*FuncInfo]*FuncInfo{}

// closeDelegate: fi is a Close method whose whole body is `return recv.h(args…)`
// with constant (or nil) arguments, h an unexported method of the same receiver
// type that has at least one other caller. Returns h (nil otherwise: a private
// half with Close as its only caller is followed by the analyses themselves).
func closeDelegate(w *World, fi *FuncInfo) *FuncInfo {
	if h, ok := closeDelegateMemo[fi]; ok {
		return h
	}
	closeDelegateMemo[fi] = nil
	if fi.Decl.Body == nil || len(fi.Decl.Body.List) != 1 || fi.Decl.Recv == nil || len(fi.Decl.Recv.List[0].Names) != 1 {
		return nil
	}
	ret, ok := fi.Decl.Body.List[0].(*ast.ReturnStmt)
	if !ok || len(ret.Results) != 1 {
		return nil
	}
	c, ok := unparen(ret.Results[0]).(*ast.CallExpr)
	if !ok {
		return nil
	}
	info := fi.Pkg.TypesInfo
	rcv, _, isM := methodCall(c)
	if !isM || objOf(info, rcv) != info.Defs[fi.Decl.Recv.List[0].Names[0]] {
		return nil
	}
	for _, a := range c.Args {
		if tv, okT := info.Types[a]; !okT || !(tv.IsNil() || tv.Value != nil) {
			return nil
		}
	}
	cal := callee(info, c)
	if cal == nil || cal.Exported() {
		return nil
	}
	h := w.Decls[cal]
	if h == nil || recvNamed(h.Obj) == nil || recvNamed(fi.Obj) == nil || recvNamed(h.Obj).Obj() != recvNamed(fi.Obj).Obj() {
		return nil
	}
	if len(w.Callers()[h]) < 2 {
		return nil
	}
	closeDelegateMemo[fi] = h
	return h
}

// rehousedCopy: the local obj is a complete copy of the container denoted by
// isList in new storage and nothing else:
//
//	grown := make([]T, len(list), want); copy(grown, list)
//	bigger := make(map[K]V, want); for k, v := range list { bigger[k] = v }
//
// obj has no other definition or write, and is then only read as a whole.
func rehousedCopy(info *types.Info, body *ast.BlockStmt, obj types.Object, isList func(ast.Expr) bool) bool {
	if obj == nil || body == nil {
		return false
	}
	v, isVar := obj.(*types.Var)
	if !isVar || v.IsField() {
		return false
	}
	allowed := map[*ast.Ident]bool{}
	made, filled, bad := false, false, false
	inspectNoLit(body, func(x ast.Node) bool {
		switch s := x.(type) {
		case *ast.AssignStmt:
			for i, l := range s.Lhs {
				if id, ok := unparen(l).(*ast.Ident); ok && (info.Defs[id] == obj || info.Uses[id] == obj) {
					allowed[id] = true
					if len(s.Lhs) != len(s.Rhs) || made {
						bad = true
						continue
					}
					c, isC := unparen(s.Rhs[i]).(*ast.CallExpr)
					if !isC || exprStr(c.Fun) != "make" {
						bad = true
						continue
					}
					switch obj.Type().Underlying().(type) {
					case *types.Slice:
						// make([]T, len(list), …)
						if len(c.Args) < 2 {
							bad = true
							continue
						}
						lc, isL := unparen(c.Args[1]).(*ast.CallExpr)
						if !isL || exprStr(lc.Fun) != "len" || len(lc.Args) != 1 || !isList(lc.Args[0]) {
							bad = true
							continue
						}
					case *types.Map:
					default:
						bad = true
						continue
					}
					made = true
				}
			}
		case *ast.ExprStmt:
			// copy(obj, list)
			if c, ok := s.X.(*ast.CallExpr); ok && exprStr(c.Fun) == "copy" && len(c.Args) == 2 {
				if id, isId := unparen(c.Args[0]).(*ast.Ident); isId && info.Uses[id] == obj {
					allowed[id] = true
					if isList(c.Args[1]) && !filled {
						filled = true
					} else {
						bad = true
					}
				}
			}
		case *ast.RangeStmt:
			// for k, v := range list { obj[k] = v }
			if isList(s.X) && s.Key != nil && s.Value != nil && len(s.Body.List) == 1 {
				if as, ok := s.Body.List[0].(*ast.AssignStmt); ok && len(as.Lhs) == 1 && len(as.Rhs) == 1 {
					if ix, isIx := unparen(as.Lhs[0]).(*ast.IndexExpr); isIx {
						if id, isId := unparen(ix.X).(*ast.Ident); isId && info.Uses[id] == obj &&
							objOf(info, ix.Index) == objOf(info, s.Key) && objOf(info, as.Rhs[0]) == objOf(info, s.Value) && objOf(info, s.Key) != nil {
							allowed[id] = true
							if !filled {
								filled = true
							} else {
								bad = true
							}
						}
					}
				}
			}
		}
		return true
	})
	if bad || !made || !filled {
		return false
	}
	// whole-value reads on the right of an assignment
	inspectNoLit(body, func(x ast.Node) bool {
		if as, ok := x.(*ast.AssignStmt); ok {
			for _, r := range as.Rhs {
				if id, isId := unparen(r).(*ast.Ident); isId && info.Uses[id] == obj {
					allowed[id] = true
				}
			}
		}
		return true
	})
	ok := true
	ast.Inspect(body, func(x ast.Node) bool {
		if id, isId := x.(*ast.Ident); isId && info.Uses[id] == obj && !allowed[id] {
			ok = false
		}
		return true
	})
	return ok
}

// ruleBuildReadsRegistry: Build reads the registry, it does not write it. No
// function a Build runs (the pipeline and its private helpers) writes one of the
// registry views: a registration that validation makes on the fly (a source
// asked for a missing dependency) lands in the provider after the dependency
// graph was filled and checked - it is served without ever having been graphed.
func ruleBuildReadsRegistry(w *World, r *Report, rule string) {
	rg := resolveRegistry(w)
	named, _ := w.Struct(w.Godi, "collection")
	if named == nil || rg.services == nil {
		r.Undecided(rule, "collection", token.NoPos, "collection or its views not found")
		return
	}
	build := map[*FuncInfo]bool{}
	var entry *FuncInfo
	for _, fi := range w.FuncsOf(w.Godi) {
		if rn := recvNamed(fi.Obj); rn != nil && rn.Obj() == named.Obj() && fi.Obj.Exported() && strings.HasPrefix(fi.Obj.Name(), "Build") {
			for _, f := range w.Within(fi, 4) {
				build[f] = true
			}
			if entry == nil || fi.Decl.Pos() < entry.Decl.Pos() {
				entry = fi
			}
		}
	}
	if entry == nil {
		r.Undecided(rule, "collection#Build", token.NoPos, "no Build method on the collection")
		return
	}
	var fns []*FuncInfo
	for f := range build {
		fns = append(fns, f)
	}
	sort.Slice(fns, func(i, j int) bool { return posLess(fns[i].Decl.Pos(), fns[j].Decl.Pos()) })
	bad := 0
	for _, fi := range fns {
		info := fi.Pkg.TypesInfo
		for _, n := range w.FlowOf(fi).Nodes() {
			for _, v := range rg.viewWrites(info, n) {
				bad++
				r.Fail(rule, fmt.Sprintf("%s#writes:%s/%d", fi.Name(), v, bad), n.Pos(),
					"%s, which a Build runs, writes the registry view %s: what is registered while Build is under way was not in the dependency graph when it was checked for cycles (and is not in the creation order)", fi.Name(), v)
			}
		}
		// or reaches a registering function
		for _, c := range callsIn(fi.Decl.Body, true) {
			if cal := callee(info, c); cal != nil {
				if t := w.Decls[cal]; t != nil && !build[t] && len(rg.viewWriters[t]) > 0 && recvNamed(cal) != nil && recvNamed(cal).Obj() == named.Obj() {
					bad++
					r.Fail(rule, fmt.Sprintf("%s#calls:%s/%d", fi.Name(), t.Name(), bad), c.Pos(),
						"%s, which a Build runs, calls %s, which writes the registry views: what is registered while Build is under way was not in the dependency graph when it was checked for cycles", fi.Name(), t.Name())
				}
			}
		}
	}
	if bad == 0 {
		r.OK(rule, entry.Name()+"#reads-registry", entry.Decl.Pos(), false, "none of the %d functions a Build runs writes services, groups or the descriptor list", len(fns))
	}
}

// ruleNodesBelongToOneGraph: a *Node is the mutable record of one graph (degrees,
// dependents, depth are rewritten by that graph's recomputations). Wherever a
// node is put into the node table of a graph other than the receiver (a copy, a
// subgraph, a fork), it is a node made for that graph: a literal, or a local
// bound to one - never a pointer read out of another graph's table.
func ruleNodesBelongToOneGraph(w *World, r *Report, rule string) {
	g := resolveGraph(w)
	sites, bad := 0, 0
	for _, fi := range w.FuncsOf(w.Graph) {
		info := fi.Pkg.TypesInfo
		var recv types.Object
		if fi.Decl.Recv != nil && len(fi.Decl.Recv.List[0].Names) == 1 {
			recv = info.Defs[fi.Decl.Recv.List[0].Names[0]]
		}
		ast.Inspect(fi.Decl.Body, func(x ast.Node) bool {
			as, ok := x.(*ast.AssignStmt)
			if !ok || len(as.Lhs) != len(as.Rhs) {
				return true
			}
			for i, l := range as.Lhs {
				ix, isIx := unparen(l).(*ast.IndexExpr)
				if !isIx || fieldOf(info, ix.X) != g.nodes {
					continue
				}
				base := rootIdent(ix.X)
				if base == nil || info.Uses[base] == recv {
					continue // the receiver's own table: judged by the add / rollback rules
				}
				sites++
				rhs := resolveLocal(info, fi.Decl.Body, as.Rhs[i], 2)
				fresh := litOf(rhs) != nil
				// &copied, with `copied := *node` a struct-valued local of this function: a new object
				if u, isU := unparen(rhs).(*ast.UnaryExpr); isU && u.Op == token.AND {
					if id, isId := unparen(u.X).(*ast.Ident); isId {
						if v, isV := info.Uses[id].(*types.Var); isV && !v.IsField() && !isParamOrRecv(fi, info, v) && v.Pkg() != nil && v.Parent() != v.Pkg().Scope() {
							if _, isSt := v.Type().Underlying().(*types.Struct); isSt {
								fresh = true
							}
						}
					}
				}
				if !fresh {
					bad++
					r.Fail(rule, fmt.Sprintf("%s#foreign-node/%d", fi.Name(), bad), as.Pos(),
						"%s puts %s into the node table of another graph (%s): a node object shared by two graphs has its degrees, dependents and depth rewritten by either graph's recomputation - queries of the graph that was never touched change", fi.Name(), exprStr(as.Rhs[i]), exprStr(ix.X))
				}
			}
			return true
		})
	}
	if bad == 0 {
		r.OK(rule, "graph#nodes-belong-to-one-graph", token.NoPos, false, "%d store(s) into the node table of a graph other than the receiver, each of a node made for that graph", sites)
	}
}

// ruleTrackedAfterPublication: a scope is entered into two tables (its parent's
// children, the provider's scopes) in two critical sections. From the moment it is
// in the first it can be closed by that table's owner - whose Close removes it from
// the other table, where it is not yet. The second insertion must therefore
// re-check, inside its own critical section, that the scope has not been closed
// meanwhile (a test of the scope's own disposed flag between the Lock and the
// insertion); otherwise a closed scope stays tracked until the provider closes.
func ruleTrackedAfterPublication(w *World, r *Report, rule string) {
	flag := w.Field(w.Godi, "scope", "disposed")
	isScopeTable := func(info *types.Info, e ast.Expr) *types.Var {
		fv := fieldOf(info, e)
		if fv == nil {
			return nil
		}
		m, ok := fv.Type().Underlying().(*types.Map)
		if !ok || !isNamedType(m.Key(), modPath, "scope") {
			return nil
		}
		switch ownerOfFieldRaw(w, fv) {
		case "scope", "provider":
			return fv
		}
		return nil
	}
	sites, second, bad := 0, 0, 0
	for _, fi := range w.FuncsOf(w.Godi) {
		info := fi.Pkg.TypesInfo
		type ins struct {
			node ast.Node
			tbl  *types.Var
			x    types.Object
			pos  token.Pos
		}
		var all []ins
		fl := w.FlowOf(fi)
		for _, n := range fl.Nodes() {
			as, ok := n.(*ast.AssignStmt)
			if !ok {
				continue
			}
			for _, l := range as.Lhs {
				ix, isIx := unparen(l).(*ast.IndexExpr)
				if !isIx {
					continue
				}
				if tbl := isScopeTable(info, ix.X); tbl != nil {
					if x := objOf(info, ix.Index); x != nil && !w.isReceiver(x) {
						all = append(all, ins{n, tbl, x, as.Pos()})
					}
				}
			}
		}
		if len(all) == 0 {
			continue
		}
		sites += len(all)
		may := fl.Solve(Spec{Must: false, Node: func(n ast.Node, in Facts) (gen, kill []string) {
			for _, i := range all {
				if i.node == n {
					gen = append(gen, "published:"+i.x.Name()+":"+i.tbl.Name())
				}
			}
			return
		}})
		for _, i := range all {
			earlier := ""
			for k := range may.Before[i.node] {
				if strings.HasPrefix(k, "published:"+i.x.Name()+":") && !strings.HasSuffix(k, ":"+i.tbl.Name()) {
					earlier = strings.TrimPrefix(k, "published:"+i.x.Name()+":")
				}
			}
			if earlier == "" {
				continue
			}
			second++
			// the last Lock() before the insertion, in source order
			var lockPos token.Pos
			for _, c := range callsIn(fi.Decl.Body, false) {
				if _, _, op, ok := mutexOp(info, c); ok && op == "Lock" && c.Pos() < i.pos && c.Pos() > lockPos {
					lockPos = c.Pos()
				}
			}
			guarded := false
			conds, _ := controllingCondsInfo(info, fi.Decl.Body, i.pos)
			for _, cd := range conds {
				if cd.Pos() < lockPos {
					continue
				}
				ast.Inspect(cd, func(y ast.Node) bool {
					if sel, ok := y.(*ast.SelectorExpr); ok && flag != nil && fieldOf(info, sel) == flag && objOf(info, sel.X) == i.x {
						guarded = true
					}
					// x.isDisposed() / x.closed(): a one-line predicate over the flag
					if c, ok := y.(*ast.CallExpr); ok {
						if rcv, _, isM := methodCall(c); isM && objOf(info, rcv) == i.x {
							if t := w.Decls[callee(info, c)]; t != nil && t.Decl.Body != nil && len(t.Decl.Body.List) == 1 && flag != nil && usesObj(t.Pkg.TypesInfo, t.Decl.Body, flag) {
								guarded = true
							}
						}
					}
					return true
				})
			}
			con := fmt.Sprintf("%s#tracked-after-publication:%s/%s", fi.Name(), i.x.Name(), i.tbl.Name())
			if !guarded {
				bad++
			}
			r.Check(guarded, rule, con, i.pos, true,
				fmt.Sprintf("%s is entered into %s after it was published in %s, and its own disposed flag is tested inside this critical section first", i.x.Name(), i.tbl.Name(), earlier),
				fmt.Sprintf("%s enters %s into %s after it was already reachable through %s, without testing, inside this critical section, that it has not been closed meanwhile: the owner of %s may have closed it (its Close removed it from %s, where it was not yet), and a closed scope stays tracked - reachable, never released - until the provider is closed", fi.Name(), i.x.Name(), i.tbl.Name(), earlier, earlier, i.tbl.Name()))
		}
	}
	if sites == 0 {
		r.Fail(rule, "godi#scope-tables", token.NoPos, "no insertion of a scope into a tracking table found")
		return
	}
	if second == 0 {
		r.OK(rule, "godi#scope-tables:single", token.NoPos, false, "%d insertion(s) of scopes into tracking tables, none of a scope that was already published in another table", sites)
	}
}

// ruleSingletonMissReportsDisposed: after a successful Build the singleton table
// holds every singleton; the only thing that empties it is provider.Close. A
// resolution that finds a singleton missing is therefore overlapping a Close and
// must say so: every return that reports ErrSingletonNotInitialized is reached
// only after the provider's disposed flag was tested (C13: an operation that
// overlaps a Close completes normally or reports the disposed error).
func ruleSingletonMissReportsDisposed(w *World, r *Report, rule string) {
	ro := resolveRoles(w)
	flag := w.Field(w.Godi, "provider", "disposed")
	sentinel := w.Godi.Types.Scope().Lookup("ErrSingletonNotInitialized")
	if ro.resolve == nil || flag == nil || sentinel == nil {
		r.Undecided(rule, "resolve#Singleton:miss", token.NoPos, "resolve, provider.disposed or ErrSingletonNotInitialized not found")
		return
	}
	n := 0
	seen := map[*FuncInfo]bool{}
	var fns []*FuncInfo
	for _, root := range []*FuncInfo{ro.resolveTop, ro.resolve} {
		if root == nil {
			continue
		}
		for _, f := range w.Within(root, 2) {
			if !seen[f] && !ro.creators[f.Obj] {
				seen[f] = true
				fns = append(fns, f)
			}
		}
	}
	for _, fi := range fns {
		info := fi.Pkg.TypesInfo
		ast.Inspect(fi.Decl.Body, func(x ast.Node) bool {
			ret, ok := x.(*ast.ReturnStmt)
			if !ok || !usesObj(info, ret, sentinel) {
				return true
			}
			n++
			guarded := false
			conds, _ := controllingCondsInfo(info, fi.Decl.Body, ret.Pos())
			for _, cd := range conds {
				ast.Inspect(cd, func(y ast.Node) bool {
					if sel, isSel := y.(*ast.SelectorExpr); isSel && fieldOf(info, sel) == flag {
						guarded = true
					}
					if c, isC := y.(*ast.CallExpr); isC {
						if t := w.Decls[callee(info, c)]; t != nil && t.Decl.Body != nil && len(t.Decl.Body.List) == 1 && usesObj(t.Pkg.TypesInfo, t.Decl.Body, flag) {
							guarded = true // p.isDisposed()
						}
					}
					return true
				})
			}
			role := "resolve"
			if fi != ro.resolve {
				role = "resolve/" + fi.Name()
			}
			r.Check(guarded, rule, fmt.Sprintf("%s#Singleton:miss-reports-disposed/%d", role, n), ret.Pos(), true,
				"the missing-singleton error is reported only after the provider was found not to be closed",
				"a singleton that is missing from the table is reported as ErrSingletonNotInitialized without testing whether the provider has been closed: a resolution (or a scope creation whose initializers need a singleton) that overlaps provider.Close() - which empties the table - fails with 'service not found … singleton not initialized at build time' instead of the disposed error")
			return true
		})
	}
	if n == 0 {
		r.OK(rule, "resolve#Singleton:miss-reports-disposed/none", ro.resolve.Decl.Pos(), false, "resolution never reports ErrSingletonNotInitialized")
	}
}

// ruleTypeNameKeys (round 11, R04.20): a table that outlives the call - a struct field or a
// package variable of map or sync.Map type - is never keyed by the printed name of a
// reflect.Type. Type.String(), Name() and PkgPath() are descriptions: two function-local
// types of one package, or two packages of one base name, print alike, so a cache keyed by
// the text hands the record of the first type to the second (the wrong tags, fields or
// constructor analysis - wrong wiring without an error). Every call of one of the three
// methods is an obligation; it is discharged when neither the call nor a local defined from
// an expression that contains it occurs in the key position of such a table.
func ruleTypeNameKeys(w *World, r *Report, rule string) {
	for _, fi := range w.AllFuncs() {
		if (fi.Pkg != w.Godi && fi.Pkg != w.Graph && fi.Pkg != w.Refl) || fi.Decl.Body == nil {
			continue
		}
		info := fi.Pkg.TypesInfo
		isNameCall := func(x ast.Node) bool {
			c, ok := x.(*ast.CallExpr)
			if !ok {
				return false
			}
			cal := callee(info, c)
			return isFunc(cal, "reflect", "Type", "String") || isFunc(cal, "reflect", "Type", "Name") || isFunc(cal, "reflect", "Type", "PkgPath")
		}
		var calls []*ast.CallExpr
		ast.Inspect(fi.Decl.Body, func(x ast.Node) bool {
			if x != nil && isNameCall(x) {
				calls = append(calls, x.(*ast.CallExpr))
			}
			return true
		})
		if len(calls) == 0 {
			continue
		}
		// locals defined from an expression that contains a name call (to a fixpoint: a key
		// built in two steps is still the name)
		tainted := map[types.Object]token.Pos{}
		contains := func(e ast.Node) (token.Pos, bool) {
			var at token.Pos
			found := false
			ast.Inspect(e, func(y ast.Node) bool {
				if y == nil || found {
					return !found
				}
				if isNameCall(y) {
					at, found = y.Pos(), true
				}
				if id, ok := y.(*ast.Ident); ok {
					if o := info.Uses[id]; o != nil {
						if p, ok := tainted[o]; ok {
							at, found = p, true
						}
					}
				}
				return !found
			})
			return at, found
		}
		for changed := true; changed; {
			changed = false
			ast.Inspect(fi.Decl.Body, func(x ast.Node) bool {
				as, ok := x.(*ast.AssignStmt)
				if !ok || len(as.Lhs) != len(as.Rhs) {
					return true
				}
				for i, l := range as.Lhs {
					o := objOf(info, l)
					if v, isVar := o.(*types.Var); !isVar || v.IsField() || v.Parent() == fi.Pkg.Types.Scope() {
						continue
					}
					if _, done := tainted[o]; done {
						continue
					}
					if b, ok := info.TypeOf(as.Rhs[i]).Underlying().(*types.Basic); !ok || b.Info()&types.IsString == 0 {
						continue
					}
					if p, ok := contains(as.Rhs[i]); ok {
						tainted[o] = p
						changed = true
					}
				}
				return true
			})
		}
		persistent := func(x ast.Expr) (string, bool) {
			x = unparen(x)
			if u, ok := x.(*ast.UnaryExpr); ok && u.Op == token.AND {
				x = unparen(u.X)
			}
			if f := fieldOf(info, x); f != nil {
				return "field " + f.Name(), true
			}
			if v, ok := objOf(info, x).(*types.Var); ok && v.Parent() == fi.Pkg.Types.Scope() {
				return "package variable " + v.Name(), true
			}
			return "", false
		}
		bad := map[token.Pos]string{} // position of the name call -> where it keys a table
		ast.Inspect(fi.Decl.Body, func(x ast.Node) bool {
			switch e := x.(type) {
			case *ast.IndexExpr:
				if _, isMap := info.TypeOf(e.X).Underlying().(*types.Map); isMap {
					if what, ok := persistent(e.X); ok {
						if p, ok := contains(e.Index); ok {
							bad[p] = fmt.Sprintf("%s (%s)", what, w.Pos(e.Pos()))
						}
					}
				}
			case *ast.CallExpr:
				cal := callee(info, e)
				if cal == nil || len(e.Args) == 0 {
					return true
				}
				isTableOp := false
				for _, m := range []string{"Load", "Store", "LoadOrStore", "LoadAndDelete", "Delete", "Swap", "CompareAndSwap", "CompareAndDelete"} {
					if isFunc(cal, "sync", "Map", m) {
						isTableOp = true
					}
				}
				if cal.Name() == "delete" {
					isTableOp = false
				}
				if sel, ok := unparen(e.Fun).(*ast.SelectorExpr); ok && isTableOp {
					if what, ok := persistent(sel.X); ok {
						if p, ok := contains(e.Args[0]); ok {
							bad[p] = fmt.Sprintf("%s (%s)", what, w.Pos(e.Pos()))
						}
					}
				}
				if id, ok := unparen(e.Fun).(*ast.Ident); ok && id.Name == "delete" && len(e.Args) == 2 {
					if _, isBuiltin := info.Uses[id].(*types.Builtin); isBuiltin {
						if what, ok := persistent(e.Args[0]); ok {
							if p, ok := contains(e.Args[1]); ok {
								bad[p] = fmt.Sprintf("%s (%s)", what, w.Pos(e.Pos()))
							}
						}
					}
				}
			}
			return true
		})
		n := 0
		for _, c := range calls {
			n++
			con := fmt.Sprintf("%s#type-name/%d", fi.Name(), n)
			where, isBad := bad[c.Pos()]
			r.Check(!isBad, rule, con, c.Pos(), true,
				"the printed name of the type is text: it keys no table that outlives the call",
				"the printed name of a reflect.Type keys the "+where+": distinct types that print alike (function-local types of one package, packages of one base name) share the entry, so the second type is served the record of the first")
		}
	}
}

// ruleIsKeepsCause (round 11, R15.29): an error struct that carries its cause in a field is
// classified through that cause (Unwrap, R15.2). An `Is(error) bool` method on such a type
// that never reads the receiver and names a sentinel of the module answers the same for every
// instance: a constructor error, a panic and a disposed container wrapped in it all classify
// as that sentinel and can no longer be told apart. One obligation per cause-carrying type.
func ruleIsKeepsCause(w *World, r *Report, rule string) {
	for _, p := range rootPkgs(w) {
		sc := p.Types.Scope()
		names := sc.Names()
		sort.Strings(names)
		for _, name := range names {
			tn, ok := sc.Lookup(name).(*types.TypeName)
			if !ok || tn.IsAlias() {
				continue
			}
			st, ok := tn.Type().Underlying().(*types.Struct)
			if !ok || !implementsError(tn.Type()) {
				continue
			}
			cause := ""
			for i := 0; i < st.NumFields(); i++ {
				if isErrorType(st.Field(i).Type()) {
					cause = st.Field(i).Name()
				}
			}
			if cause == "" {
				continue
			}
			con := p.Types.Name() + "." + name + "#Is"
			var is *FuncInfo
			for _, fi := range w.FuncsOf(p) {
				if fi.Obj.Name() == "Is" && recvNamed(fi.Obj) != nil && recvNamed(fi.Obj).Obj() == tn && fi.Decl.Body != nil {
					is = fi
				}
			}
			if is == nil {
				r.OK(rule, con, tn.Pos(), false, "%s declares no Is method: it classifies through its cause (%s) alone", name, cause)
				continue
			}
			info := is.Pkg.TypesInfo
			var recv types.Object
			if is.Decl.Recv != nil && len(is.Decl.Recv.List) == 1 && len(is.Decl.Recv.List[0].Names) == 1 {
				recv = info.Defs[is.Decl.Recv.List[0].Names[0]]
			}
			readsRecv, sentinel := false, ""
			ast.Inspect(is.Decl.Body, func(x ast.Node) bool {
				id, ok := x.(*ast.Ident)
				if !ok {
					return true
				}
				o := info.Uses[id]
				if o == nil {
					return true
				}
				if recv != nil && o == recv {
					readsRecv = true
				}
				if v, isVar := o.(*types.Var); isVar && v.Pkg() != nil && v.Parent() == v.Pkg().Scope() && isErrorType(v.Type()) && strings.HasPrefix(v.Pkg().Path(), modPath) {
					sentinel = v.Name()
				}
				return true
			})
			r.Check(readsRecv || sentinel == "", rule, con, is.Decl.Pos(), false,
				name+".Is depends on the receiver (or names no sentinel): what it matches is decided by the error at hand",
				name+".Is never reads its receiver and matches the sentinel "+sentinel+": every "+name+", whatever cause it wraps (a constructor error, a panic, a disposed container), classifies as "+sentinel)
		}
	}
}

// ruleSingletonStoreRecordsAll (round 11, R01.20): eager creation decides "this constructor
// has already run" by the presence of the descriptor's key in the singleton table (the
// already-created test of createAllSingletons), so the function that files a singleton must
// record every output it is handed: no success exit of it is reached without the store. An
// output that was produced but not recorded (a nil interface among several return values)
// makes the constructor run again when the sibling descriptor comes up in the creation order,
// and the second run replaces the instances the first one filed.
func ruleSingletonStoreRecordsAll(w *World, r *Report, rule string) {
	ro := resolveRoles(w)
	con := "setSingleton#records-every-output"
	fi := ro.setSingleton
	if fi == nil || ro.singletons == nil || fi.Decl.Body == nil {
		r.Undecided(rule, con, token.NoPos, "the function that stores into the singleton table was not found")
		return
	}
	r.Analysed(fi)
	info := fi.Pkg.TypesInfo
	storesTable := func(g *FuncInfo) bool {
		if g == nil || g.Decl.Body == nil {
			return false
		}
		st, _, _ := tableOpsIn(g.Pkg.TypesInfo, g.Decl.Body, ro.singletons)
		return len(st) > 0
	}
	fl := w.FlowOf(fi)
	sol := fl.Solve(Spec{Must: true,
		Node: func(nd ast.Node, in Facts) (gen, kill []string) {
			if st, _, _ := tableOpsIn(info, nd, ro.singletons); len(st) > 0 {
				gen = append(gen, "stored")
			}
			for _, c := range callsIn(nd, false) {
				if cal := callee(info, c); cal != nil && !cal.Exported() && w.Decls[cal] != fi && storesTable(w.Decls[cal]) {
					gen = append(gen, "stored")
				}
			}
			return
		}})
	// the instance parameter: the interface-typed parameter of the storing function
	var inst types.Object
	for _, f := range fi.Decl.Type.Params.List {
		for _, nm := range f.Names {
			if o := info.Defs[nm]; o != nil {
				if _, isIface := o.Type().Underlying().(*types.Interface); isIface {
					inst = o
				}
			}
		}
	}
	isInst := func(e ast.Expr) bool { return inst != nil && objOf(info, e) == inst }
	bad, badWhy := "", ""
	n := 0
	for _, ex := range fl.Exits() {
		if ex.Panic {
			continue
		}
		if ex.Ret != nil && len(ex.Ret.Results) > 0 {
			last := ex.Ret.Results[len(ex.Ret.Results)-1]
			if isErrorType(info.TypeOf(last)) && !isNilIdent(info, last) {
				continue // a refused store is reported to the caller
			}
			if c, ok := unparen(last).(*ast.CallExpr); ok && len(ex.Ret.Results) == 1 {
				if cal := callee(info, c); cal != nil && storesTable(w.Decls[cal]) {
					continue // return p.store(key, instance): delegated
				}
			}
		}
		n++
		if !sol.AtExit(ex).Has("stored") {
			// which skip it is: the nil instance (either spelling of the test), or the text of the
			// last condition the exit depends on - a second skip is a construct of its own, so the
			// known finding about the nil instance does not cover it
			why := "unconditional"
			cs, ws := controllingCondsInfo(info, fi.Decl.Body, ex.Pos)
			for i, cd := range cs {
				if (ws[i] && isNilTestOf(info, cd, isInst, false)) || (!ws[i] && isNilTestOf(info, cd, isInst, true)) {
					why = "nil-instance"
					break
				}
				why = strings.ReplaceAll(exprStr(cd), " ", "")
			}
			if why != "nil-instance" {
				r.Fail(rule, "setSingleton#unstored-exit:"+why, ex.Pos, "the success exit of %s here is reached without a store into the singleton table: eager creation takes the missing key for \"not constructed yet\" and runs the constructor again for the sibling descriptor", fi.Name())
				continue
			}
			if bad == "" {
				bad, badWhy = w.Pos(ex.Pos), why
			}
		}
	}
	_ = badWhy
	if n == 0 {
		r.Undecided(rule, con, fi.Decl.Pos(), "%s has no success exit the rule recognises", fi.Name())
		return
	}
	r.Check(bad == "", rule, con, fi.Decl.Pos(), true,
		"every success exit of "+fi.Name()+" has stored the instance it was handed: presence in the table means \"constructed\"",
		"the success exit at "+bad+" of "+fi.Name()+" is reached without a store into the singleton table: eager creation takes the missing key for \"not constructed yet\" and runs the constructor again for the sibling descriptor")
}
