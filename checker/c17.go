package main

import (
	"fmt"
	"go/ast"
	"go/token"
	"go/types"
	"sort"
	"strings"

	"golang.org/x/tools/go/cfg"
)

type registry struct {
	services, groups, all *types.Var
	insert                []*FuncInfo // functions writing services by index
	check                 *FuncInfo   // function with the duplicate test
	viewWriters           map[*FuncInfo]map[string]bool
}

// viewWrite classifies a CFG node's direct writes to the three registry views.
func (rg *registry) viewWrites(info *types.Info, n ast.Node) []string {
	var out []string
	name := func(fv *types.Var) string {
		switch fv {
		case rg.services:
			return "services"
		case rg.groups:
			return "groups"
		case rg.all:
			return "allDescriptors"
		}
		return ""
	}
	inspectNoLit(n, func(m ast.Node) bool {
		switch s := m.(type) {
		case *ast.AssignStmt:
			for i, l := range s.Lhs {
				t := unparen(l)
				if ix, ok := t.(*ast.IndexExpr); ok {
					t = unparen(ix.X)
				}
				if fv := fieldOf(info, t); fv != nil && name(fv) != "" && !freshLocalObjectAt(info, n, t) {
					// x.view = grown, where grown is a complete copy of x.view in new storage
					// (a capacity hint): the view holds what it held
					if t == unparen(l) && len(s.Lhs) == len(s.Rhs) && theWorld != nil {
						if fi := theWorld.FuncAt(s.Pos()); fi != nil && rehousedCopy(info, fi.Decl.Body, objOf(info, s.Rhs[i]), func(e ast.Expr) bool { return fieldOf(info, e) == fv }) {
							continue
						}
					}
					out = append(out, name(fv))
				}
			}
		case *ast.CallExpr:
			if id, ok := unparen(s.Fun).(*ast.Ident); ok && (id.Name == "delete" || id.Name == "clear") && len(s.Args) >= 1 {
				if fv := fieldOf(info, s.Args[0]); fv != nil && name(fv) != "" {
					out = append(out, name(fv))
				}
			}
		}
		return true
	})
	return out
}

func resolveRegistry(w *World) *registry {
	rg := &registry{viewWriters: map[*FuncInfo]map[string]bool{}}
	rg.services = w.FieldByType(w.Godi, "collection", "services view", func(t types.Type) bool {
		m, ok := t.Underlying().(*types.Map)
		return ok && isNamedType(m.Key(), modPath, "TypeKey")
	})
	rg.groups = w.FieldByType(w.Godi, "collection", "groups view", func(t types.Type) bool {
		m, ok := t.Underlying().(*types.Map)
		return ok && isNamedType(m.Key(), modPath, "GroupKey")
	})
	rg.all = w.FieldByType(w.Godi, "collection", "descriptor list", func(t types.Type) bool {
		s, ok := t.Underlying().(*types.Slice)
		return ok && isNamedType(s.Elem(), modPath, "Descriptor")
	})
	for _, fi := range w.FuncsOf(w.Godi) {
		info := fi.Pkg.TypesInfo
		ws := map[string]bool{}
		for _, n := range w.FlowOf(fi).Nodes() {
			for _, v := range rg.viewWrites(info, n) {
				ws[v] = true
			}
		}
		// writes inside literals too
		for _, l := range funcLitsIn(fi.Decl.Body) {
			for _, n := range NewFlow(w, fi.Pkg, l.Body, "").Nodes() {
				for _, v := range rg.viewWrites(info, n) {
					ws[v] = true
				}
			}
		}
		if len(ws) > 0 {
			rg.viewWriters[fi] = ws
		}
		// index-write to services
		ast.Inspect(fi.Decl.Body, func(x ast.Node) bool {
			if as, ok := x.(*ast.AssignStmt); ok {
				for _, l := range as.Lhs {
					if ix, ok := unparen(l).(*ast.IndexExpr); ok && fieldOf(info, ix.X) == rg.services && !freshLocalObjectAt(info, as, ix.X) {
						rg.insert = append(rg.insert, fi)
					}
				}
			}
			return true
		})
	}
	// duplicate test: the function that builds AlreadyRegisteredError and (itself or
	// through a private helper) looks an entry up in services with comma-ok
	for _, fi := range w.FuncsOf(w.Godi) {
		info := fi.Pkg.TypesInfo
		hasErr := false
		ast.Inspect(fi.Decl.Body, func(x ast.Node) bool {
			if s, ok := x.(*ast.CompositeLit); ok {
				if tv, ok := info.Types[s]; ok && isNamedType(tv.Type, modPath, "AlreadyRegisteredError") {
					hasErr = true
				}
			}
			return true
		})
		if !hasErr || strings.HasPrefix(fi.Obj.Name(), "Contains") {
			continue
		}
		hasLookup := false
		for _, g := range w.Within(fi, 2) {
			ast.Inspect(g.Decl.Body, func(x ast.Node) bool {
				if s, ok := x.(*ast.AssignStmt); ok && len(s.Lhs) == 2 && len(s.Rhs) == 1 {
					if ix, ok := unparen(s.Rhs[0]).(*ast.IndexExpr); ok && fieldOf(g.Pkg.TypesInfo, ix.X) == rg.services {
						hasLookup = true
					}
				}
				return true
			})
		}
		if hasLookup {
			rg.check = fi
		}
	}
	return rg
}

func checkC17(w *World, r *Report) {
	la := NewLockAnalysis(w)
	rg := resolveRegistry(w)
	r.Rule("R17.1", 2, "three-view consistency: a function that writes one of services / groups / allDescriptors performs the corresponding write of the others (insert: services-or-groups and the list on every path; remove: services and the list)")
	r.Rule("R17.2", 3, "the duplicate test dominates every insertion into services: the test returns AlreadyRegisteredError on its hit edge, and the infallible insert step is only reached after the test succeeded for the same descriptor (or for every element of the same, unmodified batch)")
	r.Rule("R17.3", 1, "a group only grows by append")
	r.Rule("R17.4", 2, "atomic rejection: once a registry view has been written on a path of a registration function, no error return is reachable (or every view written is undone)")
	r.Rule("R17.5", 2, "snapshot: every map/slice stored into a provider field is a fresh container, never the collection's own")
	r.Rule("R17.6", 5, "queries and Build read the views R17.1 keeps in step; option and descriptor validation dominate the first write")
	r.Rule("R17.7", 5, "every access to the registry views holds collection.mu (R09.1 restricted to collection)")
	r.Rule("R17.8", 1, "a removal drops from the descriptor list the very descriptor it found in the services view")
	r.Rule("R17.9", 1, "the duplicate test is skipped exactly for the descriptors the insert step files under groups")
	ruleRemovalIdentity(w, r, "R17.8")
	ruleCheckInsertAgreement(w, r, "R17.9")
	r.Rule("R17.10", 2, "the descriptor list keeps registration order (what Build hands to the provider follows it)")
	r.Try(func() { ruleListOrderPreserved(w, r, "R17.10", la) })
	r.Rule("R17.11", 5, "what is served is what was registered: instance registrations are answered with the descriptor's own instance, constructors with the descriptor's own function")
	r.Try(func() { ruleFunctionIdentity(w, r, "R17.11") })
	r.Rule("R17.16", 3, "a provider that has been built is unaffected by later changes to the collection: a registered descriptor is shared with every provider built from it and is never written again (a Configure hook commits into the collection by replacing the descriptor, not by writing through it)")
	r.Try(func() { ruleDescriptorImmutable(w, r, "R17.16") })
	r.Rule("R17.15", 1, "the registry views are rewritten only by their writers: no in-place slice operation on an alias of a view or on another owner's slice")
	r.Try(func() { ruleNoInPlaceOnShared(w, r, "R17.15") })
	r.Rule("R17.13", 1, "acceptance of a registration depends on the registry views and on the batch in hand only: every table the duplicate test consults is a view or a set made for this batch")
	r.Try(func() { ruleDuplicateTestReadsViewsOnly(w, r, "R17.13") })
	r.Rule("R17.14", 4, "a registration issued through a module reaches the collection: AddModules and NewModule are the plain traversal (every invocation applies every builder, first error returned)")
	r.Try(func() { reexport(w, r, "R17.14", func(sub *Report) { checkC20(w, sub) }, "R20.1", "R20.2") })
	r.Rule("R17.12", 1, "what is registered is what is served: a descriptor's Constructor and Instance are the registered value, never the analysis record's (per-type, never invalidated by Remove)")
	r.Try(func() { ruleDescriptorConstructorSource(w, r, "R17.12") })

	// ---- R17.1
	var writers []*FuncInfo
	for fi := range rg.viewWriters {
		writers = append(writers, fi)
	}
	sort.Slice(writers, func(i, j int) bool { return posLess(writers[i].Decl.Pos(), writers[j].Decl.Pos()) })
	for _, fi := range writers {
		r.Analysed(fi)
		info := fi.Pkg.TypesInfo
		if isAllocatingFunc(w, fi, namedOfStruct(w, "collection")) {
			continue
		}
		fl := w.FlowOf(fi)
		spec := func(must bool) Spec {
			return Spec{Must: must, Node: func(n ast.Node, in Facts) (gen, kill []string) {
				for _, v := range rg.viewWrites(info, n) {
					gen = append(gen, "w:"+v)
				}
				return
			}}
		}
		must, may := fl.Solve(spec(true)), fl.Solve(spec(false))
		ws := rg.viewWriters[fi]
		con := fi.Name() + "#views"
		isRemoval := false
		ast.Inspect(fi.Decl.Body, func(x ast.Node) bool {
			if c, ok := x.(*ast.CallExpr); ok {
				if id, ok := unparen(c.Fun).(*ast.Ident); ok && id.Name == "delete" {
					isRemoval = true
				}
			}
			return true
		})
		bad := ""
		switch {
		case isRemoval:
			if ws["services"] && !ws["allDescriptors"] {
				bad = "removes from services but never from allDescriptors: Count/ToSlice and Build still see the registration"
			}
			// the list write must be reachable after the map delete
			if bad == "" {
				reach := false
				for _, n := range fl.Nodes() {
					for _, v := range rg.viewWrites(info, n) {
						if v == "allDescriptors" && may.Before[n].Has("w:services") {
							reach = true
						}
					}
				}
				if !reach && ws["services"] {
					bad = "the removal from allDescriptors is not reachable after the deletion from services"
				}
			}
		default:
			for _, ex := range fl.Exits() {
				if ex.Panic {
					continue
				}
				mf, yf := must.AtExit(ex), may.AtExit(ex)
				if (yf.Has("w:services") || yf.Has("w:groups")) && !mf.Has("w:allDescriptors") {
					bad = "the exit at " + w.Pos(ex.Pos) + " can be reached having written services/groups without having appended to allDescriptors"
				}
				if yf.Has("w:allDescriptors") && !(mf.Has("w:services") || mf.Has("w:groups")) {
					// services-or-groups: check with a combined fact
					comb := fl.Solve(Spec{Must: true, Node: func(n ast.Node, in Facts) (gen, kill []string) {
						for _, v := range rg.viewWrites(info, n) {
							if v == "services" || v == "groups" {
								gen = append(gen, "w:index")
							}
						}
						return
					}})
					if !comb.AtExit(ex).Has("w:index") {
						bad = "the exit at " + w.Pos(ex.Pos) + " can be reached having appended to allDescriptors without an entry in services or groups"
					}
				}
			}
		}
		r.Check(bad == "", "R17.1", con, fi.Decl.Pos(), true, "the views written by "+fi.Name()+" stay in step on every path", fi.Name()+": "+bad)
	}

	// ---- R17.2
	if rg.check == nil {
		r.Fail("R17.2", "collection#duplicate-test", token.NoPos, "no function tests services for an existing entry and reports AlreadyRegisteredError")
	} else {
		fi := rg.check
		r.Analysed(fi)
		info := fi.Pkg.TypesInfo
		// the exists variable(s) and the hit edge (the lookup may live in a private predicate helper)
		existsObjs := map[types.Object]bool{}
		helperSet := map[*FuncInfo]bool{}
		for _, g := range w.Within(fi, 2) {
			ginfo := g.Pkg.TypesInfo
			ast.Inspect(g.Decl.Body, func(x ast.Node) bool {
				if as, ok := x.(*ast.AssignStmt); ok && len(as.Lhs) == 2 && len(as.Rhs) == 1 {
					if ix, ok := unparen(as.Rhs[0]).(*ast.IndexExpr); ok {
						if fv := fieldOf(ginfo, ix.X); fv == rg.services || (fv == nil && isMapOfTypeKey(ginfo, ix.X)) {
							existsObjs[objOf(ginfo, as.Lhs[1])] = true
							helperSet[g] = true
						}
					}
				}
				return true
			})
		}
		fl := w.FlowOf(fi)
		// may-analysis: "an existing entry was found" reaches an exit only if that exit reports it
		sol := fl.Solve(Spec{Must: false, Global: globalPrefixes("hit"), Stop: func(h *FuncInfo) bool { return !helperSet[h] },
			Edge: func(b *cfg.Block, i int, cond ast.Expr, in Facts) (gen, kill []string) {
				if cond == nil {
					return
				}
				c := unparen(cond)
				neg := false
				if u, ok := c.(*ast.UnaryExpr); ok && u.Op == token.NOT {
					c, neg = unparen(u.X), true
				}
				if existsObjs[objOf(info, c)] {
					if (i == 0) != neg {
						gen = append(gen, "hit")
					} else {
						kill = append(kill, "hit")
					}
				}
				return
			}})
		bad, n := "", 0
		// exits only a mode the Add entries never use can reach (a bool parameter they pass as a constant)
		dead := deadUnder(w, fi, constBoolParams(w, fi, addEntries(w)))
		for _, ex := range fl.Exits() {
			if !sol.AtExit(ex).Has("hit") {
				continue
			}
			if dead != nil && dead.AtExit(ex).Has("dead") {
				continue
			}
			n++
			if ex.Ret == nil || len(ex.Ret.Results) == 0 {
				bad = "the hit edge does not return"
				continue
			}
			last := ex.Ret.Results[len(ex.Ret.Results)-1]
			found := false
			ast.Inspect(last, func(x ast.Node) bool {
				if cl, ok := x.(*ast.CompositeLit); ok {
					if tv, ok := info.Types[cl]; ok && isNamedType(tv.Type, modPath, "AlreadyRegisteredError") {
						found = true
					}
				}
				return true
			})
			if !found {
				bad = "on the hit edge " + exprStr(last) + " is returned, which does not contain an AlreadyRegisteredError"
			}
		}
		if n == 0 {
			bad = "finding an existing entry does not lead to an error return (a second registration of the same identity is accepted and overwrites the first)"
		}
		r.Check(bad == "", "R17.2", fi.Name()+"#duplicate-test", fi.Decl.Pos(), true, "an existing (type, key) entry leads to an AlreadyRegisteredError", fi.Name()+": "+bad)

		// the key tested is built from the descriptor being registered
		keyOK := false
		for _, kc := range keyConsIn(w, info, fi.Decl.Body) {
			if kc.typ == "TypeKey" && kc.f["Type"].sel == "Type" && kc.f["Key"].sel == "Key" && kc.f["Type"].baseStr != "" && kc.f["Type"].baseStr == kc.f["Key"].baseStr {
				keyOK = true
			}
		}
		r.Check(keyOK, "R17.2", fi.Name()+"#tested-key", fi.Decl.Pos(), false, "the tested key is TypeKey{descriptor.Type, descriptor.Key}", "the duplicate test does not use TypeKey{Type, Key} of the descriptor being registered")
	}
	// insertion sites
	for _, ins := range uniqueFuncs(rg.insert) {
		r.Analysed(ins)
		sig := ins.Obj.Type().(*types.Signature)
		if sig.Results().Len() > 0 {
			// test and store in one function
			checkInlineDuplicateTest(w, r, rg, ins)
			continue
		}
		// infallible insert helper: every call site dominated by a successful check
		callers := w.Callers()[ins]
		if len(callers) == 0 {
			r.Fail("R17.2", ins.Name()+"#callers", ins.Decl.Pos(), "insert helper has no callers")
		}
		var cs []*FuncInfo
		for c := range callers {
			cs = append(cs, c)
		}
		sort.Slice(cs, func(i, j int) bool { return posLess(cs[i].Decl.Pos(), cs[j].Decl.Pos()) })
		for _, caller := range cs {
			checkInsertCallSites(w, r, rg, ins, caller)
		}
	}

	// ---- R17.3
	for _, fi := range writers {
		info := fi.Pkg.TypesInfo
		ast.Inspect(fi.Decl.Body, func(x ast.Node) bool {
			as, ok := x.(*ast.AssignStmt)
			if !ok || len(as.Lhs) != 1 || len(as.Rhs) != 1 {
				return true
			}
			ix, ok := unparen(as.Lhs[0]).(*ast.IndexExpr)
			if !ok || fieldOf(info, ix.X) != rg.groups {
				return true
			}
			c, isC := resolveLocal(info, fi.Decl.Body, as.Rhs[0], 2).(*ast.CallExpr)
			good := isC && exprStr(c.Fun) == "append" && len(c.Args) == 2 && exprStr(c.Args[0]) == exprStr(as.Lhs[0]) && !c.Ellipsis.IsValid()
			r.Check(good, "R17.3", fi.Name()+"#group-append", as.Pos(), false,
				"a member is appended at the end of its group (call order is kept)",
				"the group slice is assigned "+exprStr(as.Rhs[0])+" instead of append(group, member): call order of members is not kept")
			return true
		})
	}

	// ---- R17.4
	checkAtomicRejection(w, r, rg)

	// ---- R17.5
	checkSnapshot(w, r, rg)

	// ---- R17.6
	for _, q := range []struct {
		fn   string
		view *types.Var
	}{{"(*collection).Contains", rg.services}, {"(*collection).ContainsKeyed", rg.services}, {"(*collection).Count", rg.all}, {"(*collection).ToSlice", rg.all}, {"<build>", rg.all}} {
		var fi *FuncInfo
		if q.fn == "<build>" {
			fi = resolveRoles(w).doBuild
		} else {
			fi = w.MustFn(w.Godi, q.fn)
		}
		reads := false
		for _, g := range w.Within(fi, 2) { // the query itself or a private helper it shares (hasService)
			ast.Inspect(g.Decl.Body, func(x ast.Node) bool {
				if sel, ok := x.(*ast.SelectorExpr); ok && fieldOf(g.Pkg.TypesInfo, sel) == q.view {
					reads = true
				}
				return true
			})
		}
		r.Check(reads, "R17.6", q.fn+"#reads:"+q.view.Name(), fi.Decl.Pos(), false, q.fn+" answers from "+q.view.Name(), q.fn+" no longer reads "+q.view.Name())
	}
	{
		fi := w.MustFn(w.Godi, "(*collection).addService")
		info := fi.Pkg.TypesInfo
		fl := w.FlowOf(fi)
		writers := map[*types.Func]bool{}
		for f := range rg.viewWriters {
			writers[f.Obj] = true
		}
		bad := ""
		n := 0
		fl.Solve(Spec{Must: true, Global: globalPrefixes("validated:"),
			Node: func(nd ast.Node, in Facts) (gen, kill []string) {
				for _, c := range callsIn(nd, false) {
					if cal := callee(info, c); cal != nil && cal.Name() == "Validate" {
						if rn := recvNamed(cal); rn != nil {
							gen = append(gen, "validated:"+rn.Obj().Name())
						}
					}
				}
				return
			},
			Observe: func(sub *Flow, nd ast.Node, before Facts) {
				for _, c := range callsIn(nd, false) {
					if cal := callee(info, c); cal != nil && writers[cal] {
						n++
						if !before.Has("validated:Descriptor") || !before.Has("validated:addOptions") {
							bad = "the registry write at " + w.Pos(c.Pos()) + " is reachable without descriptor and option validation having run"
						}
					}
				}
				if len(rg.viewWrites(info, nd)) > 0 {
					n++
					if !before.Has("validated:Descriptor") || !before.Has("validated:addOptions") {
						bad = "the registry write at " + w.Pos(nd.Pos()) + " is reachable without descriptor and option validation having run"
					}
				}
			}})
		if n == 0 {
			bad = "addService never reaches a function that writes the registry"
		}
		r.Check(bad == "", "R17.6", fi.Name()+"#validate-first", fi.Decl.Pos(), true, "descriptor.Validate() and options.Validate() dominate every registry write reached from addService", bad)
	}

	// ---- R17.7
	sub := NewReport(r.Prop, r.Tier, w)
	for _, id := range []string{"R09.1", "R09.1u"} {
		sub.Rule(id, 0, "")
	}
	checkDiscipline(w, sub, la, func(ss sharedStruct) bool { return ss.name == "collection" })
	for _, o := range sub.Obs {
		o.Rule = "R17.7"
		r.Obs = append(r.Obs, o)
	}
}

func namedOfStruct(w *World, name string) *types.Named {
	n, _ := w.Struct(w.Godi, name)
	return n
}

func isMapOfTypeKey(info *types.Info, e ast.Expr) bool {
	tv, ok := info.Types[e]
	if !ok {
		return false
	}
	m, ok := tv.Type.Underlying().(*types.Map)
	return ok && isNamedType(m.Key(), modPath, "TypeKey")
}

func uniqueFuncs(fs []*FuncInfo) []*FuncInfo {
	seen := map[*FuncInfo]bool{}
	var out []*FuncInfo
	for _, f := range fs {
		if !seen[f] {
			seen[f] = true
			out = append(out, f)
		}
	}
	return out
}

// checkInlineDuplicateTest: the store into services is dominated by a miss of the lookup on the same key.
func checkInlineDuplicateTest(w *World, r *Report, rg *registry, fi *FuncInfo) {
	info := fi.Pkg.TypesInfo
	fl := w.FlowOf(fi)
	exists := map[types.Object]string{}
	ast.Inspect(fi.Decl.Body, func(x ast.Node) bool {
		if as, ok := x.(*ast.AssignStmt); ok && len(as.Lhs) == 2 && len(as.Rhs) == 1 {
			if ix, ok := unparen(as.Rhs[0]).(*ast.IndexExpr); ok && fieldOf(info, ix.X) == rg.services {
				exists[objOf(info, as.Lhs[1])] = exprStr(ix.Index)
			}
		}
		return true
	})
	sol := fl.Solve(Spec{Must: true, Edge: func(b *cfg.Block, i int, cond ast.Expr, in Facts) (gen, kill []string) {
		if cond == nil {
			return
		}
		c := unparen(cond)
		neg := false
		if u, ok := c.(*ast.UnaryExpr); ok && u.Op == token.NOT {
			c, neg = unparen(u.X), true
		}
		if k, ok := exists[objOf(info, c)]; ok && (i == 1) != neg {
			gen = append(gen, "miss:"+k)
		}
		return
	}})
	for _, n := range fl.Nodes() {
		as, ok := n.(*ast.AssignStmt)
		if !ok {
			continue
		}
		for _, l := range as.Lhs {
			if ix, ok := unparen(l).(*ast.IndexExpr); ok && fieldOf(info, ix.X) == rg.services {
				r.Check(sol.Before[n].Has("miss:"+exprStr(ix.Index)), "R17.2", fi.Name()+"#store", as.Pos(), true,
					"the store is dominated by a miss of the lookup on the same key",
					"services["+exprStr(ix.Index)+"] is assigned without a preceding miss of the lookup on that key: an existing registration is overwritten silently")
			}
		}
	}
}

// checkInsertCallSites: every call of the infallible insert helper in caller is
// dominated by a successful check of the same descriptor, or of every element
// of the same unmodified batch.
func checkInsertCallSites(w *World, r *Report, rg *registry, ins, caller *FuncInfo) {
	info := caller.Pkg.TypesInfo
	fl := w.FlowOf(caller)
	if rg.check == nil {
		return
	}
	// the argument of a call in the position of the callee's *Descriptor parameter
	descArg := func(fn *FuncInfo, c *ast.CallExpr) ast.Expr {
		k := 0
		for _, f := range fn.Decl.Type.Params.List {
			for _, nm := range f.Names {
				if o := fn.Pkg.TypesInfo.Defs[nm]; o != nil && isNamedType(o.Type(), modPath, "Descriptor") {
					if k < len(c.Args) {
						return c.Args[k]
					}
					return nil
				}
				k++
			}
		}
		if len(c.Args) > 0 {
			return c.Args[0]
		}
		return nil
	}
	// error variables assigned from check(d, ...)
	type chk struct{ arg types.Object }
	errOf := map[types.Object]chk{}
	ast.Inspect(caller.Decl.Body, func(x ast.Node) bool {
		if as, ok := x.(*ast.AssignStmt); ok && len(as.Rhs) == 1 && len(as.Lhs) == 1 {
			if c, ok := unparen(as.Rhs[0]).(*ast.CallExpr); ok && callee(info, c) == rg.check.Obj && len(c.Args) >= 1 {
				errOf[objOf(info, as.Lhs[0])] = chk{objOf(info, descArg(rg.check, c))}
			}
		}
		return true
	})
	// checking loops: range over S, body starts with `if err := check(elem,...); err != nil { return ... }`, no break/continue
	checkLoops := map[ast.Stmt]types.Object{}
	loopFlag := map[ast.Stmt]types.Object{} // checking loop -> the flag its failed checks raise instead of returning
	okContinues := map[*ast.BranchStmt]bool{}
	ast.Inspect(caller.Decl.Body, func(x ast.Node) bool {
		rs, ok := x.(*ast.RangeStmt)
		if !ok || rs.Value == nil {
			return true
		}
		s := objOf(info, rs.X)
		elem := objOf(info, rs.Value)
		if s == nil || elem == nil {
			return true
		}
		good := false
		for _, st := range rs.Body.List {
			ifs, ok := st.(*ast.IfStmt)
			if !ok || ifs.Init == nil {
				continue
			}
			as, ok := ifs.Init.(*ast.AssignStmt)
			if !ok || len(as.Rhs) != 1 {
				continue
			}
			c, ok := unparen(as.Rhs[0]).(*ast.CallExpr)
			if !ok || callee(info, c) != rg.check.Obj || len(c.Args) < 1 || objOf(info, descArg(rg.check, c)) != elem {
				continue
			}
			// error branch returns - or raises a flag and goes on to the next element (the flag is
			// then tested after the loop: `if taken { return nil }`)
			if ok, flags, conts := errBranchOutcome(info, ifs.Body); ok && len(flags) <= 1 {
				good = true
				for _, c := range conts {
					okContinues[c] = true
				}
				if len(flags) == 1 && flagOnlyRaisedIn(info, caller.Decl.Body, flags[0], ifs.Body) {
					loopFlag[rs] = flags[0]
				} else if len(flags) == 1 {
					good = false
				}
			}
		}
		inspectNoLit(rs.Body, func(m ast.Node) bool {
			if b, ok := m.(*ast.BranchStmt); ok && (b.Tok == token.BREAK || b.Tok == token.CONTINUE || b.Tok == token.GOTO) && !okContinues[b] {
				good = false
			}
			return true
		})
		if good {
			checkLoops[rs] = s
		}
		return true
	})
	sol := fl.Solve(Spec{Must: true,
		Node: func(n ast.Node, in Facts) (gen, kill []string) {
			if as, ok := n.(*ast.AssignStmt); ok {
				for _, l := range as.Lhs {
					if o := objOf(info, l); o != nil {
						kill = append(kill, "allchecked:"+o.Name(), "checked:"+o.Name())
						for k := range in {
							if strings.HasPrefix(k, "unless:") && (strings.HasSuffix(k, "|"+o.Name()) || strings.HasPrefix(k, "unless:"+o.Name()+"|")) {
								kill = append(kill, k)
							}
						}
					}
				}
			}
			return
		},
		Edge: func(b *cfg.Block, i int, cond ast.Expr, in Facts) (gen, kill []string) {
			if b.Kind == cfg.KindRangeLoop && i == 1 {
				if s, ok := checkLoops[b.Stmt]; ok {
					if fl := loopFlag[b.Stmt]; fl != nil {
						gen = append(gen, "unless:"+s.Name()+"|"+fl.Name())
					} else {
						gen = append(gen, "allchecked:"+s.Name())
					}
				}
			}
			// the flag of a checking loop is down: every element passed
			if cond != nil && (i == 0 || i == 1) {
				c, neg := unparen(cond), false
				if u, ok := c.(*ast.UnaryExpr); ok && u.Op == token.NOT {
					c, neg = unparen(u.X), true
				}
				if id, ok := c.(*ast.Ident); ok {
					if o := info.Uses[id]; o != nil && ((i == 0) != neg) == false {
						for k := range in {
							if strings.HasPrefix(k, "unless:") && strings.HasSuffix(k, "|"+o.Name()) {
								gen = append(gen, "allchecked:"+strings.TrimSuffix(strings.TrimPrefix(k, "unless:"), "|"+o.Name()))
							}
						}
					}
				}
			}
			if be, ok := unparen(cond).(*ast.BinaryExpr); cond != nil && ok && (be.Op == token.NEQ || be.Op == token.EQL) {
				var o types.Object
				if isNilIdent(info, be.Y) {
					o = objOf(info, be.X)
				} else if isNilIdent(info, be.X) {
					o = objOf(info, be.Y)
				}
				if c, ok := errOf[o]; ok && c.arg != nil {
					passed := (be.Op == token.EQL) == (i == 0)
					if passed {
						gen = append(gen, "checked:"+c.arg.Name())
					}
				}
			}
			return
		}})
	n := 0
	for _, nd := range fl.Nodes() {
		for _, c := range callsIn(nd, false) {
			if callee(info, c) != ins.Obj || len(c.Args) < 1 {
				continue
			}
			n++
			con := fmt.Sprintf("%s#insert-call/%d", caller.Name(), n)
			arg := objOf(info, descArg(ins, c))
			bf := sol.Before[nd]
			good := arg != nil && bf.Has("checked:"+arg.Name())
			how := "dominated by a successful duplicate/reserved check of the same descriptor"
			if !good {
				// batch idiom: the call is in a range over S and allchecked:S holds at the loop
				ast.Inspect(caller.Decl.Body, func(x ast.Node) bool {
					if rs, ok := x.(*ast.RangeStmt); ok && rs.Value != nil && objOf(info, rs.Value) == arg && isInside(c, rs.Body) {
						if s := objOf(info, rs.X); s != nil && sol.Before[rs.X].Has("allchecked:"+s.Name()) {
							good = true
							how = "inside a loop over " + s.Name() + ", every element of which passed the check in a preceding loop over the same, unmodified slice"
						}
					}
					return true
				})
			}
			r.Check(good, "R17.2", con, c.Pos(), true, "the infallible insert is "+how,
				"the insert step is reached without the duplicate/reserved check having succeeded for "+exprStr(descArg(ins, c))+" on every path")
		}
	}
}

// checkAtomicRejection: R17.4.
func checkAtomicRejection(w *World, r *Report, rg *registry) {
	add := w.MustFn(w.Godi, "(*collection).addService")
	funcs := w.HelperClosure(map[*FuncInfo]string{add: "addService"})
	// … and everything addService reaches (a chain shared with another entry point is
	// not a private helper of addService, but it is still the code a registration runs)
	for f := range reachableFrom(w, []*FuncInfo{add}) {
		if _, ok := funcs[f]; !ok {
			funcs[f] = "reached from addService"
		}
	}
	var fis []*FuncInfo
	for f := range funcs {
		if f.Pkg == w.Godi && recvNamed(f.Obj) != nil && recvNamed(f.Obj).Obj().Name() == "collection" {
			fis = append(fis, f)
		}
	}
	sort.Slice(fis, func(i, j int) bool { return posLess(fis[i].Decl.Pos(), fis[j].Decl.Pos()) })
	// which functions write views (transitively), and which are atomic registrars
	writes := map[*types.Func]map[string]bool{}
	for f, ws := range rg.viewWriters {
		writes[f.Obj] = ws
	}
	for changed := true; changed; {
		changed = false
		for _, f := range fis {
			for _, c := range callsIn(f.Decl.Body, true) {
				if cal := callee(f.Pkg.TypesInfo, c); cal != nil && writes[cal] != nil && cal != f.Obj {
					if writes[f.Obj] == nil {
						writes[f.Obj] = map[string]bool{}
					}
					for v := range writes[cal] {
						if !writes[f.Obj][v] {
							writes[f.Obj][v] = true
							changed = true
						}
					}
				}
			}
		}
	}
	returnsErr := func(f *types.Func) bool {
		sig := f.Type().(*types.Signature)
		return sig.Results().Len() > 0 && isErrorType(sig.Results().At(sig.Results().Len()-1).Type())
	}
	isRemover := func(f *types.Func) bool {
		fi := w.Decls[f]
		if fi == nil {
			return false
		}
		rem := false
		ast.Inspect(fi.Decl.Body, func(x ast.Node) bool {
			if c, ok := x.(*ast.CallExpr); ok {
				if id, ok := unparen(c.Fun).(*ast.Ident); ok && id.Name == "delete" {
					rem = true
				}
			}
			return true
		})
		return rem
	}
	for _, fi := range fis {
		if writes[fi.Obj] == nil {
			continue
		}
		r.Analysed(fi)
		info := fi.Pkg.TypesInfo
		fl := w.FlowOf(fi)
		errSrc := map[types.Object]bool{} // err vars assigned from fallible registrar calls
		ast.Inspect(fi.Decl.Body, func(x ast.Node) bool {
			if as, ok := x.(*ast.AssignStmt); ok && len(as.Rhs) == 1 && len(as.Lhs) == 1 {
				if c, ok := unparen(as.Rhs[0]).(*ast.CallExpr); ok {
					if cal := callee(info, c); cal != nil && writes[cal] != nil && returnsErr(cal) {
						errSrc[objOf(info, as.Lhs[0])] = true
					}
				}
			}
			return true
		})
		may := fl.Solve(Spec{Must: false,
			Node: func(n ast.Node, in Facts) (gen, kill []string) {
				for _, v := range rg.viewWrites(info, n) {
					gen = append(gen, "mut:"+v)
				}
				if ret, isRet := n.(*ast.ReturnStmt); isRet {
					_ = ret
					return // a registrar called in the return expression is that return's own outcome
				}
				for _, c := range callsIn(n, false) {
					cal := callee(info, c)
					if cal == nil || writes[cal] == nil {
						continue
					}
					if isRemover(cal) {
						for v := range writes[cal] {
							gen = append(gen, "undo:"+v)
						}
						continue
					}
					if returnsErr(cal) {
						// atomic registrar (its own exits are checked): mutated only if it succeeded
						if as, ok := n.(*ast.AssignStmt); ok && len(as.Lhs) == 1 {
							if o := objOf(info, as.Lhs[0]); o != nil {
								gen = append(gen, "pending:"+o.Name())
								continue
							}
						}
					}
					for v := range writes[cal] {
						gen = append(gen, "mut:"+v)
					}
				}
				return
			},
			Edge: func(b *cfg.Block, i int, cond ast.Expr, in Facts) (gen, kill []string) {
				be, ok := unparen(cond).(*ast.BinaryExpr)
				if cond == nil || !ok || (be.Op != token.NEQ && be.Op != token.EQL) {
					return
				}
				var o types.Object
				if isNilIdent(info, be.Y) {
					o = objOf(info, be.X)
				} else if isNilIdent(info, be.X) {
					o = objOf(info, be.Y)
				}
				if o == nil || !errSrc[o] || !in.Has("pending:"+o.Name()) {
					return
				}
				failed := (be.Op == token.NEQ) == (i == 0)
				kill = append(kill, "pending:"+o.Name())
				if !failed {
					gen = append(gen, "mut:registrar")
				}
				return
			}})
		n := 0
		for _, ex := range fl.Exits() {
			if ex.Ret == nil || len(ex.Ret.Results) == 0 {
				continue
			}
			last := ex.Ret.Results[len(ex.Ret.Results)-1]
			if !isErrorType(info.TypeOf(last)) && !implementsError(info.TypeOf(last)) || isNilIdent(info, last) {
				continue
			}
			// a return of a registrar call's own result is that registrar's business
			if c, ok := unparen(last).(*ast.CallExpr); ok {
				if cal := callee(info, c); cal != nil && writes[cal] != nil {
					continue
				}
			}
			at := may.Before[ex.Ret]
			var muts, undone []string
			for k := range at {
				if strings.HasPrefix(k, "mut:") {
					muts = append(muts, k[4:])
				}
			}
			sort.Strings(muts)
			if len(muts) == 0 {
				continue
			}
			n++
			con := fmt.Sprintf("%s#error-after-write/%d", fi.Name(), n)
			missing := []string{}
			for _, v := range muts {
				if v == "registrar" {
					v = "services/groups/allDescriptors"
				}
				if at.Has("undo:" + v) {
					undone = append(undone, v)
				} else {
					missing = append(missing, v)
				}
			}
			// a rollback must cover every view the insert path writes
			if len(undone) > 0 {
				want := []string{"services", "groups", "allDescriptors"}
				missing = missing[:0]
				for _, v := range want {
					if !at.Has("undo:" + v) {
						missing = append(missing, v)
					}
				}
			}
			if len(missing) == 0 {
				r.OK("R17.4", con, ex.Pos, true, "every view written before this error exit is undone")
			} else {
				r.Fail("R17.4", con, ex.Pos, "an error can be returned here after the registry was already written (%v) and %v is not undone: a rejected registration leaves part of itself behind", muts, missing)
			}
		}
		if n == 0 {
			r.OK("R17.4", fi.Name()+"#error-after-write/0", fi.Decl.Pos(), true, "no error exit is reachable after a write to the registry: the commit step cannot fail")
		}
	}
}

// checkSnapshot: R17.5.
func checkSnapshot(w *World, r *Report, rg *registry) {
	ro := resolveRoles(w)
	fi := ro.allocProvider
	info := fi.Pkg.TypesInfo
	_, st := w.Struct(w.Godi, "provider")
	isContainer := func(v *types.Var) bool {
		switch v.Type().Underlying().(type) {
		case *types.Map, *types.Slice:
			return true
		}
		return false
	}
	fresh := func(e ast.Expr) (bool, string) {
		e = unparen(e)
		if c, ok := e.(*ast.CallExpr); ok {
			if id, ok := unparen(c.Fun).(*ast.Ident); ok && (id.Name == "make" || id.Name == "append") {
				if id.Name == "append" && len(c.Args) > 0 {
					if fv := fieldOf(info, c.Args[0]); fv != nil && ownerOfField(w, fv) == "provider" {
						return true, "append to the provider's own list"
					}
					return fresh2(info, fi, c.Args[0])
				}
				return true, "make"
			}
		}
		return fresh2(info, fi, e)
	}
	n := 0
	report := func(field string, val ast.Expr, pos token.Pos) {
		n++
		ok, why := fresh(val)
		con := fmt.Sprintf("%s#provider.%s", fi.Name(), field)
		r.Check(ok, "R17.5", con, pos, true, "provider."+field+" receives a fresh container ("+why+")",
			"provider."+field+" is given "+exprStr(val)+" ("+why+"): the provider shares this container with the collection, so later Add/Remove calls change (and race with) a provider that is already built")
	}
	ast.Inspect(fi.Decl.Body, func(x ast.Node) bool {
		switch s := x.(type) {
		case *ast.CompositeLit:
			if tv, ok := info.Types[s]; ok && isNamedType(tv.Type, modPath, "provider") {
				for name, val := range compositeFields(s) {
					for i := 0; i < st.NumFields(); i++ {
						if st.Field(i).Name() == name && isContainer(st.Field(i)) {
							report(name, val, val.Pos())
						}
					}
				}
			}
		case *ast.AssignStmt:
			for i, l := range s.Lhs {
				if fv := fieldOf(info, l); fv != nil && ownerOfField(w, fv) == "provider" && isContainer(fv) && i < len(s.Rhs) {
					report(fv.Name(), s.Rhs[i], s.Pos())
				}
			}
		}
		return true
	})
	if n < 2 {
		r.Fail("R17.5", fi.Name()+"#provider-containers", fi.Decl.Pos(), "expected the provider's services and groups to be set in doBuild")
	}
}

// fresh2: e is a local whose every definition is a make(...) call (or a call
// that returns a fresh container: a private helper whose result at that position
// is fresh, maps.Clone / slices.Clone), or itself such a call.
func fresh2(info *types.Info, fi *FuncInfo, e ast.Expr) (bool, string) {
	return freshDepth(info, fi, e, 2)
}

// freshCall: the idx-th result of call c is a fresh container.
func freshCall(info *types.Info, c *ast.CallExpr, idx int, depth int) (bool, string) {
	if id, ok := unparen(c.Fun).(*ast.Ident); ok && id.Name == "make" {
		return true, "make"
	}
	cal := callee(info, c)
	if isFunc(cal, "maps", "", "Clone") || isFunc(cal, "slices", "", "Clone") {
		// a clone is one level deep: the per-key slices of a map of slices stay shared
		// unless the function goes on to copy them (m[k] = slices.Clone(v) / append(…))
		if len(c.Args) == 1 {
			if m, isMap := info.TypeOf(c.Args[0]).Underlying().(*types.Map); isMap {
				switch m.Elem().Underlying().(type) {
				case *types.Slice, *types.Map:
					if !copiesElements(info, c) {
						return false, "maps.Clone copies the table only: the per-key " + m.Elem().String() + " values are still the collection's (an append to a group writes into the backing array the clone shares)"
					}
				}
			}
		}
		return true, cal.Name()
	}
	if cal == nil || depth == 0 || theWorld == nil {
		return false, ""
	}
	t := theWorld.Decls[cal]
	if t == nil || cal.Exported() {
		return false, ""
	}
	okAll, any := true, false
	ast.Inspect(t.Decl.Body, func(x ast.Node) bool {
		if _, isLit := x.(*ast.FuncLit); isLit {
			return false
		}
		if ret, ok := x.(*ast.ReturnStmt); ok {
			any = true
			if idx >= len(ret.Results) {
				okAll = false
				return true
			}
			if ok, _ := freshDepth(t.Pkg.TypesInfo, t, ret.Results[idx], depth-1); !ok {
				okAll = false
			}
		}
		return true
	})
	if okAll && any {
		return true, "built by " + t.Name()
	}
	return false, ""
}

// copiesElements: the function containing the shallow clone c re-assigns the
// elements with copies (m[k] = slices.Clone(v), m[k] = append(make(…), v...)).
func copiesElements(info *types.Info, c *ast.CallExpr) bool {
	if theWorld == nil {
		return false
	}
	fi := theWorld.FuncAt(c.Pos())
	if fi == nil {
		return false
	}
	found := false
	ast.Inspect(fi.Decl.Body, func(x ast.Node) bool {
		as, ok := x.(*ast.AssignStmt)
		if !ok || len(as.Lhs) != 1 || len(as.Rhs) != 1 {
			return true
		}
		if _, isIx := unparen(as.Lhs[0]).(*ast.IndexExpr); !isIx {
			return true
		}
		if rc, isC := unparen(as.Rhs[0]).(*ast.CallExpr); isC {
			if cal := callee(info, rc); isFunc(cal, "slices", "", "Clone") || isFunc(cal, "maps", "", "Clone") {
				found = true
			}
			if id, isId := unparen(rc.Fun).(*ast.Ident); isId && id.Name == "append" {
				found = true
			}
		}
		return true
	})
	return found
}

func freshDepth(info *types.Info, fi *FuncInfo, e ast.Expr, depth int) (bool, string) {
	e = unparen(e)
	if fv := fieldOf(info, e); fv != nil {
		return false, "a field of " + exprStr(selBase(e))
	}
	if c, ok := e.(*ast.CallExpr); ok {
		if ok, why := freshCall(info, c, 0, depth); ok {
			return true, why
		}
	}
	o := objOf(info, e)
	if o == nil {
		if isNilIdent(info, e) {
			return true, "nil"
		}
		return false, "not a fresh container"
	}
	allMake, any := true, false
	why := ""
	ast.Inspect(fi.Decl.Body, func(x ast.Node) bool {
		as, ok := x.(*ast.AssignStmt)
		if !ok {
			return true
		}
		if len(as.Lhs) != len(as.Rhs) {
			// v1, v2 := helper()
			if len(as.Rhs) == 1 {
				if c, isC := unparen(as.Rhs[0]).(*ast.CallExpr); isC {
					for i, l := range as.Lhs {
						if objOf(info, l) != o {
							continue
						}
						any = true
						if ok, _ := freshCall(info, c, i, depth); !ok {
							allMake = false
							why = "local " + o.Name() + " is assigned result " + fmt.Sprint(i) + " of " + exprStr(c.Fun)
						}
					}
				}
			}
			return true
		}
		for i, l := range as.Lhs {
			if objOf(info, l) != o {
				continue
			}
			any = true
			rhs := unparen(as.Rhs[i])
			c, isC := rhs.(*ast.CallExpr)
			if isC {
				if ok, _ := freshCall(info, c, 0, depth); ok {
					continue
				}
				if id, ok := unparen(c.Fun).(*ast.Ident); ok && id.Name == "append" && len(c.Args) > 0 && objOf(info, c.Args[0]) == o {
					continue
				}
			}
			allMake = false
			why = "local " + o.Name() + " is assigned " + exprStr(rhs)
		}
		return true
	})
	if any && allMake {
		// a fresh table of slices (or maps) is a snapshot only if what is put into it is fresh too:
		// m[k] = v with v taken as it is from the table being copied shares v's backing array
		if m, isMap := o.Type().Underlying().(*types.Map); isMap {
			switch m.Elem().Underlying().(type) {
			case *types.Slice, *types.Map:
				shared := ""
				ast.Inspect(fi.Decl.Body, func(x ast.Node) bool {
					as, ok := x.(*ast.AssignStmt)
					if !ok || len(as.Lhs) != 1 || len(as.Rhs) != 1 {
						return true
					}
					ix, isIx := unparen(as.Lhs[0]).(*ast.IndexExpr)
					if !isIx || objOf(info, ix.X) != o {
						return true
					}
					if _, isCall := unparen(as.Rhs[0]).(*ast.CallExpr); !isCall {
						if _, isLit := unparen(as.Rhs[0]).(*ast.CompositeLit); !isLit {
							// a local that was itself made for this key (members := make(…); copy(members, v))
							if ro := objOf(info, as.Rhs[0]); ro != nil && ro != o && depth > 0 {
								if ok, _ := freshDepth(info, fi, as.Rhs[0], depth-1); ok {
									return true
								}
							}
							shared = exprStr(as.Lhs[0]) + " = " + exprStr(as.Rhs[0])
						}
					}
					return true
				})
				if shared != "" {
					return false, "the table " + o.Name() + " is new but it is filled with the values of the table it copies (" + shared + "): the per-key " + m.Elem().String() + " values are still the collection's"
				}
			}
		}
		return true, "local " + o.Name() + " built with make"
	}
	if !any {
		return false, o.Name() + " is not a local container"
	}
	return false, why
}
