package main

import (
	"go/ast"
	"go/token"
	"go/types"
)

// ---------------------------------------------------------------------------
// Rules added for defect D20/D21: the interplay of the context watchers with
// the cascade of Close.

// derivesChildContext: some CreateScope of the scope type derives the child's
// context from the parent scope's own context field (the nil edge of C18).
func derivesChildContext(w *World) bool {
	fi := w.Fn(w.Godi, "(*scope).CreateScope")
	if fi == nil {
		return true // cannot tell: assume it does
	}
	found := false
	for _, f := range w.Within(fi, 2) {
		info := f.Pkg.TypesInfo
		ast.Inspect(f.Decl.Body, func(n ast.Node) bool {
			if sel, ok := n.(*ast.SelectorExpr); ok {
				if fv := fieldOf(info, sel); fv != nil && isNamedType(fv.Type(), "context", "Context") && fieldOfStruct(fv, "scope", w) {
					found = true
				}
			}
			return true
		})
	}
	return found
}

// fieldOfStruct reports whether field fv belongs to struct <name> of the root package.
func fieldOfStruct(fv *types.Var, name string, w *World) bool {
	_, st := w.Struct(w.Godi, name)
	if st == nil {
		return false
	}
	for i := 0; i < st.NumFields(); i++ {
		if st.Field(i) == fv {
			return true
		}
	}
	return false
}

// ruleCancelAfterCascade: a child's context may be derived from its parent's
// (CreateScope(nil)), and each scope has a watcher that closes it when its
// context is done. A Close that cancels the scope's own context before its
// cascade over the children has finished wakes every such child's watcher:
// the watcher wins the child's gate, the cascade's child.Close() returns nil at
// once, and the parent disposes its own instances while the child is still
// disposing - and the child's errors reach nobody.
func ruleCancelAfterCascade(w *World, r *Report, rule string) {
	if !derivesChildContext(w) {
		r.OK(rule, "(*scope).Close#cancel-after-cascade", token.NoPos, true, "no child context is derived from the scope's own context")
		return
	}
	for _, c := range closers(w) {
		if c.owner != "scope" {
			continue
		}
		n := 0
		for _, u := range c.units() {
			info := u.Pkg.TypesInfo
			var sol *Sol
			var fl *Flow
			if u != c.fi {
				fl = w.FlowOf(u)
				sol = c.ca.ev.Solve(fl, true)
			} else {
				fl, sol = c.ca.flow, c.ca.sol
			}
			for _, call := range callsIn(u.Decl.Body, false) {
				fv := fieldOf(info, call.Fun)
				if fv == nil || !isNamedType(fv.Type(), "context", "CancelFunc") {
					continue
				}
				n++
				before := Facts{}
				if node := fl.NodeContaining(call.Pos()); node != nil {
					for k := range sol.Before[node] {
						before[k] = true
					}
				}
				if u != c.fi {
					for k := range c.factsBeforeCallInto(u) {
						before[k] = true
					}
				}
				_, kids := before.HasPrefix("closedall:scope.children:")
				r.Check(kids, rule, c.fi.Name()+"#cancel-after-cascade", call.Pos(), true,
					"the scope's context is cancelled only after every child scope has been closed by the cascade",
					"the scope's own context is cancelled before the cascade over its children has finished: children whose context derives from it (CreateScope(nil)) are closed concurrently by their watcher goroutines, the cascade's child.Close() returns nil at once, the parent disposes its own instances while children are still disposing and the children's errors are lost")
			}
		}
		if n == 0 {
			r.Fail(rule, c.fi.Name()+"#cancel-after-cascade", c.fi.Decl.Pos(), "no call of the stored cancel func found in %s or its helpers", c.fi.Name())
		}
	}
}

// asyncScopeClosers lists the places where a scope's Close is called from a
// goroutine of its own (go statement, context.AfterFunc callback).
func asyncScopeClosers(w *World) []token.Pos {
	var out []token.Pos
	closesScope := func(info *types.Info, body ast.Node) bool {
		found := false
		for _, c := range callsIn(body, true) {
			if _, k, ok := isCloseCall(info, c); ok && k == "scope" {
				found = true
			}
		}
		return found
	}
	for _, fi := range w.FuncsOf(w.Godi) {
		info := fi.Pkg.TypesInfo
		ast.Inspect(fi.Decl.Body, func(n ast.Node) bool {
			switch x := n.(type) {
			case *ast.GoStmt:
				if lit, ok := unparen(x.Call.Fun).(*ast.FuncLit); ok {
					if closesScope(info, lit.Body) {
						out = append(out, x.Pos())
					}
				} else if t := w.Decls[callee(info, x.Call)]; t != nil && t.Decl.Body != nil {
					if cal := callee(info, x.Call); cal.Name() == "Close" || closesScope(t.Pkg.TypesInfo, t.Decl.Body) {
						out = append(out, x.Pos())
					}
				}
			case *ast.CallExpr:
				if cal := callee(info, x); cal != nil && cal.Pkg() != nil && cal.Pkg().Path() == "context" && cal.Name() == "AfterFunc" && len(x.Args) == 2 {
					if lit, ok := unparen(x.Args[1]).(*ast.FuncLit); ok && closesScope(info, lit.Body) {
						out = append(out, x.Pos())
					}
				}
			}
			return true
		})
	}
	return out
}

// blocksOn reports whether node n contains an operation that waits for
// something belonging to the element of the loop (a receive from a channel
// reached through it, a Wait on one of its fields, or a call of one of its
// methods - other than Close - whose body waits).
func blocksOn(w *World, info *types.Info, n ast.Node, isElem func(ast.Expr) bool, depth int) bool {
	found := false
	ast.Inspect(n, func(m ast.Node) bool {
		switch x := m.(type) {
		case *ast.UnaryExpr:
			if x.Op == token.ARROW {
				if id := rootIdent(x.X); id != nil && isElem(id) {
					found = true
				}
				if c, ok := unparen(x.X).(*ast.CallExpr); ok {
					if rcv, _, ok := methodCall(c); ok {
						if id := rootIdent(rcv); id != nil && isElem(id) {
							found = true
						}
					}
				}
			}
		case *ast.CallExpr:
			cal := callee(info, x)
			rcv, name, ok := methodCall(x)
			if !ok || cal == nil {
				return true
			}
			id := rootIdent(rcv)
			if id == nil || !isElem(id) {
				return true
			}
			if name == "Wait" || (name == "Lock" && fieldOf(info, rcv) != nil) {
				found = true
			}
			if t := w.Decls[cal]; t != nil && name != "Close" && depth > 0 && t.Decl.Body != nil {
				// a method of the element that waits on the element's own state
				tinfo := t.Pkg.TypesInfo
				var recvObj types.Object
				if t.Decl.Recv != nil && len(t.Decl.Recv.List[0].Names) == 1 {
					recvObj = tinfo.Defs[t.Decl.Recv.List[0].Names[0]]
				}
				if recvObj != nil && blocksOn(w, tinfo, t.Decl.Body, func(e ast.Expr) bool { return objOf(tinfo, e) == recvObj }, depth-1) {
					found = true
				}
			}
		}
		return !found
	})
	return found
}

// ruleCascadeAwaits: Close's gate makes a second Close return nil at once -
// also while the first one is still disposing. Scopes are closed asynchronously
// by their context watchers, so "child.Close() returned" does not mean "the
// child is disposed" unless the cascade waits for a Close in progress. Without
// that, an owner whose cascade overlaps a watcher (one cancellation wakes the
// watchers of a whole subtree; a provider closed while a request context is
// being cancelled) disposes its own instances - or the singletons - while a
// descendant scope is still disposing, and that scope's errors reach nobody.
func ruleCascadeAwaits(w *World, r *Report, rule string) {
	async := asyncScopeClosers(w)
	for _, c := range closers(w) {
		table := map[string]string{"scope": "children", "provider": "scopes"}[c.owner]
		tf := w.Field(w.Godi, c.owner, table)
		con := c.fi.Name() + "#cascade-awaits:" + table
		var found *closeLoop
		for _, l := range c.scopeLoops() {
			if l.field == tf {
				found = l
			}
		}
		if found == nil {
			r.Undecided(rule, con, c.fi.Decl.Pos(), "no cascade over %s.%s recognised in %s", c.owner, table, c.fi.Name())
			continue
		}
		if len(async) == 0 {
			r.OK(rule, con, found.head(), true, "no scope is closed from a goroutine of its own: a Close that returned has finished")
			continue
		}
		// the loop's element
		var body *ast.BlockStmt
		var elem types.Object
		var info *types.Info
		for _, u := range c.units() {
			if u.Decl.Body.Pos() <= found.head() && found.head() < u.Decl.Body.End() {
				info = u.Pkg.TypesInfo
			}
		}
		if info == nil {
			info = c.fi.Pkg.TypesInfo
		}
		switch s := found.stmt.(type) {
		case *ast.RangeStmt:
			body = s.Body
			if s.Value != nil {
				elem = objOf(info, s.Value)
			} else if s.Key != nil {
				elem = objOf(info, s.Key)
			}
		case *ast.ForStmt:
			body = s.Body
		}
		isElem := func(e ast.Expr) bool {
			if elem != nil {
				return objOf(info, e) == elem
			}
			// index loops: anything rooted at the collection counts
			return found.coll != nil && objOf(info, e) == found.coll
		}
		waits := body != nil && blocksOn(w, info, body, isElem, 2)
		r.Check(waits, rule, con, found.head(), true,
			"the cascade waits for a Close of the element that is already in progress elsewhere",
			"scopes are also closed from goroutines of their own ("+w.Pos(async[0])+"), and a Close that loses the gate returns nil at once: the cascade over "+c.owner+"."+table+" does not wait for a Close in progress, so the owner disposes its own instances"+map[string]string{"scope": "", "provider": " and the singletons"}[c.owner]+" while such a scope is still disposing, and its errors are lost")
	}
}
