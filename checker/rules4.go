package main

import (
	"fmt"
	"go/ast"
	"go/token"
	"go/types"
	"golang.org/x/tools/go/cfg"
	"golang.org/x/tools/go/packages"
	"strings"
)

// ---------------------------------------------------------------------------
// Rules added for defect D20/D21: the interplay of the context watchers with
// the cascade of Close.

// derivesChildContext: some CreateScope of the scope type derives the child's
// context from the parent scope's own context field (the nil edge of C18).
func derivesChildContext(w *World) bool {
	fi := w.Fn(w.Godi, "(*scope).CreateScope")
	if fi == nil {
		return true // cannot tell: assume it does
	}
	found := false
	for _, f := range w.Within(fi, 2) {
		info := f.Pkg.TypesInfo
		ast.Inspect(f.Decl.Body, func(n ast.Node) bool {
			if sel, ok := n.(*ast.SelectorExpr); ok {
				if fv := fieldOf(info, sel); fv != nil && isNamedType(fv.Type(), "context", "Context") && fieldOfStruct(fv, "scope", w) {
					found = true
				}
			}
			return true
		})
	}
	return found
}

// fieldOfStruct reports whether field fv belongs to struct <name> of the root package.
func fieldOfStruct(fv *types.Var, name string, w *World) bool {
	_, st := w.Struct(w.Godi, name)
	if st == nil {
		return false
	}
	for i := 0; i < st.NumFields(); i++ {
		if st.Field(i) == fv {
			return true
		}
	}
	return false
}

// ruleCancelAfterCascade: a child's context may be derived from its parent's
// (CreateScope(nil)), and each scope has a watcher that closes it when its
// context is done. A Close that cancels the scope's own context before its
// cascade over the children has finished wakes every such child's watcher:
// the watcher wins the child's gate, the cascade's child.Close() returns nil at
// once, and the parent disposes its own instances while the child is still
// disposing - and the child's errors reach nobody.
func ruleCancelAfterCascade(w *World, r *Report, rule string) {
	if !derivesChildContext(w) {
		r.OK(rule, "(*scope).Close#cancel-after-cascade", token.NoPos, true, "no child context is derived from the scope's own context")
		return
	}
	for _, c := range closers(w) {
		if c.owner != "scope" {
			continue
		}
		n := 0
		for _, u := range c.units() {
			info := u.Pkg.TypesInfo
			var sol *Sol
			var fl *Flow
			if u != c.fi {
				fl = w.FlowOf(u)
				sol = c.ca.ev.Solve(fl, true)
			} else {
				fl, sol = c.ca.flow, c.ca.sol
			}
			for _, call := range callsIn(u.Decl.Body, false) {
				fv := fieldOf(info, call.Fun)
				if fv == nil || !isNamedType(fv.Type(), "context", "CancelFunc") {
					continue
				}
				n++
				before := Facts{}
				if node := fl.NodeContaining(call.Pos()); node != nil {
					for k := range sol.Before[node] {
						before[k] = true
					}
				}
				if u != c.fi {
					for k := range c.factsBeforeCallInto(u) {
						before[k] = true
					}
				}
				_, kids := before.HasPrefix("closedall:scope.children:")
				r.Check(kids, rule, c.fi.Name()+"#cancel-after-cascade", call.Pos(), true,
					"the scope's context is cancelled only after every child scope has been closed by the cascade",
					"the scope's own context is cancelled before the cascade over its children has finished: children whose context derives from it (CreateScope(nil)) are closed concurrently by their watcher goroutines, the cascade's child.Close() returns nil at once, the parent disposes its own instances while children are still disposing and the children's errors are lost")
			}
		}
		if n == 0 {
			r.Fail(rule, c.fi.Name()+"#cancel-after-cascade", c.fi.Decl.Pos(), "no call of the stored cancel func found in %s or its helpers", c.fi.Name())
		}
	}
}

// asyncScopeClosers lists the places where a scope's Close is called from a
// goroutine of its own (go statement, context.AfterFunc callback).
func asyncScopeClosers(w *World) []token.Pos {
	var out []token.Pos
	closesScope := func(info *types.Info, body ast.Node) bool {
		found := false
		for _, c := range callsIn(body, true) {
			if _, k, ok := isCloseCall(info, c); ok && k == "scope" {
				found = true
			}
		}
		return found
	}
	for _, fi := range w.FuncsOf(w.Godi) {
		info := fi.Pkg.TypesInfo
		ast.Inspect(fi.Decl.Body, func(n ast.Node) bool {
			switch x := n.(type) {
			case *ast.GoStmt:
				if lit, ok := unparen(x.Call.Fun).(*ast.FuncLit); ok {
					if closesScope(info, lit.Body) {
						out = append(out, x.Pos())
					}
				} else if t := w.Decls[callee(info, x.Call)]; t != nil && t.Decl.Body != nil {
					if cal := callee(info, x.Call); cal.Name() == "Close" || closesScope(t.Pkg.TypesInfo, t.Decl.Body) {
						out = append(out, x.Pos())
					}
				}
			case *ast.CallExpr:
				if cal := callee(info, x); cal != nil && cal.Pkg() != nil && cal.Pkg().Path() == "context" && cal.Name() == "AfterFunc" && len(x.Args) == 2 {
					if lit, ok := unparen(x.Args[1]).(*ast.FuncLit); ok && closesScope(info, lit.Body) {
						out = append(out, x.Pos())
					}
				}
			}
			return true
		})
	}
	return out
}

// blocksOn reports whether node n contains an operation that waits for
// something belonging to the element of the loop (a receive from a channel
// reached through it, a Wait on one of its fields, or a call of one of its
// methods - other than Close - whose body waits).
func blocksOn(w *World, info *types.Info, n ast.Node, isElem func(ast.Expr) bool, depth int) bool {
	found := false
	ast.Inspect(n, func(m ast.Node) bool {
		switch x := m.(type) {
		case *ast.UnaryExpr:
			if x.Op == token.ARROW {
				if id := rootIdent(x.X); id != nil && isElem(id) {
					found = true
				}
				if c, ok := unparen(x.X).(*ast.CallExpr); ok {
					if rcv, _, ok := methodCall(c); ok {
						if id := rootIdent(rcv); id != nil && isElem(id) {
							found = true
						}
					}
				}
			}
		case *ast.CallExpr:
			cal := callee(info, x)
			rcv, name, ok := methodCall(x)
			if !ok || cal == nil {
				return true
			}
			id := rootIdent(rcv)
			if id == nil || !isElem(id) {
				return true
			}
			if name == "Wait" || (name == "Lock" && fieldOf(info, rcv) != nil) {
				found = true
			}
			if t := w.Decls[cal]; t != nil && name != "Close" && depth > 0 && t.Decl.Body != nil {
				// a method of the element that waits on the element's own state
				tinfo := t.Pkg.TypesInfo
				var recvObj types.Object
				if t.Decl.Recv != nil && len(t.Decl.Recv.List[0].Names) == 1 {
					recvObj = tinfo.Defs[t.Decl.Recv.List[0].Names[0]]
				}
				if recvObj != nil && blocksOn(w, tinfo, t.Decl.Body, func(e ast.Expr) bool { return objOf(tinfo, e) == recvObj }, depth-1) {
					found = true
				}
			}
		}
		return !found
	})
	return found
}

// ruleCascadeAwaits: Close's gate makes a second Close return nil at once -
// also while the first one is still disposing. Scopes are closed asynchronously
// by their context watchers, so "child.Close() returned" does not mean "the
// child is disposed" unless the cascade waits for a Close in progress. Without
// that, an owner whose cascade overlaps a watcher (one cancellation wakes the
// watchers of a whole subtree; a provider closed while a request context is
// being cancelled) disposes its own instances - or the singletons - while a
// descendant scope is still disposing, and that scope's errors reach nobody.
func ruleCascadeAwaits(w *World, r *Report, rule string) {
	async := asyncScopeClosers(w)
	for _, c := range closers(w) {
		table := map[string]string{"scope": "children", "provider": "scopes"}[c.owner]
		tf := w.Field(w.Godi, c.owner, table)
		con := c.fi.Name() + "#cascade-awaits:" + table
		var found *closeLoop
		for _, l := range c.scopeLoops() {
			if l.field == tf {
				found = l
			}
		}
		if found == nil {
			r.Undecided(rule, con, c.fi.Decl.Pos(), "no cascade over %s.%s recognised in %s", c.owner, table, c.fi.Name())
			continue
		}
		if len(async) == 0 {
			r.OK(rule, con, found.head(), true, "no scope is closed from a goroutine of its own: a Close that returned has finished")
			continue
		}
		// the loop's element
		var body *ast.BlockStmt
		var elem types.Object
		var info *types.Info
		for _, u := range c.units() {
			if u.Decl.Body.Pos() <= found.head() && found.head() < u.Decl.Body.End() {
				info = u.Pkg.TypesInfo
			}
		}
		if info == nil {
			info = c.fi.Pkg.TypesInfo
		}
		switch s := found.stmt.(type) {
		case *ast.RangeStmt:
			body = s.Body
			if s.Value != nil {
				elem = objOf(info, s.Value)
			} else if s.Key != nil {
				elem = objOf(info, s.Key)
			}
		case *ast.ForStmt:
			body = s.Body
		}
		isElem := func(e ast.Expr) bool {
			if elem != nil {
				return objOf(info, e) == elem
			}
			// index loops: anything rooted at the collection counts
			return found.coll != nil && objOf(info, e) == found.coll
		}
		waits := body != nil && blocksOn(w, info, body, isElem, 2)
		r.Check(waits, rule, con, found.head(), true,
			"the cascade waits for a Close of the element that is already in progress elsewhere",
			"scopes are also closed from goroutines of their own ("+w.Pos(async[0])+"), and a Close that loses the gate returns nil at once: the cascade over "+c.owner+"."+table+" does not wait for a Close in progress, so the owner disposes its own instances"+map[string]string{"scope": "", "provider": " and the singletons"}[c.owner]+" while such a scope is still disposing, and its errors are lost")
	}
}

// ruleSetInstanceRefusesClosed: setInstance is the last point at which a
// resolution that overlaps Close can be refused. Every success exit of its
// Scoped and Transient paths - for a Disposable instance and for any other -
// is reached with the scope's disposed flag having been found clear; an
// instance that arrives at a closed scope must yield ErrScopeDisposed, or a
// parameter object with optional fields is handed out half initialised.
func ruleSetInstanceRefusesClosed(w *World, r *Report, rule string) {
	ro := resolveRoles(w)
	fi := ro.setInstance
	r.Analysed(fi)
	d := lifetimeDispatch(w, fi)
	if !d.dispatches() {
		r.Undecided(rule, fi.Name()+"#lifetime-dispatch", fi.Decl.Pos(), "%s does not dispatch on the lifetime", fi.Name())
		return
	}
	flag := w.Field(w.Godi, "scope", "disposed")
	mkSpec := func(info *types.Info, init []string) Spec {
		return Spec{Must: true, Init: init, Global: globalPrefixes("found-"),
			Stop: func(h *FuncInfo) bool { return h == ro.setSingleton || ro.isCreate(h.Obj) || h.Obj.Name() == "Close" },
			Edge: func(b *cfg.Block, i int, cond ast.Expr, in Facts) (gen, kill []string) {
				if cond == nil {
					return
				}
				if dead, ok := disposedTest(info, cond, flag); ok {
					if dead == (i == 0) {
						return []string{"found-closed"}, []string{"found-open"}
					}
					return []string{"found-open"}, []string{"found-closed"}
				}
				return
			}}
	}
	var check func(f *FuncInfo, fl *Flow, init []string, depth int) string
	check = func(f *FuncInfo, fl *Flow, init []string, depth int) string {
		info := f.Pkg.TypesInfo
		sol := fl.Solve(mkSpec(info, init))
		for _, ex := range fl.Exits() {
			if ex.Panic {
				continue
			}
			at := sol.AtExit(ex)
			if ex.Ret == nil || len(ex.Ret.Results) != 1 {
				continue
			}
			res := unparen(ex.Ret.Results[0])
			switch {
			case isNilIdent(info, res):
				if !at.Has("found-open") {
					return "the success exit at " + w.Pos(ex.Pos) + " is reached without the scope having been found open"
				}
			default:
				c, isC := res.(*ast.CallExpr)
				if !isC || depth == 0 {
					continue // an error value
				}
				cal := callee(info, c)
				h := w.Decls[cal]
				if h == nil || cal.Exported() || h == ro.setSingleton {
					continue
				}
				var sub []string
				for k := range at {
					if strings.HasPrefix(k, "found-") {
						sub = append(sub, k)
					}
				}
				if bad := check(h, w.FlowOf(h), sub, depth-1); bad != "" {
					return bad
				}
			}
		}
		return ""
	}
	for _, lt := range []string{"Scoped", "Transient"} {
		bad := check(fi, d.flowFor(w, lt), nil, 2)
		r.Check(bad == "", rule, fi.Name()+"#refuses-closed:"+lt, fi.Decl.Pos(), true,
			"every success exit of the "+lt+" path has found the scope open (after the instance arrived)",
			lt+" path of "+fi.Name()+": "+bad+": an instance that arrives while (or after) Close runs is accepted - the overlapping resolution reports success, and an optional dependency that failed for the same reason is silently left nil")
	}
}

// ruleInstanceTableKeyType: the tables that hold instances (the scope's cache,
// the provider's singleton table) are keyed by a type that carries all three
// identity components of a registration - service type, key and group. Group
// members carry a per-group index as their key, so a table keyed by (type, key)
// alone serves member n of one group for member n of another group of the same
// element type.
func ruleInstanceTableKeyType(w *World, r *Report, rule string) {
	ro := resolveRoles(w)
	full := func(t types.Type) (bool, string) {
		st, ok := derefType(t).Underlying().(*types.Struct)
		if !ok {
			return false, "it is not a struct"
		}
		var hasType, hasKey, hasGroup bool
		for i := 0; i < st.NumFields(); i++ {
			f := st.Field(i)
			switch {
			case isNamedType(f.Type(), "reflect", "Type"):
				hasType = true
			case f.Name() == "Group" || (f.Name() != "Key" && isStringType(f.Type())):
				hasGroup = true
			default:
				if _, isIface := f.Type().Underlying().(*types.Interface); isIface {
					hasKey = true
				}
			}
		}
		var miss []string
		if !hasType {
			miss = append(miss, "the service type")
		}
		if !hasKey {
			miss = append(miss, "the key")
		}
		if !hasGroup {
			miss = append(miss, "the group")
		}
		return len(miss) == 0, "it lacks " + strings.Join(miss, ", ")
	}
	// the scope cache
	if m, ok := ro.cache.Type().Underlying().(*types.Map); ok {
		good, why := full(m.Key())
		r.Check(good, rule, "scope."+ro.cache.Name()+"#key-type", ro.cache.Pos(), false,
			"the scope's instance cache is keyed by service type, key and group",
			"the scope's instance cache is keyed by "+types.TypeString(m.Key(), nil)+": "+why+", so distinct registrations share one cache entry (group members carry a per-group index as key)")
	} else {
		r.Undecided(rule, "scope."+ro.cache.Name()+"#key-type", ro.cache.Pos(), "the scope's instance cache is not a map: its key type is not decided")
	}
	// the singleton table: the key expressions of Load/Store/LoadOrStore/Delete (sync.Map), or the map key type
	if m, ok := ro.singletons.Type().Underlying().(*types.Map); ok {
		good, why := full(m.Key())
		r.Check(good, rule, "provider."+ro.singletons.Name()+"#key-type", ro.singletons.Pos(), false,
			"the singleton table is keyed by service type, key and group",
			"the singleton table is keyed by "+types.TypeString(m.Key(), nil)+": "+why)
		return
	}
	n := 0
	for _, fi := range w.FuncsOf(w.Godi) {
		info := fi.Pkg.TypesInfo
		for _, c := range callsIn(fi.Decl.Body, true) {
			rcv, name, ok := methodCall(c)
			if !ok || fieldOf(info, rcv) != ro.singletons || len(c.Args) == 0 {
				continue
			}
			switch name {
			case "Load", "Store", "LoadOrStore", "LoadAndDelete", "Delete", "CompareAndSwap", "Swap":
			default:
				continue
			}
			n++
			t := info.TypeOf(c.Args[0])
			good, why := full(t)
			r.Check(good, rule, fmt.Sprintf("%s#singleton-key/%d", fi.Name(), n), c.Pos(), false,
				"the singleton table is addressed with service type, key and group",
				"the singleton table is addressed with a "+types.TypeString(t, nil)+": "+why)
		}
	}
	if n == 0 {
		r.Fail(rule, "provider."+ro.singletons.Name()+"#key-type", ro.singletons.Pos(), "no access to the singleton table found")
	}
}

func isStringType(t types.Type) bool {
	b, ok := t.Underlying().(*types.Basic)
	return ok && b.Info()&types.IsString != 0
}

// ruleGroupResolvedPerCall: what GetGroup returns is assembled, in this very
// call, from one resolution per member: on every success exit the result is an
// empty list, or a local list that only ever receives `append(list, x)` with x
// bound by a call that reaches resolve. A list that comes from a field, a
// package variable or a spread of another slice is a memo - transient members
// would be handed out twice.
func ruleGroupResolvedPerCall(w *World, r *Report, rule string) {
	ro := resolveRoles(w)
	top := w.MustFn(w.Godi, "(*scope).GetGroup")
	r.Analysed(top)
	reachesResolve := func(info *types.Info, c *ast.CallExpr) bool {
		cal := callee(info, c)
		t := w.Decls[cal]
		if t == nil {
			return false
		}
		for _, g := range w.Within(t, 2) {
			if g == ro.resolve || g == ro.resolveTop {
				return true
			}
		}
		return false
	}
	var check func(fi *FuncInfo, depth int) string
	check = func(fi *FuncInfo, depth int) string {
		info := fi.Pkg.TypesInfo
		// variables bound by a call that reaches resolve
		fromResolve := map[types.Object]bool{}
		ast.Inspect(fi.Decl.Body, func(x ast.Node) bool {
			if as, ok := x.(*ast.AssignStmt); ok && len(as.Rhs) == 1 {
				if c, ok := unparen(as.Rhs[0]).(*ast.CallExpr); ok && reachesResolve(info, c) && len(as.Lhs) >= 1 {
					fromResolve[objOf(info, as.Lhs[0])] = true
				}
			}
			return true
		})
		okList := func(v types.Object) string {
			bad := ""
			ast.Inspect(fi.Decl.Body, func(x ast.Node) bool {
				switch s := x.(type) {
				case *ast.AssignStmt:
					if len(s.Lhs) != len(s.Rhs) {
						for _, l := range s.Lhs {
							if objOf(info, l) == v {
								bad = "it is bound by " + exprStr(s.Rhs[0])
							}
						}
						return true
					}
					for i, l := range s.Lhs {
						if objOf(info, l) != v {
							continue
						}
						rhs := unparen(s.Rhs[i])
						if cl := litOf(rhs); cl != nil && len(cl.Elts) == 0 {
							continue
						}
						if isNilIdent(info, rhs) {
							continue
						}
						c, isC := rhs.(*ast.CallExpr)
						if !isC {
							bad = "it is assigned " + exprStr(rhs)
							continue
						}
						if id, ok := unparen(c.Fun).(*ast.Ident); ok {
							if b, isB := info.Uses[id].(*types.Builtin); isB {
								switch b.Name() {
								case "make":
									continue
								case "append":
									if objOf(info, c.Args[0]) != v || c.Ellipsis.IsValid() {
										bad = "it receives " + exprStr(rhs)
										continue
									}
									for _, a := range c.Args[1:] {
										if !fromResolve[objOf(info, a)] {
											if cc, ok := unparen(a).(*ast.CallExpr); !ok || !reachesResolve(info, cc) {
												bad = "it receives " + exprStr(a) + ", which is not the result of a resolution made by this call"
											}
										}
									}
									continue
								}
							}
						}
						bad = "it is assigned " + exprStr(rhs)
					}
				case *ast.ValueSpec:
					for i, nm := range s.Names {
						if info.Defs[nm] == v && i < len(s.Values) {
							if cl := litOf(s.Values[i]); cl == nil || len(cl.Elts) != 0 {
								if c, ok := unparen(s.Values[i]).(*ast.CallExpr); !ok || exprStr(c.Fun) != "make" {
									bad = "it is initialised with " + exprStr(s.Values[i])
								}
							}
						}
					}
				}
				return true
			})
			return bad
		}
		fl := w.FlowOf(fi)
		for _, ex := range fl.Exits() {
			if ex.Panic || ex.Ret == nil || len(ex.Ret.Results) != 2 || !isNilIdent(info, ex.Ret.Results[1]) {
				continue
			}
			res := unparen(ex.Ret.Results[0])
			if cl := litOf(res); cl != nil && len(cl.Elts) == 0 {
				continue
			}
			if isNilIdent(info, res) {
				continue
			}
			if v := objOf(info, res); v != nil {
				if _, isVar := v.(*types.Var); isVar && fi.Decl.Body.Pos() <= v.Pos() && v.Pos() < fi.Decl.Body.End() {
					if bad := okList(v); bad != "" {
						return "the list " + v.Name() + " returned at " + w.Pos(ex.Pos) + " is not built from this call's resolutions only: " + bad
					}
					continue
				}
			}
			if c, ok := res.(*ast.CallExpr); ok && depth > 0 {
				if t := w.Decls[callee(info, c)]; t != nil && t.Pkg == fi.Pkg {
					if bad := check(t, depth-1); bad != "" {
						return bad
					}
					continue
				}
			}
			return "the success exit at " + w.Pos(ex.Pos) + " returns " + exprStr(res) + ", which is not a list built by this call"
		}
		// a multi-value return of a helper: return s.groupMembers(...)
		for _, ex := range fl.Exits() {
			if ex.Ret != nil && len(ex.Ret.Results) == 1 && depth > 0 {
				if c, ok := unparen(ex.Ret.Results[0]).(*ast.CallExpr); ok {
					if t := w.Decls[callee(info, c)]; t != nil && t.Pkg == fi.Pkg {
						if bad := check(t, depth-1); bad != "" {
							return bad
						}
					}
				}
			}
		}
		return ""
	}
	bad := check(top, 2)
	r.Check(bad == "", rule, top.Name()+"#members-resolved-per-call", top.Decl.Pos(), true,
		"every success exit returns an empty list or a list assembled in this call from one resolution per member",
		top.Name()+": "+bad+": a group answer that is kept between calls hands the same transient members out again")
}

// ruleNoInstanceMapKeys: a service instance is an arbitrary user value - a
// slice-based type with a value-receiver Close, a struct with a slice field. A
// map keyed by an interface type that holds instances (Disposable, any) panics
// with "hash of unhashable type" when such a value is inserted: outside the
// constructor's recover, possibly with a lock held. The container's own key
// types wrap the user's key in a struct together with a reflect.Type and are
// documented to need hashable keys; instances have no such contract.
func ruleNoInstanceMapKeys(w *World, r *Report, rule string) {
	n := 0
	guardedMaps := 0
	keyMaps := 0
	seen := map[string]bool{}
	checkType := func(t types.Type, pos token.Pos, where string) {
		m, ok := t.Underlying().(*types.Map)
		if !ok {
			return
		}
		n++
		k := m.Key()
		if _, isTP := k.(*types.TypeParam); isTP {
			return // a generic helper: judged at its instantiations' field/variable types
		}
		if _, isIface := k.Underlying().(*types.Interface); !isIface || isNamedType(k, "reflect", "Type") {
			return
		}
		key := where + "|" + types.TypeString(t, nil)
		if seen[key] {
			return
		}
		// map[any]…: registration keys are `any` too, and those are hashable by contract. Such a map
		// is about instances only when some key put into it is known to be one (a value that came
		// out of a resolution or a construction, the instance parameter of the storing chain)
		if iface, isI := k.Underlying().(*types.Interface); isI && iface.NumMethods() == 0 {
			if uses, inst := anyKeyInstanceEvidence(w, t); uses > 0 && inst == "" {
				keyMaps++
				return
			}
		}
		// a map of user-supplied keys whose every use tests the key's hashability first
		// (reflect.ValueOf(key).Comparable(), directly or in a predicate) cannot panic
		if uses, unguarded := interfaceKeyUses(w, t); uses > 0 && unguarded == "" {
			guardedMaps++
			return
		}
		seen[key] = true
		r.Fail(rule, where+"#map-key:"+types.TypeString(k, func(p *types.Package) string { return p.Name() }), pos,
			"%s has a map keyed by the interface type %s: inserting a service instance whose dynamic type is unhashable (a slice type with a Close method, a struct with a slice field) panics with \"hash of unhashable type\" - outside the constructor's recover", where, types.TypeString(k, nil))
	}
	for _, p := range []*packages.Package{w.Godi, w.Refl, w.Graph} {
		for e, tv := range p.TypesInfo.Types {
			if tv.IsType() {
				if _, isMapType := e.(*ast.MapType); isMapType {
					where := "package " + p.Types.Name()
					if fi := w.FuncAt(e.Pos()); fi != nil {
						where = fi.Name()
					}
					checkType(tv.Type, e.Pos(), where)
				}
			}
		}
	}
	if n == 0 {
		r.Fail(rule, "maps", token.NoPos, "no map type found in the repository packages")
		return
	}
	if len(seen) == 0 {
		r.OK(rule, "maps#no-interface-keys", token.NoPos, false, "%d map types, none keyed by an interface type that can hold a service instance (%d interface-keyed map(s) whose every use tests the key's hashability first, %d map[any] whose keys are never instances)", n, guardedMaps, keyMaps)
	}
}

// ruleDeletedNodesUnlinked: after a node is deleted from the node table no edge
// list may still name it. Two idioms re-establish that: a sweep over the whole
// edge table that rewrites the lists (RemoveProvider), or a call of the group
// linker, which rebuilds the lists of the group reference nodes - the only
// lists of *other* nodes that an add writes. A rollback that deletes the node it
// added and recomputes only the degrees leaves the group's reference node
// pointing at a member that does not exist: wrong degrees, a bogus "circular
// dependency" from the topological sort.
func ruleDeletedNodesUnlinked(w *World, r *Report, rule string) {
	g := resolveGraph(w)
	linker := groupLinker(w)
	n := 0
	for _, fi := range w.FuncsOf(w.Graph) {
		if !fi.Obj.Exported() || recvNamed(fi.Obj) == nil || recvNamed(fi.Obj).Obj().Name() != "DependencyGraph" {
			continue
		}
		info := fi.Pkg.TypesInfo
		fl := w.FlowOf(fi)
		// edge-table sweeps: loops over g.edges whose body assigns g.edges[k]
		sweep := map[ast.Stmt]bool{}
		for _, f := range w.Within(fi, 2) {
			finfo := f.Pkg.TypesInfo
			for _, il := range iterLoopsIn(finfo, f.Decl.Body) {
				if fieldOf(finfo, il.Coll) != g.edges {
					continue
				}
				// a positional slices.Delete(list, i, i+1) outside any inner loop drops ONE occurrence of
				// the key: a node that lists the deleted node twice keeps a dangling edge
				single := false
				var inner []ast.Node
				ast.Inspect(il.Body, func(x ast.Node) bool {
					if x == nil {
						inner = inner[:len(inner)-1]
						return true
					}
					inner = append(inner, x)
					if c, ok := x.(*ast.CallExpr); ok && isFunc(callee(finfo, c), "slices", "", "Delete") {
						looped := false
						for _, p := range inner[:len(inner)-1] {
							switch p.(type) {
							case *ast.ForStmt, *ast.RangeStmt:
								looped = true
							}
						}
						if !looped {
							single = true
						}
					}
					return true
				})
				ast.Inspect(il.Body, func(x ast.Node) bool {
					if as, ok := x.(*ast.AssignStmt); ok {
						for _, l := range as.Lhs {
							if ix, ok := unparen(l).(*ast.IndexExpr); ok && fieldOf(finfo, ix.X) == g.edges && !single {
								sweep[il.Stmt] = true
							}
						}
					}
					return true
				})
			}
		}
		resets := func(finfo *types.Info, nd ast.Node) bool { // g.nodes = make(...): nothing left to name
			as, ok := nd.(*ast.AssignStmt)
			if !ok {
				return false
			}
			for _, l := range as.Lhs {
				if fieldOf(finfo, l) == g.nodes || fieldOf(finfo, l) == g.edges {
					return true
				}
			}
			return false
		}
		unchanged := noChangeWitness(info, fi.Decl.Body, func(nd ast.Node) bool {
			for _, c := range callsIn(nd, false) {
				if id, ok := unparen(c.Fun).(*ast.Ident); ok && id.Name == "delete" && len(c.Args) == 2 && fieldOf(info, c.Args[0]) == g.nodes {
					return true
				}
				if cal := callee(info, c); cal != nil && w.Decls[cal] != nil && cal != g.updateDegrees.Obj && (linker == nil || cal != linker.Obj) {
					return true // a repository helper may delete
				}
			}
			return false
		})
		spec := Spec{Must: false, Global: globalPrefixes("node-deleted"),
			Stop: func(h *FuncInfo) bool { return h == g.updateDegrees || h == linker },
			Node: func(nd ast.Node, in Facts) (gen, kill []string) {
				finfo := info
				if f := w.FuncAt(nd.Pos()); f != nil {
					finfo = f.Pkg.TypesInfo
				}
				for _, c := range callsIn(nd, false) {
					if id, ok := unparen(c.Fun).(*ast.Ident); ok && id.Name == "delete" && len(c.Args) == 2 && fieldOf(finfo, c.Args[0]) == g.nodes {
						gen = append(gen, "node-deleted")
					}
					if linker != nil && callee(finfo, c) == linker.Obj {
						kill = append(kill, "node-deleted")
					}
				}
				if resets(finfo, nd) {
					kill = append(kill, "node-deleted")
				}
				return
			},
			Edge: func(b *cfg.Block, i int, cond ast.Expr, in Facts) (gen, kill []string) {
				// leaving a sweep over the edge table
				if b.Kind == cfg.KindRangeLoop && i == 1 && sweep[b.Stmt] {
					kill = append(kill, "node-deleted")
				}
				if cond != nil && unchanged(cond, i) {
					kill = append(kill, "node-deleted")
				}
				return
			}}
		sol := fl.Solve(spec)
		deletes := false
		for _, f := range w.Within(fi, 2) {
			if f == linker || f == g.updateDegrees {
				continue
			}
			for _, c := range callsIn(f.Decl.Body, false) {
				if id, ok := unparen(c.Fun).(*ast.Ident); ok && id.Name == "delete" && len(c.Args) == 2 && fieldOf(f.Pkg.TypesInfo, c.Args[0]) == g.nodes {
					deletes = true
				}
			}
		}
		if !deletes {
			continue
		}
		r.Analysed(fi)
		k := 0
		for _, ex := range fl.Exits() {
			if ex.Panic {
				continue
			}
			k++
			n++
			r.Check(!sol.AtExit(ex).Has("node-deleted"), rule, fmt.Sprintf("%s#deleted-node-unlinked/%d", fi.Name(), k), ex.Pos, true,
				"no node is deleted on a path to this exit without the edge lists having been swept or the group links rebuilt afterwards",
				"the exit at "+w.Pos(ex.Pos)+" can be reached after a node was deleted from the node table with neither a sweep of the edge table nor a call of "+nameOrQ(linker)+" after it: a group reference node keeps an edge to the deleted member (wrong degrees; the topological sort reports a cycle that does not exist)")
		}
	}
	if n == 0 {
		r.Fail(rule, "graph#deleted-node-unlinked", token.NoPos, "no exported graph method deletes from the node table")
	}
}

func nameOrQ(fi *FuncInfo) string {
	if fi == nil {
		return "the group linker"
	}
	return fi.Name()
}

// ruleClosedMarkerOnAllPaths: the insertion sites of the tables that hold scopes
// re-check `table != nil` under the table's lock; that only refuses late
// arrivals if Close assigns nil to the table on *every* path past its gate (an
// early return of the draining helper for an empty table leaves an empty,
// non-nil map behind: a CreateScope that overlaps the Close of an idle owner
// succeeds and returns a live scope of a disposed owner).
func ruleClosedMarkerOnAllPaths(w *World, r *Report, rule string) {
	for _, c := range closers(w) {
		table := map[string]string{"scope": "children", "provider": "scopes"}[c.owner]
		// is the table nil-guarded at an insertion site?
		tf := w.Field(w.Godi, c.owner, table)
		guarded := false
		for _, fi := range w.FuncsOf(w.Godi) {
			info := fi.Pkg.TypesInfo
			ast.Inspect(fi.Decl.Body, func(n ast.Node) bool {
				if be, ok := n.(*ast.BinaryExpr); ok && (be.Op == token.EQL || be.Op == token.NEQ) {
					if (fieldOf(info, be.X) == tf && isNilIdent(info, be.Y)) || (fieldOf(info, be.Y) == tf && isNilIdent(info, be.X)) {
						if fi != c.fi {
							guarded = true
						}
					}
				}
				return true
			})
		}
		con := c.fi.Name() + "#closed-marker:" + table
		if !guarded {
			r.OK(rule, con, c.fi.Decl.Pos(), false, "no insertion site relies on %s.%s being nil after Close", c.owner, table)
			continue
		}
		where, ok := c.mustAtWonExits("nil:" + c.owner + "." + table)
		r.Check(ok, rule, con, c.fi.Decl.Pos(), true,
			"Close assigns nil to "+c.owner+"."+table+" on every path past the gate: the insertion sites' `!= nil` re-check sees every closed owner",
			"the exit at "+where+" is reached past the gate without "+c.owner+"."+table+" having been set to nil, but the insertion sites take `"+table+" != nil` as \"the owner is open\": a scope created while an owner without scopes closes is registered in it and handed out alive")
	}
}

// ruleAliasIsBase: a descriptor registered for an interface alias (the As
// option) is the base registration under another type. As applies to instance
// registrations too, so besides what every derived descriptor copies (R03.6) the
// alias must carry the base's IsInstance and Instance - otherwise an aliased
// instance is sent through the constructor path and the invoker hands back the
// analysis cache's value for that type (the first instance of the type ever seen).
func ruleAliasIsBase(w *World, r *Report, rule string) {
	add := w.MustFn(w.Godi, "(*collection).addService")
	n := 0
	for _, fi := range w.Within(add, 2) {
		info := fi.Pkg.TypesInfo
		for _, il := range iterLoopsIn(info, fi.Decl.Body) {
			fv := fieldOf(info, il.Coll)
			if fv == nil {
				// a helper that receives the option list: newInterfaceDescriptors(descriptor, options.As)
				if po := objOf(info, il.Coll); po != nil && isParamOf(fi, info, po) {
					k, idx := 0, -1
					for _, fl := range fi.Decl.Type.Params.List {
						for _, nm := range fl.Names {
							if info.Defs[nm] == po {
								idx = k
							}
							k++
						}
					}
					for caller := range w.Callers()[fi] {
						for _, c := range callsIn(caller.Decl.Body, true) {
							if callee(caller.Pkg.TypesInfo, c) == fi.Obj && idx >= 0 && idx < len(c.Args) {
								if f2 := plainFieldOf(caller.Pkg.TypesInfo, c.Args[idx]); f2 != nil {
									fv = f2
								}
							}
						}
					}
				}
			}
			if fv == nil || fv.Name() != "As" {
				continue
			}
			// the descriptor variables built in the loop body
			given := map[types.Object]map[string]ast.Expr{}
			note := func(o types.Object, fields map[string]ast.Expr) {
				if o == nil {
					return
				}
				if given[o] == nil {
					given[o] = map[string]ast.Expr{}
				}
				for k, v := range fields {
					given[o][k] = v
				}
			}
			var litFields func(e ast.Expr, depth int) map[string]ast.Expr
			litFields = func(e ast.Expr, depth int) map[string]ast.Expr {
				if cl := litOf(e); cl != nil {
					if tv, ok := info.Types[cl]; ok && isNamedType(tv.Type, modPath, "Descriptor") {
						return compositeFields(cl)
					}
				}
				if c, ok := unparen(e).(*ast.CallExpr); ok && depth > 0 {
					if t := w.Decls[callee(info, c)]; t != nil && t.Pkg == fi.Pkg {
						out := map[string]ast.Expr{}
						tinfo := t.Pkg.TypesInfo
						var lit *ast.CompositeLit
						ast.Inspect(t.Decl.Body, func(x ast.Node) bool {
							if cl, ok := x.(*ast.CompositeLit); ok {
								if tv, ok := tinfo.Types[cl]; ok && isNamedType(tv.Type, modPath, "Descriptor") {
									lit = cl
								}
							}
							return true
						})
						if lit == nil {
							return nil
						}
						for k, v := range compositeFields(lit) {
							out[k] = v
						}
						// assignments to the result inside the helper
						ast.Inspect(t.Decl.Body, func(x ast.Node) bool {
							if as, ok := x.(*ast.AssignStmt); ok && len(as.Lhs) == len(as.Rhs) {
								for i, l := range as.Lhs {
									if f := plainFieldOf(tinfo, l); f != nil {
										if tv, ok := tinfo.Types[selBase(l)]; ok && isNamedType(tv.Type, modPath, "Descriptor") {
											out[f.Name()] = as.Rhs[i]
										}
									}
								}
							}
							return true
						})
						return out
					}
				}
				return nil
			}
			ast.Inspect(il.Body, func(x ast.Node) bool {
				as, ok := x.(*ast.AssignStmt)
				if !ok || len(as.Lhs) != len(as.Rhs) {
					return true
				}
				for i, l := range as.Lhs {
					if o := objOf(info, l); o != nil && isNamedType(o.Type(), modPath, "Descriptor") {
						if f := litFields(as.Rhs[i], 1); f != nil {
							note(o, f)
						}
					}
					if f := plainFieldOf(info, l); f != nil {
						if o := objOf(info, selBase(l)); o != nil && given[o] != nil {
							note(o, map[string]ast.Expr{f.Name(): as.Rhs[i]})
						}
					}
				}
				return true
			})
			// literals handed on directly: descriptors = append(descriptors, &Descriptor{…})
			bound := map[*ast.CompositeLit]bool{}
			ast.Inspect(il.Body, func(x ast.Node) bool {
				if as, ok := x.(*ast.AssignStmt); ok && len(as.Lhs) == len(as.Rhs) {
					for i, l := range as.Lhs {
						if o := objOf(info, l); o != nil && isNamedType(o.Type(), modPath, "Descriptor") {
							if cl := litOf(as.Rhs[i]); cl != nil {
								bound[cl] = true
							}
						}
					}
				}
				return true
			})
			anon := 0
			ast.Inspect(il.Body, func(x ast.Node) bool {
				cl, ok := x.(*ast.CompositeLit)
				if !ok || bound[cl] {
					return true
				}
				if tv, ok := info.Types[cl]; ok && isNamedType(tv.Type, modPath, "Descriptor") {
					anon++
					o := types.NewVar(cl.Pos(), fi.Pkg.Types, fmt.Sprintf("literal%d", anon), tv.Type)
					given[o] = compositeFields(cl)
				}
				return true
			})
			for o, fields := range given {
				n++
				var missing []string
				for _, name := range []string{"IsInstance", "Instance"} {
					v, ok := fields[name]
					if !ok {
						missing = append(missing, name)
						continue
					}
					if sel, isSel := unparen(v).(*ast.SelectorExpr); !isSel || sel.Sel.Name != name {
						missing = append(missing, name)
					}
				}
				r.Check(len(missing) == 0, rule, fmt.Sprintf("%s#alias-descriptor:%s", fi.Name(), o.Name()), il.Stmt.Pos(), false,
					"the alias descriptor takes IsInstance and Instance from the descriptor it aliases",
					fmt.Sprintf("the descriptor built for an interface alias does not take %v from the descriptor it aliases: an instance registered with As is treated as a constructor, and the invoker answers with the analysis cache's value for that type - every aliased instance of one concrete type resolves to the first one", missing))
			}
		}
	}
	if n == 0 {
		r.Fail(rule, add.Name()+"#alias-descriptor", add.Decl.Pos(), "no descriptor is built in a loop over the As option")
	}
}

// reexport runs a rule set of another property on a scratch report and files the
// obligations of the selected rule ids under a rule of this property.
var reexportDepth int

func reexport(w *World, r *Report, rule string, run func(sub *Report), ids ...string) {
	// a rule set that is itself being re-exported does not re-export in turn
	// (C17 files C20's traversal rules, C20 files C17's view rules)
	if reexportDepth > 0 {
		return
	}
	reexportDepth++
	defer func() { reexportDepth-- }()
	sub := NewReport(r.Prop, r.Tier, w)
	sub.lenient = true
	run(sub)
	for _, o := range sub.Obs {
		for _, id := range ids {
			if o.Rule == id {
				o.Rule = rule
				r.Obs = append(r.Obs, o)
			}
		}
	}
}

// ruleCycleCheckFirst: Build reports a cycle as a cycle: the checked cycle
// detection comes before the lifetime and presence validation in the pipeline.
// (A cyclic set that also has a lifetime conflict or a missing dependency on the
// cycle must fail with the circular-dependency error; validating first reports
// the other defect instead.)
func ruleCycleCheckFirst(w *World, r *Report, rule string) {
	ro := resolveRoles(w)
	p := analysePipelineWith(w, nil)
	d := ro.doBuild
	info := d.Pkg.TypesInfo
	n := 0
	for _, nd := range p.flow.Nodes() {
		for _, c := range callsIn(nd, false) {
			cal := callee(info, c)
			if cal == nil || w.Decls[cal] == nil {
				continue
			}
			name := cal.Name()
			// the validation steps, by what they report: a lifetime conflict, a missing service
			t := w.Decls[cal]
			if !(hasLiteralOf(w, t, modPath, "LifetimeConflictError", 2) || (hasLiteralOf(w, t, modPath, "ResolutionError", 2) && fi2HasSentinel(w, t, "ErrServiceNotFound", 2))) {
				continue
			}
			n++
			// on the path where the cycle check has already failed a validation step can only add to
			// the report (the cycle error stays the primary one)
			r.Check(p.must.Before[nd].Has("ok:DetectCycles") || p.must.Before[nd].Has("failed:DetectCycles"), rule, fmt.Sprintf("%s#%s-after-cycle-check", d.Name(), name), c.Pos(), true,
				"the validation step runs only after the cycle check has succeeded",
				name+" runs before (or without) the cycle check having succeeded: a cyclic registration set that also trips this validation is reported as a lifetime conflict or a missing service, not as a circular dependency")
		}
	}
	if n == 0 {
		r.Fail(rule, d.Name()+"#validation-steps", d.Decl.Pos(), "no step of the build pipeline reports lifetime conflicts or missing services")
	}
}

// ruleLifetimeSource: a descriptor's Lifetime is the one the registration call
// asked for: it is only ever given the Lifetime parameter of the function that
// builds the descriptor, or copied from another descriptor. A constant (forcing
// instances to Singleton, say) changes what lifetime validation sees.
func ruleLifetimeSource(w *World, r *Report, rule string) {
	n := 0
	for _, fi := range w.FuncsOf(w.Godi) {
		info := fi.Pkg.TypesInfo
		check := func(v ast.Expr, pos token.Pos) {
			n++
			good := false
			if o, ok := objOf(info, v).(*types.Var); ok && isParamOf(fi, info, o) {
				good = true
			}
			if sel, ok := unparen(v).(*ast.SelectorExpr); ok && sel.Sel.Name == "Lifetime" {
				if tv, ok := info.Types[sel.X]; ok && isNamedType(tv.Type, modPath, "Descriptor") {
					good = true
				}
			}
			r.Check(good, rule, fmt.Sprintf("%s#Descriptor.Lifetime/%d", fi.Name(), n), pos, false,
				"the descriptor's Lifetime is the registration's (the Lifetime parameter, or a copy of the base descriptor's)",
				"a descriptor's Lifetime is set to "+exprStr(v)+": the registration is validated (and cached, and disposed) under another lifetime than the one it was registered with")
		}
		ast.Inspect(fi.Decl.Body, func(x ast.Node) bool {
			switch s := x.(type) {
			case *ast.CompositeLit:
				if tv, ok := info.Types[s]; ok && isNamedType(tv.Type, modPath, "Descriptor") {
					if v, has := compositeFields(s)["Lifetime"]; has {
						check(v, v.Pos())
					}
				}
			case *ast.AssignStmt:
				if len(s.Lhs) == len(s.Rhs) {
					for i, l := range s.Lhs {
						if fv := plainFieldOf(info, l); fv != nil && fv.Name() == "Lifetime" {
							if tv, ok := info.Types[selBase(l)]; ok && isNamedType(tv.Type, modPath, "Descriptor") {
								check(s.Rhs[i], s.Pos())
							}
						}
					}
				}
			}
			return true
		})
	}
	if n == 0 {
		r.Fail(rule, "Descriptor.Lifetime", token.NoPos, "no descriptor is given a Lifetime")
	}
}

// ruleRecoverNeverRepanics: the function that recovers constructor panics turns
// every recovered value into an error. A handler that panics again for some
// values (run-time errors, say) lets a nil dereference in a constructor or a
// scope initializer escape - past the cleanup of the half-built scope.
func ruleRecoverNeverRepanics(w *World, r *Report, rule string) {
	n := 0
	for _, fi := range w.FuncsOf(w.Refl) {
		info := fi.Pkg.TypesInfo
		for _, lit := range funcLitsIn(fi.Decl.Body) {
			recovers := false
			for _, c := range callsIn(lit.Body, true) {
				if id, ok := unparen(c.Fun).(*ast.Ident); ok && id.Name == "recover" {
					if _, isB := info.Uses[id].(*types.Builtin); isB {
						recovers = true
					}
				}
			}
			if !recovers {
				continue
			}
			n++
			bad := ""
			for _, c := range callsIn(lit.Body, true) {
				if isPanicCall(info, c) {
					bad = w.Pos(c.Pos())
				}
			}
			r.Check(bad == "", rule, fmt.Sprintf("%s#recover-handler/%d", fi.Name(), n), lit.Pos(), false,
				"the recover handler never panics: every recovered value becomes an error",
				"the recover handler panics again at "+bad+": some constructor panics escape the container (past the cleanup of a half-initialised scope) instead of being reported as a classifiable error")
		}
	}
	if n == 0 {
		r.Fail(rule, "reflection#recover-handler", token.NoPos, "no deferred function of the invoker calls recover()")
	}
}

// ruleErrorResultNilCheckedOnValue: the invoker decides "the constructor
// returned an error" on the reflect.Value (IsNil) before converting it to the
// error interface. Converting first and comparing the interface with nil takes
// a typed nil pointer of a concrete error type (func() (*T, *MyErr) returning
// (t, nil)) for a failure: a working constructor is reported as failed.
func ruleErrorResultNilCheckedOnValue(w *World, r *Report, rule string) {
	n := 0
	for _, fi := range w.FuncsOf(w.Refl) {
		info := fi.Pkg.TypesInfo
		if !invokerFns(w)[fi] {
			continue
		}
		ast.Inspect(fi.Decl.Body, func(x ast.Node) bool {
			ta, ok := x.(*ast.TypeAssertExpr)
			if !ok || ta.Type == nil {
				return true
			}
			if tv, ok := info.Types[ta.Type]; !ok || !isErrorType(tv.Type) {
				return true
			}
			c, ok := unparen(ta.X).(*ast.CallExpr)
			if !ok {
				return true
			}
			rcv, name, isM := methodCall(c)
			if !isM || name != "Interface" || !isNamedType(info.TypeOf(rcv), "reflect", "Value") {
				return true
			}
			n++
			val := exprStr(resolveLocal(info, fi.Decl.Body, rcv, 1))
			guarded := false
			conds, vals := controllingCondsInfo(info, fi.Decl.Body, ta.Pos())
			for i, cd := range conds {
				e, neg := unparen(cd), false
				if u, isU := e.(*ast.UnaryExpr); isU && u.Op == token.NOT {
					e, neg = unparen(u.X), true
				}
				if cc, isC := e.(*ast.CallExpr); isC {
					if r2, nm, ok := methodCall(cc); ok && nm == "IsNil" && isNamedType(info.TypeOf(r2), "reflect", "Value") {
						if (exprStr(r2) == exprStr(rcv) || exprStr(resolveLocal(info, fi.Decl.Body, r2, 1)) == val) && vals[i] == neg {
							guarded = true
						}
					}
				}
			}
			r.Check(guarded, rule, fmt.Sprintf("%s#error-result/%d", fi.Name(), n), ta.Pos(), true,
				"the result is converted to error only after IsNil() of the result value was found false",
				"the constructor's result is converted to the error interface without a prior IsNil() test of the reflect.Value: a nil pointer of a concrete error type becomes a non-nil error, and a constructor that succeeded is reported as failed")
			return true
		})
	}
	if n == 0 {
		r.Fail(rule, "reflection#error-result", token.NoPos, "no conversion of a constructor result to error found in the invoker")
	}
}

// ruleTagValuesVerbatim: the name and group a struct tag asks for are the tag's
// value, unchanged: registration options take the same strings verbatim, so any
// normalisation on the tag side (cutting at a comma, trimming, lower-casing)
// makes a field ask for another group or key than the one that was registered.
func ruleTagValuesVerbatim(w *World, r *Report, rule string) {
	n := 0
	for _, fi := range w.FuncsOf(w.Refl) {
		info := fi.Pkg.TypesInfo
		// values bound directly by tag.Lookup / tag.Get
		fromTag := map[types.Object]bool{}
		ast.Inspect(fi.Decl.Body, func(x ast.Node) bool {
			if as, ok := x.(*ast.AssignStmt); ok && len(as.Rhs) == 1 {
				if c, ok := unparen(as.Rhs[0]).(*ast.CallExpr); ok {
					if rcv, name, isM := methodCall(c); isM && (name == "Lookup" || name == "Get") && isNamedType(info.TypeOf(rcv), "reflect", "StructTag") {
						fromTag[objOf(info, as.Lhs[0])] = true
					}
				}
			}
			return true
		})
		if len(fromTag) == 0 {
			continue
		}
		ast.Inspect(fi.Decl.Body, func(x ast.Node) bool {
			as, ok := x.(*ast.AssignStmt)
			if !ok {
				return true
			}
			for i, l := range as.Lhs {
				fv := plainFieldOf(info, l)
				if fv == nil || (fv.Name() != "Name" && fv.Name() != "Group") || !isStringType(fv.Type()) {
					continue
				}
				if tv, ok := info.Types[selBase(l)]; !ok || !isNamedType(tv.Type, modPath+"/internal/reflection", "TagInfo") {
					continue
				}
				n++
				var rhs ast.Expr
				if len(as.Lhs) == len(as.Rhs) {
					rhs = as.Rhs[i]
				} else if len(as.Rhs) == 1 {
					rhs = as.Rhs[0]
				}
				good := rhs != nil && fromTag[objOf(info, rhs)]
				if c, ok := unparen(rhs).(*ast.CallExpr); ok {
					if rcv, name, isM := methodCall(c); isM && name == "Get" && isNamedType(info.TypeOf(rcv), "reflect", "StructTag") {
						good = true
					}
				}
				r.Check(good, rule, fmt.Sprintf("%s#TagInfo.%s", fi.Name(), fv.Name()), as.Pos(), false,
					"the tag's "+strings.ToLower(fv.Name())+" is the tag value as written",
					"TagInfo."+fv.Name()+" is "+exprStr(rhs)+", not the tag's value as written: a field asks for another "+strings.ToLower(fv.Name())+" than the registration option (which takes the string verbatim) filed the service under")
			}
			return true
		})
	}
	if n < 2 {
		r.Fail(rule, "reflection#tag-values", token.NoPos, "the tag parser's assignments of TagInfo.Name / TagInfo.Group were not found")
	}
}

// ruleReflectIndexBounds: reflect.Type.In(i) / Out(i) / Field(i) panic when i is
// out of range. Where i is a loop index, the loop's bound must be the matching
// count of a reflect value (NumIn / NumOut / NumField, directly or through a
// local), a constant - not the length of a Go slice that merely *usually* has as
// many elements (the parameter list of a parameter-object constructor has one
// entry per field, its signature one parameter).
func ruleReflectIndexBounds(w *World, r *Report, rule string) {
	n := 0
	for _, p := range []*packages.Package{w.Godi, w.Refl} {
		for _, fi := range w.FuncsOf(p) {
			info := fi.Pkg.TypesInfo
			// index variables of loops and their bound expressions
			type loopB struct {
				bound ast.Expr
				rng   bool // range over a collection (bound = len(collection))
			}
			loops := map[types.Object]loopB{}
			ast.Inspect(fi.Decl.Body, func(x ast.Node) bool {
				switch s := x.(type) {
				case *ast.ForStmt:
					as, ok := s.Init.(*ast.AssignStmt)
					be, ok2 := s.Cond.(*ast.BinaryExpr)
					if ok && ok2 && len(as.Lhs) == 1 && (be.Op == token.LSS || be.Op == token.LEQ) && objOf(info, be.X) == objOf(info, as.Lhs[0]) {
						loops[objOf(info, as.Lhs[0])] = loopB{be.Y, false}
					}
				case *ast.RangeStmt:
					if s.Key != nil {
						if o := objOf(info, s.Key); o != nil {
							tv := info.TypeOf(s.X)
							if b, isB := tv.Underlying().(*types.Basic); isB && b.Info()&types.IsInteger != 0 {
								loops[o] = loopB{s.X, false}
							} else {
								loops[o] = loopB{s.X, true}
							}
						}
					}
				}
				return true
			})
			isCount := func(e ast.Expr) bool {
				e = resolveLocal(info, fi.Decl.Body, e, 2)
				if _, ok := constInt(info, e); ok {
					return true
				}
				c, ok := unparen(e).(*ast.CallExpr)
				if !ok {
					return false
				}
				rcv, name, isM := methodCall(c)
				if !isM {
					return false
				}
				t := info.TypeOf(rcv)
				return (name == "NumIn" || name == "NumOut" || name == "NumField" || name == "Len" || name == "NumMethod") && (isNamedType(t, "reflect", "Type") || isNamedType(t, "reflect", "Value"))
			}
			for _, c := range callsIn(fi.Decl.Body, true) {
				rcv, name, isM := methodCall(c)
				if !isM || len(c.Args) != 1 || !(name == "In" || name == "Out" || name == "Field") || !isNamedType(info.TypeOf(rcv), "reflect", "Type") {
					continue
				}
				lb, isLoop := loops[objOf(info, c.Args[0])]
				if !isLoop {
					continue // a constant or computed position: not this rule's business
				}
				n++
				// only a bound that provably is the size of a Go collection is a violation; a count, a
				// constant, or a value whose origin is outside this function (a parameter) is not
				var sizeOfCollection func(e ast.Expr, depth int) bool
				sizeOfCollection = func(e ast.Expr, depth int) bool {
					e = resolveLocal(info, fi.Decl.Body, e, 2)
					switch x := unparen(e).(type) {
					case *ast.BinaryExpr:
						return depth > 0 && (sizeOfCollection(x.X, depth-1) || sizeOfCollection(x.Y, depth-1))
					case *ast.CallExpr:
						if id, ok := unparen(x.Fun).(*ast.Ident); ok && id.Name == "len" && len(x.Args) == 1 {
							// len(coll): unless coll was made with a reflect count
							ce := resolveLocal(info, fi.Decl.Body, x.Args[0], 2)
							if mk, ok := unparen(ce).(*ast.CallExpr); ok && exprStr(mk.Fun) == "make" && len(mk.Args) >= 2 {
								return sizeOfCollection(mk.Args[1], depth-1)
							}
							return true
						}
					}
					return false
				}
				good := true
				if lb.rng {
					e := resolveLocal(info, fi.Decl.Body, lb.bound, 2)
					if mk, ok := unparen(e).(*ast.CallExpr); ok && exprStr(mk.Fun) == "make" && len(mk.Args) >= 2 {
						good = !sizeOfCollection(mk.Args[1], 2)
					} else if _, isParam := objOf(info, e).(*types.Var); isParam && isParamOf(fi, info, objOf(info, e)) {
						good = true // a slice handed in: its relation to the signature is the caller's business
					} else {
						good = false // ranging over a field / another slice of this function
						if o := objOf(info, e); o != nil && fi.Decl.Body.Pos() <= o.Pos() && o.Pos() < fi.Decl.Body.End() {
							good = true // a local of unknown construction
						}
					}
				} else {
					good = !sizeOfCollection(lb.bound, 2)
				}
				_ = isCount
				r.Check(good, rule, fmt.Sprintf("%s#%s(%s)", fi.Name(), name, exprStr(c.Args[0])), c.Pos(), false,
					"the position handed to reflect."+name+" is bounded by the matching count of a reflect value",
					fmt.Sprintf("%s.%s(%s) is indexed by a loop bounded by %s, the size of a Go collection, not by the signature's own count: where the two differ (a parameter-object constructor has one parameter and one list entry per field) reflect panics with index out of range - outside any recover", exprStr(rcv), name, exprStr(c.Args[0]), exprStr(lb.bound)))
			}
		}
	}
	if n == 0 {
		r.Fail(rule, "reflect-index-bounds", token.NoPos, "no reflect positional accessor indexed by a loop variable was found")
	}
}

// fi2HasSentinel: the function (or a helper within depth) mentions the package-level sentinel.
func fi2HasSentinel(w *World, fi *FuncInfo, name string, depth int) bool {
	obj := w.Godi.Types.Scope().Lookup(name)
	if obj == nil {
		return false
	}
	for _, f := range w.Within(fi, depth) {
		if usesObj(f.Pkg.TypesInfo, f.Decl.Body, obj) {
			return true
		}
	}
	return false
}

// invokerFns: the functions of the reflection package that call the constructor
// (reflect.Value.Call, directly or one call away) and their private helpers.
func invokerFns(w *World) map[*FuncInfo]bool {
	out := map[*FuncInfo]bool{}
	for _, fi := range w.FuncsOf(w.Refl) {
		calls := false
		for _, g := range w.Within(fi, 1) {
			if callsReflectCall(g) {
				calls = true
			}
		}
		if calls {
			for _, g := range w.Within(fi, 2) {
				out[g] = true
			}
		}
	}
	return out
}
