package main

func init() {
	register("C15",
		"Structural necessary conditions of 'failures are returned, classifiable errors - never panics or partial state': (R15.1) the call into the user's constructor runs under a deferred recover that yields PanicError{Panic: r}, mapped to ConstructorPanicError with that value, other invocation errors kept as Cause; (R15.2) every error struct with an error-typed field unwraps to it; (R15.3) every fmt.Errorf formats error arguments with %w; (R15.4) sentinels are used as values, never rendered into text; (R15.4c) every typed error built while handling an error keeps that error as Cause; (R15.5) no error return after a setInstance except setInstance's own error, and resolve itself records no state (a failed resolution is not cached); (R15.6) explicit panics only in Must*, all type assertions comma-ok; (R15.7) typestate: no nil-map write when an operation overlaps Close; (R15.8) nil arguments rejected with the matching sentinel before use; (R15.9) deferred graph insertion rejects nothing but a nil provider, so cycles are always reported by the typed error of the cycle check. NOT decided: panics inside reflect outside the recovered region; retry behaviour as observed values.",
		commonAssumptions, func(w *World, r *Report) {
			la := NewLockAnalysis(w)
			r.Rule("R15.15", 10, "'circular', 'lifetime conflict' and 'not found' are reported at Build for every dependency the invoker resolves: the field walkers of the analyzer and of the invoker skip the same fields (an unseen cycle is a stack overflow at resolution, not an error)")
			r.Try(func() { ruleFieldFilters(w, r, "R15.15") })
			r.Rule("R15.20", 5, "no operation panics with an index out of range inside reflect: In/Out/Field positions that are loop indices are bounded by the matching NumIn/NumOut/NumField")
			r.Try(func() { ruleReflectIndexBounds(w, r, "R15.20") })
			r.Rule("R15.19", 1, "a constructor's error is the constructor's own: the error result is tested for nil on the reflect.Value before it is converted (a typed nil is not an error)")
			r.Try(func() { ruleErrorResultNilCheckedOnValue(w, r, "R15.19") })
			r.Rule("R15.18", 1, "no constructor panic escapes: the invoker's recover handler never panics again")
			r.Try(func() { ruleRecoverNeverRepanics(w, r, "R15.18") })
			r.Rule("R15.22", 1, "a retry behaves like a first attempt: no in-place slice operation is applied to a slice its function did not build (the first Build compacts a shared dependency list, the second panics on the zeroed tail)")
			r.Try(func() { ruleNoInPlaceOnShared(w, r, "R15.22") })
			r.Rule("R15.23", 1, "a Build that fails leaves no partial state: the container starts no goroutine other than the context watchers (a build abandoned at its deadline finishes on its own and nobody owns what it constructed)")
			r.Try(func() { reexport(w, r, "R15.23", func(sub *Report) { checkGoStatements(w, sub) }, "R09.4") })
			r.Rule("R15.25", 5, "a failure of resolution is reported as it is: every return reached on the non-nil edge of the error of Get / GetKeyed / GetGroup / resolve / createInstance hands that error on")
			r.Try(func() { ruleResolutionErrorsKept(w, r, "R15.25") })
			r.Rule("R15.26", 1, "no operation panics with an index out of range: no slice field of collection / scope / provider is indexed or resliced with an unchecked parameter")
			r.Try(func() { ruleNoStaleIndex(w, r, "R15.26") })
			r.Rule("R15.24", 3, "a constructor's error is the constructor's own: the function a descriptor runs is the one that was registered - descriptors are never rewritten (a wrapper swapped in for the constructor sees its results before the invoker has looked at the error)")
			r.Try(func() { ruleDescriptorImmutable(w, r, "R15.24") })
			r.Rule("R15.21", 1, "no operation panics on an incomparable service instance: instances are never compared with == through the Disposable interface")
			r.Try(func() { ruleNoInstanceEquality(w, r, "R15.21") })
			r.Rule("R15.17", 1, "no operation panics on an unhashable service instance: no map is keyed by an interface type that holds instances")
			r.Try(func() { ruleNoInstanceMapKeys(w, r, "R15.17") })
			r.Rule("R15.16", 2, "a Build that fails after construction started leaves no partial state: it closes the partial provider on every such exit")
			r.Try(func() { ruleBuildCleanup(w, r, "R15.16") })
			r.Rule("R15.1", 3, "recover around the constructor call; panic and invocation errors mapped with their payload")
			r.Rule("R15.2", 8, "R-ERRCHAIN (i): Unwrap on every error struct with a cause field")
			r.Rule("R15.3", 8, "R-ERRCHAIN (ii): %w for error arguments of fmt.Errorf")
			r.Rule("R15.4", 20, "R-ERRCHAIN (iii): sentinels used as values")
			r.Rule("R15.4c", 10, "typed errors built in an `err != nil` branch keep err as Cause")
			r.Rule("R15.5", 1, "commit-after-validate in createInstance")
			r.Rule("R15.5b", 1, "resolve stores nothing itself")
			r.Rule("R15.6", 8, "panic only in Must*; comma-ok type assertions only")
			r.Rule("R15.7", 8, "typestate of tables reset by Close")
			r.Rule("R15.8", 12, "nil-argument validation precedes use")
			r.Rule("R15.9", 1, "AddProviderDeferred fails only for a nil provider")
			r.Try(func() { ruleRecover(w, r, "R15.1") })
			r.Try(func() { ruleErrChainUnwrap(w, r, "R15.2") })
			r.Try(func() { ruleErrorfWraps(w, r, "R15.3") })
			r.Try(func() { ruleSentinelUse(w, r, "R15.4") })
			r.Try(func() { ruleCausePreserved(w, r, "R15.4c") })
			r.Try(func() { ruleCommitAfterValidate(w, r, "R15.5") })
			r.Try(func() { ruleResolveWritesNothing(w, r, "R15.5b") })
			r.Try(func() { rulePanics(w, r, "R15.6") })
			r.Try(func() { checkTypestateAs(w, r, la, "R15.7") })
			r.Try(func() { ruleNilArgs(w, r, "R15.8") })
			r.Try(func() { ruleDeferredAddTotal(w, r, "R15.9") })
			r.Rule("R15.10", 1, "the invoker looks for the constructor's error where the analyzer recognises it: in the last result")
			r.Try(func() { ruleConstructorErrorPosition(w, r, "R15.10") })
			r.Rule("R15.11", 2, "'circular' is classifiable for every cycle: the whole-graph check that produces the typed error starts a search from every node and follows every edge")
			r.Try(func() { ruleSearchComplete(w, r, "R15.11") })
			r.Rule("R15.12", 2, "a rejected registration leaves no partial state: no error return is reachable after a registry view was written, or every written view is undone")
			r.Try(func() {
				asRule(w, r, "R15.12", []string{"R17.4"}, func(sub *Report) { checkAtomicRejection(w, sub, resolveRegistry(w)) })
			})
			r.Rule("R15.13", 5, "the analysis record a constructor's error handling is read from is keyed by code pointer and type")
			r.Try(func() { ruleFunctionIdentity(w, r, "R15.13") })
			r.Rule("R15.14", 1, "repository error types are recognised with errors.As, never by a type assertion on an error value")
			r.Try(func() { ruleNoErrorTypeAssertions(w, r, "R15.14") })
		})
	register("C16",
		"Structural necessary conditions of the middleware protocol, decided per integration on the per-request function's control-flow graph and then compared across the five siblings: one CreateScope(request context) on the captured provider; creation error -> error handler, return; a close guarantee in force before any user callback (deferred Close; fiber: Locals + explicit Close + fasthttp lemma checked in the fasthttp source); scope.Context() attached before middlewares/next and flowing on; middlewares in slice order with that scope, error -> error handler, return, next unreachable; next exactly once on the normal path; Handle: recover only under cfg.PanicRecovery, scope from the request, matching error handler on each failure edge, method dominated by both successes and given the resolved controller. ISO: no mutable resolution state shared between requests (record confinement). NOT decided: status codes, behaviour of the frameworks beyond the lemma.",
		commonAssumptions, func(w *World, r *Report) {
			checkC16(w, r)
			r.Rule("L1", 3, "a request-scoped registration stays request-scoped in every derived form: descriptors derived for aliases and multi-output constructors copy Lifetime (the zero value is Singleton: one instance built at Build, shared by all requests, never closed at request end)")
			r.Try(func() { ruleFamilyCopies(w, r, "L1") })
		})
	register("C17",
		"Structural necessary conditions of 'the collection is an exact, atomic registry and Build takes a snapshot': three-view consistency of every writer of services/groups/allDescriptors; the duplicate test returns AlreadyRegisteredError on its hit edge and dominates every insertion (inline, or through the infallible-insert idiom with per-descriptor or whole-batch checks); groups grow by append; no error return is reachable after a registry write in the registration functions (or every written view is undone); the provider receives fresh containers; queries read the same views; validation dominates registration; all accesses hold collection.mu. NOT decided: equality with a reference registry over all histories.",
		commonAssumptions, checkC17)
	register("C18",
		"Structural necessary conditions of 'built-in injectables and context linkage are scope-correct': the built-in switch of resolution returns exactly the resolving scope's own context / root provider / itself for the three reserved types, only for unkeyed ungrouped requests and before the registry lookup; constructors are invoked with the constructing scope as resolver and singletons on the root scope; the scope's context is WithValue(derived parent, scopeContextKey{}, that scope) with the caller's context (or the documented default) as parent on every path (reaching definitions); the key type is private to the constructor and FromContext; every successful registration check has tested descriptor.Type against the reserved table. NOT decided: observed identities over all scope trees.",
		commonAssumptions, func(w *World, r *Report) {
			checkC18(w, r)
			r.Rule("R18.8", 1, "singletons are constructed at Build on the root scope only: the Singleton clause of resolution never reaches a constructor (a singleton built on demand would capture the requesting scope and its context)")
			r.Rule("R18.9", 1, "what a scope resolves for a scoped service is what that scope constructed or cached: hit returns, construct on miss through its own createInstance (an instance constructed in another scope carries that scope's context)")
			r.Try(func() { ruleResolveSwitch(w, r, "R18.8", "R18.9", "") })
			r.Rule("R18.7", 3, "the reserved-type test is reached for every descriptor that is inserted: the registration check dominates every insertion (group members included)")
			r.Try(func() { reexport(w, r, "R18.7", func(sub *Report) { checkC17(w, sub) }, "R17.2") })
		})
	register("C19",
		"Structural necessary conditions the statement singles out for the graph component: (R19.1) every exported mutator marks both caches dirty on every path that changed nodes/edges, and the sorted-order cache is written only together with clearing its flag; (R19.2) every immediate mutator recomputes degrees after its last change, the deferred add is completed by DetectCycles which recomputes first; (R19.3) the rejection path of AddProvider deletes only nodes this call created and restores the previous provider; (R19.4) every access to the graph's fields holds its mutex. Agreement of the fifteen queries with a reference digraph over all operation sequences is value-level and NOT decided.",
		commonAssumptions, func(w *World, r *Report) {
			la := NewLockAnalysis(w)
			r.Rule("R19.1", 4, "mutators mark both caches dirty on every path after a change")
			r.Rule("R19.1c", 1, "the sorted-order cache is written only together with clearing its dirty flag")
			r.Rule("R19.2", 4, "degrees are recomputed after the last change (deferred add: by DetectCycles, first thing)")
			r.Rule("R19.3", 3, "rollback of a rejected add restores the previous state")
			r.Rule("R19.4", 60, "every access to the graph's fields holds its mutex (R09.1 restricted to the graph)")
			r.Try(func() { checkGraphCaches(w, r, "R19.1", "R19.2", "R19.1c") })
			r.Try(func() { ruleRollback(w, r, "R19.3") })
			r.Rule("R19.5", 1, "no slice stored in the graph's tables is rewritten in place through a [:0] reslice")
			r.Try(func() { ruleNoInPlaceReuse(w, r, "R19.5") })
			r.Rule("R19.6", 1, "the degree recomputation counts every edge")
			r.Try(func() { ruleDegreeCountsEveryEdge(w, r, "R19.6") })
			r.Rule("R19.9", 2, "sibling agreement of the adds: AddProvider and AddProviderDeferred replace the node's edge list and dependency list on every accepting path (a replacement never inherits the edges of what it replaces)")
			r.Try(func() { ruleAddReplacesEdges(w, r, "R19.9") })
			r.Rule("R19.8", 4, "a rejected add leaves the graph as it was: no exit is reachable after deleting a node without sweeping the edge table or rebuilding the group links")
			r.Try(func() { ruleDeletedNodesUnlinked(w, r, "R19.8") })
			r.Rule("R19.7", 1, "the edge table and the nodes' own dependency lists describe the same edges")
			r.Try(func() { ruleEdgesAgreeWithNodeLists(w, r, "R19.7") })
			sub := NewReport(r.Prop, r.Tier, w)
			sub.Rule("R09.1", 0, "")
			sub.Rule("R09.1u", 0, "")
			r.Try(func() { checkDiscipline(w, sub, la, func(ss sharedStruct) bool { return ss.pkg == "graph" }) })
			for _, o := range sub.Obs {
				o.Rule = "R19.4"
				r.Obs = append(r.Obs, o)
			}
		})
	register("C20",
		"Structural necessary conditions of 'modules are transparent groupings of registration calls': NewModule and AddModules apply the builders they were given in order, skip nil, stop at the first error (wrapped exactly once per level with the module's own name / unwrapped), never write to the caller's slice; the five module options are thin wrappers around the collection method of the same name; ModuleError unwraps. Transparency follows from thinness. NOT decided: provider-level indistinguishability as observed behaviour.",
		commonAssumptions, checkC20)
}
