package main

func init() {
	register("C15",
		"Structural necessary conditions of 'failures are returned, classifiable errors - never panics or partial state': (R15.1) the call into the user's constructor runs under a deferred recover that yields PanicError{Panic: r}, mapped to ConstructorPanicError with that value, other invocation errors kept as Cause; (R15.2) every error struct with an error-typed field unwraps to it; (R15.3) every fmt.Errorf formats error arguments with %w; (R15.4) sentinels are used as values, never rendered into text; (R15.4c) every typed error built while handling an error keeps that error as Cause; (R15.5) no error return after a setInstance except setInstance's own error, and resolve itself records no state (a failed resolution is not cached); (R15.6) explicit panics only in Must*, all type assertions comma-ok; (R15.7) typestate: no nil-map write when an operation overlaps Close; (R15.8) nil arguments rejected with the matching sentinel before use; (R15.9) deferred graph insertion rejects nothing but a nil provider, so cycles are always reported by the typed error of the cycle check. NOT decided: panics inside reflect outside the recovered region; retry behaviour as observed values.",
		commonAssumptions, func(w *World, r *Report) {
			la := NewLockAnalysis(w)
			r.Rule("R15.1", 3, "recover around the constructor call; panic and invocation errors mapped with their payload")
			r.Rule("R15.2", 8, "R-ERRCHAIN (i): Unwrap on every error struct with a cause field")
			r.Rule("R15.3", 12, "R-ERRCHAIN (ii): %w for error arguments of fmt.Errorf")
			r.Rule("R15.4", 20, "R-ERRCHAIN (iii): sentinels used as values")
			r.Rule("R15.4c", 10, "typed errors built in an `err != nil` branch keep err as Cause")
			r.Rule("R15.5", 1, "commit-after-validate in createInstance")
			r.Rule("R15.5b", 1, "resolve stores nothing itself")
			r.Rule("R15.6", 8, "panic only in Must*; comma-ok type assertions only")
			r.Rule("R15.7", 6, "typestate of tables reset by Close")
			r.Rule("R15.8", 12, "nil-argument validation precedes use")
			r.Rule("R15.9", 1, "AddProviderDeferred fails only for a nil provider")
			ruleRecover(w, r, "R15.1")
			ruleErrChainUnwrap(w, r, "R15.2")
			ruleErrorfWraps(w, r, "R15.3")
			ruleSentinelUse(w, r, "R15.4")
			ruleCausePreserved(w, r, "R15.4c")
			ruleCommitAfterValidate(w, r, "R15.5")
			ruleResolveWritesNothing(w, r, "R15.5b")
			rulePanics(w, r, "R15.6")
			checkTypestateAs(w, r, la, "R15.7")
			ruleNilArgs(w, r, "R15.8")
			ruleDeferredAddTotal(w, r, "R15.9")
		})
	register("C16",
		"Structural necessary conditions of the middleware protocol, decided per integration on the per-request function's control-flow graph and then compared across the five siblings: one CreateScope(request context) on the captured provider; creation error -> error handler, return; a close guarantee in force before any user callback (deferred Close; fiber: Locals + explicit Close + fasthttp lemma checked in the fasthttp source); scope.Context() attached before middlewares/next and flowing on; middlewares in slice order with that scope, error -> error handler, return, next unreachable; next exactly once on the normal path; Handle: recover only under cfg.PanicRecovery, scope from the request, matching error handler on each failure edge, method dominated by both successes and given the resolved controller. ISO: no mutable resolution state shared between requests (record confinement). NOT decided: status codes, behaviour of the frameworks beyond the lemma.",
		commonAssumptions, checkC16)
	register("C20",
		"Structural necessary conditions of 'modules are transparent groupings of registration calls': NewModule and AddModules apply the builders they were given in order, skip nil, stop at the first error (wrapped exactly once per level with the module's own name / unwrapped), never write to the caller's slice; the five module options are thin wrappers around the collection method of the same name; ModuleError unwraps. Transparency follows from thinness. NOT decided: provider-level indistinguishability as observed behaviour.",
		commonAssumptions, checkC20)
}
