package main

import (
	"fmt"
	"go/ast"
	"go/token"
	"go/types"
	"sort"
	"strings"

	"golang.org/x/tools/go/cfg"
)

// ruleTracking: R10.1 (and R02.1, R03.2 via flags). The lifetime switch of
// setInstance: which tables each lifetime's region writes.
func ruleTracking(w *World, r *Report, rule string, wantScopedStore, wantTransientNoCache string) {
	_ = closers(w) // the owners' disposal lists must exist in the form the rule talks about
	ro := resolveRoles(w)
	fi := ro.setInstance
	r.Analysed(fi)
	r.Analysed(ro.setSingleton)
	d := lifetimeDispatch(w, fi)
	if !d.dispatches() {
		r.Undecided(rule, fi.Name()+"#lifetime-dispatch", fi.Decl.Pos(), "%s does not dispatch on the lifetime", fi.Name())
		return
	}
	swPos := d.pos
	ev := withStoreGens(trackingEvents(w, ro), w, ro)
	cacheKey := "store:" + ownerField(w, ro.cache)
	regionMay := func(name string) (Facts, bool) {
		may, _ := d.mayFacts(w, ev, name)
		return may, true
	}
	for _, lt := range []string{"Singleton", "Scoped", "Transient"} {
		may, ok := regionMay(lt)
		con := fi.Name() + "#" + lt
		if !ok {
			r.Fail(rule, con, swPos, "the lifetime switch of %s has no clause for %s", fi.Name(), lt)
			continue
		}
		switch lt {
		case "Singleton":
			good := may.Has("call:setSingleton") && may.Has("store:singletons") && may.Has("append:provider.disposables") &&
				!may.Has("append:scope.disposables") && !may.Has(cacheKey)
			r.Check(good, rule, con, swPos, true,
				"singleton instances go to the provider: stored in the singleton table and, if disposable, appended to the provider's list; nothing is written to the scope",
				fmt.Sprintf("singleton clause: stores into singleton table=%v, provider disposal list=%v, scope disposal list=%v, scope cache=%v - singletons must be owned by the provider only (a scope's Close must never touch them)",
					may.Has("store:singletons"), may.Has("append:provider.disposables"), may.Has("append:scope.disposables"), may.Has(cacheKey)))
		case "Scoped":
			r.Check(may.Has("append:scope.disposables") && !may.Has("store:singletons"), rule, con, swPos, true,
				"scoped instances that are disposable are appended to the scope's disposal list (through fallthrough into the tracking code)",
				"the Scoped clause never reaches the code that appends a disposable instance to the scope's list: scoped instances are not closed with their scope")
			if wantScopedStore != "" {
				r.Check(may.Has(cacheKey), wantScopedStore, con+":cache", swPos, true,
					"the Scoped clause stores the instance in the scope's cache",
					"the Scoped clause does not store the instance in the scope's cache: every resolution constructs again")
			}
		case "Transient":
			r.Check(may.Has("append:scope.disposables"), rule, con, swPos, true,
				"transient instances that are disposable are appended to the scope's disposal list",
				"the Transient clause does not append a disposable instance to the scope's list: transient disposables leak")
			if wantTransientNoCache != "" {
				r.Check(!may.Has(cacheKey) && !may.Has("store:singletons"), wantTransientNoCache, con+":no-cache", swPos, true,
					"the Transient clause writes neither the scope cache nor the singleton table",
					"the Transient clause stores the instance in a cache: a transient instance would be handed out twice")
			}
		}
	}
	// must-level: on the path where the instance is a Disposable, it is appended or closed on the spot.
	// The code that asks the instance may be the owner or a private helper of it (trackDisposable).
	hasAssert := func(g *FuncInfo) map[types.Object]bool {
		ginfo := g.Pkg.TypesInfo
		okVars := map[types.Object]bool{}
		ast.Inspect(g.Decl.Body, func(n ast.Node) bool {
			if as, ok := n.(*ast.AssignStmt); ok && len(as.Lhs) == 2 && len(as.Rhs) == 1 {
				if ta, ok := unparen(as.Rhs[0]).(*ast.TypeAssertExpr); ok && ta.Type != nil {
					if tv, ok := ginfo.Types[ta.Type]; ok && isNamedType(tv.Type, modPath, "Disposable") {
						okVars[objOf(ginfo, as.Lhs[1])] = true
					}
				}
			}
			return true
		})
		return okVars
	}
	stopOther := func(owner *FuncInfo) func(h *FuncInfo) bool {
		return func(h *FuncInfo) bool {
			return h != owner && (h == ro.setSingleton || h == ro.setInstance || ro.isCreate(h.Obj) || h.Obj.Name() == "Close")
		}
	}
	effects := func(finfo *types.Info, n ast.Node) (appended, closed bool) {
		if as, ok := n.(*ast.AssignStmt); ok {
			for i, l := range as.Lhs {
				if fv := fieldOf(finfo, l); fv != nil && i < len(as.Rhs) {
					if c, ok := unparen(as.Rhs[i]).(*ast.CallExpr); ok && exprStr(c.Fun) == "append" {
						if sl, ok := fv.Type().Underlying().(*types.Slice); ok && isNamedType(sl.Elem(), modPath, "Disposable") {
							appended = true
						}
					}
				}
			}
		}
		for _, c := range callsIn(n, false) {
			if _, k, ok := isCloseCall(finfo, c); ok && k == "disposable" {
				closed = true
			}
		}
		return
	}
	for _, owner := range []*FuncInfo{fi, ro.setSingleton} {
		var f *FuncInfo
		var okVars map[types.Object]bool
		for _, g := range w.Within(owner, 2) {
			if stopOther(owner)(g) {
				continue
			}
			if ov := hasAssert(g); len(ov) > 0 {
				f, okVars = g, ov
				break
			}
		}
		if f == nil {
			r.Fail(rule, owner.Name()+"#disposable-test", owner.Decl.Pos(), "%s never tests whether the instance implements Disposable", owner.Name())
			continue
		}
		r.Analysed(f)
		finfo := f.Pkg.TypesInfo // helpers are in the same package
		fl := w.FlowOf(f)
		// a predicate helper around the assertion (asDisposable(x) (Disposable, bool)) answers what
		// the assertion answered: it says "no" only where the assertion failed
		if f != owner && f.Decl.Type.Results != nil {
			rl := f.Decl.Type.Results.List
			if last := rl[len(rl)-1]; exprStr(last.Type) == "bool" {
				nsol := fl.Solve(Spec{Must: true, Edge: func(b *cfg.Block, i int, cond ast.Expr, in Facts) (gen, kill []string) {
					if cond == nil {
						return
					}
					c, neg := unparen(cond), false
					if u, isU := c.(*ast.UnaryExpr); isU && u.Op == token.NOT {
						c, neg = unparen(u.X), true
					}
					if okVars[objOf(finfo, c)] && ((i == 0) == neg) {
						gen = append(gen, "assertion-failed")
					}
					return
				}})
				badRet := ""
				for _, ex := range fl.Exits() {
					if ex.Ret == nil || len(ex.Ret.Results) == 0 {
						continue
					}
					lr := unparen(ex.Ret.Results[len(ex.Ret.Results)-1])
					if id, isId := lr.(*ast.Ident); isId && id.Name == "false" && !nsol.AtExit(ex).Has("assertion-failed") {
						badRet = w.Pos(ex.Pos)
					}
				}
				r.Check(badRet == "", rule, owner.Name()+"#disposable-predicate", f.Decl.Pos(), true,
					"the predicate around the Disposable assertion says no only where the assertion failed",
					f.Name()+" answers \"not a Disposable\" at "+badRet+" although the assertion succeeded: an instance with a Close method (a zero-valued struct or number with a value receiver, for instance) is never tracked, so never closed")
			}
		}
		// the answer of instance.(Disposable) is used as given: an assignment that overwrites it
		// (`ok = false` for some lifetime, some scope) makes a Disposable look like none
		overwritten := ""
		ast.Inspect(f.Decl.Body, func(n ast.Node) bool {
			as, ok := n.(*ast.AssignStmt)
			if !ok {
				return true
			}
			for i, l := range as.Lhs {
				if !okVars[objOf(finfo, l)] {
					continue
				}
				isAssert := false
				if len(as.Rhs) == 1 {
					if _, isTA := unparen(as.Rhs[0]).(*ast.TypeAssertExpr); isTA {
						isAssert = true
					}
				}
				_ = i
				if !isAssert {
					overwritten = w.Pos(as.Pos())
				}
			}
			return true
		})
		r.Check(overwritten == "", rule, owner.Name()+"#disposable-answer-kept", f.Decl.Pos(), false,
			"the result of the Disposable assertion is never overwritten",
			"the result of instance.(Disposable) is overwritten at "+overwritten+": an instance that is a Disposable is treated as if it were none on some path and is never closed")
		isDispEdge := func(b *cfg.Block, i int, cond ast.Expr, in Facts) (gen, kill []string) {
			if cond != nil && okVars[objOf(finfo, cond)] && i == 0 {
				gen = append(gen, "is-disposable", "pending")
			}
			return
		}
		sol := fl.Solve(Spec{Must: true, Global: globalPrefixes("tracked", "closed-here"), Stop: stopOther(owner),
			Node: func(n ast.Node, in Facts) (gen, kill []string) {
				a, c := effects(finfo, n)
				if a {
					gen = append(gen, "tracked")
				}
				if c {
					gen = append(gen, "closed-here")
				}
				return
			},
			Edge: isDispEdge})
		bad := ""
		for _, ex := range fl.Exits() {
			at := sol.AtExit(ex)
			if at.Has("is-disposable") && !at.Has("tracked") && !at.Has("closed-here") {
				bad = w.Pos(ex.Pos)
			}
		}
		// the same as a may-analysis of the negation, which survives the join after the test:
		// "a Disposable is in hand and has not been appended or closed yet"
		pend := fl.Solve(Spec{Must: false, Global: globalPrefixes("pending"), Stop: stopOther(owner),
			Node: func(n ast.Node, in Facts) (gen, kill []string) {
				if a, c := effects(finfo, n); a || c {
					kill = append(kill, "pending")
				}
				return
			},
			Edge: func(b *cfg.Block, i int, cond ast.Expr, in Facts) (gen, kill []string) {
				if cond != nil && okVars[objOf(finfo, cond)] && i == 0 {
					gen = append(gen, "pending")
				}
				return
			}})
		for _, ex := range fl.Exits() {
			if ex.Panic {
				continue
			}
			if pend.AtExit(ex).Has("pending") && bad == "" {
				bad = w.Pos(ex.Pos) + " (on a path that skips the append)"
			}
		}
		r.Check(bad == "", rule, owner.Name()+"#disposable-path", f.Decl.Pos(), true,
			"on every path on which the instance is a Disposable it is appended to the owner's list, or closed on the spot when the owner was found disposed",
			"the exit at "+bad+" is reached with a Disposable instance that was neither tracked nor closed")

		// the test must look at the instance itself and be reached on every path that owns the instance
		oinfo := owner.Pkg.TypesInfo
		testedSpec := Spec{Must: true, Global: globalPrefixes("instance-tested"), Stop: stopOther(owner),
			Node: func(n ast.Node, in Facts) (gen, kill []string) {
				if as, ok := n.(*ast.AssignStmt); ok && len(as.Rhs) == 1 {
					if ta, ok := unparen(as.Rhs[0]).(*ast.TypeAssertExpr); ok && ta.Type != nil {
						if tv, ok := oinfo.Types[ta.Type]; ok && isNamedType(tv.Type, modPath, "Disposable") {
							gen = append(gen, "instance-tested")
						}
					}
				}
				return
			}, Edge: condEdge(w, oinfo, 1)}
		var flows []*Flow
		if owner == fi {
			for _, lt := range []string{"Scoped", "Transient"} {
				flows = append(flows, d.flowFor(w, lt))
			}
		} else {
			flows = append(flows, w.FlowOf(owner))
		}
		for _, rf := range flows {
			tsol := rf.Solve(testedSpec)
			for _, ex := range rf.Exits() {
				if ex.Panic {
					continue
				}
				if ex.Ret != nil && (len(ex.Ret.Results) != 1 || !isNilIdent(oinfo, ex.Ret.Results[0])) {
					// an error exit - unless it hands back the tracking helper's own verdict
					if !(len(ex.Ret.Results) == 1 && returnsHelperVerdict(w, oinfo, ex.Ret.Results[0], f)) {
						continue
					}
				}
				at := tsol.AtExit(ex)
				if at.Has("instance-tested") {
					continue
				}
				nilInstance := false
				for k := range at {
					if strings.HasSuffix(k, "=nil") {
						nilInstance = true // setSingleton ignores nil instances
					}
				}
				if nilInstance && owner == ro.setSingleton {
					continue
				}
				r.Fail(rule, owner.Name()+"#instance-tested", ex.Pos, "a success exit is reached without having asked the instance itself whether it is a Disposable: disposability decided from anything else (the registered type, a cached flag) misses instances whose concrete type has a Close method")
			}
		}
	}
}

// returnsHelperVerdict: e is a call to the tracking helper f (`return s.trackDisposable(x)`).
func returnsHelperVerdict(w *World, info *types.Info, e ast.Expr, f *FuncInfo) bool {
	c, ok := unparen(e).(*ast.CallExpr)
	return ok && callee(info, c) == f.Obj
}

// ruleListsAppendOnly: R11.2 - owner disposal lists are only appended to at the end, or reset.
func ruleListsAppendOnly(w *World, r *Report, rule string, la *LockAnalysis) {
	isList := func(v *types.Var) bool {
		sl, ok := v.Type().Underlying().(*types.Slice)
		if !ok || !isNamedType(sl.Elem(), modPath, "Disposable") {
			return false
		}
		o := ownerOfField(w, v)
		return o == "scope" || o == "provider"
	}
	n := 0
	for _, a := range collectAccesses(w, la, isList) {
		if !a.IsWrite() {
			continue
		}
		n++
		con := fmt.Sprintf("%s#%s.%s/%d", unitName(a.Unit), ownerOfField(w, a.Field), a.Field.Name(), n)
		info := a.Unit.pkg.TypesInfo
		ok, why := false, "the list is modified other than by appending at its end"
		if a.Kind == "addr" && addrOnlyResets(w, a) {
			ok, why = true, "reset (through a private helper that reads the list and sets it to nil)"
		}
		if as, isAs := a.Node.(*ast.AssignStmt); isAs && a.Kind == "write" {
			for i, l := range as.Lhs {
				if fieldOf(info, l) != a.Field || i >= len(as.Rhs) {
					continue
				}
				rhs := unparen(as.Rhs[i])
				if isNilIdent(info, rhs) {
					ok, why = true, "reset"
				}
				if c, isC := rhs.(*ast.CallExpr); isC {
					switch exprStr(c.Fun) {
					case "append":
						if len(c.Args) >= 2 && fieldOf(info, c.Args[0]) == a.Field && !c.Ellipsis.IsValid() {
							ok, why = true, "append at the end: list order is creation (completion) order"
						} else {
							why = "the new element is not appended at the end of the existing list (" + exprStr(rhs) + "): list order is no longer creation order"
						}
					case "make":
						ok, why = true, "fresh list"
					}
				}
			}
		}
		r.Check(ok, rule, con, a.Pos(), true, why, why)
	}
}

// ruleBuildCleanup: R10.5a - once the provider exists, every failing exit of
// doBuild closes it.
func ruleBuildCleanup(w *World, r *Report, rule string) {
	ro := resolveRoles(w)
	fi := ro.doBuild
	r.Analysed(fi)
	info := fi.Pkg.TypesInfo
	_, pObj := providerAllocNode(w, ro, w.FlowOf(fi))
	if pObj == nil {
		r.Undecided(rule, fi.Name()+"#provider-var", fi.Decl.Pos(), "provider allocation not bound to a variable")
		return
	}
	fl := w.FlowOf(fi)
	startsWork := func(c *ast.CallExpr) bool {
		cal := callee(info, c)
		return cal != nil && (cal == ro.createAll.Obj || cal == ro.runInits.Obj || ro.isCreate(cal) || (ro.newScope != nil && cal == ro.newScope.Obj))
	}
	may := fl.Solve(Spec{Must: false, Node: func(n ast.Node, in Facts) (gen, kill []string) {
		for _, c := range callsIn(n, false) {
			if startsWork(c) {
				gen = append(gen, "started")
			}
		}
		return
	}})
	must := fl.Solve(Spec{Must: true, Node: func(n ast.Node, in Facts) (gen, kill []string) {
		for _, c := range callsIn(n, false) {
			if rcv, k, ok := isCloseCall(info, c); ok && k == "provider" && objOf(info, rcv) == pObj {
				gen = append(gen, "closed")
			}
			// handed to a private helper that closes it on every path (abortBuild(p, …) or p.abortBuild(…))
			if cal := callee(info, c); cal != nil && !cal.Exported() && w.Decls[cal] != nil {
				for i, a := range c.Args {
					if objOf(info, a) == pObj && helperMustCloseParam(w, w.Decls[cal], i, "provider") {
						gen = append(gen, "closed")
					}
				}
				if rcv, _, isM := methodCall(c); isM && objOf(info, rcv) == pObj && helperMustCloseParam(w, w.Decls[cal], -1, "provider") {
					gen = append(gen, "closed")
				}
			}
		}
		return
	}})
	n := 0
	for _, ex := range fl.Exits() {
		if ex.Ret == nil || len(ex.Ret.Results) != 2 || !may.AtExit(ex).Has("started") {
			continue
		}
		if !isNilIdent(info, ex.Ret.Results[0]) {
			continue // success exit
		}
		n++
		con := fmt.Sprintf("%s#failure-exit/%d", fi.Name(), n)
		r.Check(must.AtExit(ex).Has("closed"), rule, con, ex.Pos, true,
			"the partially built provider is closed before Build reports the failure",
			"Build returns an error after construction of instances has started without closing the partially built provider: the singletons created so far are never disposed")
	}
	if n == 0 {
		r.Fail(rule, fi.Name()+"#failure-exit/0", fi.Decl.Pos(), "doBuild has no failure exit after singleton construction starts: errors of eager construction are not reported")
	}
}

// ruleFanOut: R10.6 - the loops of createInstance that hand several outputs of
// one constructor call to setInstance process every output (no exit from inside
// the loop).
func ruleFanOut(w *World, r *Report, rule string) {
	ro := resolveRoles(w)
	r.Analysed(ro.createInstance)
	helpers := w.HelperClosure(map[*FuncInfo]string{ro.createInstance: "createInstance"})
	n := 0
	var fis []*FuncInfo
	for fi := range helpers {
		fis = append(fis, fi)
	}
	sort.Slice(fis, func(i, j int) bool { return posLess(fis[i].Decl.Pos(), fis[j].Decl.Pos()) })
	for _, fi := range fis {
		if fi == ro.setInstance || fi == ro.setSingleton {
			continue
		}
		info := fi.Pkg.TypesInfo
		ast.Inspect(fi.Decl.Body, func(x ast.Node) bool {
			st, isStmt := x.(ast.Stmt)
			if !isStmt {
				return true
			}
			il := asIterLoop(info, st)
			if il == nil {
				return true
			}
			rs := struct {
				X    ast.Expr
				Body *ast.BlockStmt
			}{il.Coll, il.Body}
			var set *ast.CallExpr
			for _, c := range callsIn(rs.Body, false) {
				if callee(info, c) == ro.setInstance.Obj {
					set = c
				}
			}
			if set == nil {
				return true
			}
			n++
			r.Analysed(fi)
			fam := "outputs in " + exprStr(rs.X)
			bad := 0
			inspectNoLit(rs.Body, func(m ast.Node) bool {
				switch b := m.(type) {
				case *ast.ReturnStmt:
					bad++
					what := "return"
					if len(b.Results) > 0 {
						last := unparen(b.Results[len(b.Results)-1])
						if l := litOf(last); l != nil {
							what = "return:" + exprStr(l.Type)
						} else {
							what = "return:" + exprStr(last)
						}
					}
					con := fmt.Sprintf("%s#fan-out(%s)/%s", fi.Name(), exprStr(rs.X), what)
					r.Fail(rule, con, b.Pos(), "return inside the loop that hands the %s to setInstance: the outputs not yet visited are never tracked or closed, while earlier ones are already cached", fam)
				case *ast.BranchStmt:
					if b.Tok == token.BREAK || b.Tok == token.GOTO {
						bad++
						con := fmt.Sprintf("%s#fan-out(%s)/%s", fi.Name(), exprStr(rs.X), b.Tok)
						r.Fail(rule, con, b.Pos(), "%s inside the fan-out loop strands outputs", b.Tok)
					}
				}
				return true
			})
			// whether an output reaches setInstance may depend on the output itself (a marker
			// field of the element), never on what happened to the outputs before it
			conds, _ := controllingCondsInfo(info, il.Body, set.Pos())
			for _, cd := range conds {
				onlyElem := true
				ast.Inspect(cd, func(y ast.Node) bool {
					if id, ok := y.(*ast.Ident); ok {
						if v, isVar := info.Uses[id].(*types.Var); isVar && !v.IsField() && !il.IsElem(id) && v != il.Elem {
							onlyElem = false
						}
					}
					return true
				})
				// ... and on its identity (descriptor, key, a marker), never on the value that was
				// produced: an output that is not stored is constructed again by the next resolution
				if onlyElem {
					var instField *types.Var
					var instObj types.Object
					for _, a := range set.Args {
						if tv, ok := info.Types[a]; ok && types.IsInterface(tv.Type) {
							instField = fieldOf(info, a)
							instObj = objOf(info, a)
						}
					}
					onValue := false
					ast.Inspect(cd, func(y ast.Node) bool {
						if sel, ok := y.(*ast.SelectorExpr); ok && instField != nil && fieldOf(info, sel) == instField {
							onValue = true
						}
						if id, ok := y.(*ast.Ident); ok && instObj != nil && info.Uses[id] == instObj {
							onValue = true
						}
						return true
					})
					if onValue {
						bad++
						r.Fail(rule, fmt.Sprintf("%s#fan-out(%s)/value-dependent", fi.Name(), exprStr(rs.X)), cd.Pos(), "whether an output is handed to setInstance depends on the value the constructor produced (%s): an output that is not stored is a cache miss for ever - every resolution of it runs the shared constructor again, and the fan-out overwrites the cached sibling outputs with new instances", exprStr(cd))
					}
				}
				if !onlyElem {
					bad++
					r.Fail(rule, fmt.Sprintf("%s#fan-out(%s)/conditional", fi.Name(), exprStr(rs.X)), cd.Pos(), "setInstance is only called when %s holds: some outputs of the constructor call are never stored or tracked", exprStr(cd))
				}
			}
			if bad == 0 {
				r.OK(rule, fmt.Sprintf("%s#fan-out(%s)", fi.Name(), exprStr(rs.X)), il.Stmt.Pos(), true, "the loop hands every one of the %s to setInstance (no exit, no skip)", fam)
			}
			return true
		})
	}
	if n < 1 {
		r.Fail(rule, ro.createInstance.Name()+"#fan-out", ro.createInstance.Decl.Pos(), "no loop handing the outputs of a multi-output constructor to setInstance was found")
	}
	// both multi-output families of createInstance reach such a loop
	fi := ro.createInstance
	info := fi.Pkg.TypesInfo
	storing := storingFuncs(w, ro)
	fams := 0
	ast.Inspect(fi.Decl.Body, func(x ast.Node) bool {
		// a test inside a loop (which output is the requested one?) is not the branch for a constructor form
		switch x.(type) {
		case *ast.ForStmt, *ast.RangeStmt:
			return false
		}
		ifs, ok := x.(*ast.IfStmt)
		if !ok {
			return true
		}
		cond := exprStr(ifs.Cond)
		if !(strings.Contains(cond, "IsResultObject") || strings.Contains(cond, "MultiReturnIndex")) {
			return true
		}
		fams++
		reaches := false
		for _, c := range callsIn(ifs.Body, false) {
			if cal := callee(info, c); cal != nil && storing[cal] {
				reaches = true
			}
		}
		r.Check(reaches, rule, fi.Name()+"#family:"+cond, ifs.Pos(), true,
			"the outputs of this constructor form are handed to setInstance", "the branch for "+cond+" never stores its outputs")
		return true
	})
	if fams < 2 {
		r.Fail(rule, fi.Name()+"#families", fi.Decl.Pos(), "expected the result-object and multi-return branches in %s, found %d", fi.Name(), fams)
	}
}

// storingFuncs: setInstance and the private helpers of createInstance that reach it.
func storingFuncs(w *World, ro *roles) map[*types.Func]bool {
	out := map[*types.Func]bool{ro.setInstance.Obj: true}
	helpers := w.HelperClosure(map[*FuncInfo]string{ro.createInstance: "createInstance"})
	for changed := true; changed; {
		changed = false
		for fi := range helpers {
			if fi == ro.createInstance || out[fi.Obj] {
				continue
			}
			for _, c := range callsIn(fi.Decl.Body, true) {
				if cal := callee(fi.Pkg.TypesInfo, c); cal != nil && out[cal] {
					out[fi.Obj] = true
					changed = true
				}
			}
		}
	}
	return out
}

// ruleCreateStores: R02.3 - every success exit of createInstance has passed setInstance.
func ruleCreateStores(w *World, r *Report, rule string) {
	ro := resolveRoles(w)
	storing := storingFuncs(w, ro)
	helpers := w.HelperClosure(map[*FuncInfo]string{ro.createInstance: "createInstance"})
	var fis []*FuncInfo
	for fi := range helpers {
		sig := fi.Obj.Type().(*types.Signature)
		if fi == ro.createInstance || (storing[fi.Obj] && fi != ro.setInstance && sig.Results().Len() == 2 && isErrorType(sig.Results().At(1).Type())) {
			fis = append(fis, fi)
		}
	}
	sort.Slice(fis, func(i, j int) bool { return posLess(fis[i].Decl.Pos(), fis[j].Decl.Pos()) })
	n := 0
	for _, fi := range fis {
		r.Analysed(fi)
		info := fi.Pkg.TypesInfo
		fl := w.FlowOf(fi)
		// a fan-out loop counts as a store once it has been passed
		loopStores := map[ast.Stmt]bool{}
		for _, il := range iterLoopsIn(info, fi.Decl.Body) {
			for _, c := range callsIn(il.Body, false) {
				if cal := callee(info, c); cal != nil && storing[cal] {
					loopStores[il.Stmt] = true
				}
			}
		}
		sol := fl.Solve(Spec{Must: true,
			Node: func(nd ast.Node, in Facts) (gen, kill []string) {
				for _, c := range callsIn(nd, false) {
					if cal := callee(info, c); cal != nil && storing[cal] {
						gen = append(gen, "stored")
					}
				}
				return
			},
			Edge: func(b *cfg.Block, i int, cond ast.Expr, in Facts) (gen, kill []string) {
				if (b.Kind == cfg.KindRangeLoop || b.Kind == cfg.KindForLoop) && i == 1 && loopStores[b.Stmt] {
					gen = append(gen, "stored")
				}
				return
			}})
		for _, ex := range fl.Exits() {
			if ex.Ret == nil {
				continue
			}
			if len(ex.Ret.Results) == 1 {
				// return helper(...): delegated to a storing helper, which is checked itself
				if c, ok := unparen(ex.Ret.Results[0]).(*ast.CallExpr); ok {
					if cal := callee(info, c); cal != nil && storing[cal] && cal != ro.setInstance.Obj {
						n++
						r.OK(rule, fmt.Sprintf("%s#success-exit/%d", fi.Name(), n), ex.Pos, false, "delegated to the storing helper %s, whose own exits are checked", cal.Name())
						continue
					}
				}
			}
			if len(ex.Ret.Results) != 2 || !isNilIdent(info, ex.Ret.Results[1]) {
				continue
			}
			n++
			con := fmt.Sprintf("%s#success-exit/%d", fi.Name(), n)
			r.Check(sol.AtExit(ex).Has("stored"), rule, con, ex.Pos, true,
				"the instance returned here has been handed to setInstance (cached per lifetime, tracked for disposal) on every path",
				fi.Name()+" returns an instance without passing through setInstance: it is neither cached nor tracked for disposal")
		}
	}
	if n < 5 {
		r.Fail(rule, ro.createInstance.Name()+"#success-exits", ro.createInstance.Decl.Pos(), "expected at least 5 success exits (instance value, initializer, result object, multi-return, plain), found %d", n)
	}
}

// helperMustCloseParam: every normal exit of h has called Close on its idx-th parameter.
func helperMustCloseParam(w *World, h *FuncInfo, idx int, kind string) bool {
	info := h.Pkg.TypesInfo
	var params []types.Object
	for _, f := range h.Decl.Type.Params.List {
		for _, nm := range f.Names {
			params = append(params, info.Defs[nm])
		}
	}
	var p types.Object
	if idx < 0 {
		// the receiver: p.abortBuild(phase, details, cause)
		if h.Decl.Recv == nil || len(h.Decl.Recv.List[0].Names) != 1 {
			return false
		}
		p = info.Defs[h.Decl.Recv.List[0].Names[0]]
	} else {
		if idx >= len(params) {
			return false
		}
		p = params[idx]
	}
	fl := w.FlowOf(h)
	sol := fl.Solve(Spec{Must: true, Node: func(n ast.Node, in Facts) (gen, kill []string) {
		for _, c := range callsIn(n, false) {
			if rcv, k, ok := isCloseCall(info, c); ok && k == kind && objOf(info, rcv) == p {
				gen = append(gen, "closed")
			}
		}
		return
	}})
	n := 0
	for _, ex := range fl.Exits() {
		if ex.Panic {
			continue
		}
		n++
		if !sol.AtExit(ex).Has("closed") {
			return false
		}
	}
	return n > 0
}

// addrOnlyResets: &x.f is an argument of a call to a private function that only
// reads *p and assigns nil through it (a drain helper).
func addrOnlyResets(w *World, a *Access) bool {
	if a.Node == nil || a.Unit == nil {
		return false
	}
	info := a.Unit.pkg.TypesInfo
	for _, c := range callsIn(a.Node, false) {
		cal := callee(info, c)
		if cal == nil || cal.Exported() {
			continue
		}
		if o := cal.Origin(); o != nil {
			cal = o
		}
		t := w.Decls[cal]
		if t == nil {
			continue
		}
		tinfo := t.Pkg.TypesInfo
		k := 0
		for _, fl := range t.Decl.Type.Params.List {
			for _, nm := range fl.Names {
				if k < len(c.Args) {
					if ue, isU := unparen(c.Args[k]).(*ast.UnaryExpr); isU && ue.Op == token.AND && fieldOf(info, ue.X) == a.Field {
						po := tinfo.Defs[nm]
						if !assignsNilThrough(tinfo, t, po) {
							return false
						}
						// no other write through the pointer
						good := true
						ast.Inspect(t.Decl.Body, func(x ast.Node) bool {
							if as, ok := x.(*ast.AssignStmt); ok && len(as.Lhs) == len(as.Rhs) {
								for i, l := range as.Lhs {
									target := unparen(l)
									if ix, isIx := target.(*ast.IndexExpr); isIx {
										target = unparen(ix.X)
									}
									if st, isStar := target.(*ast.StarExpr); isStar && objOf(tinfo, st.X) == po && !isNilIdent(tinfo, as.Rhs[i]) {
										good = false
									}
								}
							}
							return true
						})
						return good
					}
				}
				k++
			}
		}
	}
	return false
}
