package main

import (
	"fmt"
	"go/ast"
	"go/token"
	"go/types"
	"os"
	"path/filepath"
	"sort"
	"strings"

	"golang.org/x/tools/go/packages"
	"golang.org/x/tools/go/ssa"
	"golang.org/x/tools/go/ssa/ssautil"
)

const modPath = "github.com/junioryono/godi/v4"

// integrations lists the five web-framework modules analysed for C16.
var integrations = []string{"http", "chi", "gin", "echo", "fiber"}

// FuncInfo is a source function (declaration) of the repository.
type FuncInfo struct {
	Decl *ast.FuncDecl
	Pkg  *packages.Package
	Obj  *types.Func
}

func (f *FuncInfo) Name() string {
	if f == nil {
		return "<nil>"
	}
	return funcDisplayName(f.Obj)
}

// World is everything the rules look at: the type-checked syntax of the six modules.
type World struct {
	palias  map[types.Object]*types.Var // map-typed parameters that denote a struct field's table (see paramAliases)
	noAlias bool
	Root  string
	Fset  *token.FileSet
	Pkgs  []*packages.Package // the repository's own packages, all modules
	Godi  *packages.Package
	Graph *packages.Package
	Refl  *packages.Package
	Integ map[string]*packages.Package

	Decls   map[*types.Func]*FuncInfo
	byName  map[string]*FuncInfo // "pkgpath.(*T).m" or "pkgpath.f"
	Files   []string
	FastPkg *packages.Package // fasthttp syntax (fiber lemma), loaded on demand

	callers map[*FuncInfo]map[*FuncInfo]bool

	fieldRoleCache map[string]*types.Var
	canonOf        map[*types.Var]string

	ssaProg *ssa.Program
	ssaPkgs map[*packages.Package]*ssa.Package
}

// undecided aborts the run with exit status 2: the analysis could not be carried
// out (loader failure, unresolved anchor). It is never reported as a violation.
type undecidedErr struct{ msg string }

func undecidedf(format string, a ...any) {
	panic(undecidedErr{fmt.Sprintf(format, a...)})
}

func loadModule(fset *token.FileSet, dir string, env []string, patterns ...string) []*packages.Package {
	cfg := &packages.Config{
		Mode: packages.NeedName | packages.NeedFiles | packages.NeedCompiledGoFiles |
			packages.NeedImports | packages.NeedTypes | packages.NeedTypesSizes |
			packages.NeedSyntax | packages.NeedTypesInfo | packages.NeedModule,
		Dir:   dir,
		Fset:  fset,
		Env:   env,
		Tests: false,
	}
	pkgs, err := packages.Load(cfg, patterns...)
	if err != nil {
		undecidedf("loading %s: %v", dir, err)
	}
	if len(pkgs) == 0 {
		undecidedf("loading %s: no packages", dir)
	}
	for _, p := range pkgs {
		for _, e := range p.Errors {
			undecidedf("package %s in %s does not load cleanly: %v", p.PkgPath, dir, e)
		}
		if p.Types == nil || p.TypesInfo == nil {
			undecidedf("package %s in %s has no type information", p.PkgPath, dir)
		}
	}
	return pkgs
}

func goEnv(extra ...string) []string {
	env := []string{}
	for _, kv := range os.Environ() {
		k := kv
		if i := strings.IndexByte(kv, '='); i >= 0 {
			k = kv[:i]
		}
		switch k {
		case "GOFLAGS", "GOPROXY", "GOWORK", "GOSUMDB", "GOTOOLCHAIN", "GOOS", "GOARCH":
			continue
		}
		env = append(env, kv)
	}
	// GOSUMDB is left at its default: "off" breaks the automatic switch to the
	// cached go1.24.6 toolchain that /repo/go.mod requires.
	env = append(env, "GOFLAGS=-mod=mod", "GOPROXY=off", "GOWORK=off", "GOTOOLCHAIN=auto")
	env = append(env, extra...)
	return env
}

// Load type-checks the six modules of the repository rooted at root.
func Load(root string, extraEnv ...string) *World {
	w := &World{
		Root:   root,
		Fset:   token.NewFileSet(),
		Integ:  map[string]*packages.Package{},
		Decls:  map[*types.Func]*FuncInfo{},
		byName: map[string]*FuncInfo{},
	}
	env := goEnv(extraEnv...)
	posFset = w.Fset // positions compared while loading (role fallbacks) are this world's
	rootPkgs := loadModule(w.Fset, root, env, "./...")
	for _, p := range rootPkgs {
		switch p.PkgPath {
		case modPath:
			w.Godi = p
		case modPath + "/internal/graph":
			w.Graph = p
		case modPath + "/internal/reflection":
			w.Refl = p
		default:
			undecidedf("unexpected package %s in the root module", p.PkgPath)
		}
		w.Pkgs = append(w.Pkgs, p)
	}
	if w.Godi == nil || w.Graph == nil || w.Refl == nil {
		undecidedf("root module: expected packages godi, internal/graph, internal/reflection")
	}
	for _, m := range integrations {
		dir := filepath.Join(root, m)
		if _, err := os.Stat(filepath.Join(dir, "go.mod")); err != nil {
			undecidedf("integration module %s is missing: %v", m, err)
		}
		pkgs := loadModule(w.Fset, dir, env, "./...")
		found := false
		for _, p := range pkgs {
			if p.PkgPath == modPath+"/"+m {
				w.Integ[m] = p
				w.Pkgs = append(w.Pkgs, p)
				found = true
			}
		}
		if !found {
			undecidedf("integration module %s: package %s/%s not found", m, modPath, m)
		}
	}
	for _, p := range w.Pkgs {
		recordLenDefs(p.TypesInfo, p.Syntax)
		for i, f := range p.Syntax {
			name := p.CompiledGoFiles[i]
			if rel, err := filepath.Rel(root, name); err == nil {
				name = rel
			}
			w.Files = append(w.Files, name)
			for _, d := range f.Decls {
				fd, ok := d.(*ast.FuncDecl)
				if !ok || fd.Body == nil {
					continue
				}
				obj, _ := p.TypesInfo.Defs[fd.Name].(*types.Func)
				if obj == nil {
					continue
				}
				fi := &FuncInfo{Decl: fd, Pkg: p, Obj: obj}
				w.Decls[obj] = fi
				w.byName[p.PkgPath+"."+funcDisplayName(obj)] = fi
			}
		}
	}
	sort.Strings(w.Files)
	if len(w.Files) == 0 {
		undecidedf("no source files analysed")
	}
	return w
}

// funcDisplayName renders "(*T).m", "T.m" or "f".
func funcDisplayName(f *types.Func) string {
	sig, _ := f.Type().(*types.Signature)
	if sig != nil && sig.Recv() != nil {
		t := sig.Recv().Type()
		ptr := ""
		if p, ok := t.(*types.Pointer); ok {
			ptr = "*"
			t = p.Elem()
		}
		name := "?"
		if n, ok := t.(*types.Named); ok {
			name = n.Obj().Name()
		}
		if ptr != "" {
			return "(*" + name + ")." + f.Name()
		}
		return name + "." + f.Name()
	}
	return f.Name()
}

// isReceiver reports whether o is the receiver variable of some method.
func (w *World) isReceiver(o types.Object) bool {
	if o == nil {
		return false
	}
	for _, fi := range w.Decls {
		if fi.Decl.Recv != nil {
			for _, f := range fi.Decl.Recv.List {
				for _, n := range f.Names {
					if fi.Pkg.TypesInfo.Defs[n] == o {
						return true
					}
				}
			}
		}
	}
	return false
}

// Callers maps every repository function to the declared functions that call
// it statically (calls inside function literals count for the enclosing function).
func (w *World) Callers() map[*FuncInfo]map[*FuncInfo]bool {
	if w.callers != nil {
		return w.callers
	}
	w.callers = map[*FuncInfo]map[*FuncInfo]bool{}
	for _, fi := range w.Decls {
		for _, c := range callsIn(fi.Decl.Body, true) {
			if cal := callee(fi.Pkg.TypesInfo, c); cal != nil {
				if t := w.Decls[cal]; t != nil {
					if w.callers[t] == nil {
						w.callers[t] = map[*FuncInfo]bool{}
					}
					w.callers[t][fi] = true
				}
			}
		}
	}
	return w.callers
}

// HelperClosure extends a set of functions with the unexported functions all
// of whose static callers are already in the set (private helpers).
func (w *World) HelperClosure(base map[*FuncInfo]string) map[*FuncInfo]string {
	out := map[*FuncInfo]string{}
	for k, v := range base {
		out[k] = v
	}
	callers := w.Callers()
	for changed := true; changed; {
		changed = false
		for _, fi := range w.Decls {
			if _, ok := out[fi]; ok || fi.Obj.Exported() || len(callers[fi]) == 0 {
				continue
			}
			all, why := true, ""
			for c := range callers[fi] {
				if v, ok := out[c]; ok {
					why = v
				} else {
					all = false
				}
			}
			if all {
				out[fi] = "helper of: " + why
				changed = true
			}
		}
	}
	return out
}

// Within returns fi together with the private (unexported, same-package)
// functions it reaches through static calls, bounded in depth: the code a
// maintainer may have split fi into. Order: fi first, then by position.
func (w *World) Within(fi *FuncInfo, depth int) []*FuncInfo {
	seen := map[*FuncInfo]bool{fi: true}
	out := []*FuncInfo{fi}
	frontier := []*FuncInfo{fi}
	for d := 0; d < depth; d++ {
		var next []*FuncInfo
		for _, f := range frontier {
			for _, c := range callsIn(f.Decl.Body, true) {
				cal := callee(f.Pkg.TypesInfo, c)
				if cal == nil || cal.Exported() {
					continue
				}
				t := w.Decls[cal]
				if t == nil || t.Pkg != fi.Pkg || seen[t] {
					continue
				}
				seen[t] = true
				next = append(next, t)
			}
		}
		sort.Slice(next, func(i, j int) bool { return posLess(next[i].Decl.Pos(), next[j].Decl.Pos()) })
		out = append(out, next...)
		frontier = next
	}
	return out
}

// Fn looks a function up by display name in a package; nil if absent.
func (w *World) Fn(p *packages.Package, display string) *FuncInfo {
	if fi := w.byName[p.PkgPath+"."+display]; fi != nil {
		// Close() { return x.closeWith(nil) }: the body of Close moved into a method that a second
		// entry (CloseWithReport, CloseWithContext) shares - that method is the closer the rules read
		if display == "(*scope).Close" || display == "(*provider).Close" {
			if h := closeDelegate(w, fi); h != nil {
				return h
			}
		}
		return fi
	}
	// the name is only a hint for unexported helpers: fall back to the role
	if pred, ok := roleFallbacks[display]; ok {
		var found []*FuncInfo
		for _, fi := range w.FuncsOf(p) {
			if !fi.Obj.Exported() && pred(w, fi) {
				found = append(found, fi)
			}
		}
		if len(found) == 1 {
			return found[0]
		}
	}
	return nil
}

// IsFn reports whether cal is the repository function known by display name
// (or, if it was renamed, by its role).
func (w *World) IsFn(cal *types.Func, p *packages.Package, display string) bool {
	if cal == nil {
		return false
	}
	fi := w.Fn(p, display)
	return fi != nil && fi.Obj == cal
}

func recvIs(fi *FuncInfo, name string) bool {
	rn := recvNamed(fi.Obj)
	return rn != nil && rn.Obj().Name() == name
}

func hasLiteralOf(w *World, fi *FuncInfo, pkgPath, typeName string, depth int) bool {
	for _, f := range w.Within(fi, depth) {
		found := false
		ast.Inspect(f.Decl.Body, func(n ast.Node) bool {
			if cl, ok := n.(*ast.CompositeLit); ok {
				if tv, ok := f.Pkg.TypesInfo.Types[cl]; ok && isNamedType(tv.Type, pkgPath, typeName) {
					found = true
				}
			}
			return !found
		})
		if found {
			return true
		}
	}
	return false
}

func callsIfaceOf(fi *FuncInfo, iface string) bool {
	for _, c := range callsIn(fi.Decl.Body, true) {
		if cal := callee(fi.Pkg.TypesInfo, c); cal != nil {
			if rn := recvNamed(cal); rn != nil && rn.Obj().Name() == iface {
				return true
			}
		}
	}
	return false
}

// hasParamOf: one of the function's parameters has the named type (or a pointer to it).
func hasParamOf(fi *FuncInfo, pkgPath, name string) bool {
	ps := fi.Obj.Type().(*types.Signature).Params()
	for i := 0; i < ps.Len(); i++ {
		if isNamedType(ps.At(i).Type(), pkgPath, name) {
			return true
		}
	}
	return false
}

func resultsAre(fi *FuncInfo, check func(*types.Tuple) bool) bool {
	return check(fi.Obj.Type().(*types.Signature).Results())
}

// roleFallbacks resolves renamed unexported helpers by what they do.
var roleFallbacks = map[string]func(w *World, fi *FuncInfo) bool{
	"(*collection).addService": func(w *World, fi *FuncInfo) bool {
		if !recvIs(fi, "collection") {
			return false
		}
		n := 0
		for _, name := range []string{"(*collection).AddSingleton", "(*collection).AddScoped", "(*collection).AddTransient"} {
			if c := w.byName[fi.Pkg.PkgPath+"."+name]; c != nil && w.Callers()[fi][c] {
				n++
			}
		}
		return n == 3
	},
	"(*collection).validateLifetimes": func(w *World, fi *FuncInfo) bool {
		return recvIs(fi, "collection") && hasLiteralOf(w, fi, modPath, "LifetimeConflictError", 2) && len(w.Callers()[fi]) > 0 && !hasLiteralOf(w, fi, modPath, "provider", 0)
	},
	"newScope": func(w *World, fi *FuncInfo) bool {
		return fi.Decl.Recv == nil && resultsAre(fi, func(t *types.Tuple) bool {
			return t.Len() == 2 && isNamedType(t.At(0).Type(), modPath, "scope") && isErrorType(t.At(1).Type())
		})
	},
	"(*provider).findDescriptor": func(w *World, fi *FuncInfo) bool {
		return recvIs(fi, "provider") && resultsAre(fi, func(t *types.Tuple) bool {
			if t.Len() != 1 {
				return false
			}
			_, isPtr := t.At(0).Type().(*types.Pointer)
			return isPtr && isNamedType(t.At(0).Type(), modPath, "Descriptor")
		})
	},
	"(*provider).findGroupDescriptors": func(w *World, fi *FuncInfo) bool {
		return recvIs(fi, "provider") && resultsAre(fi, func(t *types.Tuple) bool {
			if t.Len() != 1 {
				return false
			}
			sl, isSl := t.At(0).Type().(*types.Slice)
			return isSl && isNamedType(sl.Elem(), modPath, "Descriptor")
		})
	},
	"(*Analyzer).analyzeParamObject": func(w *World, fi *FuncInfo) bool {
		return recvIs(fi, "Analyzer") && hasLiteralOf(w, fi, modPath+"/internal/reflection", "ParameterInfo", 0) && hasNumFieldLoop(fi)
	},
	"(*Analyzer).analyzeResultObject": func(w *World, fi *FuncInfo) bool {
		return recvIs(fi, "Analyzer") && hasLiteralOf(w, fi, modPath+"/internal/reflection", "ReturnInfo", 0) && hasNumFieldLoop(fi)
	},
	"(*Analyzer).buildDependencies": func(w *World, fi *FuncInfo) bool {
		return recvIs(fi, "Analyzer") && hasLiteralOf(w, fi, modPath+"/internal/reflection", "Dependency", 0)
	},
	"(*ConstructorInvoker).resolveParameter": func(w *World, fi *FuncInfo) bool {
		// a method of the invoker, or a plain function taking the parameter record
		return (recvIs(fi, "ConstructorInvoker") || (fi.Decl.Recv == nil && hasParamOf(fi, modPath+"/internal/reflection", "ParameterInfo"))) && callsIfaceOf(fi, "DependencyResolver")
	},
	"(*ParamObjectBuilder).resolveFieldDependency": func(w *World, fi *FuncInfo) bool {
		return (recvIs(fi, "ParamObjectBuilder") || (fi.Decl.Recv == nil && hasParamOf(fi, "reflect", "StructField"))) && callsIfaceOf(fi, "DependencyResolver")
	},
	"(*ConstructorInvoker).buildArguments": func(w *World, fi *FuncInfo) bool {
		return recvIs(fi, "ConstructorInvoker") && resultsAre(fi, func(t *types.Tuple) bool {
			if t.Len() != 2 || !isErrorType(t.At(1).Type()) {
				return false
			}
			sl, isSl := t.At(0).Type().(*types.Slice)
			return isSl && isNamedType(sl.Elem(), "reflect", "Value")
		}) && !callsIfaceOf(fi, "DependencyResolver") && fi.Obj.Name() != "invokeWithRecovery" && !callsReflectCall(fi)
	},
}

func hasNumFieldLoop(fi *FuncInfo) bool {
	return structFieldLoop(fi.Pkg.TypesInfo, fi.Decl.Body) != nil
}

func callsReflectCall(fi *FuncInfo) bool {
	for _, c := range callsIn(fi.Decl.Body, true) {
		if isFunc(callee(fi.Pkg.TypesInfo, c), "reflect", "Value", "Call") {
			return true
		}
	}
	return false
}

// MustFn is Fn, but an absent anchor makes the run UNDECIDED.
func (w *World) MustFn(p *packages.Package, display string) *FuncInfo {
	f := w.Fn(p, display)
	if f == nil {
		undecidedf("anchor function %s.%s not found", p.PkgPath, display)
	}
	return f
}

// FuncsOf lists the source functions of a package in source order.
func (w *World) FuncsOf(p *packages.Package) []*FuncInfo {
	var out []*FuncInfo
	for _, fi := range w.Decls {
		if fi.Pkg == p {
			out = append(out, fi)
		}
	}
	sort.Slice(out, func(i, j int) bool { return posLess(out[i].Decl.Pos(), out[j].Decl.Pos()) })
	return out
}

// AllFuncs lists every source function of the repository in a stable order.
func (w *World) AllFuncs() []*FuncInfo {
	var out []*FuncInfo
	for _, p := range w.Pkgs {
		out = append(out, w.FuncsOf(p)...)
	}
	return out
}

func (w *World) Pos(p token.Pos) string {
	if !p.IsValid() {
		return "-"
	}
	pos := w.Fset.Position(p)
	name := pos.Filename
	if rel, err := filepath.Rel(w.Root, name); err == nil && !strings.HasPrefix(rel, "..") {
		name = rel
	}
	return fmt.Sprintf("%s:%d", name, pos.Line)
}

// Struct returns the named struct type name in package p.
func (w *World) Struct(p *packages.Package, name string) (*types.Named, *types.Struct) {
	obj := p.Types.Scope().Lookup(name)
	if obj == nil {
		undecidedf("anchor type %s.%s not found", p.PkgPath, name)
	}
	named, ok := obj.Type().(*types.Named)
	if !ok {
		undecidedf("anchor type %s.%s is not a named type", p.PkgPath, name)
	}
	st, ok := named.Underlying().(*types.Struct)
	if !ok {
		undecidedf("anchor type %s.%s is not a struct", p.PkgPath, name)
	}
	return named, st
}

// Field returns the field object of a struct by name; UNDECIDED if absent.
// flatFields lists the fields of a struct including those promoted from
// embedded structs of the repository (grouping related fields into an embedded
// unexported struct keeps every selector valid; the roles stay with the fields).
func flatFields(st *types.Struct) []*types.Var {
	var out []*types.Var
	for i := 0; i < st.NumFields(); i++ {
		f := st.Field(i)
		if f.Embedded() {
			if n := namedOf(f.Type()); n != nil && n.Obj().Pkg() != nil && strings.HasPrefix(n.Obj().Pkg().Path(), modPath) {
				if est, ok := n.Underlying().(*types.Struct); ok {
					out = append(out, flatFields(est)...)
					continue
				}
			}
		}
		out = append(out, f)
	}
	return out
}

func (w *World) Field(p *packages.Package, structName, field string) *types.Var {
	_, st := w.Struct(p, structName)
	for _, f := range flatFields(st) {
		if f.Name() == field {
			return f
		}
	}
	if v := w.resolveFieldRole(p, structName, field); v != nil {
		return v // renamed: found again by its role
	}
	undecidedf("anchor field %s.%s.%s not found", p.PkgPath, structName, field)
	return nil
}

// FieldByType finds the unique field of a struct whose type satisfies pred
// (role resolution: "the field of scope of type map[instanceKey]any").
func (w *World) FieldByType(p *packages.Package, structName, role string, pred func(types.Type) bool) *types.Var {
	_, st := w.Struct(p, structName)
	var found []*types.Var
	for _, f := range flatFields(st) {
		if pred(f.Type()) {
			found = append(found, f)
		}
	}
	if len(found) > 1 {
		// several candidates: the name recorded when the table was frozen decides
		for _, f := range found {
			if hint, ok := roleHints[role]; ok && f.Name() == hint {
				return f
			}
		}
	}
	if len(found) == 0 {
		// the representation changed (another key type, another container): the field that
		// carried the role when the table was frozen keeps it, and the rules about the
		// role's representation (key components, guarded-by) judge the new form
		if hint, ok := roleHints[role]; ok {
			for _, f := range flatFields(st) {
				if f.Name() == hint {
					return f
				}
			}
		}
	}
	if len(found) != 1 {
		undecidedf("role %q: expected exactly one matching field in %s.%s, found %d", role, p.PkgPath, structName, len(found))
	}
	return found[0]
}

// roleHints: current names of role fields, used only to disambiguate when a
// change adds a second field of the same type.
var roleHints = map[string]string{
	"singleton table":  "singletons",
	"scoped cache":     "instances",
	"initializer list": "voidReturnScopedDescriptors",
	"services view":    "services",
	"groups view":      "groups",
	"descriptor list":  "allDescriptors",
	"node table":       "nodes",
	"edge table":       "edges",
}

// SSA builds (once) the SSA form of the root module's packages.
func (w *World) SSA() (*ssa.Program, map[*packages.Package]*ssa.Package) {
	if w.ssaProg != nil {
		return w.ssaProg, w.ssaPkgs
	}
	root := []*packages.Package{w.Godi, w.Graph, w.Refl}
	prog, pkgs := ssautil.Packages(root, ssa.InstantiateGenerics)
	w.ssaPkgs = map[*packages.Package]*ssa.Package{}
	for i, p := range root {
		if pkgs[i] == nil {
			undecidedf("no SSA package for %s", p.PkgPath)
		}
		w.ssaPkgs[p] = pkgs[i]
	}
	prog.Build()
	w.ssaProg = prog
	return prog, w.ssaPkgs
}

// SSAFunc returns the SSA function of a source function of the root module.
func (w *World) SSAFunc(fi *FuncInfo) *ssa.Function {
	prog, _ := w.SSA()
	fn := prog.FuncValue(fi.Obj)
	if fn == nil {
		undecidedf("no SSA function for %s", fi.Name())
	}
	return fn
}

// FuncAt returns the declared function whose body contains pos, or nil.
func (w *World) FuncAt(pos token.Pos) *FuncInfo {
	for _, fi := range w.Decls {
		if fi.Decl.Body != nil && fi.Decl.Pos() <= pos && pos < fi.Decl.End() {
			return fi
		}
	}
	return nil
}
